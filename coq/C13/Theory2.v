(* C13 — theory of merge_slice, class_merger_merge and the jar-level entry table
   (Parts 2 and 3 of the model). *)
From Coq Require Import List NArith Bool Lia Permutation.
From FB Require Import Base.Str C13.Model C13.Theory.
Import ListNotations.

(* ---------------------------------------------------------------------------------------- *)
(** * Small helpers *)

Lemma Forall2_In_l {A B} (R : A -> B -> Prop) l l' x :
  Forall2 R l l' -> In x l -> exists y, In y l' /\ R x y.
Proof.
  induction 1 as [|a b l l' Hab H IH]; intros Hin; [contradiction|].
  destruct Hin as [->|Hin].
  - exists b. split; [left; reflexivity|exact Hab].
  - destruct (IH Hin) as (y & Hy & Hr). exists y. split; [right; exact Hy|exact Hr].
Qed.

Lemma Forall2_In_r {A B} (R : A -> B -> Prop) l l' y :
  Forall2 R l l' -> In y l' -> exists x, In x l /\ R x y.
Proof.
  induction 1 as [|a b l l' Hab H IH]; intros Hin; [contradiction|].
  destruct Hin as [->|Hin].
  - exists a. split; [left; reflexivity|exact Hab].
  - destruct (IH Hin) as (x & Hx & Hr). exists x. split; [right; exact Hx|exact Hr].
Qed.

Lemma Forall2_map_eq {A B} (f : B -> A) l l' :
  Forall2 (fun k m => f m = k) l l' -> map f l' = l.
Proof. induction 1 as [|a b l l' Hab H IH]; cbn [map]; [reflexivity|]. rewrite Hab, IH. reflexivity. Qed.

Lemma Forall2_impl' {A B} (R S : A -> B -> Prop) l l' :
  (forall a b, In a l -> R a b -> S a b) -> Forall2 R l l' -> Forall2 S l l'.
Proof.
  intros HI H. induction H as [|a b l l' Hab H IH]; constructor.
  - apply HI; [left; reflexivity|exact Hab].
  - apply IH. intros a' b' Ha'. apply HI. right. exact Ha'.
Qed.

Lemma NoDup_app_l {A} (l m : list A) : NoDup (l ++ m) -> NoDup l.
Proof.
  induction l as [|x l IH]; cbn [app]; intros N; [constructor|].
  inversion N as [|? ? Hx N']; subst. constructor; [|apply IH, N'].
  intros H. apply Hx. apply in_or_app. left. exact H.
Qed.

Lemma peqb_ok {A B} (ea : A -> A -> bool) (eb : B -> B -> bool) :
  eqb_ok ea -> eqb_ok eb -> eqb_ok (peqb ea eb).
Proof.
  intros Ea Eb [a b] [a' b']. unfold peqb. cbn [fst snd]. rewrite andb_true_iff, (Ea a a'), (Eb b b').
  split; [intros (-> & ->); reflexivity|intros [= -> ->]; auto].
Qed.

Lemma key_eqb_ok : eqb_ok key_eqb.
Proof. apply peqb_ok; apply str_eqb_ok. Qed.

(* ---------------------------------------------------------------------------------------- *)
(** * find_last *)

Lemma find_last_acc {K T} (keqb : K -> K -> bool) (kf : T -> K) k l acc :
  fold_left (fun acc t => if keqb (kf t) k then Some t else acc) l acc =
  match find_last keqb kf k l with Some t => Some t | None => acc end.
Proof.
  unfold find_last. revert acc. induction l as [|t l IH]; intros acc; cbn [fold_left]; [reflexivity|].
  rewrite IH. rewrite (IH (if keqb (kf t) k then Some t else None)).
  destruct (fold_left _ l None); [reflexivity|]. destruct (keqb (kf t) k); reflexivity.
Qed.

Lemma find_last_cons {K T} (keqb : K -> K -> bool) (kf : T -> K) k t l :
  find_last keqb kf k (t :: l) =
  match find_last keqb kf k l with
  | Some t' => Some t'
  | None => if keqb (kf t) k then Some t else None
  end.
Proof. unfold find_last at 1. cbn [fold_left]. apply find_last_acc. Qed.

Lemma find_last_Some {K T} (keqb : K -> K -> bool) (E : eqb_ok keqb) (kf : T -> K) k l t :
  find_last keqb kf k l = Some t -> In t l /\ kf t = k.
Proof.
  induction l as [|t0 l IH]; [discriminate|]. rewrite find_last_cons.
  destruct (find_last keqb kf k l) as [t'|].
  - intros [= ->]. destruct (IH eq_refl) as (Hi & Hk). split; [right; exact Hi|exact Hk].
  - destruct (keqb (kf t0) k) eqn:Ek; [|discriminate]. intros [= ->]. apply E in Ek. split; [left; reflexivity|exact Ek].
Qed.

Lemma find_last_None {K T} (keqb : K -> K -> bool) (E : eqb_ok keqb) (kf : T -> K) k l :
  find_last keqb kf k l = None <-> ~ In k (map kf l).
Proof.
  induction l as [|t0 l IH]; [cbn; tauto|]. rewrite find_last_cons. cbn [map In].
  destruct (find_last keqb kf k l) as [t'|] eqn:F.
  - split; [discriminate|]. intros H. exfalso. apply H. right.
    destruct (find_last_Some keqb E kf k l t' F) as (Hi & <-). apply in_map, Hi.
  - destruct (keqb (kf t0) k) eqn:Ek.
    + split; [discriminate|]. intros H. exfalso. apply H. left. apply E. exact Ek.
    + split; [|reflexivity]. intros _ [H|H].
      * apply E in H. congruence.
      * apply (proj1 IH eq_refl), H.
Qed.

Lemma find_last_In {K T} (keqb : K -> K -> bool) (E : eqb_ok keqb) (kf : T -> K) l t :
  NoDup (map kf l) -> In t l -> find_last keqb kf (kf t) l = Some t.
Proof.
  induction l as [|t0 l IH]; intros N Hin; [contradiction|]. rewrite find_last_cons.
  cbn [map] in N. inversion N as [|? ? Hn N']; subst.
  destruct Hin as [->|Hin].
  - assert (F : find_last keqb kf (kf t) l = None) by (apply (find_last_None keqb E); exact Hn).
    rewrite F. assert (Tk : keqb (kf t) (kf t) = true) by (apply E; reflexivity). rewrite Tk. reflexivity.
  - rewrite (IH N' Hin). reflexivity.
Qed.

(* ---------------------------------------------------------------------------------------- *)
(** * collect / merge_slice *)

Lemma collect_spec {K T} (f : K -> out T) ks ts :
  collect f ks = OK ts -> Forall2 (fun k t => f k = OK t) ks ts.
Proof.
  revert ts. induction ks as [|k ks IH]; intros ts H; cbn [collect] in H.
  - injection H as <-. constructor.
  - destruct (f k) as [t| |] eqn:Fk; cbn [obind] in H; try discriminate.
    destruct (collect f ks) as [ts'| |]; cbn [obind] in H; try discriminate.
    injection H as <-. constructor; [exact Fk|apply IH; reflexivity].
Qed.

Lemma collect_ok {K T} (f : K -> out T) ks :
  (forall k, In k ks -> exists t, f k = OK t) -> exists ts, collect f ks = OK ts.
Proof.
  induction ks as [|k ks IH]; intros H; cbn [collect]; [eexists; reflexivity|].
  destruct (H k (or_introl eq_refl)) as (t & ->). cbn [obind].
  destruct IH as (ts & ->); [intros k' Hk'; apply H; right; exact Hk'|]. cbn [obind]. eexists; reflexivity.
Qed.

(* ---------------------------------------------------------------------------------------- *)
(** * Members (fields and methods) *)

Lemma mark_member_key m s : mkey (mark_member m s) = mkey m.
Proof. reflexivity. Qed.

(* every opaque component is the client's *)
Definition all_client (t : table) : bool := forallb (fun p => act_eqb (snd p) AClient) t.

Lemma merge_rest_all_client tbl c s : all_client tbl = true -> merge_rest tbl c s = OK c.
Proof.
  revert tbl s. induction c as [|x c IH]; intros tbl s H; cbn [merge_rest]; [reflexivity|].
  assert (Ha : match tbl with (_, a) :: _ => a | [] => AClient end = AClient).
  { destruct tbl as [|[f a] tbl]; [reflexivity|]. cbn [all_client forallb snd] in H. apply andb_true_iff in H.
    destruct a; cbn in H; try (destruct H; discriminate). reflexivity. }
  rewrite Ha. cbn [apply_scalar obind].
  rewrite IH; [reflexivity|]. destruct tbl as [|[f a] tbl]; [reflexivity|]. cbn [tl]. cbn [all_client forallb] in H.
  apply andb_true_iff in H. exact (proj2 H).
Qed.

(* the action of row i (a table shorter than the list: the client's value) *)
Definition row_act (tbl : table) (i : nat) : act :=
  match nth_error tbl i with Some (_, a) => a | None => AClient end.

Lemma row_act_tl tbl i : row_act (tl tbl) i = row_act tbl (S i).
Proof. unfold row_act. destruct tbl as [|p tbl]; [destruct i; reflexivity|reflexivity]. Qed.

Lemma nth_error_tl {A} (l : list A) i : nth_error (tl l) i = nth_error l (S i).
Proof. destruct l; [destruct i; reflexivity|reflexivity]. Qed.

(* the two versions agree in the opaque components whose row asserts equality (merge_from_client /
   merge_eq); rows `client.f` / `server.f` ask for nothing *)
Definition rest_agree (tbl : table) (c s : list N) : Prop :=
  forall i x y, nth_error c i = Some x -> nth_error s i = Some y ->
    row_act tbl i = AAssertEq \/ row_act tbl i = ABailEq -> x = y.

Lemma rest_agree_refl tbl c : rest_agree tbl c c.
Proof. intros i x y Hx Hy _. congruence. Qed.

Definition scalar_table (tbl : table) : bool := forallb (fun p => scalar_act (snd p)) tbl.

Lemma merge_rest_ok tbl c s : scalar_table tbl = true -> rest_agree tbl c s -> exists r, merge_rest tbl c s = OK r.
Proof.
  revert tbl s. induction c as [|x c IH]; intros tbl s Sc Ag; cbn [merge_rest]; [eexists; reflexivity|].
  set (a := match tbl with (_, a) :: _ => a | [] => AClient end).
  set (y0 := match s with y :: _ => y | [] => x end).
  assert (Ea : row_act tbl 0 = a) by (unfold row_act, a; destruct tbl as [|[f a'] tbl]; reflexivity).
  assert (Hsc : scalar_act a = true).
  { unfold a. destruct tbl as [|[f a'] tbl]; [reflexivity|]. cbn [scalar_table forallb snd] in Sc. apply andb_true_iff in Sc. exact (proj1 Sc). }
  assert (Hv : exists v, apply_scalar a x y0 = OK v).
  { assert (Hxy : a = AAssertEq \/ a = ABailEq -> x = y0).
    { intros Hor. unfold y0. destruct s as [|y s]; [reflexivity|]. apply (Ag 0%nat x y eq_refl eq_refl). rewrite Ea. exact Hor. }
    unfold apply_scalar, from_client, merge_eq. destruct a; try discriminate Hsc; try (eexists; reflexivity).
    - rewrite <- (Hxy (or_introl eq_refl)), N.eqb_refl. eexists; reflexivity.
    - rewrite <- (Hxy (or_intror eq_refl)), N.eqb_refl. eexists; reflexivity. }
  destruct Hv as (v & ->). cbn [obind].
  destruct (IH (tl tbl) (tl s)) as (r & ->).
  - destruct tbl as [|p tbl]; [reflexivity|]. cbn [tl scalar_table forallb] in *. apply andb_true_iff in Sc. exact (proj2 Sc).
  - intros i x' y' Hx Hy Hor. rewrite row_act_tl in Hor. rewrite nth_error_tl in Hy. exact (Ag (S i) x' y' Hx Hy Hor).
  - cbn [obind]. eexists; reflexivity.
Qed.

(* the `inner` closure: what it returns, for any table of the opaque components *)
Lemma merge_member_inv tbl c s m : merge_member tbl c s = OK m ->
  exists rest, merge_rest tbl (m_rest c) (m_rest s) = OK rest /\
    m = mkMember (m_name c) (m_desc c) (m_access c) (m_depr c) (m_synth c) (m_inv c) rest /\
    m_depr c = m_depr s /\ m_synth c = m_synth s.
Proof.
  unfold merge_member, merge_eq, from_client. destruct c as [n d a dp sy inv rest], s as [n' d' a' dp' sy' inv' rest']. cbn [m_name m_desc m_access m_depr m_synth m_inv m_rest].
  destruct (str_eqb n n'); cbn [obind]; [|discriminate].
  destruct (str_eqb d d'); cbn [obind]; [|discriminate].
  destruct (Bool.eqb dp dp') eqn:E1; cbn [obind]; [|discriminate].
  destruct (Bool.eqb sy sy') eqn:E2; cbn [obind]; [|discriminate].
  destruct (merge_rest tbl rest rest') as [r| |] eqn:R; cbn [obind]; try discriminate.
  intros [= <-]. apply eqb_prop in E1, E2. exists r. auto.
Qed.

Lemma merge_member_client tbl c s m : all_client tbl = true ->
  merge_member tbl c s = OK m -> m = c /\ m_depr c = m_depr s /\ m_synth c = m_synth s.
Proof.
  intros AC H. destruct (merge_member_inv tbl c s m H) as (rest & R & -> & Hd & Hs).
  rewrite (merge_rest_all_client tbl _ _ AC) in R. injection R as <-. destruct c; auto.
Qed.

(* what one merged member is, given the key it stands for *)
Definition member_spec (cf sf : list member) (k : key) (m : member) : Prop :=
  match find_last key_eqb mkey k cf, find_last key_eqb mkey k sf with
  | Some ec, Some es => m = ec /\ (ec = es \/ (m_depr ec = m_depr es /\ m_synth ec = m_synth es))
  | Some ec, None => m = mark_member ec Client
  | None, Some es => m = mark_member es Server
  | None, None => False
  end.

Lemma member_eqb_eq a b : member_eqb a b = true -> a = b.
Proof.
  unfold member_eqb. destruct a as [n d ac dp sy inv rest], b as [n' d' ac' dp' sy' inv' rest']. cbn.
  rewrite !andb_true_iff. intros ((((((H1 & H2) & H3) & H4) & H5) & H6) & H7).
  apply str_eqb_eq in H1, H2. apply N.eqb_eq in H3. apply eqb_prop in H4, H5. subst.
  assert (H7' : rest = rest').
  { clear -H7. revert rest' H7. induction rest as [|x rest IH]; intros [|y rest']; cbn [leqb]; try discriminate; [reflexivity|].
    rewrite andb_true_iff. intros (Hxy & H). apply N.eqb_eq in Hxy. subst. f_equal. apply IH, H. }
  subst rest'. f_equal. clear -H6. revert inv' H6. induction inv as [|x inv IH]; intros [|y inv']; cbn [leqb]; try discriminate; [reflexivity|].
  rewrite andb_true_iff. intros (Hxy & H). f_equal; [|apply IH, H].
  clear -Hxy. destruct x as [s|l|i], y as [s'|l'|i']; cbn in Hxy; try discriminate.
  - destruct s, s'; cbn in Hxy; try discriminate; reflexivity.
  - f_equal. revert l' Hxy. induction l as [|[s i] l IH]; intros [|[s' i'] l']; cbn [leqb]; try discriminate; [reflexivity|].
    rewrite andb_true_iff. unfold peqb at 1. cbn [fst snd]. rewrite andb_true_iff. intros ((Hs & Hi) & H).
    apply str_eqb_eq in Hi. subst. f_equal; [|apply IH, H]. destruct s, s'; cbn in Hs; try discriminate; reflexivity.
  - apply N.eqb_eq in Hxy. subst. reflexivity.
Qed.

Lemma merge_members_spec tbl cf sf ms : all_client tbl = true ->
  merge_members tbl cf sf = OK ms ->
  Forall2 (member_spec cf sf) (mpo key_eqb (map mkey cf) (map mkey sf)) ms.
Proof.
  unfold merge_members, merge_slice. intros AC H. apply collect_spec in H.
  revert H. apply Forall2_impl'. intros k m _. unfold member_spec.
  destruct (find_last key_eqb mkey k cf) as [ec|], (find_last key_eqb mkey k sf) as [es|]; try discriminate.
  - destruct (member_eqb ec es) eqn:Eq.
    + intros [= <-]. split; [reflexivity|left; apply member_eqb_eq, Eq].
    + intros H. destruct (merge_member_client tbl ec es m AC H) as (-> & Hd & Hs). split; [reflexivity|right; auto].
  - intros [= <-]. reflexivity.
  - intros [= <-]. reflexivity.
Qed.

Lemma member_spec_key cf sf k m : member_spec cf sf k m -> mkey m = k.
Proof.
  unfold member_spec.
  destruct (find_last key_eqb mkey k cf) as [ec|] eqn:Fc, (find_last key_eqb mkey k sf) as [es|] eqn:Fs; try contradiction.
  - intros (-> & _). exact (proj2 (find_last_Some key_eqb key_eqb_ok mkey k cf ec Fc)).
  - intros ->. rewrite mark_member_key. exact (proj2 (find_last_Some key_eqb key_eqb_ok mkey k cf ec Fc)).
  - intros ->. rewrite mark_member_key. exact (proj2 (find_last_Some key_eqb key_eqb_ok mkey k sf es Fs)).
Qed.

Theorem members_marked tbl cf sf ms : all_client tbl = true ->
  NoDup (map mkey cf) -> NoDup (map mkey sf) -> merge_members tbl cf sf = OK ms ->
  let kc := map mkey cf in let ks := map mkey sf in let km := map mkey ms in
  (* every key of either side exactly once *)
  NoDup km /\ Permutation km (kc ++ minus key_eqb ks kc) /\
  (* order *)
  subseq kc km /\ (compatible key_eqb kc ks -> subseq ks km) /\
  (* one-sided members are there, marked with their side; shared ones are there, unmarked *)
  (forall ec, In ec cf -> ~ In (mkey ec) ks -> In (mark_member ec Client) ms) /\
  (forall es, In es sf -> ~ In (mkey es) kc -> In (mark_member es Server) ms) /\
  (forall ec es, In ec cf -> In es sf -> mkey ec = mkey es -> In ec ms) /\
  (* and nothing else is there *)
  (forall m, In m ms ->
     (exists ec, In ec cf /\ ~ In (mkey ec) ks /\ m = mark_member ec Client) \/
     (exists es, In es sf /\ ~ In (mkey es) kc /\ m = mark_member es Server) \/
     (exists ec es, In ec cf /\ In es sf /\ mkey ec = mkey es /\ m = ec)).
Proof.
  intros AC Nc Ns H kc ks km.
  pose proof (merge_members_spec tbl cf sf ms AC H) as F.
  assert (Hk : km = mpo key_eqb kc ks).
  { apply Forall2_map_eq. revert F. apply Forall2_impl'. intros k m _. apply member_spec_key. }
  pose proof (mpo_res_mpo key_eqb key_eqb_ok kc ks) as R. rewrite <- Hk in R.
  destruct (mpo_exact_once key_eqb key_eqb_ok kc ks km Nc Ns R) as (P & N & Hin).
  split; [exact N|]. split; [exact P|].
  split; [exact (mpo_order_a key_eqb key_eqb_ok kc ks km R)|].
  split; [intros C; exact (proj2 (mpo_order key_eqb key_eqb_ok kc ks km C R))|].
  assert (F' : Forall2 (member_spec cf sf) km ms) by (rewrite Hk; exact F). clear F. rename F' into F.
  assert (Lc : forall ec, In ec cf -> find_last key_eqb mkey (mkey ec) cf = Some ec)
    by (intros ec; apply (find_last_In key_eqb key_eqb_ok); exact Nc).
  assert (Ls : forall es, In es sf -> find_last key_eqb mkey (mkey es) sf = Some es)
    by (intros es; apply (find_last_In key_eqb key_eqb_ok); exact Ns).
  repeat split.
  - intros ec Hec Hn.
    assert (Hkm : In (mkey ec) km) by (apply Hin; left; apply in_map, Hec).
    destruct (Forall2_In_l _ _ _ _ F Hkm) as (m & Hm & S). unfold member_spec in S.
    rewrite (Lc ec Hec) in S.
    assert (Fs : find_last key_eqb mkey (mkey ec) sf = None) by (apply (find_last_None key_eqb key_eqb_ok); exact Hn).
    rewrite Fs in S. subst m. exact Hm.
  - intros es Hes Hn.
    assert (Hkm : In (mkey es) km) by (apply Hin; right; apply in_map, Hes).
    destruct (Forall2_In_l _ _ _ _ F Hkm) as (m & Hm & S). unfold member_spec in S.
    rewrite (Ls es Hes) in S.
    assert (Fc : find_last key_eqb mkey (mkey es) cf = None) by (apply (find_last_None key_eqb key_eqb_ok); exact Hn).
    rewrite Fc in S. subst m. exact Hm.
  - intros ec es Hec Hes Hke.
    assert (Hkm : In (mkey ec) km) by (apply Hin; left; apply in_map, Hec).
    destruct (Forall2_In_l _ _ _ _ F Hkm) as (m & Hm & S). unfold member_spec in S.
    rewrite (Lc ec Hec) in S. rewrite Hke in S. rewrite (Ls es Hes) in S. destruct S as (-> & _). exact Hm.
  - intros m Hm. destruct (Forall2_In_r _ _ _ _ F Hm) as (k & Hk' & S). unfold member_spec in S.
    destruct (find_last key_eqb mkey k cf) as [ec|] eqn:Fc, (find_last key_eqb mkey k sf) as [es|] eqn:Fs; try contradiction.
    + destruct S as (-> & _).
      destruct (find_last_Some key_eqb key_eqb_ok mkey k cf ec Fc) as (Hec & Kc).
      destruct (find_last_Some key_eqb key_eqb_ok mkey k sf es Fs) as (Hes & Ks).
      right. right. exists ec, es. repeat split; try assumption. congruence.
    + destruct (find_last_Some key_eqb key_eqb_ok mkey k cf ec Fc) as (Hec & Kc).
      left. exists ec. repeat split; try assumption.
      apply (find_last_None key_eqb key_eqb_ok) in Fs. subst k. exact Fs.
    + destruct (find_last_Some key_eqb key_eqb_ok mkey k sf es Fs) as (Hes & Ks).
      right. left. exists es. repeat split; try assumption.
      apply (find_last_None key_eqb key_eqb_ok) in Fc. subst k. exact Fc.
Qed.

(* inside the hypotheses the member merge does not fail: shared members need equal
   deprecated/synthetic flags (otherwise the Rust code asserts) *)
Definition flags_agree (cf sf : list member) : Prop :=
  forall ec es, In ec cf -> In es sf -> mkey ec = mkey es -> m_depr ec = m_depr es /\ m_synth ec = m_synth es.

(* … and, where a row of the `inner` literal asserts equality, in that opaque component *)
Definition rests_agree (tbl : table) (cf sf : list member) : Prop :=
  forall ec es, In ec cf -> In es sf -> mkey ec = mkey es -> rest_agree tbl (m_rest ec) (m_rest es).

Theorem merge_members_ok tbl cf sf : scalar_table tbl = true ->
  flags_agree cf sf -> rests_agree tbl cf sf -> exists ms, merge_members tbl cf sf = OK ms.
Proof.
  intros AC FA RA. unfold merge_members, merge_slice. apply collect_ok. intros k Hk.
  pose proof (mpo_res_mpo key_eqb key_eqb_ok (map mkey cf) (map mkey sf)) as R.
  assert (Hin : In k (map mkey cf) \/ In k (map mkey sf)).
  { pose proof (mpo_perm key_eqb key_eqb_ok _ _ _ R) as P. apply (Permutation_in _ P) in Hk.
    apply in_app_or in Hk. destruct Hk as [Hk|Hk]; [left; exact Hk|right]. apply filter_In in Hk. exact (proj1 Hk). }
  destruct (find_last key_eqb mkey k cf) as [ec|] eqn:Fc, (find_last key_eqb mkey k sf) as [es|] eqn:Fs.
  - destruct (member_eqb ec es); [eexists; reflexivity|].
    destruct (find_last_Some key_eqb key_eqb_ok mkey k cf ec Fc) as (Hec & Kc).
    destruct (find_last_Some key_eqb key_eqb_ok mkey k sf es Fs) as (Hes & Ks).
    assert (Kk : mkey ec = mkey es) by congruence.
    destruct (FA ec es Hec Hes Kk) as (Hd & Hs).
    unfold merge_member, merge_eq, from_client. injection Kk as Kn Kd. rewrite Kn, Kd, Hd, Hs.
    rewrite !str_eqb_refl, !eqb_reflx. cbn [obind].
    destruct (merge_rest_ok tbl _ _ AC (RA ec es Hec Hes (f_equal2 pair Kn Kd))) as (r & ->). cbn [obind]. eexists; reflexivity.
  - eexists; reflexivity.
  - eexists; reflexivity.
  - exfalso. apply (find_last_None key_eqb key_eqb_ok) in Fc, Fs. tauto.
Qed.

(* ---------------------------------------------------------------------------------------- *)
(** * Classes *)

Lemma one_sided_In merged mine theirs i :
  In i (one_sided merged mine theirs) <-> In i merged /\ In i mine /\ ~ In i theirs.
Proof.
  unfold one_sided. rewrite filter_In, andb_true_iff, negb_true_iff.
  rewrite (memb_In str_eqb str_eqb_ok), (memb_nIn str_eqb str_eqb_ok). tauto.
Qed.

Lemma itf_marks_In merged ci si sd i :
  In (sd, i) (itf_marks merged ci si) <->
  In i merged /\ ((sd = Client /\ In i ci /\ ~ In i si) \/ (sd = Server /\ In i si /\ ~ In i ci)).
Proof.
  unfold itf_marks. rewrite in_app_iff, !in_map_iff. split.
  - intros [(j & [= <- <-] & Hj)|(j & [= <- <-] & Hj)]; apply one_sided_In in Hj; tauto.
  - intros (Hm & [(-> & Hc & Hs)|(-> & Hs & Hc)]).
    + left. exists i. split; [reflexivity|]. apply one_sided_In. tauto.
    + right. exists i. split; [reflexivity|]. apply one_sided_In. tauto.
Qed.

Lemma NoDup_map_inj {A B} (f : A -> B) l : (forall x y, f x = f y -> x = y) -> NoDup l -> NoDup (map f l).
Proof.
  intros Inj N. induction N as [|x l Hx N IH]; cbn [map]; constructor; [|exact IH].
  intros H. apply in_map_iff in H. destruct H as (y & Hy & Hin). apply Inj in Hy. subst. contradiction.
Qed.

Lemma itf_marks_NoDup merged ci si : NoDup merged -> NoDup (itf_marks merged ci si).
Proof.
  intros N. unfold itf_marks. apply NoDup_app_intro.
  - apply NoDup_map_inj; [intros x y [= ->]; reflexivity|]. apply NoDup_filter', N.
  - apply NoDup_map_inj; [intros x y [= ->]; reflexivity|]. apply NoDup_filter', N.
  - intros [sd i] H1 H2. apply in_map_iff in H1, H2. destruct H1 as (? & E1 & _), H2 as (? & E2 & _). rewrite <- E2 in E1. discriminate E1.
Qed.

(* Which side an opaque field (a signature, a method body, the source file …) is taken from is not
   part of the property: the theorems below hold for whatever the regenerated tables say; where a
   statement is about "the client's version" it carries [all_client tbl = true] as a hypothesis
   (today's tables satisfy it: the struct literal says `client.f` for each of these fields, the
   `inner` literals end in `..client.clone()`; see C13/MergeGen.v). *)
Definition tables_all_client : Prop :=
  all_client class_rest_table = true /\ all_client field_rest_table = true /\ all_client method_rest_table = true.

Record class_merge_facts (c s m : aclass) : Prop := {
  cm_version : c_version m = c_version c /\ c_version c = c_version s;
  cm_access : c_access m = c_access c /\ c_access c = c_access s;
  cm_name : c_name m = c_name c /\ c_name c = c_name s;
  cm_super : c_super m = c_super c;
  cm_itfs : mpo_res str_eqb (c_itfs c) (c_itfs s) = Ok (c_itfs m);
  cm_fields : merge_members field_rest_table (c_fields c) (c_fields s) = OK (c_fields m);
  cm_methods : merge_members method_rest_table (c_methods c) (c_methods s) = OK (c_methods m);
  cm_vis : c_vis m = c_vis c;          (* no class-level side mark on a class both sides have *)
  cm_inv : c_inv m = c_inv c ++
             match itf_marks (c_itfs m) (c_itfs c) (c_itfs s) with [] => [] | marks => [AItfs marks] end;
  (* PermittedSubclasses: absent iff absent on both sides, else both lists merged like the interfaces *)
  cm_perm : match c_perm c, c_perm s with
            | None, None => c_perm m = None
            | pc, ps => exists l, c_perm m = Some l /\
                         mpo_res str_eqb (unwrap_or_default pc) (unwrap_or_default ps) = Ok l
            end;
  cm_rec : c_rec m = c_rec c;          (* record components: the client's *)
  cm_rest_tbl : merge_rest class_rest_table (c_rest c) (c_rest s) = OK (c_rest m)   (* everything else: row by row *)
}.

Theorem class_merge_spec c s m : class_merge c s = OK m -> class_merge_facts c s m.
Proof.
  unfold class_merge, from_client, merge_eq. intros H.
  destruct (N.eqb (c_version c) (c_version s)) eqn:E1; cbn [obind] in H; [|discriminate].
  destruct (N.eqb (c_access c) (c_access s)) eqn:E2; cbn [obind] in H; [|discriminate].
  destruct (str_eqb (c_name c) (c_name s)) eqn:E3; cbn [obind] in H; [|discriminate].
  destruct (oeqb str_eqb (c_super c) (c_super s)) eqn:E4; cbn [obind] in H; [|discriminate].
  destruct (merge_members field_rest_table (c_fields c) (c_fields s)) as [fs| |] eqn:E5; cbn [obind] in H; try discriminate.
  destruct (merge_members method_rest_table (c_methods c) (c_methods s)) as [ms| |] eqn:E6; cbn [obind] in H; try discriminate.
  destruct (Bool.eqb (c_depr c) (c_depr s)) eqn:E7; cbn [obind] in H; [|discriminate].
  destruct (Bool.eqb (c_synth c) (c_synth s)) eqn:E8; cbn [obind] in H; [|discriminate].
  destruct (merge_inner _ _) as [inn| |] eqn:E9; cbn [obind] in H; try discriminate.
  destruct (merge_rest class_rest_table (c_rest c) (c_rest s)) as [rest| |] eqn:E10; cbn [obind] in H; try discriminate.
  injection H as <-. apply N.eqb_eq in E1, E2. apply str_eqb_eq in E3.
  constructor; cbn [c_version c_access c_name c_super c_itfs c_fields c_methods c_vis c_inv c_perm c_rec c_rest]; auto.
  - apply (mpo_res_mpo str_eqb str_eqb_ok).
  - destruct (itf_marks _ _ _); [symmetry; apply app_nil_r|reflexivity].
  - unfold merge_perm. destruct (c_perm c) as [pc|], (c_perm s) as [ps|]; try reflexivity;
      (eexists; split; [reflexivity|apply (mpo_res_mpo str_eqb str_eqb_ok)]).
Qed.

(* when the table says `client.f` for every opaque field (today's does), they are the client's *)
Lemma class_rest_client c s m : all_client class_rest_table = true -> class_merge c s = OK m -> c_rest m = c_rest c.
Proof.
  intros AC H. pose proof (cm_rest_tbl _ _ _ (class_merge_spec c s m H)) as R.
  rewrite (merge_rest_all_client _ _ _ AC) in R. injection R as <-. reflexivity.
Qed.

(* the record spelled out (Props/C13.v pins this form) *)
Definition class_merge_facts_spelled (c s m : aclass) : Prop :=
  (c_version m = c_version c /\ c_version c = c_version s) /\
  (c_access m = c_access c /\ c_access c = c_access s) /\
  (c_name m = c_name c /\ c_name c = c_name s) /\
  c_super m = c_super c /\
  mpo_res str_eqb (c_itfs c) (c_itfs s) = Ok (c_itfs m) /\
  merge_members field_rest_table (c_fields c) (c_fields s) = OK (c_fields m) /\
  merge_members method_rest_table (c_methods c) (c_methods s) = OK (c_methods m) /\
  c_vis m = c_vis c /\
  c_inv m = c_inv c ++ match itf_marks (c_itfs m) (c_itfs c) (c_itfs s) with [] => [] | marks => [AItfs marks] end /\
  match c_perm c, c_perm s with
  | None, None => c_perm m = None
  | pc, ps => exists l, c_perm m = Some l /\ mpo_res str_eqb (unwrap_or_default pc) (unwrap_or_default ps) = Ok l
  end /\
  c_rec m = c_rec c /\
  merge_rest class_rest_table (c_rest c) (c_rest s) = OK (c_rest m).

Lemma class_merge_facts_unfold c s m : class_merge_facts c s m <-> class_merge_facts_spelled c s m.
Proof.
  unfold class_merge_facts_spelled. split.
  - intros [H1 H2 H3 H4 H5 H6 H7 H8 H9 H10 H11 H12]. repeat split; try assumption; try (apply H1); try (apply H2); try (apply H3).
  - intros (H1 & H2 & H3 & H4 & H5 & H6 & H7 & H8 & H9 & H10 & H11 & H12). constructor; assumption.
Qed.

Theorem class_merge_spelled c s m : class_merge c s = OK m -> class_merge_facts_spelled c s m.
Proof. intros H. apply class_merge_facts_unfold, class_merge_spec, H. Qed.

(* permitted subclasses of a class both sides have: every permitted class of either side exactly
   once, the client's order always kept, the server's when compatible *)
Theorem permitted_merged c s m :
  class_merge c s = OK m ->
  let pc := unwrap_or_default (c_perm c) in let ps := unwrap_or_default (c_perm s) in
  (c_perm m = None <-> c_perm c = None /\ c_perm s = None) /\
  (forall l, c_perm m = Some l ->
     subseq pc l /\ (compatible str_eqb pc ps -> subseq ps l) /\
     (NoDup pc -> NoDup ps -> NoDup l /\ forall x, In x l <-> In x pc \/ In x ps)).
Proof.
  intros H pc ps. pose proof (cm_perm _ _ _ (class_merge_spec c s m H)) as P. subst pc ps.
  assert (G : forall a b l, mpo_res str_eqb a b = Ok l ->
            subseq a l /\ (compatible str_eqb a b -> subseq b l) /\
            (NoDup a -> NoDup b -> NoDup l /\ forall x, In x l <-> In x a \/ In x b)).
  { intros a b l R. split; [exact (mpo_order_a str_eqb str_eqb_ok a b l R)|].
    split; [intros C; exact (proj2 (mpo_order str_eqb str_eqb_ok a b l C R))|].
    intros Na Nb. destruct (mpo_exact_once str_eqb str_eqb_ok a b l Na Nb R) as (_ & N & Hin). split; assumption. }
  destruct (c_perm c) as [pc|], (c_perm s) as [ps|].
  - destruct P as (l & E & R). split; [rewrite E; split; [discriminate|intros (X & _); discriminate]|].
    intros l' E'. rewrite E in E'. injection E' as <-. apply G, R.
  - destruct P as (l & E & R). split; [rewrite E; split; [discriminate|intros (X & _); discriminate]|].
    intros l' E'. rewrite E in E'. injection E' as <-. apply G, R.
  - destruct P as (l & E & R). split; [rewrite E; split; [discriminate|intros (_ & X); discriminate]|].
    intros l' E'. rewrite E in E'. injection E' as <-. apply G, R.
  - split; [split; [intros _; split; reflexivity|intros _; exact P]|]. intros l E. rewrite P in E. discriminate.
Qed.

(* inside the hypotheses the class merge returns a class *)
Definition inner_agree (ci si : list (str * N)) : Prop :=
  forall a b, In a ci -> In b si -> fst a = fst b -> a = b.

Lemma merge_inner_ok ci si : inner_agree ci si -> exists l, merge_inner ci si = OK l.
Proof.
  intros IA. unfold merge_inner, merge_slice. apply collect_ok. intros k Hk.
  pose proof (mpo_res_mpo str_eqb str_eqb_ok (map fst ci) (map fst si)) as R.
  assert (Hin : In k (map fst ci) \/ In k (map fst si)).
  { pose proof (mpo_perm str_eqb str_eqb_ok _ _ _ R) as P. apply (Permutation_in _ P) in Hk.
    apply in_app_or in Hk. destruct Hk as [Hk|Hk]; [left; exact Hk|right]. apply filter_In in Hk. exact (proj1 Hk). }
  destruct (find_last str_eqb fst k ci) as [ec|] eqn:Fc, (find_last str_eqb fst k si) as [es|] eqn:Fs.
  - destruct (find_last_Some str_eqb str_eqb_ok fst k ci ec Fc) as (Hec & Kc).
    destruct (find_last_Some str_eqb str_eqb_ok fst k si es Fs) as (Hes & Ks).
    rewrite (IA ec es Hec Hes (eq_trans Kc (eq_sym Ks))).
    unfold inner_eqb, peqb. rewrite str_eqb_refl, N.eqb_refl. eexists; reflexivity.
  - eexists; reflexivity.
  - eexists; reflexivity.
  - exfalso. apply (find_last_None str_eqb str_eqb_ok) in Fc, Fs. tauto.
Qed.

Definition classes_agree (c s : aclass) : Prop :=
  c_version c = c_version s /\ c_access c = c_access s /\ c_name c = c_name s /\ c_super c = c_super s /\
  c_depr c = c_depr s /\ c_synth c = c_synth s /\
  flags_agree (c_fields c) (c_fields s) /\ flags_agree (c_methods c) (c_methods s) /\
  inner_agree (unwrap_or_default (c_inner c)) (unwrap_or_default (c_inner s)) /\
  (* opaque components whose row asserts equality (none today) *)
  rests_agree field_rest_table (c_fields c) (c_fields s) /\ rests_agree method_rest_table (c_methods c) (c_methods s) /\
  rest_agree class_rest_table (c_rest c) (c_rest s).

(* the regenerated tables have only scalar rows outside the fields the model spells out: the
   translator recognises the composite forms only at those fields *)
Lemma rest_tables_scalar :
  scalar_table class_rest_table = true /\ scalar_table field_rest_table = true /\ scalar_table method_rest_table = true.
Proof. repeat split; vm_compute; reflexivity. Qed.

Lemma oeqb_str_refl (o : option str) : oeqb str_eqb o o = true.
Proof. destruct o; cbn; [apply str_eqb_refl|reflexivity]. Qed.

Theorem class_merge_ok c s : classes_agree c s -> exists m, class_merge c s = OK m.
Proof.
  intros (H1 & H2 & H3 & H4 & H5 & H6 & H7 & H8 & H9 & H10 & H11 & H12).
  destruct rest_tables_scalar as (Sc & Sf & Sm).
  unfold class_merge, from_client, merge_eq. rewrite <- H1, <- H2, <- H3, <- H4, <- H5, <- H6.
  rewrite !N.eqb_refl, str_eqb_refl, oeqb_str_refl, !eqb_reflx. cbn [obind].
  destruct (merge_members_ok _ _ _ Sf H7 H10) as (fs & ->). cbn [obind].
  destruct (merge_members_ok _ _ _ Sm H8 H11) as (ms & ->). cbn [obind].
  destruct (merge_inner_ok _ _ H9) as (inn & ->). cbn [obind].
  destruct (merge_rest_ok _ _ _ Sc H12) as (rest & ->). cbn [obind].
  eexists; reflexivity.
Qed.

(* the interface part of the property in one statement *)
Theorem interfaces_marked c s m :
  NoDup (c_itfs c) -> NoDup (c_itfs s) -> class_merge c s = OK m ->
  let ci := c_itfs c in let si := c_itfs s in let mi := c_itfs m in
  NoDup mi /\ (forall i, In i mi <-> In i ci \/ In i si) /\
  subseq ci mi /\ (compatible str_eqb ci si -> subseq si mi) /\
  exists marks, NoDup marks /\
    (forall sd i, In (sd, i) marks <-> (sd = Client /\ In i ci /\ ~ In i si) \/ (sd = Server /\ In i si /\ ~ In i ci)) /\
    c_inv m = c_inv c ++ match marks with [] => [] | _ => [AItfs marks] end.
Proof.
  intros Nc Ns H ci si mi. destruct (class_merge_spec c s m H) as [_ _ _ _ R _ _ _ Hinv _ _ _].
  destruct (mpo_exact_once str_eqb str_eqb_ok ci si mi Nc Ns R) as (_ & N & Hin).
  split; [exact N|]. split; [exact Hin|].
  split; [exact (mpo_order_a str_eqb str_eqb_ok ci si mi R)|].
  split; [intros C; exact (proj2 (mpo_order str_eqb str_eqb_ok ci si mi C R))|].
  exists (itf_marks mi ci si). split; [apply itf_marks_NoDup, N|]. split; [|rewrite Hinv; fold ci si mi; destruct (itf_marks mi ci si); reflexivity].
  intros sd i. rewrite itf_marks_In. fold mi. rewrite (Hin i). tauto.
Qed.

(* ---------------------------------------------------------------------------------------- *)
(** * The key table *)

Definition names (j : jar) : list str := map e_name j.
Definition keys (t : list (str * comb)) : list str := map fst t.
Definition single (sd : side) (e : entry) : comb := match sd with Client => CC e | Server => CS e end.

Lemma add_key_fresh k sd e t : ~ In k (keys t) -> add_key k sd e t = OK (t ++ [(k, single sd e)]).
Proof.
  induction t as [|[k' cb] t IH]; intros Hn; cbn [add_key app].
  - destruct sd; reflexivity.
  - cbn [keys map fst In] in Hn. destruct (str_eqb k k') eqn:Ek.
    + apply str_eqb_eq in Ek. subst. exfalso. apply Hn. left. reflexivity.
    + rewrite IH; [reflexivity|]. intros H. apply Hn. right. exact H.
Qed.

Lemma add_key_server_hit k e l1 c0 l2 :
  ~ In k (keys l1) -> add_key k Server e (l1 ++ (k, CC c0) :: l2) = OK (l1 ++ (k, CB c0 e) :: l2).
Proof.
  induction l1 as [|[k' cb] l1 IH]; intros Hn; cbn [add_key app].
  - rewrite str_eqb_refl. reflexivity.
  - cbn [keys map fst In] in Hn. destruct (str_eqb k k') eqn:Ek.
    + apply str_eqb_eq in Ek. subst. exfalso. apply Hn. left. reflexivity.
    + rewrite IH; [reflexivity|]. intros H. apply Hn. right. exact H.
Qed.

(* what a table entry says about the two jars *)
Definition comb_ok (c s : jar) (k : str) (cb : comb) : Prop :=
  match cb with
  | CC ce => In ce c /\ e_name ce = k /\ ~ In k (names s)
  | CS se => In se s /\ e_name se = k /\ ~ In k (names c)
  | CB ce se => In ce c /\ In se s /\ e_name ce = k /\ e_name se = k
  end.

Lemma client_phase c : NoDup (names c) ->
  forall c1 c2 t, c = c1 ++ c2 -> keys t = names c1 ->
  (forall k cb, In (k, cb) t -> exists ce, cb = CC ce /\ In ce c1 /\ e_name ce = k) ->
  exists t', add_keys Client c2 t = OK t' /\ keys t' = names c /\
             (forall k cb, In (k, cb) t' -> exists ce, cb = CC ce /\ In ce c /\ e_name ce = k).
Proof.
  intros N c1 c2. revert c1. induction c2 as [|e c2 IH]; intros c1 t Hc Hk Ht; cbn [add_keys].
  - rewrite app_nil_r in Hc. subst c1. exists t. auto.
  - assert (Hfresh : ~ In (e_name e) (keys t)).
    { rewrite Hk. subst c. unfold names in N. rewrite map_app in N. cbn [map] in N.
      apply NoDup_remove_2 in N. intros H. apply N. apply in_or_app. left. exact H. }
    rewrite (add_key_fresh _ _ _ _ Hfresh). cbn [obind single].
    apply (IH (c1 ++ [e])).
    + rewrite <- app_assoc. exact Hc.
    + unfold keys, names in *. rewrite !map_app, Hk. reflexivity.
    + intros k cb Hin. apply in_app_or in Hin. destruct Hin as [Hin|[[= <- <-]|[]]].
      * destruct (Ht k cb Hin) as (ce & -> & Hce & Hn). exists ce. repeat split; [apply in_or_app; left; exact Hce|exact Hn].
      * exists e. repeat split. apply in_or_app. right. left. reflexivity.
Qed.

Definition not_in_client (c : jar) (n : str) : bool := negb (memb str_eqb n (names c)).

Lemma server_phase c s : NoDup (names c) -> NoDup (names s) ->
  forall s1 s2 t, s = s1 ++ s2 ->
  keys t = names c ++ filter (not_in_client c) (names s1) ->
  (forall k cb, In (k, cb) t -> comb_ok c s1 k cb) ->
  exists t', add_keys Server s2 t = OK t' /\
             keys t' = names c ++ filter (not_in_client c) (names s) /\
             (forall k cb, In (k, cb) t' -> comb_ok c s k cb).
Proof.
  intros Nc Ns s1 s2. revert s1. induction s2 as [|e s2 IH]; intros s1 t Hs Hk Ht; cbn [add_keys].
  - rewrite app_nil_r in Hs. subst s1. exists t. auto.
  - set (k := e_name e).
    assert (Hk_s1 : ~ In k (names s1)).
    { subst s. unfold names in Ns. rewrite map_app in Ns. cbn [map] in Ns.
      apply NoDup_remove_2 in Ns. intros H. apply Ns. apply in_or_app. left. exact H. }
    assert (Nt : NoDup (keys t)).
    { rewrite Hk. apply NoDup_app_intro; [exact Nc| |].
      - apply NoDup_filter'. subst s. unfold names in Ns. rewrite map_app in Ns. apply NoDup_app_l in Ns. exact Ns.
      - intros x Hx H. apply filter_In in H. destruct H as (_ & H). unfold not_in_client in H.
        apply (memb_In str_eqb str_eqb_ok) in Hx. rewrite Hx in H. discriminate. }
    destruct (memb str_eqb k (names c)) eqn:Mc.
    + (* the client has this name: the table entry is CC and becomes CB *)
      assert (Hin : In k (keys t)) by (rewrite Hk; apply in_or_app; left; apply (memb_In str_eqb str_eqb_ok); exact Mc).
      unfold keys in Hin. apply in_map_iff in Hin. destruct Hin as ([k0 cb] & Hk0 & Hin). cbn [fst] in Hk0. subst k0.
      pose proof (Ht k cb Hin) as Hcb.
      destruct cb as [c0|s0|c0 s0]; cbn [comb_ok] in Hcb.
      2:{ destruct Hcb as (_ & _ & Hn). exfalso. apply Hn. apply (memb_In str_eqb str_eqb_ok). exact Mc. }
      2:{ destruct Hcb as (_ & Hs0 & _ & Hn). exfalso. apply Hk_s1. rewrite <- Hn. apply in_map, Hs0. }
      destruct Hcb as (Hc0 & Hn0 & _).
      apply in_split in Hin. destruct Hin as (l1 & l2 & ->).
      assert (Hl1 : ~ In k (keys l1)).
      { unfold keys in Nt. rewrite map_app in Nt. cbn [map fst] in Nt. apply NoDup_remove_2 in Nt.
        intros H. apply Nt. apply in_or_app. left. exact H. }
      assert (Hl2 : ~ In k (keys l2)).
      { unfold keys in Nt. rewrite map_app in Nt. cbn [map fst] in Nt. apply NoDup_remove_2 in Nt.
        intros H. apply Nt. apply in_or_app. right. exact H. }
      fold k. rewrite (add_key_server_hit k e l1 c0 l2 Hl1). cbn [obind].
      apply (IH (s1 ++ [e])).
      * rewrite <- app_assoc. exact Hs.
      * unfold keys in *. rewrite map_app in *. cbn [map fst] in *. rewrite Hk.
        unfold names. rewrite map_app, filter_app. cbn [map filter]. fold k. unfold not_in_client at 3. fold (names c).
        rewrite Mc. cbn [negb]. rewrite app_nil_r. reflexivity.
      * intros k' cb' Hin'. apply in_app_or in Hin'.
        assert (Hold : forall cb'', In (k', cb'') (l1 ++ (k, CC c0) :: l2) -> k' <> k -> comb_ok c (s1 ++ [e]) k' cb'').
        { intros cb'' Hi Hne. pose proof (Ht k' cb'' Hi) as Hc. destruct cb'' as [c1|s1'|c1 s1']; cbn [comb_ok] in *.
          - destruct Hc as (H1 & H2 & H3). repeat split; try assumption. unfold names. rewrite map_app, in_app_iff. cbn [map In].
            intros [H|[H|[]]]; [exact (H3 H)|]. apply Hne. symmetry. exact H.
          - destruct Hc as (H1 & H2 & H3). repeat split; try assumption. apply in_or_app. left. exact H1.
          - destruct Hc as (H1 & H2 & H3 & H4). repeat split; try assumption. apply in_or_app. left. exact H2. }
        destruct Hin' as [Hin'|[[= <- <-]|Hin']].
        -- apply Hold; [apply in_or_app; left; exact Hin'|]. intros ->. apply Hl1. unfold keys. apply in_map_iff. exists (k, cb'). auto.
        -- cbn [comb_ok]. repeat split; try assumption. apply in_or_app. right. left. reflexivity.
        -- apply Hold; [apply in_or_app; right; right; exact Hin'|]. intros ->. apply Hl2. unfold keys. apply in_map_iff. exists (k, cb'). auto.
    + (* a name only the server has: appended as CS *)
      assert (Hfresh : ~ In k (keys t)).
      { rewrite Hk. rewrite in_app_iff. intros [H|H].
        - apply (memb_In str_eqb str_eqb_ok) in H. congruence.
        - apply filter_In in H. exact (Hk_s1 (proj1 H)). }
      fold k. rewrite (add_key_fresh _ _ _ _ Hfresh). cbn [obind single].
      apply (IH (s1 ++ [e])).
      * rewrite <- app_assoc. exact Hs.
      * unfold keys in *. rewrite map_app. cbn [map fst]. rewrite Hk.
        unfold names. rewrite (map_app e_name s1), filter_app. cbn [map filter]. fold k. unfold not_in_client at 3. fold (names c).
        rewrite Mc. cbn [negb]. rewrite <- app_assoc. reflexivity.
      * intros k' cb' Hin'. apply in_app_or in Hin'. destruct Hin' as [Hin'|[[= <- <-]|[]]].
        -- assert (Hne : k' <> k).
           { intros ->. apply Hfresh. unfold keys. apply in_map_iff. exists (k, cb'). auto. }
           pose proof (Ht k' cb' Hin') as Hc. destruct cb' as [c1|s1'|c1 s1']; cbn [comb_ok] in *.
           ++ destruct Hc as (H1 & H2 & H3). repeat split; try assumption. unfold names. rewrite map_app, in_app_iff. cbn [map In].
              intros [H|[H|[]]]; [exact (H3 H)|]. apply Hne. symmetry. exact H.
           ++ destruct Hc as (H1 & H2 & H3). repeat split; try assumption. apply in_or_app. left. exact H1.
           ++ destruct Hc as (H1 & H2 & H3 & H4). repeat split; try assumption. apply in_or_app. left. exact H2.
        -- cbn [comb_ok]. repeat split.
           ++ apply in_or_app. right. left. reflexivity.
           ++ apply (memb_nIn str_eqb str_eqb_ok). exact Mc.
Qed.

Theorem key_table_spec c s : NoDup (names c) -> NoDup (names s) ->
  exists t, key_table c s = OK t /\
            keys t = names c ++ filter (not_in_client c) (names s) /\
            (forall k cb, In (k, cb) t -> comb_ok c s k cb).
Proof.
  intros Nc Ns. unfold key_table.
  destruct (client_phase c Nc [] c [] eq_refl eq_refl) as (t1 & -> & K1 & H1); [intros k cb []|].
  cbn [obind].
  apply (server_phase c s Nc Ns [] s t1 eq_refl).
  - rewrite K1. cbn. rewrite app_nil_r. reflexivity.
  - intros k cb Hin. destruct (H1 k cb Hin) as (ce & -> & Hce & Hn). cbn [comb_ok]. repeat split; try assumption. intros [].
Qed.

(* ---------------------------------------------------------------------------------------- *)
(** * The loop over the table *)

(* which table rows produce an entry *)
Definition kept (kc : str * comb) : bool :=
  let '(k, cb) := kc in
  str_eqb k s_manifest ||
  (negb (is_signature k) && match cb with CS _ => negb (is_server_library k) | _ => true end).

Lemma merge_entry_skipped k cb : kept (k, cb) = false -> merge_entry k cb = OK None.
Proof.
  unfold kept, merge_entry. destruct (str_eqb k s_manifest); cbn [orb]; [discriminate|].
  destruct (is_signature k); cbn [negb andb]; [reflexivity|].
  destruct cb; try discriminate. destruct (is_server_library k); [reflexivity|discriminate].
Qed.

Lemma merge_entry_kept k cb x : kept (k, cb) = true -> merge_entry k cb = OK x -> exists oe, x = Some oe /\ o_name oe = k.
Proof.
  unfold kept, merge_entry. destruct (str_eqb k s_manifest); cbn [orb].
  - intros _ [= <-]. eexists; split; reflexivity.
  - destruct (is_signature k); cbn [negb andb]; [discriminate|].
    destruct cb as [c|s|c s].
    + intros _. destruct (one_side c Client); cbn [obind]; try discriminate. intros [= <-]. eexists; split; reflexivity.
    + destruct (is_server_library k); cbn [negb]; [discriminate|].
      intros _. destruct (one_side s Server); cbn [obind]; try discriminate. intros [= <-]. eexists; split; reflexivity.
    + intros _. destruct (both_sides c s); cbn [obind]; try discriminate. intros [= <-]. eexists; split; reflexivity.
Qed.

Lemma merge_entries_spec t out :
  merge_entries t = OK out ->
  Forall2 (fun kc oe => merge_entry (fst kc) (snd kc) = OK (Some oe) /\ o_name oe = fst kc) (filter kept t) out.
Proof.
  revert out. induction t as [|[k cb] t IH]; intros out H; cbn [merge_entries] in H.
  - injection H as <-. constructor.
  - destruct (merge_entry k cb) as [x| |] eqn:Me; cbn [obind] in H; try discriminate.
    destruct (merge_entries t) as [rest| |]; cbn [obind] in H; try discriminate.
    injection H as <-. cbn [filter]. destruct (kept (k, cb)) eqn:Kp.
    + destruct (merge_entry_kept k cb x Kp Me) as (oe & -> & Hn). constructor; [split; assumption|apply IH; reflexivity].
    + rewrite (merge_entry_skipped k cb Kp) in Me. injection Me as <-. apply IH. reflexivity.
Qed.

(* ---------------------------------------------------------------------------------------- *)
(** * entries_once *)

Definition find_entry (n : str) (j : jar) : option entry := find (fun e => str_eqb (e_name e) n) j.

Lemma find_entry_In n j e : NoDup (names j) -> In e j -> e_name e = n -> find_entry n j = Some e.
Proof.
  unfold find_entry. induction j as [|e0 j IH]; intros N Hin Hn; [contradiction|]. cbn [find].
  cbn [names map] in N. inversion N as [|? ? Hx N']; subst.
  destruct Hin as [->|Hin].
  - rewrite str_eqb_refl. reflexivity.
  - destruct (str_eqb (e_name e0) (e_name e)) eqn:Ee.
    + apply str_eqb_eq in Ee. exfalso. apply Hx. rewrite Ee. apply in_map, Hin.
    + apply IH; auto.
Qed.

Lemma find_entry_None n j : ~ In n (names j) -> find_entry n j = None.
Proof.
  unfold find_entry. induction j as [|e0 j IH]; intros Hn; [reflexivity|]. cbn [find]. cbn [names map In] in Hn.
  destruct (str_eqb (e_name e0) n) eqn:Ee.
  - apply str_eqb_eq in Ee. exfalso. apply Hn. left. exact Ee.
  - apply IH. intros H. apply Hn. right. exact H.
Qed.

(* what one entry of the merged jar is, in terms of the entries of that name in the two jars *)
Definition entry_spec (c s : jar) (oe : oentry) : Prop :=
  let n := o_name oe in
  match find_entry n c, find_entry n s with
  | Some ce, None =>
      o_attr oe = e_attr ce /\
      (if str_eqb n s_manifest then o_content oe = OOther manifest_bytes else one_side ce Client = OK (o_content oe))
  | None, Some se =>
      o_attr oe = e_attr se /\
      (if str_eqb n s_manifest then o_content oe = OOther manifest_bytes else one_side se Server = OK (o_content oe))
  | Some ce, Some se =>
      o_attr oe = e_attr ce /\
      (if str_eqb n s_manifest then o_content oe = OOther manifest_bytes else both_sides ce se = OK (o_content oe))
  | None, None => False
  end.

(* a name survives the merge *)
Definition survives (c s : jar) (n : str) : Prop :=
  (In n (names c) \/ In n (names s)) /\
  (n = s_manifest \/ (is_signature n = false /\ (In n (names c) \/ is_server_library n = false))).

Theorem entries_once c s out :
  NoDup (names c) -> NoDup (names s) -> merge_jar c s = OK out ->
  NoDup (map o_name out) /\
  (forall n, In n (map o_name out) <-> survives c s n) /\
  subseq (map o_name out) (names c ++ filter (not_in_client c) (names s)) /\
  (forall oe, In oe out -> entry_spec c s oe).
Proof.
  intros Nc Ns H. unfold merge_jar in H.
  destruct (key_table_spec c s Nc Ns) as (t & Kt & Hkeys & Hcomb). rewrite Kt in H. cbn [obind] in H.
  pose proof (merge_entries_spec t out H) as F.
  assert (Nt : NoDup (keys t)).
  { rewrite Hkeys. apply NoDup_app_intro; [exact Nc|apply NoDup_filter', Ns|].
    intros x Hx Hf. apply filter_In in Hf. destruct Hf as (_ & Hf). unfold not_in_client in Hf.
    apply (memb_In str_eqb str_eqb_ok) in Hx. rewrite Hx in Hf. discriminate. }
  assert (Hnames : map o_name out = map fst (filter kept t)).
  { clear -F. induction F as [|kc oe l l' (_ & Hn) F IH]; cbn [map]; [reflexivity|]. rewrite Hn, IH. reflexivity. }
  assert (Hsub : subseq (map fst (filter kept t)) (keys t)).
  { clear. unfold keys. induction t as [|kc t IH]; cbn [filter map]; [constructor|].
    destruct (kept kc); cbn [map]; [apply sub_take|apply sub_skip]; exact IH. }
  split; [|split; [|split]].
  - rewrite Hnames. clear -Nt. unfold keys in Nt. induction t as [|kc t IH]; cbn [filter map]; [constructor|].
    cbn [map] in Nt. inversion Nt as [|? ? Hx N']; subst. destruct (kept kc); cbn [map]; [|apply IH, N'].
    constructor; [|apply IH, N']. intros Hin. apply Hx. apply in_map_iff in Hin. destruct Hin as (y & Hy & Hin).
    apply filter_In in Hin. apply in_map_iff. exists y. split; [exact Hy|exact (proj1 Hin)].
  - intros n. rewrite Hnames. rewrite in_map_iff. unfold survives. split.
    + intros ([k cb] & Hk & Hin). cbn [fst] in Hk. subst k. apply filter_In in Hin. destruct Hin as (Hin & Kp).
      pose proof (Hcomb n cb Hin) as Hc.
      assert (Hor : In n (names c) \/ In n (names s)).
      { destruct cb as [ce|se|ce se]; cbn [comb_ok] in Hc.
        - left. destruct Hc as (H1 & <- & _). apply in_map, H1.
        - right. destruct Hc as (H1 & <- & _). apply in_map, H1.
        - left. destruct Hc as (H1 & _ & <- & _). apply in_map, H1. }
      split; [exact Hor|]. cbn [kept] in Kp. apply orb_true_iff in Kp. destruct Kp as [Kp|Kp].
      * left. apply str_eqb_eq, Kp.
      * right. apply andb_true_iff in Kp. destruct Kp as (K1 & K2). apply negb_true_iff in K1. split; [exact K1|].
        destruct cb as [ce|se|ce se]; cbn [comb_ok] in Hc.
        -- left. destruct Hc as (H1 & <- & _). apply in_map, H1.
        -- right. apply negb_true_iff, K2.
        -- left. destruct Hc as (H1 & _ & <- & _). apply in_map, H1.
    + intros (Hor & Hkeep).
      assert (Hin : In n (keys t)).
      { rewrite Hkeys. apply in_or_app. destruct (memb str_eqb n (names c)) eqn:M.
        - left. apply (memb_In str_eqb str_eqb_ok), M.
        - right. apply filter_In. split; [|unfold not_in_client; rewrite M; reflexivity].
          destruct Hor as [Hc|Hs]; [|exact Hs]. apply (memb_In str_eqb str_eqb_ok) in Hc. congruence. }
      unfold keys in Hin. apply in_map_iff in Hin. destruct Hin as ([k cb] & Hk & Hin). cbn [fst] in Hk. subst k.
      exists (n, cb). split; [reflexivity|]. apply filter_In. split; [exact Hin|]. cbn [kept].
      destruct Hkeep as [->|(Hsig & Hlib)]; [rewrite str_eqb_refl; reflexivity|].
      rewrite Hsig. cbn [negb andb]. apply orb_true_iff. right.
      destruct cb as [ce|se|ce se]; try reflexivity.
      pose proof (Hcomb n _ Hin) as Hc. cbn [comb_ok] in Hc. destruct Hc as (_ & _ & Hnc).
      destruct Hlib as [Hc'|Hl]; [contradiction|]. rewrite Hl. reflexivity.
  - rewrite Hnames, <- Hkeys. exact Hsub.
  - intros oe Hoe. destruct (Forall2_In_r _ _ _ _ F Hoe) as ([k cb] & Hin & Me & Hn). cbn [fst snd] in Me, Hn.
    apply filter_In in Hin. destruct Hin as (Hin & _).
    pose proof (Hcomb k cb Hin) as Hc. unfold entry_spec. rewrite Hn.
    unfold merge_entry in Me.
    destruct cb as [ce|se|ce se]; cbn [comb_ok] in Hc.
    + destruct Hc as (H1 & H2 & H3).
      rewrite (find_entry_In k c ce Nc H1 H2), (find_entry_None k s H3).
      destruct (str_eqb k s_manifest).
      * injection Me as <-. cbn. auto.
      * destruct (is_signature k); [discriminate|]. destruct (one_side ce Client) as [x| |]; cbn [obind] in Me; try discriminate.
        injection Me as <-. cbn. auto.
    + destruct Hc as (H1 & H2 & H3).
      rewrite (find_entry_None k c H3), (find_entry_In k s se Ns H1 H2).
      destruct (str_eqb k s_manifest).
      * injection Me as <-. cbn. auto.
      * destruct (is_signature k); [discriminate|]. destruct (is_server_library k); [discriminate|].
        destruct (one_side se Server) as [x| |]; cbn [obind] in Me; try discriminate.
        injection Me as <-. cbn. auto.
    + destruct Hc as (H1 & H2 & H3 & H4).
      rewrite (find_entry_In k c ce Nc H1 H3), (find_entry_In k s se Ns H2 H4).
      destruct (str_eqb k s_manifest).
      * injection Me as <-. cbn. auto.
      * destruct (is_signature k); [discriminate|]. destruct (both_sides ce se) as [x| |]; cbn [obind] in Me; try discriminate.
        injection Me as <-. cbn. auto.
Qed.

(* the content functions, spelled out in the property's words *)
Theorem one_sided_class_marked e sd x r raw p :
  e_content e = Class r raw (Some p) -> one_side e sd = OK x -> x = OParsed (mark_class p sd).
Proof. unfold one_side. intros ->. intros [= <-]. reflexivity. Qed.

Theorem mark_class_adds_side p sd :
  c_vis (mark_class p sd) = c_vis p ++ [AEnv sd] /\
  c_fields (mark_class p sd) = c_fields p /\ c_methods (mark_class p sd) = c_methods p /\
  c_itfs (mark_class p sd) = c_itfs p /\ c_inv (mark_class p sd) = c_inv p /\ c_rest (mark_class p sd) = c_rest p.
Proof. repeat split. Qed.

Theorem one_sided_resource_unchanged e sd x d :
  e_content e = Other d -> one_side e sd = OK x -> x = OOther d.
Proof. unfold one_side. intros ->. intros [= <-]. reflexivity. Qed.

(* identical class => these very bytes *)
Theorem identical_class_passed_through ce se x raw pc ps r :
  e_content ce = Class RVec raw pc -> e_content se = Class r raw ps ->
  both_sides ce se = OK x -> x = OVec raw.
Proof. unfold both_sides. intros -> ->. rewrite N.eqb_refl. intros [= <-]. reflexivity. Qed.

Theorem differing_class_merged ce se x rc rs rawc raws pc ps :
  e_content ce = Class rc rawc pc -> e_content se = Class rs raws ps -> rawc <> raws ->
  both_sides ce se = OK x -> exists p q m, pc = Some p /\ ps = Some q /\ class_merge p q = OK m /\ x = OParsed m.
Proof.
  unfold both_sides. intros -> -> Hne. apply N.eqb_neq in Hne. rewrite Hne.
  destruct pc as [p|], ps as [q|]; try discriminate.
  destruct (class_merge p q) as [m| |] eqn:Cm; cbn [obind]; try discriminate.
  intros [= <-]. exists p, q, m. auto.
Qed.

Theorem shared_resource_is_clients ce se x dc ds :
  e_content ce = Other dc -> e_content se = Other ds -> both_sides ce se = OK x -> x = OOther dc.
Proof. unfold both_sides. intros -> ->. intros [= <-]. reflexivity. Qed.

(* ---------------------------------------------------------------------------------------- *)
(** * Non-vacuity: concrete values inside the hypotheses, run through the model *)

(* both versions of an example carry the same opaque components, so that the examples do not depend on
   which side the regenerated tables take them from; the versions of a shared member differ in access *)
Definition ex_member (n : N) (access : N) : member := mkMember [102; n] [73] access false false [] [7; 0; 0; 0; 0; 0].
Definition ex_class (itfs : list str) (fields : list member) (rest : N) : aclass :=
  mkClass 52 33 [65] (Some [79]) itfs fields [] false false None [] [] None 0 [0; 0; rest; 0; 0; 0; 0; 0; 0; 0; 0; 0].
(* client: A.class (differs from the server's), B.class (same bytes), a resource, a signature file;
   server: A.class, B.class, a bundled library class, a manifest *)
Definition ex_client : jar :=
  [ mkEntry (s_minecraft ++ [65] ++ s_class) 1 (Class RVec 1 (Some (ex_class [[73;49];[73;50];[73;51]] [ex_member 49 1; ex_member 50 1] 1)));
    mkEntry (s_minecraft ++ [66] ++ s_class) 2 (Class RVec 2 (Some (ex_class [] [] 2)));
    mkEntry [112] 3 (Other [1;2]);
    mkEntry (s_metainf ++ [88] ++ s_SF) 4 (Other [9]) ].
Definition ex_server : jar :=
  [ mkEntry (s_minecraft ++ [66] ++ s_class) 5 (Class RVec 2 (Some (ex_class [] [] 2)));
    mkEntry (s_minecraft ++ [65] ++ s_class) 6 (Class RVec 3 (Some (ex_class [[73;49];[73;57];[73;50];[73;51]] [ex_member 50 17; ex_member 51 1] 1)));
    mkEntry ([99;47;76] ++ s_class) 7 (Class RVec 4 (Some (ex_class [] [] 3)));
    mkEntry s_manifest 8 (Other [0]) ].
Definition ex_merged : list oentry :=
  [ mkOEntry (s_minecraft ++ [65] ++ s_class) 1
      (OParsed (mkClass 52 33 [65] (Some [79]) [[73;49];[73;57];[73;50];[73;51]]
         [ mkMember [102;49] [73] 1 false false [AEnv Client] [7;0;0;0;0;0]; ex_member 50 1; mkMember [102;51] [73] 1 false false [AEnv Server] [7;0;0;0;0;0] ]
         [] false false None [] [AItfs [(Server, [73;57])]] None 0 [0;0;1;0;0;0;0;0;0;0;0;0]));
    mkOEntry (s_minecraft ++ [66] ++ s_class) 2 (OVec 2);
    mkOEntry [112] 3 (OOther [1;2]);
    mkOEntry s_manifest 8 (OOther manifest_bytes) ].

(* a sealed record class whose two versions permit [P] resp. [Q; P] and carry record components 5 resp. 6 *)
Definition ex_sealed (perm : option (list str)) (rec rest : N) : aclass :=
  mkClass 61 33 [65] (Some [79]) [] [] [] false false None [] [] perm rec [0; 0; rest; 0; 0; 0; 0; 0; 0; 0; 0; 0].

Definition nonvacuous : Prop :=
  (* record components and permitted subclasses of a class both sides have are kept *)
  class_merge (ex_sealed (Some [[80]]) 5 1) (ex_sealed (Some [[81];[80]]) 6 1) = OK (ex_sealed (Some [[81];[80]]) 5 1) /\
  class_merge (ex_sealed None 5 1) (ex_sealed None 5 1) = OK (ex_sealed None 5 1) /\
  (* the witness of the repaired defect: b-only elements are interleaved *)
  mpo_res N.eqb [1;2;3] [1;9;2;3] = Ok [1;9;2;3] /\ compatible N.eqb [1;2;3] [1;9;2;3] /\
  (* without compatibility the second order cannot be kept *)
  mpo_res N.eqb [1;2] [2;1] = Ok [1;2] /\ ~ compatible N.eqb [1;2] [2;1] /\ ~ subseq [2;1] [1;2] /\
  (* the hypotheses about opaque components are satisfiable whatever the tables say: two versions
     that carry the same opaque components agree (the example classes above do) *)
  (forall tbl c, rest_agree tbl c c) /\
  (* a jar pair inside the hypotheses of entries_once, with every kind of row *)
  NoDup (names ex_client) /\ NoDup (names ex_server) /\ merge_jar ex_client ex_server = OK ex_merged.

Lemma NoDup_str_dec (l : list str) :
  (fix nd (l : list str) : bool := match l with [] => true | x :: l' => negb (memb str_eqb x l') && nd l' end) l = true -> NoDup l.
Proof.
  induction l as [|x l IH]; intros H; [constructor|]. apply andb_true_iff in H. destruct H as (H1 & H2).
  constructor; [|apply IH, H2]. apply negb_true_iff in H1. apply (memb_nIn str_eqb str_eqb_ok), H1.
Qed.

Theorem nonvacuous_holds : nonvacuous.
Proof.
  unfold nonvacuous.
  split; [vm_compute; reflexivity|]. split; [vm_compute; reflexivity|].
  split; [vm_compute; reflexivity|]. split; [vm_compute; reflexivity|]. split; [vm_compute; reflexivity|].
  split; [unfold compatible; vm_compute; discriminate|].
  split.
  { intros H. repeat match goal with H : subseq _ _ |- _ => inversion H; clear H; subst end. }
  split; [exact rest_agree_refl|].
  split; [apply NoDup_str_dec; vm_compute; reflexivity|].
  split; [apply NoDup_str_dec; vm_compute; reflexivity|].
  vm_compute. reflexivity.
Qed.
