(* C13 — vocabulary of the table that translate/c13_merge_table.py regenerates from
   dukebox/src/merge.rs (C13/MergeGen.v).  Definitions only.

   [pexp]: the string predicates the entry loop of `merge` decides with (starts_with / ends_with /
   contains, combined by ! && ||), as an expression tree; [peval] is their meaning on an entry name.
   [act]:  what the struct literal in class_merger_merge (and in the `inner` closures of the two
   merge_slice calls for fields and methods) does with one field of duke's tree. *)
From Coq Require Import String.
From FB Require Export Base.Str.

(* field names of duke's tree are Coq strings; this file and the generated one are the only ones that
   import Coq.Strings.String (its [length], [append] … would shadow the list functions elsewhere) *)
Notation fname := String.string.

Inductive pexp :=
| PStarts (s : str)                 (* name.starts_with("s") *)
| PEnds (s : str)                   (* name.ends_with("s")   *)
| PContains (c : N)                 (* name.contains('c')    *)
| PNot (e : pexp)
| PAnd (a b : pexp)
| POr (a b : pexp).

Definition ends_with (suf s : str) : bool := starts_with (rev suf) (rev s).

Fixpoint peval (e : pexp) (name : str) : bool :=
  match e with
  | PStarts s => starts_with s name
  | PEnds s => ends_with s name
  | PContains c => mem_N c name
  | PNot a => negb (peval a name)
  | PAnd a b => peval a name && peval b name
  | POr a b => peval a name || peval b name
  end.

Inductive act :=
| AClient              (* client.f                                  : the client's value            *)
| AServer              (* server.f                                  : the server's value            *)
| AAssertEq            (* merge_from_client(&client.f, &server.f)?  : the client's, assert_eq! else *)
| ABailEq              (* merge_eq(&client.f, &server.f)?           : the client's, bail! else      *)
| AMpo                 (* merge_preserve_order of the two lists (interfaces)                        *)
| AMpoOpt              (* None when neither side has it, else merge_preserve_order (permitted subclasses) *)
| AMembers             (* merge_slice keyed by (name, descriptor), side mark, `inner` struct literal *)
| AInnerUnion          (* merge_slice keyed by inner_class, no mark, panic on differing records; empty => None *)
| AInvPlusItfMarks.    (* the client's list plus one @EnvironmentInterfaces for the one-sided interfaces *)

Definition act_eqb (a b : act) : bool :=
  match a, b with
  | AClient, AClient | AServer, AServer | AAssertEq, AAssertEq | ABailEq, ABailEq | AMpo, AMpo
  | AMpoOpt, AMpoOpt | AMembers, AMembers | AInnerUnion, AInnerUnion | AInvPlusItfMarks, AInvPlusItfMarks => true
  | _, _ => false
  end.

(* an action on a component the model keeps opaque (one number per field): only these four *)
Definition scalar_act (a : act) : bool :=
  match a with AClient | AServer | AAssertEq | ABailEq => true | _ => false end.

Definition table := list (fname * act).

Fixpoint lookup (t : table) (f : fname) : option act :=
  match t with
  | [] => None
  | (g, a) :: t' => if String.eqb g f then Some a else lookup t' f
  end.

Definition mem_string (f : fname) (l : list fname) : bool := existsb (String.eqb f) l.

(* the rows of a table whose field the model does not spell out: the layout of c_rest / m_rest *)
Definition rest_of (t : table) (modelled : list fname) : table :=
  filter (fun p => negb (mem_string (fst p) modelled)) t.

(* the fields of duke's ClassFile / Field / Method the model spells out as record components; every
   other field is one opaque number in c_rest / m_rest, in the order of the table *)
Definition modelled_class_fields : list fname :=
  ["version"; "access"; "name"; "super_class"; "interfaces"; "fields"; "methods";
   "has_deprecated_attribute"; "has_synthetic_attribute"; "inner_classes";
   "runtime_visible_annotations"; "runtime_invisible_annotations"; "permitted_subclasses";
   "record_components"]%string.
Definition modelled_member_fields : list fname :=
  ["access"; "name"; "descriptor"; "has_deprecated_attribute"; "has_synthetic_attribute";
   "runtime_invisible_annotations"]%string.

(* what the hand-written part of the model does with the fields it spells out (C13/Model.v
   class_merge, merge_member, mark_member, mark_class); the generated table must say the same:
   Theory3.class_table_modelled, member_tables_modelled *)
Definition expected_modelled_class : table :=
  [("version", AAssertEq); ("access", AAssertEq); ("name", ABailEq); ("super_class", ABailEq);
   ("interfaces", AMpo); ("fields", AMembers); ("methods", AMembers);
   ("has_deprecated_attribute", AAssertEq); ("has_synthetic_attribute", AAssertEq);
   ("inner_classes", AInnerUnion); ("runtime_visible_annotations", AClient);
   ("runtime_invisible_annotations", AInvPlusItfMarks); ("permitted_subclasses", AMpoOpt);
   ("record_components", AClient)]%string.
Definition expected_modelled_member : table :=
  [("access", AClient); ("name", ABailEq); ("descriptor", ABailEq);
   ("has_deprecated_attribute", AAssertEq); ("has_synthetic_attribute", AAssertEq);
   ("runtime_invisible_annotations", AClient)]%string.
Definition expected_member_key : list fname := ["name"; "descriptor"]%string.
Definition expected_member_mark_list : fname := "runtime_invisible_annotations"%string.
Definition expected_class_mark_list : fname := "runtime_visible_annotations"%string.

Definition fname_eqb : fname -> fname -> bool := String.eqb.
Fixpoint fnames_eqb (a b : list fname) : bool :=
  match a, b with
  | [], [] => true
  | x :: a', y :: b' => String.eqb x y && fnames_eqb a' b'
  | _, _ => false
  end.
Fixpoint table_eqb (a b : table) : bool :=
  match a, b with
  | [], [] => true
  | (f, x) :: a', (g, y) :: b' => String.eqb f g && act_eqb x y && table_eqb a' b'
  | _, _ => false
  end.
Fixpoint nodup_fnames (l : list fname) : bool :=
  match l with [] => true | x :: l' => negb (mem_string x l') && nodup_fnames l' end.

(* a field name as a model string (code points), for the layout case of the correspondence *)
Fixpoint fname_str (s : fname) : str :=
  match s with
  | EmptyString => []
  | String a s' => Ascii.N_of_ascii a :: fname_str s'
  end.
