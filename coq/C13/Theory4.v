(* C13 theory, part 4 (round 5): the clauses of the property at the level of whole jars.  Theory2.entries_once says which
   names the merged jar has and that every entry satisfies entry_spec; the theorems here read that off per kind of entry:
   a class only one side has is in the merged jar as that class plus the side mark; a class with the same bytes on both
   sides as these bytes (a ClassRepr::Parsed input: as that very tree); a class with different bytes as the class_merge of
   the two versions; a resource as it is; the manifest replaced; signature files and bundled server libraries absent.
   Also: marking is not idempotent — an input that carries a side mark already (the result of an earlier merge) gets one
   more, of this merge's side. *)
From Coq Require Import Permutation.
From FB Require Import C13.Model C13.Theory C13.Theory2 C13.Theory3.

Lemma entry_of_name c s out n : NoDup (names c) -> NoDup (names s) -> merge_jar c s = OK out -> survives c s n ->
  exists oe, In oe out /\ o_name oe = n /\ entry_spec c s oe.
Proof.
  intros Nc Ns H Hs. destruct (entries_once c s out Nc Ns H) as (_ & Hn & _ & Hspec).
  apply Hn in Hs. apply in_map_iff in Hs as (oe & E & Hin). exists oe. split; [exact Hin|]. split; [exact E|]. apply Hspec. exact Hin.
Qed.

Lemma not_manifest_eqb n : n <> s_manifest -> str_eqb n s_manifest = false.
Proof. intros H. destruct (str_eqb n s_manifest) eqn:E; [|reflexivity]. apply str_eqb_eq in E. contradiction. Qed.

(* a class (or any entry) only the client has *)
Theorem jar_client_only c s out ce : NoDup (names c) -> NoDup (names s) -> merge_jar c s = OK out ->
  In ce c -> ~ In (e_name ce) (names s) -> e_name ce <> s_manifest -> is_signature (e_name ce) = false ->
  exists oe, In oe out /\ o_name oe = e_name ce /\ o_attr oe = e_attr ce /\ one_side ce Client = OK (o_content oe).
Proof.
  intros Nc Ns H Hin Hns Hm Hsig.
  destruct (entry_of_name c s out (e_name ce) Nc Ns H) as (oe & Ho & En & Sp).
  { split; [left; apply in_map; exact Hin|]. right. split; [exact Hsig|]. left. apply in_map. exact Hin. }
  exists oe. split; [exact Ho|]. split; [exact En|]. unfold entry_spec in Sp. rewrite En in Sp.
  rewrite (find_entry_In _ c ce Nc Hin eq_refl), (find_entry_None _ s Hns), (not_manifest_eqb _ Hm) in Sp. exact Sp.
Qed.

(* … only the server has: kept unless the library rule skips it *)
Theorem jar_server_only c s out se : NoDup (names c) -> NoDup (names s) -> merge_jar c s = OK out ->
  In se s -> ~ In (e_name se) (names c) -> e_name se <> s_manifest -> is_signature (e_name se) = false ->
  if is_server_library (e_name se) then ~ In (e_name se) (map o_name out)
  else exists oe, In oe out /\ o_name oe = e_name se /\ o_attr oe = e_attr se /\ one_side se Server = OK (o_content oe).
Proof.
  intros Nc Ns H Hin Hnc Hm Hsig. destruct (is_server_library (e_name se)) eqn:Lib.
  - destruct (entries_once c s out Nc Ns H) as (_ & Hn & _ & _). intros Hx. apply Hn in Hx. destruct Hx as (_ & [E|(_ & [Hc|L])]).
    + contradiction.
    + contradiction.
    + congruence.
  - destruct (entry_of_name c s out (e_name se) Nc Ns H) as (oe & Ho & En & Sp).
    { split; [right; apply in_map; exact Hin|]. right. split; [exact Hsig|]. right. exact Lib. }
    exists oe. split; [exact Ho|]. split; [exact En|]. unfold entry_spec in Sp. rewrite En in Sp.
    rewrite (find_entry_None _ c Hnc), (find_entry_In _ s se Ns Hin eq_refl), (not_manifest_eqb _ Hm) in Sp. exact Sp.
Qed.

(* … both have *)
Theorem jar_both c s out ce se : NoDup (names c) -> NoDup (names s) -> merge_jar c s = OK out ->
  In ce c -> In se s -> e_name ce = e_name se -> e_name ce <> s_manifest -> is_signature (e_name ce) = false ->
  exists oe, In oe out /\ o_name oe = e_name ce /\ o_attr oe = e_attr ce /\ both_sides ce se = OK (o_content oe).
Proof.
  intros Nc Ns H Hc Hs En Hm Hsig.
  destruct (entry_of_name c s out (e_name ce) Nc Ns H) as (oe & Ho & Eo & Sp).
  { split; [left; apply in_map; exact Hc|]. right. split; [exact Hsig|]. left. apply in_map. exact Hc. }
  exists oe. split; [exact Ho|]. split; [exact Eo|]. unfold entry_spec in Sp. rewrite Eo in Sp.
  rewrite (find_entry_In _ c ce Nc Hc eq_refl), (find_entry_In _ s se Ns Hs (eq_sym En)), (not_manifest_eqb _ Hm) in Sp. exact Sp.
Qed.

(* Th (the property's clauses 2 to 4, for whole jars): a class present on one side only is marked with that side; a class
   identical on both sides is passed through (these bytes; a parsed input: this tree); a class differing between the sides
   is the class_merge of the two versions (whose fields, methods and interfaces C13_members_marked / C13_interfaces_marked
   describe) *)
Theorem jar_classes c s out : NoDup (names c) -> NoDup (names s) -> merge_jar c s = OK out ->
  (forall ce r raw p, In ce c -> e_content ce = Class r raw (Some p) -> ~ In (e_name ce) (names s) ->
     e_name ce <> s_manifest -> is_signature (e_name ce) = false ->
     In (mkOEntry (e_name ce) (e_attr ce) (OParsed (mark_class p Client))) out) /\
  (forall se r raw p, In se s -> e_content se = Class r raw (Some p) -> ~ In (e_name se) (names c) ->
     e_name se <> s_manifest -> is_signature (e_name se) = false -> is_server_library (e_name se) = false ->
     In (mkOEntry (e_name se) (e_attr se) (OParsed (mark_class p Server))) out) /\
  (forall ce se rc rs raw pc ps, In ce c -> In se s -> e_name ce = e_name se ->
     e_content ce = Class rc raw pc -> e_content se = Class rs raw ps ->
     e_name ce <> s_manifest -> is_signature (e_name ce) = false ->
     match rc, pc with
     | RVec, _ => In (mkOEntry (e_name ce) (e_attr ce) (OVec raw)) out
     | RParsed, Some p => In (mkOEntry (e_name ce) (e_attr ce) (OParsed p)) out
     | RParsed, None => True
     end) /\
  (forall ce se rc rs rawc raws pc ps, In ce c -> In se s -> e_name ce = e_name se ->
     e_content ce = Class rc rawc pc -> e_content se = Class rs raws ps -> rawc <> raws ->
     e_name ce <> s_manifest -> is_signature (e_name ce) = false ->
     exists p q m, pc = Some p /\ ps = Some q /\ class_merge p q = OK m /\
                   In (mkOEntry (e_name ce) (e_attr ce) (OParsed m)) out).
Proof.
  intros Nc Ns H. split; [|split; [|split]].
  - intros ce r raw p Hin Ec Hns Hm Hsig.
    destruct (jar_client_only c s out ce Nc Ns H Hin Hns Hm Hsig) as (oe & Ho & En & Ea & Ex).
    unfold one_side in Ex. rewrite Ec in Ex. injection Ex as Ex.
    destruct oe as [n a x]. cbn [o_name o_attr o_content] in *. subst. exact Ho.
  - intros se r raw p Hin Ec Hnc Hm Hsig Lib.
    assert (X := jar_server_only c s out se Nc Ns H Hin Hnc Hm Hsig). rewrite Lib in X.
    destruct X as (oe & Ho & En & Ea & Ex). unfold one_side in Ex. rewrite Ec in Ex. injection Ex as Ex.
    destruct oe as [n a x]. cbn [o_name o_attr o_content] in *. subst. exact Ho.
  - intros ce se rc rs raw pc ps Hc Hs En Ec Es Hm Hsig.
    destruct (jar_both c s out ce se Nc Ns H Hc Hs En Hm Hsig) as (oe & Ho & Eo & Ea & Ex).
    unfold both_sides in Ex. rewrite Ec, Es, N.eqb_refl in Ex.
    destruct oe as [n a x]. cbn [o_name o_attr o_content] in *. subst n a.
    destruct rc; [injection Ex as <-; exact Ho|]. destruct pc as [p|]; [injection Ex as <-; exact Ho|exact I].
  - intros ce se rc rs rawc raws pc ps Hc Hs En Ec Es Hne Hm Hsig.
    destruct (jar_both c s out ce se Nc Ns H Hc Hs En Hm Hsig) as (oe & Ho & Eo & Ea & Ex).
    destruct (differing_class_merged ce se (o_content oe) rc rs rawc raws pc ps Ec Es Hne Ex) as (p & q & m & -> & -> & Cm & Em).
    exists p, q, m. repeat split; try assumption.
    destruct oe as [n a x]. cbn [o_name o_attr o_content] in *. subst. exact Ho.
Qed.

(* resources, directories, manifest, dropped names *)
Theorem jar_other_entries c s out : NoDup (names c) -> NoDup (names s) -> merge_jar c s = OK out ->
  (forall ce d, In ce c -> e_content ce = Other d -> e_name ce <> s_manifest -> is_signature (e_name ce) = false ->
     In (mkOEntry (e_name ce) (e_attr ce) (OOther d)) out) /\
  (forall se d, In se s -> e_content se = Other d -> ~ In (e_name se) (names c) -> e_name se <> s_manifest ->
     is_signature (e_name se) = false -> is_server_library (e_name se) = false ->
     In (mkOEntry (e_name se) (e_attr se) (OOther d)) out) /\
  (forall oe, In oe out -> o_name oe = s_manifest -> o_content oe = OOther manifest_bytes) /\
  (forall n, n <> s_manifest -> is_signature n = true -> ~ In n (map o_name out)).
Proof.
  intros Nc Ns H. split; [|split; [|split]].
  - intros ce d Hin Ec Hm Hsig. destruct (In_dec (list_eq_dec N.eq_dec) (e_name ce) (names s)) as [Hs|Hns].
    + apply in_map_iff in Hs as (se & En & Hs).
      destruct (jar_both c s out ce se Nc Ns H Hin Hs (eq_sym En) Hm Hsig) as (oe & Ho & Eo & Ea & Ex).
      unfold both_sides in Ex. rewrite Ec in Ex. destruct (e_content se); try discriminate. injection Ex as Ex.
      destruct oe as [n a x]. cbn [o_name o_attr o_content] in *. subst. exact Ho.
    + destruct (jar_client_only c s out ce Nc Ns H Hin Hns Hm Hsig) as (oe & Ho & Eo & Ea & Ex).
      unfold one_side in Ex. rewrite Ec in Ex. injection Ex as Ex.
      destruct oe as [n a x]. cbn [o_name o_attr o_content] in *. subst. exact Ho.
  - intros se d Hin Ec Hnc Hm Hsig Lib.
    assert (X := jar_server_only c s out se Nc Ns H Hin Hnc Hm Hsig). rewrite Lib in X.
    destruct X as (oe & Ho & Eo & Ea & Ex). unfold one_side in Ex. rewrite Ec in Ex. injection Ex as Ex.
    destruct oe as [n a x]. cbn [o_name o_attr o_content] in *. subst. exact Ho.
  - intros oe Ho En. destruct (entries_once c s out Nc Ns H) as (_ & _ & _ & Hspec). specialize (Hspec oe Ho).
    unfold entry_spec in Hspec. rewrite En, str_eqb_refl in Hspec.
    destruct (find_entry s_manifest c), (find_entry s_manifest s); try contradiction; apply Hspec.
  - intros n Hm Hsig Hx. destruct (entries_once c s out Nc Ns H) as (_ & Hn & _ & _). apply Hn in Hx.
    destruct Hx as (_ & [E|(E & _)]); [contradiction|congruence].
Qed.

(* an input that carries side marks already (the result of an earlier merge, C13-b4): marking looks at nothing, it appends — a
   class marked SERVER by a first merge that only the client of a second merge has carries both marks afterwards, in that order;
   likewise a member *)
Theorem marks_accumulate p m sd sd' :
  c_vis (mark_class (mark_class p sd) sd') = c_vis p ++ [AEnv sd; AEnv sd'] /\
  m_inv (mark_member (mark_member m sd) sd') = m_inv m ++ [AEnv sd; AEnv sd'] /\
  (forall e x r raw, e_content e = Class r raw (Some (mark_class p sd)) -> one_side e sd' = OK x ->
     x = OParsed (mark_class (mark_class p sd) sd')).
Proof.
  split; [|split].
  - cbn [mark_class c_vis]. rewrite <- app_assoc. reflexivity.
  - cbn [mark_member m_inv]. rewrite <- app_assoc. reflexivity.
  - intros e x r raw Ec Ex. apply (one_sided_class_marked e sd' x r raw _ Ec Ex).
Qed.

(* ---------- the merge yields a jar ---------- *)

(* the entries of one name can be combined: same kind; classes with the same bytes always (a parsed input is parsed), classes
   with different bytes when both are readable and agree as C13_class_merge_ok demands *)
Definition pair_ok (ce se : entry) : Prop :=
  match e_content ce, e_content se with
  | Dir, Dir => True
  | Other _, Other _ => True
  | Class rc rawc pc, Class _ raws ps =>
      if N.eqb rawc raws then (rc = RParsed -> pc <> None)
      else exists p q, pc = Some p /\ ps = Some q /\ classes_agree p q
  | _, _ => False
  end.
(* an entry only one side has: a class must be readable *)
Definition single_ok (e : entry) : Prop := match e_content e with Class _ _ None => False | _ => True end.
(* names whose content the merge looks at *)
Definition content_matters (n : str) : Prop := n <> s_manifest /\ is_signature n = false.

Lemma merge_entries_ok t : (forall k cb, In (k, cb) t -> exists x, merge_entry k cb = OK x) -> exists out, merge_entries t = OK out.
Proof.
  induction t as [|[k cb] t IH]; intros H; [eexists; reflexivity|]. cbn [merge_entries].
  destruct (H k cb (or_introl eq_refl)) as (x & ->). cbn [obind].
  destruct IH as (rest & ->); [intros k' cb' Hin; apply H; right; exact Hin|]. cbn [obind]. eexists. reflexivity.
Qed.

Lemma one_side_ok e sd : single_ok e -> exists x, one_side e sd = OK x.
Proof. unfold single_ok, one_side. destruct (e_content e) as [|d|r raw [p|]]; intros H; try (eexists; reflexivity). contradiction. Qed.

Lemma both_sides_ok ce se : pair_ok ce se -> exists x, both_sides ce se = OK x.
Proof.
  unfold pair_ok, both_sides. destruct (e_content ce) as [|dc|rc rawc pc], (e_content se) as [|ds|rs raws ps]; intros H; try contradiction;
    try (eexists; reflexivity).
  destruct (N.eqb rawc raws).
  - destruct rc; [eexists; reflexivity|]. destruct pc as [p|]; [eexists; reflexivity|]. exfalso. apply (H eq_refl). reflexivity.
  - destruct H as (p & q & -> & -> & Ha). destruct (class_merge_ok p q Ha) as (m & ->). cbn [obind]. eexists. reflexivity.
Qed.

(* Th: inside these (decidable-by-inspection) hypotheses dukebox::merge::merge returns a jar — the safety half the exact-once
   theorems presuppose.  Outside them the code asserts / bails (modelled: Panic / Fail, observed in separate streams) *)
Theorem merge_jar_ok c s : NoDup (names c) -> NoDup (names s) ->
  (forall ce, In ce c -> ~ In (e_name ce) (names s) -> content_matters (e_name ce) -> single_ok ce) ->
  (forall se, In se s -> ~ In (e_name se) (names c) -> content_matters (e_name se) -> is_server_library (e_name se) = false -> single_ok se) ->
  (forall ce se, In ce c -> In se s -> e_name ce = e_name se -> content_matters (e_name ce) -> pair_ok ce se) ->
  exists out, merge_jar c s = OK out.
Proof.
  intros Nc Ns Hc Hs Hb. unfold merge_jar. destruct (key_table_spec c s Nc Ns) as (t & -> & _ & Hcomb). cbn [obind].
  apply merge_entries_ok. intros k cb Hin. specialize (Hcomb k cb Hin). unfold merge_entry.
  destruct (str_eqb k s_manifest) eqn:Em; [eexists; reflexivity|].
  destruct (is_signature k) eqn:Es; [eexists; reflexivity|].
  assert (Hk : content_matters k).
  { split; [|exact Es]. intros ->. rewrite str_eqb_refl in Em. discriminate. }
  destruct cb as [ce|se|ce se]; cbn [comb_ok] in Hcomb.
  - destruct Hcomb as (Hi & <- & Hn). destruct (one_side_ok ce Client (Hc ce Hi Hn Hk)) as (x & ->). cbn [obind]. eexists. reflexivity.
  - destruct Hcomb as (Hi & <- & Hn). destruct (is_server_library (e_name se)) eqn:L; [eexists; reflexivity|].
    destruct (one_side_ok se Server (Hs se Hi Hn Hk L)) as (x & ->). cbn [obind]. eexists. reflexivity.
  - destruct Hcomb as (Hic & His & <- & En). destruct (both_sides_ok ce se (Hb ce se Hic His (eq_sym En) Hk)) as (x & ->).
    cbn [obind]. eexists. reflexivity.
Qed.

(* ---------- non-vacuity of the round-5 theorems: a two-step sequence evaluated by the model ---------- *)

Definition s_versions9 : str := s_metainf ++ [118;101;114;115;105;111;110;115;47;57;47].   (* META-INF/versions/9/ *)
(* step 1 — client: a multi-release class below META-INF/versions/9/net/minecraft/, a DSA and an EC signature block file, a resource;
   server: the same class in another version, a class only the server has *)
Definition ex2_client : jar :=
  [ mkEntry (s_versions9 ++ s_minecraft ++ [86] ++ s_class) 1 (Class RVec 1 (Some (ex_class [[73;49]] [ex_member 49 1] 1)));
    mkEntry (s_metainf ++ [88] ++ s_DSA) 2 (Other [9]); mkEntry (s_metainf ++ [88] ++ s_EC) 3 (Other [9]);
    mkEntry (s_minecraft ++ [67] ++ s_class) 4 (Class RVec 5 (Some (ex_class [] [] 5))) ].
Definition ex2_server : jar :=
  [ mkEntry (s_versions9 ++ s_minecraft ++ [86] ++ s_class) 5 (Class RVec 2 (Some (ex_class [[73;50]] [ex_member 50 1] 1)));
    mkEntry (s_minecraft ++ [83] ++ s_class) 6 (Class RVec 3 (Some (ex_class [] [] 3))) ].
Definition ex2_first : list oentry :=
  [ mkOEntry (s_versions9 ++ s_minecraft ++ [86] ++ s_class) 1
      (OParsed (mkClass 52 33 [65] (Some [79]) [[73;49];[73;50]]
         [ mkMember [102;49] [73] 1 false false [AEnv Client] [7;0;0;0;0;0]; mkMember [102;50] [73] 1 false false [AEnv Server] [7;0;0;0;0;0] ]
         [] false false None [] [AItfs [(Client, [73;49]); (Server, [73;50])]] None 0 [0;0;1;0;0;0;0;0;0;0;0;0]));
    mkOEntry (s_minecraft ++ [67] ++ s_class) 4 (OParsed (mark_class (ex_class [] [] 5) Client));
    mkOEntry (s_minecraft ++ [83] ++ s_class) 6 (OParsed (mark_class (ex_class [] [] 3) Server)) ].
(* step 2 — the first result (as the ParsedJar it is: every class ClassRepr::Parsed, its bytes' identities 11, 12, 13) is the SERVER
   of a second merge whose client is empty: the class the first merge marked CLIENT is server-only now and carries both marks *)
Definition ex2_first_as_input : jar :=
  map (fun oe => mkEntry (o_name oe) (o_attr oe)
                   (match o_content oe with OParsed p => Class RParsed (10 + o_attr oe) (Some p) | OOther d => Other d | ODir => Dir | OVec r => Class RVec r None end)) ex2_first.

Definition nonvacuous4 : Prop :=
  NoDup (names ex2_client) /\ NoDup (names ex2_server) /\ merge_jar ex2_client ex2_server = OK ex2_first /\
  NoDup (names ex2_first_as_input) /\
  (exists out, merge_jar [] ex2_first_as_input = OK out /\
     In (mkOEntry (s_minecraft ++ [67] ++ s_class) 4 (OParsed (mark_class (mark_class (ex_class [] [] 5) Client) Server))) out /\
     c_vis (mark_class (mark_class (ex_class [] [] 5) Client) Server) = [AEnv Client; AEnv Server] /\
     (* the multi-release class is server-only and outside net/minecraft/: the library rule drops it *)
     ~ In (s_versions9 ++ s_minecraft ++ [86] ++ s_class) (map o_name out)).

Theorem nonvacuous4_holds : nonvacuous4.
Proof.
  unfold nonvacuous4.
  split; [apply NoDup_str_dec; vm_compute; reflexivity|]. split; [apply NoDup_str_dec; vm_compute; reflexivity|].
  split; [vm_compute; reflexivity|]. split; [apply NoDup_str_dec; vm_compute; reflexivity|].
  eexists. split; [vm_compute; reflexivity|]. split; [vm_compute; auto|]. split; [reflexivity|].
  vm_compute. intros [H|[H|H]]; try discriminate; exact H.
Qed.
