(* C13 — model of dukebox/src/merge.rs (client/server jar merge).

   Part 1: [merge_preserve_order] as it is written after the repair commit
           "fix: merge_preserve_order interleaves elements only the second list has":
           two peekable iterators (here: the remaining suffixes [ai], [bi]), the three inner
           loops, the [no_change] break and the two tail extensions.  The outer [while] is not
           structurally recursive, so it runs on fuel; [Theory.mpo_fuel_suffices] shows the
           fuel handed over by [mpo_res] is always enough.
   Part 2: [merge_slice] and [class_merger_merge] over an abstract class: every component the
           merge looks into is a field of the record; every other field of duke's ClassFile / Field /
           Method is one opaque number in [c_rest] / [m_rest], merged row by row as the table says that
           translate/c13_merge_table.py regenerates from the struct literals of merge.rs
           (C13/MergeGen.v: client.f | server.f | merge_from_client | merge_eq).  Three possible
           outcomes of the Rust code: value, [Err] (bail!) and panic (assert_eq!, unreachable!, panic!).  Permitted subclasses are merged like the
           interfaces, record components are the client's (as repaired by "fix: merging two
           versions of a class keeps its record components and permitted subclasses").
   Part 3: [merge]: the entry table Client/Server/Both built by IndexMap insertion, the
           MANIFEST replacement, the two skip rules (predicate trees regenerated from the conditions
           in the source, evaluated by Schema.peval), class-level side annotations, byte-identical
           pass-through, and the per-kind combination of entries both jars have; [zip_kind]: how
           zip_impls.rs decides the kind of a zip entry from its name.
   Definitions only; the proofs are in Theory.v, Theory2.v, Theory3.v. *)
From FB Require Export Base.Str C13.Schema C13.MergeGen.

(* ---------------------------------------------------------------------------------------- *)
(** * Part 1: merge_preserve_order *)

Definition memb {A} (eqb : A -> A -> bool) (x : A) (l : list A) : bool := existsb (eqb x) l.

(* while let Some(x) = ai.next_if(|x| bi.peek().is_some_and(|b| b == x)) { bi.next(); r.push(x); }
   returns (pushed, rest of ai, rest of bi) *)
Fixpoint loop_both {A} (eqb : A -> A -> bool) (ai bi : list A) : list A * list A * list A :=
  match ai, bi with
  | x :: ai', y :: bi' =>
      if eqb y x then
        match loop_both eqb ai' bi' with (p, a2, b2) => (x :: p, a2, b2) end
      else ([], ai, bi)
  | _, _ => ([], ai, bi)
  end.

(* while let Some(x) = it.next_if(|x| !other.contains(x)) { r.push(x); }
   returns (pushed, rest of it) *)
Fixpoint loop_only {A} (eqb : A -> A -> bool) (other it : list A) : list A * list A :=
  match it with
  | x :: it' =>
      if negb (memb eqb x other) then
        match loop_only eqb other it' with (p, r) => (x :: p, r) end
      else ([], it)
  | [] => ([], [])
  end.

Definition all_nil {A} (p1 p2 p3 : list A) : bool :=
  match p1, p2, p3 with [], [], [] => true | _, _, _ => false end.

(* the outer while loop; result: what was pushed, and the two iterators as they are on exit *)
Fixpoint mpo_loop {A} (eqb : A -> A -> bool) (fuel : nat) (a b ai bi : list A)
  : res (list A * list A * list A) :=
  match fuel with
  | O => Err
  | S fuel' =>
      match ai, bi with
      | [], [] => Ok ([], [], [])                       (* loop condition false *)
      | _, _ =>
          match loop_both eqb ai bi with (p1, ai1, bi1) =>
          match loop_only eqb b ai1 with (p2, ai2) =>
          match loop_only eqb a bi1 with (p3, bi3) =>
            if all_nil p1 p2 p3 then Ok ([], ai2, bi3)  (* no_change: break *)
            else
              match mpo_loop eqb fuel' a b ai2 bi3 with
              | Ok (r, af, bf) => Ok (p1 ++ p2 ++ p3 ++ r, af, bf)
              | Err => Err
              end
          end end end
      end
  end.

(* r.extend(ai); r.extend(bi.filter(|b_i| !a.contains(b_i))) *)
Definition mpo_res {A} (eqb : A -> A -> bool) (a b : list A) : res (list A) :=
  match mpo_loop eqb (S (length a + length b)) a b a b with
  | Ok (r, af, bf) => Ok (r ++ af ++ filter (fun y => negb (memb eqb y a)) bf)
  | Err => Err
  end.

(* total version used by the class model (the [Err] branch is dead: mpo_fuel_suffices) *)
Definition mpo {A} (eqb : A -> A -> bool) (a b : list A) : list A :=
  match mpo_res eqb a b with Ok r => r | Err => [] end.

(* ---------------------------------------------------------------------------------------- *)
(** * Part 2: classes *)

Inductive side := Client | Server.
Definition side_eqb (a b : side) : bool :=
  match a, b with Client, Client | Server, Server => true | _, _ => false end.

(* outcome of the Rust code: a value, Err(..) or a panic *)
Inductive out (A : Type) : Type := OK (a : A) | Fail | Panic.
Arguments OK {A} a.
Arguments Fail {A}.
Arguments Panic {A}.
Definition obind {A B} (r : out A) (f : A -> out B) : out B :=
  match r with OK a => f a | Fail => Fail | Panic => Panic end.
Notation "'dO' x <- r ; k" := (obind r (fun x => k)) (at level 200, x pattern, r at level 100, k at level 200).

(* annotations, as far as the merge can tell them apart *)
Inductive ann :=
| AEnv (s : side)                      (* @Environment(value = EnvType.CLIENT|SERVER)        *)
| AItfs (l : list (side * str))        (* @EnvironmentInterfaces({@EnvironmentInterface(value = side, itf = I.class), ...}) *)
| AOther (id : N).                     (* any other annotation *)

Record member := mkMember {
  m_name : str; m_desc : str;          (* the key *)
  m_access : N;
  m_depr : bool; m_synth : bool;
  m_inv : list ann;                    (* RuntimeInvisibleAnnotations *)
  m_rest : list N                      (* every other field of duke's Field / Method, one opaque number each,
                                          in the order of field_rest_table / method_rest_table *)
}.

Record aclass := mkClass {
  c_version : N; c_access : N;
  c_name : str; c_super : option str;
  c_itfs : list str;
  c_fields : list member; c_methods : list member;
  c_depr : bool; c_synth : bool;
  c_inner : option (list (str * N));   (* InnerClasses: key = inner class name, rest opaque *)
  c_vis : list ann;                    (* RuntimeVisibleAnnotations *)
  c_inv : list ann;                    (* RuntimeInvisibleAnnotations *)
  c_perm : option (list str);          (* PermittedSubclasses: the permitted class names *)
  c_rec : N;                           (* record components, opaque (0 = none) *)
  c_rest : list N                      (* every other field of duke's ClassFile, one opaque number each, in
                                          the order of class_rest_table *)
}.

(* the layout of c_rest / m_rest: the rows of the generated tables (C13/MergeGen.v, regenerated from
   the struct literals of merge.rs on every check) whose field is not spelled out above *)
Definition class_rest_table : table := rest_of g_class_table modelled_class_fields.
Definition field_rest_table : table := rest_of g_field_table modelled_member_fields.
Definition method_rest_table : table := rest_of g_method_table modelled_member_fields.

(* equality tests (PartialEq of the Rust types) *)
Fixpoint leqb {A} (eqb : A -> A -> bool) (a b : list A) : bool :=
  match a, b with
  | [], [] => true
  | x :: a', y :: b' => eqb x y && leqb eqb a' b'
  | _, _ => false
  end.
Definition oeqb {A} (eqb : A -> A -> bool) (a b : option A) : bool :=
  match a, b with Some x, Some y => eqb x y | None, None => true | _, _ => false end.
Definition peqb {A B} (ea : A -> A -> bool) (eb : B -> B -> bool) (a b : A * B) : bool :=
  ea (fst a) (fst b) && eb (snd a) (snd b).

Definition ann_eqb (a b : ann) : bool :=
  match a, b with
  | AEnv s, AEnv t => side_eqb s t
  | AItfs l, AItfs k => leqb (peqb side_eqb str_eqb) l k
  | AOther i, AOther j => N.eqb i j
  | _, _ => false
  end.

Definition member_eqb (a b : member) : bool :=
  str_eqb (m_name a) (m_name b) && str_eqb (m_desc a) (m_desc b) && N.eqb (m_access a) (m_access b)
  && Bool.eqb (m_depr a) (m_depr b) && Bool.eqb (m_synth a) (m_synth b)
  && leqb ann_eqb (m_inv a) (m_inv b) && leqb N.eqb (m_rest a) (m_rest b).

Definition key := (str * str)%type.
Definition key_eqb : key -> key -> bool := peqb str_eqb str_eqb.
Definition mkey (m : member) : key := (m_name m, m_desc m).

(* IndexMap::get after `iter().map(|i| (get_key(i), i)).collect()`: a later item with the same
   key replaces the value of an earlier one *)
Definition find_last {K T} (keqb : K -> K -> bool) (kf : T -> K) (k : K) (l : list T) : option T :=
  fold_left (fun acc t => if keqb (kf t) k then Some t else acc) l None.

(* `.map(..).collect::<Result<Vec<_>>>()`: left to right, the first failure ends it *)
Fixpoint collect {K T} (f : K -> out T) (ks : list K) : out (list T) :=
  match ks with
  | [] => OK []
  | k :: ks' => dO t <- f k; dO ts <- collect f ks'; OK (t :: ts)
  end.

Definition merge_slice {K T} (keqb : K -> K -> bool) (teqb : T -> T -> bool) (kf : T -> K)
    (sidef : T -> side -> out T) (inner : T -> T -> out T) (client server : list T) : out (list T) :=
  collect (fun k =>
      match find_last keqb kf k client, find_last keqb kf k server with
      | Some ec, Some es => if teqb ec es then OK ec else inner ec es
      | Some ec, None => sidef ec Client
      | None, Some es => sidef es Server
      | None, None => Panic                            (* unreachable!() *)
      end)
    (mpo keqb (map kf client) (map kf server)).

(* merge_from_client: pretty_assertions::assert_eq!(client, server) *)
Definition from_client {A} (eqb : A -> A -> bool) (c s : A) : out A := if eqb c s then OK c else Panic.
(* merge_eq: bail! when different *)
Definition merge_eq {A} (eqb : A -> A -> bool) (c s : A) : out A := if eqb c s then OK c else Fail.

Definition mark_member (m : member) (s : side) : member :=
  mkMember (m_name m) (m_desc m) (m_access m) (m_depr m) (m_synth m) (m_inv m ++ [AEnv s]) (m_rest m).

(* one opaque component, as its row of the table says *)
Definition apply_scalar (a : act) (x y : N) : out N :=
  match a with
  | AClient => OK x
  | AServer => OK y
  | AAssertEq => from_client N.eqb x y
  | ABailEq => merge_eq N.eqb x y
  | _ => Panic                          (* not an action on an opaque component: Theory3.rest_tables_scalar *)
  end.

(* the opaque components, row by row (a table shorter than the client's list: the client's value,
   a server list shorter than the client's: likewise — neither happens for well-formed cases) *)
Fixpoint merge_rest (tbl : table) (c s : list N) : out (list N) :=
  match c with
  | [] => OK []
  | x :: c' =>
      let a := match tbl with (_, a) :: _ => a | [] => AClient end in
      let y := match s with y :: _ => y | [] => x end in
      dO v <- apply_scalar a x y;
      dO r <- merge_rest (tl tbl) c' (tl s);
      OK (v :: r)
  end.

(* the `inner` closure for fields and methods (a struct literal completed by `..client.clone()`):
   the spelled-out fields as written — the client's access and annotations, name and descriptor by
   merge_eq, the deprecated / synthetic flags by merge_from_client (assert) — and every other field
   as its row of [tbl] (field_rest_table resp. method_rest_table) says *)
Definition merge_member (tbl : table) (c s : member) : out member :=
  dO n <- merge_eq str_eqb (m_name c) (m_name s);
  dO d <- merge_eq str_eqb (m_desc c) (m_desc s);
  dO dp <- from_client Bool.eqb (m_depr c) (m_depr s);
  dO sy <- from_client Bool.eqb (m_synth c) (m_synth s);
  dO rest <- merge_rest tbl (m_rest c) (m_rest s);
  OK (mkMember n d (m_access c) dp sy (m_inv c) rest).

Definition merge_members (tbl : table) (client server : list member) : out (list member) :=
  merge_slice key_eqb member_eqb mkey (fun m s => OK (mark_member m s)) (merge_member tbl) client server.

Definition inner_eqb : (str * N) -> (str * N) -> bool := peqb str_eqb N.eqb.
Definition merge_inner (client server : list (str * N)) : out (list (str * N)) :=
  merge_slice str_eqb inner_eqb fst (fun i _ => OK i) (fun _ _ => Panic) client server.

Definition unwrap_or_default {A} (o : option (list A)) : list A := match o with Some l => l | None => [] end.

(* the interfaces only one side has, in merged order *)
Definition one_sided (merged mine theirs : list str) : list str :=
  filter (fun i => memb str_eqb i mine && negb (memb str_eqb i theirs)) merged.

Definition itf_marks (merged ci si : list str) : list (side * str) :=
  map (fun i => (Client, i)) (one_sided merged ci si) ++ map (fun i => (Server, i)) (one_sided merged si ci).

(* permitted_subclasses: None when neither side has the attribute, else the union of both lists
   by merge_preserve_order (as repaired by "fix: merging two versions of a class keeps its record
   components and permitted subclasses") *)
Definition merge_perm (c s : option (list str)) : option (list str) :=
  match c, s with
  | None, None => None
  | _, _ => Some (mpo str_eqb (unwrap_or_default c) (unwrap_or_default s))
  end.

Definition class_merge (c s : aclass) : out aclass :=
  let itfs := mpo str_eqb (c_itfs c) (c_itfs s) in
  dO version <- from_client N.eqb (c_version c) (c_version s);
  dO access <- from_client N.eqb (c_access c) (c_access s);
  dO name <- merge_eq str_eqb (c_name c) (c_name s);
  dO super <- merge_eq (oeqb str_eqb) (c_super c) (c_super s);
  dO fields <- merge_members field_rest_table (c_fields c) (c_fields s);
  dO methods <- merge_members method_rest_table (c_methods c) (c_methods s);
  dO depr <- from_client Bool.eqb (c_depr c) (c_depr s);
  dO synth <- from_client Bool.eqb (c_synth c) (c_synth s);
  dO inner <- merge_inner (unwrap_or_default (c_inner c)) (unwrap_or_default (c_inner s));
  dO rest <- merge_rest class_rest_table (c_rest c) (c_rest s);
  let marks := itf_marks itfs (c_itfs c) (c_itfs s) in
  OK (mkClass version access name super itfs fields methods depr synth
        (match inner with [] => None | _ => Some inner end)
        (c_vis c)
        (match marks with [] => c_inv c | _ => c_inv c ++ [AItfs marks] end)
        (merge_perm (c_perm c) (c_perm s)) (c_rec c) rest).

(* visit_sided_annotation: class-level mark in RuntimeVisibleAnnotations *)
Definition mark_class (c : aclass) (s : side) : aclass :=
  mkClass (c_version c) (c_access c) (c_name c) (c_super c) (c_itfs c) (c_fields c) (c_methods c)
    (c_depr c) (c_synth c) (c_inner c) (c_vis c ++ [AEnv s]) (c_inv c) (c_perm c) (c_rec c) (c_rest c).

(* ---------------------------------------------------------------------------------------- *)
(** * Part 3: jars *)

Inductive crepr := RVec | RParsed.      (* VecClass / ClassRepr::Vec  vs  ClassRepr::Parsed *)

Inductive content :=
| Dir
| Other (data : list N)
| Class (repr : crepr) (raw : N) (parsed : option aclass).
  (* raw: identity of the byte string `write()` yields (equal numbers = equal bytes);
     parsed: what `read()` yields, None when it fails *)

Record entry := mkEntry { e_name : str; e_attr : N; e_content : content }.
Definition jar := list entry.

Inductive ocontent :=
| ODir
| OOther (data : list N)
| OVec (raw : N)                        (* ClassRepr::Vec: these very bytes *)
| OParsed (c : aclass).                 (* ClassRepr::Parsed *)
Record oentry := mkOEntry { o_name : str; o_attr : N; o_content : ocontent }.

Inductive comb := CC (c : entry) | CS (s : entry) | CB (c s : entry).

(* keys.entry(key): Occupied => combine (unreachable!() when the same side comes twice),
   Vacant => insert at the end *)
Fixpoint add_key (k : str) (sd : side) (e : entry) (t : list (str * comb)) : out (list (str * comb)) :=
  match t with
  | [] => OK [(k, match sd with Client => CC e | Server => CS e end)]
  | (k', cb) :: t' =>
      if str_eqb k k' then
        match sd, cb with
        | Client, CS s => OK ((k', CB e s) :: t')
        | Server, CC c => OK ((k', CB c e) :: t')
        | _, _ => Panic
        end
      else dO t'' <- add_key k sd e t'; OK ((k', cb) :: t'')
  end.

Fixpoint add_keys (sd : side) (es : list entry) (t : list (str * comb)) : out (list (str * comb)) :=
  match es with
  | [] => OK t
  | e :: es' => dO t' <- add_key (e_name e) sd e t; add_keys sd es' t'
  end.

Definition key_table (client server : jar) : out (list (str * comb)) :=
  dO t <- add_keys Client client []; add_keys Server server t.

(* string constants of merge.rs: the manifest's name and replacement bytes and the two skip rules are
   regenerated from the source (C13/MergeGen.v); the four below are only used to build examples and to
   state what the regenerated rules are today (Theory3.rules_today) *)
Definition s_manifest : str := g_manifest_name.                                              (* META-INF/MANIFEST.MF *)
Definition s_metainf : str := [77;69;84;65;45;73;78;70;47].                                  (* META-INF/ *)
Definition s_SF : str := [46;83;70].                                                         (* .SF *)
Definition s_RSA : str := [46;82;83;65].                                                     (* .RSA *)
Definition s_DSA : str := [46;68;83;65].                                                     (* .DSA *)
Definition s_EC : str := [46;69;67].                                                         (* .EC *)
Definition s_class : str := [46;99;108;97;115;115].                                          (* .class *)
Definition s_minecraft : str := [110;101;116;47;109;105;110;101;99;114;97;102;116;47].       (* net/minecraft/ *)
Definition manifest_bytes : list N := g_manifest_bytes.

(* the two skip rules, as the code decides them: the regenerated predicate trees evaluated on the name *)
Definition is_signature (name : str) : bool := peval g_signature_rule name.
Definition is_server_library (name : str) : bool := peval g_library_rule name.

(* impl JarEntry for ZipFile (zip_impls.rs to_jar_entry_enum): what kind of entry a zip archive's
   entry is, decided by its name alone — zip's is_dir (last character '/' or '\'), then `.class` *)
Inductive ekind := KDir | KClass | KOther.
Definition zip_kind (name : str) : ekind :=
  match rev name with
  | c :: _ => if N.eqb c 47 || N.eqb c 92 then KDir else if ends_with s_class name then KClass else KOther
  | [] => if ends_with s_class name then KClass else KOther
  end.

(* what the entry loop does with a name, given which jars have it: the verdict is a function of the
   name and the two membership bits alone *)
Inductive verdict := VManifest | VSignature | VLibrary | VKept.
Definition name_verdict (name : str) (in_client in_server : bool) : verdict :=
  if str_eqb name s_manifest then VManifest
  else if is_signature name then VSignature
  else if negb in_client && in_server && is_server_library name then VLibrary
  else VKept.

(* an entry only one side has: try_map_both(visit_sided_annotation, get_data_owned) *)
Definition one_side (e : entry) (sd : side) : out ocontent :=
  match e_content e with
  | Dir => OK ODir
  | Other d => OK (OOther d)
  | Class _ _ (Some c) => OK (OParsed (mark_class c sd))
  | Class _ _ None => Fail
  end.

Definition both_sides (c s : entry) : out ocontent :=
  match e_content c, e_content s with
  | Dir, Dir => OK ODir
  | Class rc rawc pc, Class _ raws ps =>
      if N.eqb rawc raws then
        match rc, pc with
        | RVec, _ => OK (OVec rawc)                  (* client.into_class_repr() *)
        | RParsed, Some p => OK (OParsed p)
        | RParsed, None => Fail                      (* cannot happen: a parsed class is parsed *)
        end
      else
        match pc, ps with
        | Some p, Some q => dO m <- class_merge p q; OK (OParsed m)
        | _, _ => Fail
        end
  | Other dc, Other _ => OK (OOther dc)
  | _, _ => Fail                                     (* bail!("types don't match") *)
  end.

Definition comb_attr (cb : comb) : N :=
  match cb with CC c => e_attr c | CS s => e_attr s | CB c _ => e_attr c end.

(* one turn of the loop over the key table: None = `continue` *)
Definition merge_entry (name : str) (cb : comb) : out (option oentry) :=
  if str_eqb name s_manifest then OK (Some (mkOEntry name (comb_attr cb) (OOther manifest_bytes)))
  else if is_signature name then OK None
  else
    match cb with
    | CC c => dO x <- one_side c Client; OK (Some (mkOEntry name (e_attr c) x))
    | CS s =>
        if is_server_library name then OK None
        else dO x <- one_side s Server; OK (Some (mkOEntry name (e_attr s) x))
    | CB c s => dO x <- both_sides c s; OK (Some (mkOEntry name (e_attr c) x))
    end.

Fixpoint merge_entries (t : list (str * comb)) : out (list oentry) :=
  match t with
  | [] => OK []
  | (name, cb) :: t' =>
      dO x <- merge_entry name cb;
      dO rest <- merge_entries t';
      OK (match x with Some e => e :: rest | None => rest end)
  end.

Definition merge_jar (client server : jar) : out (list oentry) :=
  dO t <- key_table client server; merge_entries t.
