(* C13 — the side marks as the annotation TREES dukebox/src/merge.rs builds (round 7).

   Model.v keeps annotations abstract ([AEnv s], [AItfs l], [AOther id]); which duke tree stands behind
   [AEnv] / [AItfs] was decided by the harness' projection (classes.rs proj_ann) alone.  Here the trees
   themselves are modelled:
   - [sided_annotation]  = fn sided_annotation(side) (pushed by visit_sided_annotation on a one-sided class
                           and by the `side` closures of merge_slice on a one-sided field / method),
   - [make_annotation]   = the local fn make_annotation(i, side) inside class_merger_merge,
   - [itfs_annotation]   = the `Annotation { annotation_type: ENVIRONMENT_INTERFACES, .. ArrayType(array) }`
                           literal pushed onto runtime_invisible_annotations,
   - [from_class]        = FieldDescriptor::from_class / from_obj_class: "L" + name + ";",
   and the reader [read_ann] (what a consumer of the marks — fabric-loader's EnvironmentStrippingData, and
   the harness' proj_ann — takes a tree to say).  Definitions only; proofs in TheoryAnn.v. *)
From FB Require Export C13.Model.

(* duke::tree::annotation::ElementValue / Annotation *)
Inductive ev :=
| VObject (id : N)                              (* ElementValue::Object: a constant, opaque *)
| VEnum (ty c : str)                            (* Enum { type_name, const_name } *)
| VClass (d : str)                              (* Class(ReturnDescriptor) *)
| VAnn (ty : str) (pairs : list (str * ev))     (* AnnotationInterface(Annotation) *)
| VArr (l : list ev).                           (* ArrayType(Vec<ElementValue>) *)

Definition atree := (str * list (str * ev))%type.   (* Annotation { annotation_type, element_value_pairs } *)

(* the string constants of merge.rs *)
Definition s_pkg : str := [110;101;116;47;102;97;98;114;105;99;109;99;47;97;112;105;47].          (* net/fabricmc/api/ *)
Definition n_environment : str := s_pkg ++ [69;110;118;105;114;111;110;109;101;110;116].            (* ..Environment *)
Definition n_env_itf : str := n_environment ++ [73;110;116;101;114;102;97;99;101].                 (* ..EnvironmentInterface *)
Definition n_env_itfs : str := n_env_itf ++ [115].                                                  (* ..EnvironmentInterfaces *)
Definition n_env_type : str := s_pkg ++ [69;110;118;84;121;112;101].                                (* ..EnvType *)
Definition s_value : str := [118;97;108;117;101].                                                   (* value *)
Definition s_itf : str := [105;116;102].                                                            (* itf *)
Definition s_CLIENT : str := [67;76;73;69;78;84].
Definition s_SERVER : str := [83;69;82;86;69;82].

(* FieldDescriptor::from_class(name) / from_obj_class(name): format!("L{name};") *)
Definition from_class (name : str) : str := 76 :: name ++ [59].

Definition side_const (s : side) : str := match s with Client => s_CLIENT | Server => s_SERVER end.

(* ElementValuePair { name: "value", value: Enum { type_name: from_class(ENV_TYPE), const_name } } *)
Definition side_pair (s : side) : str * ev := (s_value, VEnum (from_class n_env_type) (side_const s)).

Definition sided_annotation (s : side) : atree := (from_class n_environment, [side_pair s]).

Definition make_annotation (i : str) (s : side) : ev :=
  VAnn (from_class n_env_itf) [side_pair s; (s_itf, VClass (from_class i))].

Definition itfs_annotation (marks : list (side * str)) : atree :=
  (from_class n_env_itfs, [(s_value, VArr (map (fun p => make_annotation (snd p) (fst p)) marks))]).

(* what class_merger_merge pushes for the interface lists [a] (client) and [b] (server): nothing when no
   interface is one-sided, else the EnvironmentInterfaces tree over ci ++ si *)
Definition pushed_itfs_tree (a b : list str) : option atree :=
  match itf_marks (mpo str_eqb a b) a b with
  | [] => None
  | marks => Some (itfs_annotation marks)
  end.

(* -------------------------------------------------------------------------------------------------- *)
(* the reader *)

Definition read_side (c : str) : option side :=
  if str_eqb c s_CLIENT then Some Client else if str_eqb c s_SERVER then Some Server else None.

Definition read_side_pair (p : str * ev) : option side :=
  match p with
  | (n, VEnum ty c) => if str_eqb n s_value && str_eqb ty (from_class n_env_type) then read_side c else None
  | _ => None
  end.

Definition read_env (t : atree) : option side :=
  match t with
  | (ty, [p]) => if str_eqb ty (from_class n_environment) then read_side_pair p else None
  | _ => None
  end.

(* "L<name>;" -> name *)
Definition strip_L (d : str) : option str :=
  match d with
  | x :: r =>
      if N.eqb x 76 then
        match rev r with
        | y :: q => if N.eqb y 59 then Some (rev q) else None
        | [] => None
        end
      else None
  | [] => None
  end.

Definition read_itf (e : ev) : option (side * str) :=
  match e with
  | VAnn ty [p1; (n2, VClass d)] =>
      if str_eqb ty (from_class n_env_itf) && str_eqb n2 s_itf then
        match read_side_pair p1, strip_L d with
        | Some s, Some i => Some (s, i)
        | _, _ => None
        end
      else None
  | _ => None
  end.

Fixpoint read_all (l : list ev) : option (list (side * str)) :=
  match l with
  | [] => Some []
  | e :: l' =>
      match read_itf e, read_all l' with
      | Some m, Some ms => Some (m :: ms)
      | _, _ => None
      end
  end.

Definition read_itfs (t : atree) : option (list (side * str)) :=
  match t with
  | (ty, [(n, VArr l)]) => if str_eqb ty (from_class n_env_itfs) && str_eqb n s_value then read_all l else None
  | _ => None
  end.

(* the abstraction the rest of the model works with (classes.rs proj_ann; [other] = the interned
   identity of any other annotation) *)
Definition read_ann (other : N) (t : atree) : ann :=
  match read_env t with
  | Some s => AEnv s
  | None => match read_itfs t with Some l => AItfs l | None => AOther other end
  end.

(* and back: the tree an abstract mark stands for *)
Definition tree_of (a : ann) : option atree :=
  match a with
  | AEnv s => Some (sided_annotation s)
  | AItfs l => Some (itfs_annotation l)
  | AOther _ => None
  end.

(* -------------------------------------------------------------------------------------------------- *)
(* equality of trees (PartialEq), for the correspondence run *)
Fixpoint ev_eqb (a b : ev) {struct a} : bool :=
  match a, b with
  | VObject i, VObject j => N.eqb i j
  | VEnum t c, VEnum t' c' => str_eqb t t' && str_eqb c c'
  | VClass d, VClass d' => str_eqb d d'
  | VAnn t p, VAnn t' p' =>
      str_eqb t t' &&
      (fix go (p : list (str * ev)) (p' : list (str * ev)) {struct p} : bool :=
         match p, p' with
         | [], [] => true
         | (n, v) :: r, (n', v') :: r' => str_eqb n n' && ev_eqb v v' && go r r'
         | _, _ => false
         end) p p'
  | VArr l, VArr l' =>
      (fix go (l : list ev) (l' : list ev) {struct l} : bool :=
         match l, l' with
         | [], [] => true
         | x :: r, x' :: r' => ev_eqb x x' && go r r'
         | _, _ => false
         end) l l'
  | _, _ => false
  end.

Definition atree_eqb (a b : atree) : bool := ev_eqb (VAnn (fst a) (snd a)) (VAnn (fst b) (snd b)).
