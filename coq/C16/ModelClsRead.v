(* C16 model, WHOLE class reader, part 4: class_reader::read — header, the skip over the members, the
   attributes of the class, the seek back to the members (with_pos), fields, methods, record components —
   and duke::read_class = read with the tree-building visitor.
   Definitions only. *)
From FB Require Export C16.ModelClsCode.
From FB Require Import C18.Model.
Open Scope N_scope.

Definition class_magic : N := 3405691582.           (* 0xCAFEBABE *)
(* `version > Version::V23`, Version ordered by (major, minor) *)
Definition version_too_new (major minor : N) : bool := (67 <? major) || ((major =? 67) && (0 <? minor)).

(* the annotation arms shared by the four levels; [lvl_t]: which TargetInfoRead impl *)
Definition annotation_arms (v : vis) (p : pool) (level lvl_t : N) (name : str) (length : N) : option (M unit) :=
  if str_eqb name A_RV_ANNOTATIONS || str_eqb name A_RI_ANNOTATIONS then
    Some (if negb (v_interest v level name) then skipM length else read_annotations p)
  else if str_eqb name A_RV_TYPE_ANNOTATIONS || str_eqb name A_RI_TYPE_ANNOTATIONS then
    Some (if negb (v_interest v level name) then skipM length else read_type_annotations lvl_t p)
  else None.

(* an arm `name == X && !interests.x => skip, name == X => { parse; visitor.visit_x(..)? }` whose visitor
   method stores into an Option *)
Definition once_arm (v : vis) (level : N) (name : str) (length : N) (seen : list str) (parse : M unit) : M (list str) :=
  if negb (v_interest v level name) then skipM length ;; ret seen
  else parse ;; lift (once (v_once v) name seen).

(* ---- record components ---- *)
Definition record_attr (v : vis) (p : pool) (seen : list str) : M (list str) :=
  let* ni := rd_u16 in let* name := lift (get_utf8 p ni) in let* length := rd_u32 in
  if str_eqb name A_SIGNATURE then once_arm v 4 name length seen (rd_idx (as_unit (get_utf8 p)))
  else match annotation_arms v p 4 1 name length with
       | Some m => m ;; ret seen
       | None => if negb (v_interest v 4 name) then skipM length ;; ret seen else let* _ := rd_vec length in ret seen
       end.
Definition read_record_component (v : vis) (p : pool) : M unit :=
  rd_idx (as_unit (get_utf8 p)) ;;                      (* RecordName: always valid *)
  rd_idx (as_unit (get_utf8 p)) ;;
  if v_record_break v then skip_attributes
  else let* n := rd_u16 in let* _ := iterN n (record_attr v p) [] in ret tt.

(* ---- fields ---- *)
Definition field_attr (v : vis) (p : pool) (seen : list str) : M (list str) :=
  let* ni := rd_u16 in let* name := lift (get_utf8 p ni) in let* length := rd_u32 in
  if str_eqb name A_DEPRECATED || str_eqb name A_SYNTHETIC then ret seen
  else if str_eqb name A_CONSTANT_VALUE then once_arm v 1 name length seen (rd_idx (get_constant_value p))
  else if str_eqb name A_SIGNATURE then once_arm v 1 name length seen (rd_idx (as_unit (get_utf8 p)))
  else match annotation_arms v p 1 1 name length with
       | Some m => m ;; ret seen
       | None => if negb (v_interest v 1 name) then skipM length ;; ret seen else let* _ := rd_vec length in ret seen
       end.
Definition read_field (v : vis) (p : pool) : M unit :=
  let* _access := rd_u16 in
  let* n := rd_u16 in let* name := lift (get_utf8 p n) in let* _ := lift (checked is_valid_unqualified_name name) in
  rd_idx (as_unit (get_utf8 p)) ;;
  if v_field_break v then skip_attributes
  else let* n := rd_u16 in let* _ := iterN n (field_attr v p) [] in ret tt.

(* ---- methods ---- *)
Definition method_attr (v : vis) (p : pool) (bsms : bsm_table) (seen : list str) : M (list str) :=
  let* ni := rd_u16 in let* name := lift (get_utf8 p ni) in let* length := rd_u32 in
  if str_eqb name A_DEPRECATED || str_eqb name A_SYNTHETIC then ret seen
  else if str_eqb name A_CODE then
    if negb (v_interest v 2 name) then skipM length ;; ret seen
    else if v_code_declined v then skipM length ;; ret seen            (* visit_code() answered None *)
    else read_code v p bsms ;; lift (once (v_once v) name seen)        (* finish_code *)
  else if str_eqb name A_EXCEPTIONS then once_arm v 2 name length seen (read_vec_ rd_u16 (rd_idx (as_unit (get_class p))))
  else if str_eqb name A_SIGNATURE then once_arm v 2 name length seen (rd_idx (as_unit (get_utf8 p)))
  else if str_eqb name A_RV_PARAMETER_ANNOTATIONS || str_eqb name A_RI_PARAMETER_ANNOTATIONS then skipM length ;; ret seen
  else if str_eqb name A_ANNOTATION_DEFAULT then
    if negb (v_interest v 2 name) then skipM length ;; ret seen else read_element_value_unnamed p ;; ret seen
  else if str_eqb name A_METHOD_PARAMETERS then
    once_arm v 2 name length seen
      (read_vec_ rd_u8 (let* i := rd_u16 in
                        (if i =? 0 then ret tt
                         else let* s := lift (get_utf8 p i) in let* _ := lift (checked is_valid_unqualified_name s) in ret tt) ;;
                        let* _flags := rd_u16 in ret tt))
  else match annotation_arms v p 2 2 name length with
       | Some m => m ;; ret seen
       | None => if negb (v_interest v 2 name) then skipM length ;; ret seen else let* _ := rd_vec length in ret seen
       end.
Definition read_method (v : vis) (p : pool) (bsms : bsm_table) : M unit :=
  let* _access := rd_u16 in
  let* n := rd_u16 in let* name := lift (get_utf8 p n) in let* _ := lift (checked is_valid_method_name name) in
  rd_idx (as_unit (get_utf8 p)) ;;
  if v_method_break v then skip_attributes
  else let* n := rd_u16 in let* _ := iterN n (method_attr v p bsms) [] in ret tt.

(* ---- the attributes of the class ---- *)
Record clstate := mkCl { cl_seen : list str; cl_bsms : bsm_table }.

Definition class_attr (v : vis) (p : pool) (s : clstate) : M clstate :=
  let seen := cl_seen s in
  let upd (m : M (list str)) : M clstate := let* seen' := m in ret (mkCl seen' (cl_bsms s)) in
  let* ni := rd_u16 in let* name := lift (get_utf8 p ni) in let* length := rd_u32 in
  if str_eqb name A_DEPRECATED || str_eqb name A_SYNTHETIC then ret s
  else if str_eqb name A_INNER_CLASSES then
    upd (once_arm v 0 name length seen
      (read_vec_ rd_u16 (rd_idx (as_unit (get_class p)) ;; rd_idx (optional (get_class p)) ;;
                         rd_idx (optional (get_utf8 p)) ;; let* _flags := rd_u16 in ret tt)))
  else if str_eqb name A_ENCLOSING_METHOD then
    upd (once_arm v 0 name length seen (rd_idx (as_unit (get_class p)) ;; rd_idx (optional (get_method_nt p))))
  else if str_eqb name A_SIGNATURE || str_eqb name A_SOURCE_FILE then
    upd (once_arm v 0 name length seen (rd_idx (as_unit (get_utf8 p))))
  else if str_eqb name A_SOURCE_DEBUG_EXTENSION then
    upd (once_arm v 0 name length seen
           (let* bytes := rd_vec length in match Mutf8.mutf8_dec bytes with Ok _ => ret tt | Err => failM end))
  else if str_eqb name A_MODULE then upd (once_arm v 0 name length seen (read_module p))
  else if str_eqb name A_MODULE_PACKAGES then
    upd (once_arm v 0 name length seen (read_vec_ rd_u16 (rd_idx (as_unit (get_package p)))))
  else if str_eqb name A_MODULE_MAIN_CLASS || str_eqb name A_NEST_HOST then
    upd (once_arm v 0 name length seen (rd_idx (as_unit (get_class p))))
  else if str_eqb name A_NEST_MEMBERS || str_eqb name A_PERMITTED_SUBCLASSES then
    upd (once_arm v 0 name length seen (read_vec_ rd_u16 (rd_idx (as_unit (get_class p)))))
  else if str_eqb name A_RECORD then
    if negb (v_interest v 0 name) then skipM length ;; ret s else
    (* `if had_record_attribute { bail!(..) }`: the reader's own flag *)
    let* seen' := lift (once true name seen) in
    let* n := rd_u16 in
    iterN_ n (read_record_component v p) ;; ret (mkCl seen' (cl_bsms s))
  else if str_eqb name A_BOOTSTRAP_METHODS then
    let* ms := read_vec rd_u16 (fun acc =>
        rd_idx (get_method_handle p) ;;
        let* args := read_vec rd_u16 (fun a => let* x := rd_u16 in ret (x :: a)) [] in
        ret (rev' args :: acc)) [] in
    match cl_bsms s with                                    (* bootstrap_methods.insert_if_empty(methods) *)
    | Some _ => failM
    | None => ret (mkCl seen (Some (rev' ms)))
    end
  else match annotation_arms v p 0 0 name length with
       | Some m => m ;; ret s
       | None => if negb (v_interest v 0 name) then skipM length ;; ret s else let* _ := rd_vec length in ret s
       end.

(* ---- class_reader::read on a Cursor over [data] ---- *)
Definition skip_members : M unit :=
  let* n := rd_u16 in iterN_ n (skipM 6 ;; skip_attributes).

Definition read_header : M pool :=
  let* magic := rd_u32 in
  if negb (magic =? class_magic) then failM else
  let* minor := rd_u16 in let* major := rd_u16 in
  if version_too_new major minor then failM else
  let* p := read_pool in
  let* _access := rd_u16 in
  rd_idx (as_unit (get_obj_class p)) ;;
  rd_idx (optional (get_obj_class p)) ;;
  read_vec_ rd_u16 (rd_idx (as_unit (get_obj_class p))) ;;
  ret p.

Definition read_members (v : vis) (p : pool) (bsms : bsm_table) : M unit :=
  let* nf := rd_u16 in
  iterN_ nf (if v_fields v then read_field v p else skipM 6 ;; skip_attributes) ;;
  let* nm := rd_u16 in
  iterN_ nm (if v_methods v then read_method v p bsms else skipM 6 ;; skip_attributes).

Definition read_class_M (v : vis) (data : list N) : M unit :=
  let* p := read_header in
  let* fields_start := markerM in
  skip_members ;; skip_members ;;
  if v_class_break v then skip_attributes else
  let* n := rd_u16 in
  let* s := iterN n (class_attr v p) (mkCl [] None) in
  with_pos data fields_start (read_members v p (cl_bsms s)).

Definition run_M {A} (m : M A) (data : list N) : out unit :=
  match m (mkRd 0 data) with Done _ => Done tt | Fail => Fail | Panic => Panic end.

Definition read_class_with (v : vis) (bytes : list N) : out unit := run_M (read_class_M v bytes) bytes.
(* duke::read_class(&mut Cursor::new(bytes)) *)
Definition read_class_out (bytes : list N) : out unit := read_class_with tree_vis bytes.

(* the other visitors the harness runs: `()` of visitor/implementations/unit_tuple.rs (all interests, refuses nothing);
   a SimpleClassVisitor that declines every field and method (no interests but fields / methods); one that visits
   the methods with interest in Code only and declines the code; a class visitor with interest in Record only that
   declines the components and has no interest in fields and methods; a visitor that declines the class *)
Definition unit_vis : vis := mkVis (fun _ _ => true) true true false false false false false false.
Definition skim_vis : vis := mkVis (fun _ _ => false) true true false true true true false false.
Definition decline_code_vis : vis := mkVis (fun l n => (l =? 2) && str_eqb n A_CODE) true true false true false true true false.
Definition no_members_vis : vis := mkVis (fun l n => (l =? 0) && str_eqb n A_RECORD) false false false false false true false false.
Definition decline_vis : vis := mkVis (fun _ _ => false) true true true true true true false false.

(* the steps, each a prefix of the above (for the per-step theorems) *)
Definition header_out (bytes : list N) : out unit := run_M read_header bytes.
Definition members_skipped_out (bytes : list N) : out unit :=
  run_M (let* _ := read_header in skip_members ;; skip_members) bytes.
