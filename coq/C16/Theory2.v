(* C16 theory, part 2: the first pass of read_code over the bytecode — cursor, operand skipping,
   branch targets, switches — never panics (after the fixes), for every byte string. *)
From FB Require Import C16.Model.
From Coq Require Import Lia.

Arguments N.add : simpl never.
Arguments N.mul : simpl never.
Arguments N.sub : simpl never.
Arguments N.leb : simpl never.
Arguments N.ltb : simpl never.
Arguments N.eqb : simpl never.

Definition clen (c : cur) : nat := length (rest c).

(* ---------------------------------------------------------------- primitives *)

Lemma read_n_no_panic k c : read_n k c <> Panic.
Proof. unfold read_n. destruct ((0 <? over c) || (length (rest c) <? k)%nat); discriminate. Qed.

Lemma read_n_done k c b c' :
  read_n k c = Done (b, c') -> over c' = 0 /\ (clen c' + k = clen c)%nat.
Proof.
  unfold read_n, clen. destruct (0 <? over c); cbn [orb]; [discriminate|].
  destruct (Nat.ltb_spec (length (rest c)) k) as [Hlt|Hge]; [discriminate|].
  intros [= <- <-]. cbn [over rest]. split; [reflexivity|]. rewrite skipn_length. lia.
Qed.

Lemma read_u8_no_panic c : read_u8 c <> Panic.
Proof. unfold read_u8. destruct (read_n 1 c) as [[b c']| |] eqn:E; cbn [obind]; try discriminate. exfalso. eapply read_n_no_panic; eauto. Qed.
Lemma read_u8_done c x c' : read_u8 c = Done (x, c') -> over c' = 0 /\ (clen c' + 1 = clen c)%nat.
Proof. unfold read_u8. destruct (read_n 1 c) as [[b c1]| |] eqn:E; cbn [obind]; try discriminate. intros [= _ <-]. eapply read_n_done; eauto. Qed.

Lemma read_i16_no_panic c : read_i16 c <> Panic.
Proof. unfold read_i16. destruct (read_n 2 c) as [[b c']| |] eqn:E; cbn [obind]; try discriminate. exfalso. eapply read_n_no_panic; eauto. Qed.
Lemma read_i16_done c x c' : read_i16 c = Done (x, c') -> over c' = 0 /\ (clen c' + 2 = clen c)%nat.
Proof. unfold read_i16. destruct (read_n 2 c) as [[b c1]| |] eqn:E; cbn [obind]; try discriminate. intros [= _ <-]. eapply read_n_done; eauto. Qed.

Lemma read_i32_no_panic c : read_i32 c <> Panic.
Proof. unfold read_i32. destruct (read_n 4 c) as [[b c']| |] eqn:E; cbn [obind]; try discriminate. exfalso. eapply read_n_no_panic; eauto. Qed.
Lemma read_i32_done c x c' : read_i32 c = Done (x, c') -> over c' = 0 /\ (clen c' + 4 = clen c)%nat.
Proof. unfold read_i32. destruct (read_n 4 c) as [[b c1]| |] eqn:E; cbn [obind]; try discriminate. intros [= _ <-]. eapply read_n_done; eauto. Qed.

Lemma branch_target_no_panic cl p b : branch_target cl p b <> Panic.
Proof.
  unfold branch_target. destruct ((Z.of_N p + b <? 0)%Z || (Z.of_N u16_max <? Z.of_N p + b)%Z); [discriminate|].
  unfold get_or_create. destruct (cl <=? _); discriminate.
Qed.

Lemma branch16_no_panic cl p c : branch16 cl p c <> Panic.
Proof.
  unfold branch16. destruct (read_i16 c) as [[b c']| |] eqn:E; cbn [obind]; try discriminate.
  - destruct (branch_target cl p b) as [[]| |] eqn:Eb; cbn [obind]; try discriminate. exfalso. eapply branch_target_no_panic; eauto.
  - exfalso. eapply read_i16_no_panic; eauto.
Qed.
Lemma branch16_done cl p c c' : branch16 cl p c = Done c' -> over c' = 0 /\ (clen c' + 2 = clen c)%nat.
Proof.
  unfold branch16. destruct (read_i16 c) as [[b c1]| |] eqn:E; cbn [obind]; try discriminate.
  destruct (branch_target cl p b) as [[]| |]; cbn [obind]; try discriminate. intros [= <-]. eapply read_i16_done; eauto.
Qed.
Lemma branch32_no_panic cl p c : branch32 cl p c <> Panic.
Proof.
  unfold branch32. destruct (read_i32 c) as [[b c']| |] eqn:E; cbn [obind]; try discriminate.
  - destruct (branch_target cl p b) as [[]| |] eqn:Eb; cbn [obind]; try discriminate. exfalso. eapply branch_target_no_panic; eauto.
  - exfalso. eapply read_i32_no_panic; eauto.
Qed.
Lemma branch32_done cl p c c' : branch32 cl p c = Done c' -> over c' = 0 /\ (clen c' + 4 = clen c)%nat.
Proof.
  unfold branch32. destruct (read_i32 c) as [[b c1]| |] eqn:E; cbn [obind]; try discriminate.
  destruct (branch_target cl p b) as [[]| |]; cbn [obind]; try discriminate. intros [= <-]. eapply read_i32_done; eauto.
Qed.

Lemma align4_no_panic c : align4 c <> Panic.
Proof.
  unfold align4. match goal with |- context [read_n ?k c] => destruct (read_n k c) as [[b c']| |] eqn:E end; cbn [obind]; try discriminate.
  exfalso. eapply read_n_no_panic; eauto.
Qed.
Lemma align4_done c c' : align4 c = Done c' -> over c' = 0 /\ (clen c' <= clen c)%nat.
Proof.
  unfold align4. match goal with |- context [read_n ?k c] => destruct (read_n k c) as [[b c1]| |] eqn:E end; cbn [obind]; try discriminate.
  intros [= <-]. apply read_n_done in E. destruct E as [E1 E2]. split; [exact E1|lia].
Qed.

Lemma skip_len k c : (clen (skip k c) <= clen c)%nat.
Proof.
  unfold skip, clen. destruct (0 <? over c); cbn [rest length]; [lia|].
  destruct (Nat.leb_spec k (length (rest c))); cbn [rest length]; [rewrite skipn_length|]; lia.
Qed.

(* ---------------------------------------------------------------- switch entries *)

Lemma switch_entries_ok : forall fuel wk cl p n c,
  (clen c < fuel)%nat ->
  switch_entries fuel wk cl p n c <> Panic
  /\ forall c', switch_entries fuel wk cl p n c = Done c' -> (over c = 0 -> over c' = 0) /\ (clen c' <= clen c)%nat.
Proof.
  induction fuel as [|f IH]; intros wk cl p n c Hf; [exfalso; lia|].
  cbn [switch_entries]. destruct (n =? 0).
  - split; [discriminate|]. intros c' [= <-]. split; [auto|lia].
  - assert (Hc1 : (if wk then (let! (_, c1) := read_i32 c in Done c1) else Done c) <> Panic
                  /\ forall c1, (if wk then (let! (_, c1) := read_i32 c in Done c1) else Done c) = Done c1 -> (clen c1 <= clen c)%nat).
    { destruct wk.
      - destruct (read_i32 c) as [[k c1]| |] eqn:E; cbn [obind].
        + split; [discriminate|]. intros c1' [= <-]. apply read_i32_done in E. lia.
        + split; [discriminate|discriminate].
        + exfalso. eapply read_i32_no_panic; eauto.
      - split; [discriminate|]. intros c1 [= <-]. lia. }
    destruct Hc1 as [Hnp Hlen].
    destruct (if wk then (let! (_, c1) := read_i32 c in Done c1) else Done c) as [c1| |] eqn:E1; cbn [obind].
    + specialize (Hlen c1 eq_refl).
      destruct (branch32 cl p c1) as [c2| |] eqn:E2; cbn [obind].
      * apply branch32_done in E2. destruct E2 as [Ho2 Hl2].
        assert (Hf2 : (clen c2 < f)%nat) by lia.
        destruct (IH wk cl p (n - 1) c2 Hf2) as [IHn IHd].
        split; [exact IHn|]. intros c' Hd. destruct (IHd c' Hd) as [Ho Hl]. split; [intros _; exact (Ho Ho2)|lia].
      * split; [discriminate|discriminate].
      * exfalso. eapply branch32_no_panic; eauto.
    + split; [discriminate|discriminate].
    + congruence.
Qed.

(* ---------------------------------------------------------------- one instruction *)

Lemma insn_operands_ok count cl p op c1 :
  (forall lo hi, count lo hi <> Panic) ->
  insn_operands count cl p op c1 <> Panic
  /\ forall c2 e, insn_operands count cl p op c1 = Done (c2, e) -> (clen c2 <= clen c1)%nat.
Proof.
  intros Hcount. unfold insn_operands.
  destruct (plain_len op) as [k|].
  { destruct (op =? 188).
    - destruct (rest c1) as [|a r] eqn:Er.
      + split; [discriminate|]. intros c2 e [= <- _]. apply skip_len.
      + destruct (in_range 4 11 a).
        * split; [discriminate|]. intros c2 e [= <- _]. apply skip_len.
        * split; discriminate.
    - split; [discriminate|]. intros c2 e [= <- _]. apply skip_len. }
  destruct (op =? 196).
  { destruct (read_u8 c1) as [[w c2]| |] eqn:E; cbn [obind].
    - apply read_u8_done in E. destruct E as [_ El].
      destruct (is_wide_load_store w).
      + split; [discriminate|]. intros c3 e [= <- _]. pose proof (skip_len 2 c2). lia.
      + destruct (w =? 132).
        * split; [discriminate|]. intros c3 e [= <- _]. pose proof (skip_len 4 c2). lia.
        * split; discriminate.
    - split; discriminate.
    - exfalso. eapply read_u8_no_panic; eauto. }
  destruct (in_range 153 168 op || (op =? 198) || (op =? 199)).
  { destruct (branch16 cl p c1) as [c2| |] eqn:E; cbn [obind].
    - apply branch16_done in E. split; [discriminate|]. intros c3 e [= <- _]. lia.
    - split; discriminate.
    - exfalso. eapply branch16_no_panic; eauto. }
  destruct ((op =? 200) || (op =? 201)).
  { destruct (branch32 cl p c1) as [c2| |] eqn:E; cbn [obind].
    - apply branch32_done in E. split; [discriminate|]. intros c3 e [= <- _]. lia.
    - split; discriminate.
    - exfalso. eapply branch32_no_panic; eauto. }
  destruct (op =? 170).
  { destruct (align4 c1) as [c2| |] eqn:E2; cbn [obind]; [|split; discriminate|exfalso; eapply align4_no_panic; eauto].
    apply align4_done in E2. destruct E2 as [_ L2].
    destruct (branch32 cl p c2) as [c3| |] eqn:E3; cbn [obind]; [|split; discriminate|exfalso; eapply branch32_no_panic; eauto].
    apply branch32_done in E3. destruct E3 as [_ L3].
    destruct (read_i32 c3) as [[low c4]| |] eqn:E4; cbn [obind]; [|split; discriminate|exfalso; eapply read_i32_no_panic; eauto].
    apply read_i32_done in E4. destruct E4 as [_ L4].
    destruct (read_i32 c4) as [[high c5]| |] eqn:E5; cbn [obind]; [|split; discriminate|exfalso; eapply read_i32_no_panic; eauto].
    apply read_i32_done in E5. destruct E5 as [O5 L5].
    destruct (high <? low)%Z; [split; discriminate|].
    destruct (count low high) as [n| |] eqn:En; cbn [obind]; [|split; discriminate|exfalso; eapply Hcount; eauto].
    assert (Hf : (clen c5 < S (length (rest c5)))%nat) by (unfold clen; lia).
    destruct (switch_entries_ok (S (length (rest c5))) false cl p n c5 Hf) as [Hn Hd].
    destruct (switch_entries (S (length (rest c5))) false cl p n c5) as [c6| |] eqn:E6; cbn [obind].
    - split; [discriminate|]. intros c7 e [= <- _]. destruct (Hd c6 eq_refl) as [_ L6]. lia.
    - split; discriminate.
    - congruence. }
  destruct (op =? 171).
  { destruct (align4 c1) as [c2| |] eqn:E2; cbn [obind]; [|split; discriminate|exfalso; eapply align4_no_panic; eauto].
    apply align4_done in E2. destruct E2 as [_ L2].
    destruct (branch32 cl p c2) as [c3| |] eqn:E3; cbn [obind]; [|split; discriminate|exfalso; eapply branch32_no_panic; eauto].
    apply branch32_done in E3. destruct E3 as [_ L3].
    destruct (read_i32 c3) as [[n c4]| |] eqn:E4; cbn [obind]; [|split; discriminate|exfalso; eapply read_i32_no_panic; eauto].
    apply read_i32_done in E4. destruct E4 as [O4 L4].
    destruct (n <? 0)%Z; [split; discriminate|].
    assert (Hf : (clen c4 < S (length (rest c4)))%nat) by (unfold clen; lia).
    destruct (switch_entries_ok (S (length (rest c4))) true cl p (Z.to_N n) c4 Hf) as [Hn Hd].
    destruct (switch_entries (S (length (rest c4))) true cl p (Z.to_N n) c4) as [c5| |] eqn:E5; cbn [obind].
    - split; [discriminate|]. intros c6 e [= <- _]. destruct (Hd c5 eq_refl) as [_ L5]. lia.
    - split; discriminate.
    - congruence. }
  split; discriminate.
Qed.

Lemma scan_insn_ok count cl c :
  (forall lo hi, count lo hi <> Panic) ->
  scan_insn true count cl c <> Panic
  /\ forall c' e, scan_insn true count cl c = Done (c', e) -> over c' = 0 /\ (clen c' < clen c)%nat.
Proof.
  intros Hcount. unfold scan_insn.
  destruct (read_u8 c) as [[op c1]| |] eqn:E1; cbn [obind]; [|split; discriminate|exfalso; eapply read_u8_no_panic; eauto].
  apply read_u8_done in E1. destruct E1 as [_ L1].
  destruct (insn_operands_ok count cl (pos c) op c1 Hcount) as [Hn Hd].
  destruct (insn_operands count cl (pos c) op c1) as [[c2 ex]| |] eqn:E2; cbn [obind]; [|split; discriminate|congruence].
  specialize (Hd c2 ex eq_refl). cbn [andb].
  destruct (N.ltb_spec 0 (over c2)) as [Hlt|Hge].
  - split; discriminate.
  - split; [discriminate|]. intros c' e [= <- _]. split; [lia|lia].
Qed.

(* ---------------------------------------------------------------- the loop *)

Lemma scan_loop_ok count :
  (forall lo hi, count lo hi <> Panic) ->
  forall fuel cl c ex, over c = 0 -> (clen c < fuel)%nat -> scan_loop fuel true count cl c ex <> Panic.
Proof.
  intros Hcount. induction fuel as [|f IH]; intros cl c ex Ho Hf; [exfalso; lia|].
  cbn [scan_loop]. rewrite Ho. change (0 <? 0) with false. cbv iota.
  destruct (rest c) as [|b r] eqn:Er; [discriminate|].
  destruct (scan_insn_ok count cl c Hcount) as [Hn Hd].
  destruct (scan_insn true count cl c) as [[c' e]| |] eqn:E; cbn [obind].
  - destruct (Hd c' e eq_refl) as [Ho' Hl']. apply IH; [exact Ho'|lia].
  - discriminate.
  - congruence.
Qed.

Lemma tableswitch_count_no_panic lo hi : tableswitch_count lo hi <> Panic.
Proof. discriminate. Qed.

Theorem scan_no_panic code : scan code <> Panic.
Proof.
  unfold scan, scan_with. destruct ((len_N code =? 0) || (u16_max <? len_N code)); [discriminate|].
  apply scan_loop_ok; [exact tableswitch_count_no_panic|reflexivity|unfold clen; cbn [rest]; lia].
Qed.

(* the i64 computation of the fix cannot overflow and yields at least one entry *)
Theorem tableswitch_count_fits lo hi :
  (i32_min <= lo <= i32_max)%Z -> (i32_min <= hi <= i32_max)%Z -> (lo <= hi)%Z ->
  (1 <= hi - lo + 1 <= 4294967296)%Z.
Proof. unfold i32_min, i32_max. lia. Qed.

(* before the fixes the same scan panics: operand of the last instruction cut off (slice index),
   tableswitch over the whole int range (i32 overflow) *)
Definition scan_unrepaired_witnesses : Prop :=
  scan_unrepaired [0; 16] = Panic
  /\ scan_unrepaired [196; 132; 0] = Panic
  /\ scan_unrepaired [170; 0; 0; 0;  0; 0; 0; 0;  128; 0; 0; 0;  127; 255; 255; 255;  177] = Panic
  /\ scan_unrepaired [170; 0; 0; 0;  0; 0; 0; 0;  0; 0; 0; 0;  127; 255; 255; 255;  177] = Panic
  /\ scan [0; 16] = Fail
  /\ scan [170; 0; 0; 0;  0; 0; 0; 0;  128; 0; 0; 0;  127; 255; 255; 255;  177] = Fail
  /\ scan [0; 16; 5; 177] = Done true.
Lemma scan_unrepaired_witnesses_hold : scan_unrepaired_witnesses.
Proof. unfold scan_unrepaired_witnesses. repeat split; vm_compute; reflexivity. Qed.
