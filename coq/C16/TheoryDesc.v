(* C16 theory: the u8 dimension counter of read_field_type never overflows, and it is the bracket
   count of the C18 descriptor model (whose functions cannot express a panic). *)
From FB Require Import C16.Model C18.Model.
From Coq Require Import List Lia NArith.
Import ListNotations.
Open Scope N_scope.

Arguments N.add : simpl never.
Arguments N.eqb : simpl never.
Arguments N.leb : simpl never.

Definition res_to_out {A} (r : res A) : out A := match r with Ok a => Done a | Err => Fail end.

(* with the check in front of it the increment never overflows: the Panic-capable counter IS the
   counter of the C18 model, on every string, from every start value an u8 can hold *)
Lemma array_dims_is_count_brackets : forall s dim, dim <= 255 ->
  array_dims true s dim = res_to_out (count_brackets s dim).
Proof.
  induction s as [|c r IH]; intros dim Hd; cbn [array_dims count_brackets res_to_out]; [reflexivity|].
  change cLBRACK with 91.
  destruct (c =? 91); [|reflexivity].
  cbn [andb]. destruct (N.eqb_spec dim 255) as [->|Hne]; [reflexivity|].
  unfold u8_bump, u8_max. destruct (N.leb_spec (dim + 1) 255) as [Hle|Hgt]; [|lia].
  cbn [obind]. apply IH. exact Hle.
Qed.

Lemma array_dims_no_panic : forall s dim, dim <= 255 -> array_dims true s dim <> Panic.
Proof.
  intros s dim Hd. rewrite array_dims_is_count_brackets by exact Hd.
  destruct (count_brackets s dim); discriminate.
Qed.

Lemma array_dims_result_fits : forall s dim d r, dim <= 255 -> array_dims true s dim = Done (d, r) -> d <= 255.
Proof.
  induction s as [|c rest IH]; intros dim d r Hd; cbn [array_dims].
  - intros [= <- _]. exact Hd.
  - destruct (c =? 91).
    + cbn [andb]. destruct (N.eqb_spec dim 255) as [->|Hne]; [discriminate|].
      unfold u8_bump, u8_max. destruct (N.leb_spec (dim + 1) 255) as [Hle|Hgt]; [|lia].
      cbn [obind]. apply IH. exact Hle.
    + intros [= <- _]. exact Hd.
Qed.

Lemma array_dims_spec : forall s dim, dim <= 255 ->
  array_dims true s dim <> Panic /\ array_dims true s dim = res_to_out (count_brackets s dim)
  /\ forall d r, array_dims true s dim = Done (d, r) -> d <= 255.
Proof.
  intros s dim H. split; [apply array_dims_no_panic; exact H|]. split; [apply array_dims_is_count_brackets; exact H|].
  intros d r. apply array_dims_result_fits. exact H.
Qed.

(* the model can express the failure: without the check, 256 brackets overflow the u8 *)
Definition array_dims_unguarded_witness : Prop :=
  array_dims false (repeat 91 256) 0 = Panic /\ array_dims true (repeat 91 256) 0 = Fail
  /\ array_dims true (repeat 91 255 ++ [73]) 0 = Done (255, [73]).
Lemma array_dims_unguarded_witness_holds : array_dims_unguarded_witness.
Proof. repeat split; vm_compute; reflexivity. Qed.
