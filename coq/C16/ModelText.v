(* C16 model, text part: the WHOLE text parsers of /repo with outcome Done | Fail | Panic.

     quill/src/lines.rs         TinyLine::new / next / end / into_namespaces / into_names / action /
                                action_string, WithMoreIdentIter (next, next_level, on_every_line)
     quill/src/tiny_v2.rs       read, add_comment, unescape
     quill/src/tiny_v2_diff.rs  read, add_comment
     quill/src/enigma_file.rs   read_into (with the recursive parse_class and MAX_CLASS_NESTING),
                                EnigmaLine::new, is_modifier, insert_comment
     dukenest/src/io.rs         Nests::read, read_line, parse_u16_hex_binary_and_decimal

   Strings are lists of UTF-8 BYTES ([bytes]); a `String` / `&str` of the Rust code is a byte list
   that satisfies [utf8_valid] (BufRead::lines yields an error for a line that does not).

   Rust operations that the model treats as able to panic (they return [Panic] outside their
   precondition; the inventory of these sites is regenerated from the sources by
   translate/c16_sites.py and compared with [modelled_text_sites] of TheorySites.v):
     - slicing `&s[i..]` / `&s[i..j]`: [slice_from] / [str_slice] panic when an index is past the
       end or not on a char boundary;
     - `uN::from_str_radix(s, radix)`: [from_str_radix] panics when radix is outside 2..=36;
     - recursion (parse_class calls itself through the closure of on_every_line): the frame stack
       of the indentation machine below; more than [enigma_max_frames] frames is [Panic]
       (the stand-in for a stack overflow, as fuel is in Model.v).
   Operations that are assumed total (std functions on valid `&str` / collections; they never
   compute an index in the repository's code): chars / peekable / take_while / count, split(char),
   split(&[char]), split_once, trim, starts_with, strip_prefix, is_empty, to_owned, join,
   String::push / push_str / with_capacity(len of the input string), format!, Vec::collect,
   <[T; N]>::try_from(Vec), slice patterns, Iterator::next on vec::IntoIter, str::parse (a Result),
   IndexMap::entry / insert, JavaString::from, the check_valid functions of duke (character tests,
   no index), `line_number + 1`, `self.depth + 1`, `nesting + 1` on usize (bounded by the number
   of lines of the input and by the nesting limit).

   The nested closures of the readers are modelled as an indentation MACHINE: a stack of frames,
   one per running `on_every_line` loop (innermost first; the loop of a frame has depth =
   number of frames below it), and per line, in the order the Rust code does it:
   the line is built (`TinyLine::new`, may panic), loops that are deeper than the line end
   (Ordering::Less => None; for an Enigma CLASS frame the class is added to the mappings now),
   a line deeper than the innermost loop is the indentation error, otherwise the closure of the
   innermost loop handles the line and may start a loop one level deeper (push).  This is the
   evaluation order of the peekable iterator: line k+1 is not built before line k is handled.
   Definitions only; proofs are in TheoryText*.v. *)
From FB Require Export C16.Model.
From FB Require Import C18.Model.

Definition bytes := list N.

(* ------------------------------------------------------------------------------------------ *)
(* `str` primitives                                                                             *)

(* s.is_char_boundary(i) *)
Definition is_boundary (l : bytes) (i : nat) : bool :=
  match nth_error l i with Some b => negb (is_cont b) | None => Nat.eqb i (length l) end.
(* `&s[i..j]` *)
Definition str_slice (l : bytes) (i j : nat) : out bytes :=
  if (i <=? j)%nat && (j <=? length l)%nat && is_boundary l i && is_boundary l j
  then Done (firstn (j - i) (skipn i l)) else Panic.

(* the bytes of the next `char` of `s.chars()` and what follows it *)
Definition char_width (b : N) : nat := if b <? 128 then 1%nat else if b <? 224 then 2%nat else if b <? 240 then 3%nat else 4%nat.
Definition next_char (l : bytes) : option (bytes * bytes) :=
  match l with [] => None | b :: _ => Some (firstn (char_width b) l, skipn (char_width b) l) end.

(* `uN::from_str_radix(s, radix)` for an unsigned type with maximum [max]: optional `+`, at least
   one digit of the radix, no overflow; panics for a radix outside 2..=36 *)
Definition digit_of (radix c : N) : option N :=
  let v := if in_range 48 57 c then Some (c - 48)
           else if in_range 97 122 c then Some (c - 87)
           else if in_range 65 90 c then Some (c - 55) else None in
  match v with Some d => if d <? radix then Some d else None | None => None end.
Fixpoint digits_radix (radix max : N) (s : bytes) (acc : N) : option N :=
  match s with
  | [] => Some acc
  | c :: r =>
      match digit_of radix c with
      | Some d => let a := acc * radix + d in if max <? a then None else digits_radix radix max r a
      | None => None
      end
  end.
Definition from_str_radix (max : N) (s : bytes) (radix : N) : out N :=
  if (radix <? 2) || (36 <? radix) then Panic else
  let s' := match s with c :: r => if c =? 43 then r else s | [] => s end in
  match s' with
  | [] => Fail
  | _ => match digits_radix radix max s' 0 with Some n => Done n | None => Fail end
  end.
Definition usize_max : N := 18446744073709551615.
(* `s.parse::<usize>()`, `s.parse::<u16>()` *)
Definition parse_usize (s : bytes) : out N := from_str_radix usize_max s 10.
Definition parse_u16 (s : bytes) : out N := from_str_radix u16_max s 10.

(* ------------------------------------------------------------------------------------------ *)
(* BufRead::lines: lines end at LF (removed, and one CR before it); no line after the final LF;
   every line is validated as UTF-8 when it is read                                             *)
Fixpoint raw_lines (s : bytes) : list bytes :=
  match s with
  | [] => []
  | c :: s' =>
      if c =? cLF then [] :: raw_lines s'
      else if (c =? cCR) && starts_with [cLF] s' then raw_lines s'
      else match raw_lines s' with
           | l :: ls => (c :: l) :: ls
           | [] => [[c]]
           end
  end.
Definition line_of (l : bytes) : out bytes := if utf8_valid l then Done l else Fail.

(* ------------------------------------------------------------------------------------------ *)
(* tiny_v2::unescape: `s.chars().peekable()`; a char is represented by its bytes               *)
Definition esc_raw (ch : bytes) : option N := match ch with [e] => unesc_letter e | _ => None end.
Fixpoint unescape_chars (fuel : nat) (l : bytes) : bytes :=
  match fuel with
  | O => []
  | S f =>
      match next_char l with
      | None => []
      | Some (c, r) =>
          if str_eqb c [cBSLASH] then
            match next_char r with                                  (* chars.peek() *)
            | Some (e, r') =>
                match esc_raw e with
                | Some raw => raw :: unescape_chars f r'             (* chars.next(); out.push(raw); continue *)
                | None => c ++ unescape_chars f r                    (* out.push(c) *)
                end
            | None => c ++ unescape_chars f r
            end
          else c ++ unescape_chars f r
      end
  end.
Definition unescape_b (l : bytes) : bytes := unescape_chars (S (length l)) l.
Definition unescape_out (l : bytes) : out bytes := Done (unescape_b l).

(* what a rewrite of unescape with `find` and byte slices looks like in this model (the shape of
   the seeded changes C16-a3 / C16-b2): "the escape sequence is the backslash and the next BYTE" *)
Fixpoint find_byte (c : N) (l : bytes) : option nat :=
  match l with [] => None | b :: r => if b =? c then Some O else option_map S (find_byte c r) end.
Fixpoint unescape_sliced (fuel : nat) (rest : bytes) : out bytes :=
  match fuel with
  | O => Panic
  | S f =>
      match find_byte cBSLASH rest with
      | None => Done rest
      | Some pos =>
          let! pre := str_slice rest 0 pos in
          let e := Nat.min (pos + 2) (length rest) in
          let! esc := str_slice rest (pos + 1) e in
          let! kept := (match esc_raw esc with Some raw => Done [raw] | None => str_slice rest pos e end) in
          let! rest' := str_slice rest e (length rest) in
          let! tl := unescape_sliced f rest' in
          Done (pre ++ kept ++ tl)
      end
  end.
Definition unescape_sliced_out (l : bytes) : out bytes := unescape_sliced (S (length l)) l.

(* ------------------------------------------------------------------------------------------ *)
(* TinyLine (quill/src/lines.rs)                                                                *)
Record tline := mkTline { tl_ind : nat; tl_first : bytes; tl_fields : list bytes }.

Definition tiny_line (l : bytes) : out (option tline) :=
  let k := count_tabs l in
  let! r := slice_from l k in                                       (* &line[idents..] *)
  match split_on cTAB r with
  | f :: fs => Done (Some (mkTline k f fs))
  | [] => Fail                                                      (* "no first field" (split yields at least one part) *)
  end.

(* TinyLine::end: exactly one more field *)
Definition line_end (fs : list bytes) : out bytes := match fs with [s] => Done s | _ => Fail end.

(* TinyLine::into_names: "" = no name, otherwise T::try_from; exactly n cells *)
Definition name_cell (valid : bytes -> bool) (s : bytes) : out (option bytes) :=
  match s with [] => Done None | _ => if valid s then Done (Some s) else Fail end.
Fixpoint name_cells (valid : bytes -> bool) (l : list bytes) : out (list (option bytes)) :=
  match l with
  | [] => Done []
  | s :: l' => let! o := name_cell valid s in let! r := name_cells valid l' in Done (o :: r)
  end.
Definition into_names (n : nat) (valid : bytes -> bool) (fs : list bytes) : out (list (option bytes)) :=
  let! r := name_cells valid fs in if Nat.eqb (length r) n then Done r else Fail.
(* Names::first_name *)
Definition first_name (nm : list (option bytes)) : out bytes := match nm with Some k :: _ => Done k | _ => Fail end.

(* TinyLine::action / action_string: at most two more fields, "" = absent; [valid] = T::try_from *)
Definition action_cell (valid : bytes -> bool) (s : bytes) : out (option bytes) := name_cell valid s.
Definition action (valid : bytes -> bool) (fs : list bytes) : out (option bytes * option bytes) :=
  match fs with
  | [] => Done (None, None)
  | [a] => let! x := action_cell valid a in Done (x, None)
  | [a; b] => let! x := action_cell valid a in let! y := action_cell valid b in Done (x, y)
  | a :: b :: _ :: _ => let! _ := action_cell valid a in let! _ := action_cell valid b in Fail
  end.

Definition key2 := (bytes * bytes)%type.
Definition key2_eqb (a b : key2) : bool := str_eqb (fst a) (fst b) && str_eqb (snd a) (snd b).
Definition has_str (k : bytes) (l : list bytes) : bool := existsb (str_eqb k) l.
Definition has_key2 (k : key2) (l : list key2) : bool := existsb (key2_eqb k) l.

(* ------------------------------------------------------------------------------------------ *)
(* the indentation machine (WithMoreIdentIter + on_every_line)                                  *)

(* loops that are deeper than the line end; the line must then sit exactly at the innermost loop *)
Fixpoint settle {F S} (close : F -> S -> out S) (st : list F) (s : S) (ind : nat) : out (list F * S) :=
  match st with
  | [] => Fail
  | f :: rest =>
      if (ind <? length rest)%nat then let! s' := close f s in settle close rest s' ind
      else if (length rest <? ind)%nat then Fail
      else Done (st, s)
  end.
(* end of input: every loop ends, innermost first *)
Fixpoint close_all {F S} (close : F -> S -> out S) (st : list F) (s : S) : out S :=
  match st with [] => Done s | f :: rest => let! s' := close f s in close_all close rest s' end.

Fixpoint run_lines {F S L} (limit : option nat) (mk : bytes -> out (option L)) (ind : L -> nat)
    (close : F -> S -> out S) (handle : list F -> S -> L -> out (list F * S))
    (st : list F) (s : S) (ls : list bytes) : out S :=
  match ls with
  | [] => close_all close st s
  | raw :: ls' =>
      let! b := line_of raw in
      let! ol := mk b in
      match ol with
      | None => run_lines limit mk ind close handle st s ls'        (* filter_map: the line does not count *)
      | Some l =>
          let! (st1, s1) := settle close st s (ind l) in
          let! (st2, s2) := handle st1 s1 l in
          if (match limit with Some m => (m <? length st2)%nat | None => false end) then Panic
          else run_lines limit mk ind close handle st2 s2 ls'
      end
  end.

(* ------------------------------------------------------------------------------------------ *)
(* tiny_v2::read                                                                                *)
Definition s_tiny : bytes := [116; 105; 110; 121].
Definition t_c : bytes := [99].  Definition t_f : bytes := [102].
Definition t_m : bytes := [109]. Definition t_p : bytes := [112].

Inductive tframe :=
| TTop
| THeaderSub (doc : bool)
| TClass (doc : bool) (fields methods : list key2)
| TField (doc : bool)
| TMethod (doc : bool) (params : list N)
| TParam (doc : bool).

(* add_comment: `unescape(line.end()?)`, then "only one comment is allowed" *)
Definition add_comment (unesc : bytes -> out bytes) (doc : bool) (fs : list bytes) : out bool :=
  let! s := line_end fs in
  let! _ := unesc s in
  if doc then Fail else Done true.

Definition tiny_close (f : tframe) (s : list bytes) : out (list bytes) := Done s.

Definition tiny_handle (n : nat) (unesc : bytes -> out bytes) (st : list tframe) (cls : list bytes) (l : tline)
    : out (list tframe * list bytes) :=
  let tag := tl_first l in
  let fs := tl_fields l in
  match st with
  | [] => Fail
  | THeaderSub doc :: rest =>
      if str_eqb tag t_c then let! d := add_comment unesc doc fs in Done (THeaderSub d :: rest, cls)
      else Done (st, cls)
  | TTop :: _ =>
      if str_eqb tag t_c then
        let! nm := into_names n is_valid_obj_class_name fs in
        let! k := first_name nm in                                  (* add_class: get_key, then the key must be new *)
        if has_str k cls then Fail else Done (TClass false [] [] :: st, k :: cls)
      else Done (st, cls)
  | TClass doc fds mds :: rest =>
      if str_eqb tag t_f then
        match fs with
        | desc :: names =>
            let! nm := into_names n is_valid_unqualified_name names in
            let! k := first_name nm in
            if has_key2 (desc, k) fds then Fail
            else Done (TField false :: TClass doc ((desc, k) :: fds) mds :: rest, cls)
        | [] => Fail
        end
      else if str_eqb tag t_m then
        match fs with
        | desc :: names =>
            let! nm := into_names n is_valid_method_name names in
            let! k := first_name nm in
            if has_key2 (desc, k) mds then Fail
            else Done (TMethod false [] :: TClass doc fds ((desc, k) :: mds) :: rest, cls)
        | [] => Fail
        end
      else if str_eqb tag t_c then let! d := add_comment unesc doc fs in Done (TClass d fds mds :: rest, cls)
      else Done (st, cls)
  | TField doc :: rest =>
      if str_eqb tag t_c then let! d := add_comment unesc doc fs in Done (TField d :: rest, cls)
      else Done (st, cls)
  | TMethod doc ps :: rest =>
      if str_eqb tag t_p then
        match fs with
        | idx :: names =>
            let! i := parse_usize idx in
            let! _ := into_names n is_valid_unqualified_name names in
            if mem_N i ps then Fail else Done (TParam false :: TMethod doc (i :: ps) :: rest, cls)
        | [] => Fail
        end
      else if str_eqb tag t_c then let! d := add_comment unesc doc fs in Done (TMethod d ps :: rest, cls)
      else Done (st, cls)
  | TParam doc :: rest =>
      if str_eqb tag t_c then let! d := add_comment unesc doc fs in Done (TParam d :: rest, cls)
      else Done (st, cls)
  end.

(* the header line: `tiny`, `2`, `0`, then exactly n non-empty namespaces (its indentation is not looked at) *)
Definition tiny_header (n : nat) (l : tline) : out unit :=
  if negb (str_eqb (tl_first l) s_tiny) then Fail else
  match tl_fields l with
  | a :: b :: ns =>
      if negb (str_eqb a [50]) then Fail else if negb (str_eqb b [48]) then Fail else
      if Nat.eqb (length ns) n && forallb (fun s => negb (is_nil s)) ns then Done tt else Fail
  | _ => Fail
  end.

(* tiny_v2::read::<n, _> on the bytes of the reader; [unesc] is the unescape in use *)
Definition tiny_v2_with (unesc : bytes -> out bytes) (n : nat) (input : bytes) : out unit :=
  if (n <? 2)%nat then Fail else
  match raw_lines input with
  | [] => Fail                                                      (* "no header line" *)
  | h :: body =>
      let! hb := line_of h in
      let! ohl := tiny_line hb in
      match ohl with
      | None => Fail
      | Some hl =>
          let! _ := tiny_header n hl in
          (* header sub-section loop (depth 1) and then the class loop (depth 0) *)
          let! _ := run_lines None tiny_line tl_ind tiny_close (tiny_handle n unesc) [THeaderSub false; TTop] [] body in
          Done tt
      end
  end.
Definition tiny_v2_out : nat -> bytes -> out unit := tiny_v2_with unescape_out.

(* ------------------------------------------------------------------------------------------ *)
(* tiny_v2_diff::read                                                                           *)
Inductive dframe :=
| DTop
| DClass (had : bool) (fields methods : list key2)
| DField (had : bool)
| DMethod (had : bool) (params : list N)
| DParam (had : bool).

(* add_comment of the diff reader: action_string, unescape of what is kept, "only one comment diff" *)
Definition diff_comment (unesc : bytes -> out bytes) (had : bool) (fs : list bytes) : out bool :=
  let! ab := action (fun _ => true) fs in
  let! _ := (match ab with
             | (None, None) => Done tt
             | (None, Some b) => let! _ := unesc b in Done tt
             | (Some a, None) => let! _ := unesc a in Done tt
             | (Some a, Some b) => if str_eqb a b then Done tt else let! _ := unesc a in let! _ := unesc b in Done tt
             end) in
  if had then Fail else Done true.

Definition diff_close (f : dframe) (s : list bytes) : out (list bytes) := Done s.

Definition diff_handle (unesc : bytes -> out bytes) (st : list dframe) (cls : list bytes) (l : tline)
    : out (list dframe * list bytes) :=
  let tag := tl_first l in
  let fs := tl_fields l in
  match st with
  | [] => Fail
  | DTop :: _ =>
      if str_eqb tag t_c then
        match fs with
        | key :: more =>
            if negb (is_valid_obj_class_name key) then Fail else
            let! _ := action is_valid_obj_class_name more in
            if has_str key cls then Fail else Done (DClass false [] [] :: st, key :: cls)
        | [] => Fail
        end
      else Done (st, cls)
  | DClass had fds mds :: rest =>
      if str_eqb tag t_f then
        match fs with
        | desc :: name :: more =>
            if negb (is_valid_unqualified_name name) then Fail else
            let! _ := action is_valid_unqualified_name more in
            if has_key2 (desc, name) fds then Fail
            else Done (DField false :: DClass had ((desc, name) :: fds) mds :: rest, cls)
        | _ => Fail
        end
      else if str_eqb tag t_m then
        match fs with
        | desc :: name :: more =>
            if negb (is_valid_method_name name) then Fail else
            let! _ := action is_valid_method_name more in
            if has_key2 (desc, name) mds then Fail
            else Done (DMethod false [] :: DClass had fds ((desc, name) :: mds) :: rest, cls)
        | _ => Fail
        end
      else if str_eqb tag t_c then let! d := diff_comment unesc had fs in Done (DClass d fds mds :: rest, cls)
      else Done (st, cls)
  | DField had :: rest =>
      if str_eqb tag t_c then let! d := diff_comment unesc had fs in Done (DField d :: rest, cls)
      else Done (st, cls)
  | DMethod had ps :: rest =>
      if str_eqb tag t_p then
        match fs with
        | idx :: src :: more =>
            let! i := parse_usize idx in
            if negb (is_nil src) then Fail else                     (* "expected no src field" *)
            let! _ := action is_valid_unqualified_name more in
            if mem_N i ps then Fail else Done (DParam false :: DMethod had (i :: ps) :: rest, cls)
        | [idx] => let! _ := parse_usize idx in Fail
        | [] => Fail
        end
      else if str_eqb tag t_c then let! d := diff_comment unesc had fs in Done (DMethod d ps :: rest, cls)
      else Done (st, cls)
  | DParam had :: rest =>
      if str_eqb tag t_c then let! d := diff_comment unesc had fs in Done (DParam d :: rest, cls)
      else Done (st, cls)
  end.

(* the header: `tiny`, `2`, `0` and nothing after it *)
Definition diff_header (l : tline) : out unit :=
  if negb (str_eqb (tl_first l) s_tiny) then Fail else
  match tl_fields l with
  | [a; b] => if str_eqb a [50] && str_eqb b [48] then Done tt else Fail
  | _ => Fail
  end.

Definition tiny_diff_with (unesc : bytes -> out bytes) (input : bytes) : out unit :=
  match raw_lines input with
  | [] => Fail
  | h :: body =>
      let! hb := line_of h in
      let! ohl := tiny_line hb in
      match ohl with
      | None => Fail
      | Some hl =>
          let! _ := diff_header hl in
          let! _ := run_lines None tiny_line tl_ind diff_close (diff_handle unesc) [DTop] [] body in
          Done tt
      end
  end.
Definition tiny_diff_out : bytes -> out unit := tiny_diff_with unescape_out.

(* ------------------------------------------------------------------------------------------ *)
(* dukenest Nests::read                                                                         *)
Definition parse_access (s : bytes) : out N :=
  if starts_with [48; 120] s then from_str_radix u16_max (skipn 2 s) 16          (* strip_prefix("0x") *)
  else if starts_with [48; 98] s then from_str_radix u16_max (skipn 2 s) 2       (* strip_prefix("0b") *)
  else parse_u16 s.

Definition nests_line (l : bytes) : out unit :=
  match split_on cTAB l with
  | [cn; ecn; emn; emd; inn; acc] =>
      if is_nil cn || is_nil ecn || is_nil inn then Fail else
      if negb (is_valid_obj_class_name cn) then Fail else
      if negb (is_valid_obj_class_name ecn) then Fail else
      if negb (is_nil emn || is_nil emd || is_valid_method_name emn) then Fail else
      if negb (is_valid_obj_class_name inn) then Fail else
      let! _ := parse_access acc in Done tt
  | _ => Fail                                                       (* "wrong number of fields" *)
  end.
Fixpoint nests_lines (ls : list bytes) : out unit :=
  match ls with
  | [] => Done tt
  | raw :: r => let! b := line_of raw in let! _ := nests_line b in nests_lines r
  end.
Definition nests_out (input : bytes) : out unit := nests_lines (raw_lines input).

(* ------------------------------------------------------------------------------------------ *)
(* enigma_file::read_into                                                                       *)
Definition s_CLASS : bytes := [67; 76; 65; 83; 83].
Definition s_FIELD : bytes := [70; 73; 69; 76; 68].
Definition s_METHOD : bytes := [77; 69; 84; 72; 79; 68].
Definition s_ARG : bytes := [65; 82; 71].
Definition s_COMMENT : bytes := [67; 79; 77; 77; 69; 78; 84].
Definition s_ACC : bytes := [65; 67; 67; 58].

(* one Unicode White_Space character at the front, as UTF-8: what `trim` removes *)
Definition ws_front (l : bytes) : option bytes :=
  match l with
  | b :: r =>
      if in_range 9 13 b || (b =? 32) then Some r
      else match b, r with
           | 194, c :: r1 => if (c =? 133) || (c =? 160) then Some r1 else None             (* U+0085 U+00A0 *)
           | 225, 154 :: 128 :: r2 => Some r2                                                  (* U+1680 *)
           | 226, 128 :: c :: r2 =>
               if in_range 128 138 c || (c =? 168) || (c =? 169) || (c =? 175) then Some r2 else None  (* U+2000-200A 2028 2029 202F *)
           | 226, 129 :: 159 :: r2 => Some r2                                                  (* U+205F *)
           | 227, 128 :: 128 :: r2 => Some r2                                                  (* U+3000 *)
           | _, _ => None
           end
  | [] => None
  end.
(* ... and at the back, on the reversed bytes *)
Definition ws_back (rl : bytes) : option bytes :=
  match rl with
  | b :: r =>
      if in_range 9 13 b || (b =? 32) then Some r
      else match b, r with
           | 133, 194 :: r1 => Some r1
           | 160, 194 :: r1 => Some r1
           | 128, 154 :: 225 :: r2 => Some r2
           | 128, 128 :: 227 :: r2 => Some r2
           | 159, 129 :: 226 :: r2 => Some r2
           | c, 128 :: 226 :: r2 =>
               if in_range 128 138 c || (c =? 168) || (c =? 169) || (c =? 175) then Some r2 else None
           | _, _ => None
           end
  | [] => None
  end.
Fixpoint drop_ws (step : bytes -> option bytes) (fuel : nat) (l : bytes) : bytes :=
  match fuel with
  | O => l
  | S f => match step l with Some r => drop_ws step f r | None => l end
  end.
Definition trim (l : bytes) : bytes :=
  let a := drop_ws ws_front (length l) l in
  rev (drop_ws ws_back (length a) (rev a)).

(* `line.split_once('#')`: the part before the first `#`, the whole line when there is none *)
Fixpoint strip_hash (s : bytes) : bytes :=
  match s with [] => [] | c :: s' => if c =? cHASH then [] else c :: strip_hash s' end.
(* `line.split(JAVA_WHITESPACE)` *)
Definition java_ws (c : N) : bool := mem_N c [32; 9; 10; 11; 12; 13].
Fixpoint split_ws (s : bytes) : list bytes :=
  match s with
  | [] => [[]]
  | c :: s' =>
      if java_ws c then [] :: split_ws s'
      else match split_ws s' with p :: ps => (c :: p) :: ps | [] => [[c]] end
  end.

(* `line.splitn(2, JAVA_WHITESPACE)`: the first field and, when there is a separator, the rest as it is
   (a line that starts with `COMMENT` keeps its text unsplit, fix 85d0185) *)
Fixpoint splitn2_ws (s : bytes) : list bytes :=
  match s with
  | [] => [[]]
  | c :: s' =>
      if java_ws c then [[]; s']
      else match splitn2_ws s' with p :: ps => (c :: p) :: ps | [] => [[c]] end
  end.

(* EnigmaLine::new; None = the line is empty after removing the `#` comment *)
Definition enigma_line (l : bytes) : out (option tline) :=
  let k := count_tabs l in
  let! r := slice_from l k in                                       (* &line[idents..] *)
  let is_comment := starts_with s_COMMENT r in
  let r' := if is_comment then r else trim (strip_hash r) in
  match r' with
  | [] => Done None
  | _ => match (if is_comment then splitn2_ws r' else split_ws r') with
         | f :: fs => Done (Some (mkTline k f fs))
         | [] => Fail
         end
  end.

Definition is_modifier (s : bytes) : bool := starts_with s_ACC s.
(* the slice patterns of CLASS and of FIELD / METHOD lines *)
Definition pat_class (fs : list bytes) : out (bytes * option bytes) :=
  match fs with
  | [src] => Done (src, None)
  | [src; x] => if is_modifier x then Done (src, None) else Done (src, Some x)
  | [src; dst; _] => Done (src, Some dst)
  | _ => Fail
  end.
Definition pat_named (fs : list bytes) : out (bytes * option bytes * bytes) :=
  match fs with
  | [src; desc] => Done (src, None, desc)
  | [src; x; y] => if is_modifier y then Done (src, None, x) else Done (src, Some x, y)
  | [src; dst; desc; _] => Done (src, Some dst, desc)
  | _ => Fail
  end.
Definition opt_valid (v : bytes -> bool) (o : option bytes) : bool := match o with Some s => v s | None => true end.

Inductive eframe :=
| ETop
| EClass (nesting : nat) (src dst : bytes) (fields methods : list key2)  (* src: the full name, also the key *)
| EField
| EMethod (params : list N)
| EParam.

(* the loop of a CLASS section ended: `mappings.add_class(class)?` *)
Definition enigma_close (f : eframe) (cls : list bytes) : out (list bytes) :=
  match f with
  | EClass _ src _ _ _ => if has_str src cls then Fail else Done (src :: cls)
  | _ => Done cls
  end.

(* parse_class up to the start of its loop; [limit] = Some MAX_CLASS_NESTING *)
Definition parse_class (limit : option nat) (par : option (bytes * bytes)) (nesting : nat) (fs : list bytes) : out eframe :=
  if (match limit with Some m => (m <? nesting)%nat | None => false end) then Fail else
  let! (src, dst) := pat_class fs in
  let src' := match par with Some (ps, _) => ps ++ cDOLLAR :: src | None => src end in
  let dst' := match par with Some (_, pd) => option_map (fun x => pd ++ cDOLLAR :: x) dst | None => dst end in
  if negb (is_valid_obj_class_name src' && opt_valid is_valid_obj_class_name dst') then Fail
  else Done (EClass nesting src' (match dst' with Some x => x | None => src' end) [] []).

Definition max_class_nesting : nat := 64.

Definition enigma_handle (limit : option nat) (st : list eframe) (cls : list bytes) (l : tline)
    : out (list eframe * list bytes) :=
  let tag := tl_first l in
  let fs := tl_fields l in
  match st with
  | [] => Fail
  | ETop :: _ =>
      if str_eqb tag s_CLASS then let! fr := parse_class limit None 0 fs in Done (fr :: st, cls)
      else Fail
  | EClass n psrc pdst fds mds :: rest =>
      if str_eqb tag s_CLASS then
        let! fr := parse_class limit (Some (psrc, pdst)) (n + 1) fs in Done (fr :: st, cls)
      else if str_eqb tag s_FIELD then
        let! (src, dst, desc) := pat_named fs in
        if negb (is_valid_unqualified_name src && opt_valid is_valid_unqualified_name dst) then Fail
        else if has_key2 (desc, src) fds then Fail
        else Done (EField :: EClass n psrc pdst ((desc, src) :: fds) mds :: rest, cls)
      else if str_eqb tag s_METHOD then
        let! (src, dst, desc) := pat_named fs in
        if negb (is_valid_method_name src && opt_valid is_valid_method_name dst) then Fail
        else if has_key2 (desc, src) mds then Fail
        else Done (EMethod [] :: EClass n psrc pdst fds ((desc, src) :: mds) :: rest, cls)
      else if str_eqb tag s_COMMENT then Done (st, cls)
      else Fail
  | EField :: _ => if str_eqb tag s_COMMENT then Done (st, cls) else Fail
  | EMethod ps :: rest =>
      if str_eqb tag s_ARG then
        match fs with
        | [ri; dst] =>
            let! i := parse_usize ri in
            if negb (is_valid_unqualified_name dst) then Fail
            else if mem_N i ps then Fail
            else Done (EParam :: EMethod (i :: ps) :: rest, cls)
        | _ => Fail
        end
      else if str_eqb tag s_COMMENT then Done (st, cls)
      else Fail
  | EParam :: _ => if str_eqb tag s_COMMENT then Done (st, cls) else Fail
  end.

(* frames of running loops that an 8 MiB stack is asked to hold: the nesting limit admits 65 CLASS
   frames, plus the root loop and a METHOD and an ARG loop *)
Definition enigma_max_frames : nat := 68.

Definition enigma_with (limit : option nat) (input : bytes) : out unit :=
  let! _ := run_lines (Some enigma_max_frames) enigma_line tl_ind enigma_close (enigma_handle limit) [ETop] [] (raw_lines input) in
  Done tt.
Definition enigma_out : bytes -> out unit := enigma_with (Some max_class_nesting).
(* before the fix: no limit on the nesting of CLASS sections *)
Definition enigma_unrepaired : bytes -> out unit := enigma_with None.

(* [depth] CLASS sections, each one tab deeper than the one before *)
Fixpoint class_staircase (d depth : nat) : bytes :=
  match depth with
  | O => []
  | S k => repeat cTAB d ++ s_CLASS ++ [32; 65; 10] ++ class_staircase (S d) k
  end.
