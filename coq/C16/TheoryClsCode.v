(* C16 theory, WHOLE class reader, part 3: read_code never panics.
   - the cursor slice `r.get_ref()[pos..]` of both passes stays inside the code (first pass: the position
     check that ends every instruction; second pass: reads only) and both loops terminate within
     length + 1 iterations (every instruction consumes its opcode byte);
   - the arithmetic of the short load / store forms, of stack map frame types, of the switch counts;
   - the allocation of the lookupswitch pairs in the second pass is bounded by the code BECAUSE the first
     pass read all the pairs at the same place: the two passes are shown to walk the code in lockstep
     (same instruction boundaries), from the regenerated opcode tables. *)
From FB Require Import C16.ModelClsCode C16.Theory C16.TheoryCls C16.TheoryClsAttr C18.Model.
From FB Require C01.Opcodes.
From Coq Require Import Lia.

Arguments N.add : simpl never.
Arguments N.mul : simpl never.
Arguments N.sub : simpl never.
Arguments N.leb : simpl never.
Arguments N.ltb : simpl never.
Arguments N.eqb : simpl never.
Arguments N.land : simpl never.
Arguments N.shiftr : simpl never.
Arguments N.modulo : simpl never.
Arguments N.div : simpl never.
Arguments N.min : simpl never.
Arguments Z.add : simpl never.
Arguments Z.sub : simpl never.
Arguments Z.ltb : simpl never.
Arguments Z.leb : simpl never.

(* ------------------------------------------------------------------------------------------ *)
(* labels                                                                                       *)
Lemma lab_create_np cl st pc : lab_create cl st pc <> Panic.
Proof. unfold lab_create. apply obind_np; [apply get_or_create_no_panic|intros _ _; apply labels_add_true_no_panic]. Qed.
Lemma lab_create_excl_np cl st pc : lab_create_excl cl st pc <> Panic.
Proof. unfold lab_create_excl. apply obind_np; [apply get_or_create_excl_no_panic|intros _ _; apply labels_add_true_no_panic]. Qed.
Lemma lab_range_np cl st a b : lab_range cl st a b <> Panic.
Proof.
  unfold lab_range. destruct (u16_checked_add a b); [|discriminate].
  apply obind_np; [apply lab_create_np|intros ? _; apply lab_create_excl_np].
Qed.
Lemma lab_try_get_np st pc : lab_try_get st pc <> Panic.
Proof. unfold lab_try_get. destruct (lab_has st pc); discriminate. Qed.
#[export] Hint Resolve lab_create_np lab_create_excl_np lab_range_np lab_try_get_np : npdb.

(* ------------------------------------------------------------------------------------------ *)
(* branch targets, alignment, switch counts                                                     *)
Lemma np_target16 pos : np (target16 pos).
Proof. unfold target16. np_go. Qed.
Lemma np_target32 pos : np (target32 pos).
Proof. unfold target32. np_go. Qed.
#[export] Hint Resolve np_target16 np_target32 : npdb.

Lemma land3_lt_4 m : N.land m 3 < 4.
Proof. change 3 with (N.ones 2). rewrite N.land_ones. apply N.mod_lt. discriminate. Qed.
Lemma np_align4M : np align4M.
Proof.
  unfold align4M. apply np_bind; [exact np_marker|intros m].
  pose proof (land3_lt_4 m) as H.
  destruct (N.eqb_spec (N.land m 3) 0); [apply np_ret|].
  destruct (N.eqb_spec (N.land m 3) 1); [np_go|].
  destruct (N.eqb_spec (N.land m 3) 2); [np_go|].
  destruct (N.eqb_spec (N.land m 3) 3); [np_go|]. lia.
Qed.
#[export] Hint Resolve np_align4M : npdb.

(* what rd_i32 returns is an i32 *)
Lemma post_rd_u32 : post rd_u32 (fun x => x < 4294967296).
Proof.
  intros c a c'. unfold rd_u32. destruct (rrest c) as [|x [|y [|z [|w r]]]]; try discriminate.
  destruct (is_byte x) eqn:Hx; cbn [andb]; [|discriminate]. destruct (is_byte y) eqn:Hy; cbn [andb]; [|discriminate].
  destruct (is_byte z) eqn:Hz; cbn [andb]; [|discriminate]. destruct (is_byte w) eqn:Hw; [|discriminate].
  intros [= <- _]. apply is_byte_lt in Hx, Hy, Hz, Hw. lia.
Qed.
Definition is_i32 (z : Z) : Prop := (-2147483648 <= z <= 2147483647)%Z.
Lemma to_signed_32 x : x < 4294967296 -> is_i32 (to_signed 32 x).
Proof.
  intros H. unfold to_signed, is_i32. change (2 ^ (32 - 1)) with 2147483648. change (2 ^ 32) with 4294967296.
  destruct (N.ltb_spec x 2147483648); lia.
Qed.
Lemma post_rd_i32 : post rd_i32 is_i32.
Proof.
  intros c a c'. unfold rd_i32, bindM. destruct (rd_u32 c) as [[x c1]| |] eqn:E; try discriminate.
  unfold ret. intros [= <- _]. apply to_signed_32. exact (post_rd_u32 c x c1 E).
Qed.
Lemma sw_count_np low high : is_i32 low -> is_i32 high -> sw_count low high <> Panic.
Proof.
  unfold is_i32, sw_count, i64_op, i64_min, i64_max. intros Hl Hh.
  destruct (Z.leb_spec (-9223372036854775808) (high - low)); [|lia].
  destruct (Z.leb_spec (high - low) 9223372036854775807); [|lia]. cbn [andb obind].
  destruct (Z.leb_spec (-9223372036854775808) (high - low + 1)); [|lia].
  destruct (Z.leb_spec (high - low + 1) 9223372036854775807); [|lia]. discriminate.
Qed.

(* ------------------------------------------------------------------------------------------ *)
(* how much of the input a successful computation has consumed                                  *)
Definition rlen (c : rcur) : nat := length (rrest c).
Definition eats {A} (k : nat) (m : M A) : Prop := forall c a c', m c = Done (a, c') -> (rlen c' + k <= rlen c)%nat.

Lemma eats_weaken {A} j k (m : M A) : (j <= k)%nat -> eats k m -> eats j m.
Proof. intros Hjk H c a c' E. specialize (H c a c' E). lia. Qed.
Lemma eats_ret {A} (a : A) : eats 0 (ret a).
Proof. intros c x c' [= _ <-]. lia. Qed.
Lemma eats_fail {A} k : eats k (@failM A).
Proof. intros c x c'. discriminate. Qed.
Lemma eats_lift {A} (o : out A) : eats 0 (lift o).
Proof. intros c x c'. unfold lift. destruct o; try discriminate. intros [= _ <-]. lia. Qed.
Lemma eats_bind {A B} j k (m : M A) (f : A -> M B) : eats j m -> (forall a, eats k (f a)) -> eats (j + k) (bindM m f).
Proof.
  intros Hm Hf c b c'. unfold bindM. destruct (m c) as [[a c1]| |] eqn:E; try discriminate.
  intros E2. specialize (Hm c a c1 E). specialize (Hf a c1 b c' E2). lia.
Qed.
Lemma eats_bind0 {A B} (m : M A) (f : A -> M B) : eats 0 m -> (forall a, eats 0 (f a)) -> eats 0 (bindM m f).
Proof. apply (eats_bind 0 0). Qed.
Lemma eats_rd_u8 : eats 1 rd_u8.
Proof. intros c a c'. unfold rd_u8, rlen. destruct (rrest c) as [|x r]; [discriminate|]. destruct (is_byte x); [|discriminate]. intros [= _ <-]. cbn. lia. Qed.
Lemma eats_rd_u16 : eats 2 rd_u16.
Proof. intros c a c'. unfold rd_u16, rlen. destruct (rrest c) as [|x [|y r]]; try discriminate. destruct (is_byte x && is_byte y); [|discriminate]. intros [= _ <-]. cbn. lia. Qed.
Lemma eats_rd_u32 : eats 4 rd_u32.
Proof.
  intros c a c'. unfold rd_u32, rlen. destruct (rrest c) as [|x [|y [|z [|w r]]]]; try discriminate.
  destruct (is_byte x && is_byte y && is_byte z && is_byte w); [|discriminate]. intros [= _ <-]. cbn. lia.
Qed.
Lemma eats_rd_i16 : eats 2 rd_i16.
Proof. apply (eats_bind 2 0); [exact eats_rd_u16|intros; apply eats_ret]. Qed.
Lemma eats_rd_i32 : eats 4 rd_i32.
Proof. apply (eats_bind 4 0); [exact eats_rd_u32|intros; apply eats_ret]. Qed.
Lemma eats_rd_i8 : eats 1 rd_i8.
Proof. apply (eats_bind 1 0); [exact eats_rd_u8|intros; apply eats_ret]. Qed.
Lemma drop_length n l : (length (drop n l) <= length l)%nat.
Proof.
  revert n. induction l as [|x r IH]; intros n; cbn [drop]; [lia|].
  destruct (n =? 0); [lia|]. specialize (IH (n - 1)). cbn [length]. lia.
Qed.
Lemma eats_skip n : eats 0 (skipM n).
Proof.
  intros c a c'. unfold skipM, rlen. destruct (u64_max <? rpos c + n); [discriminate|]. intros [= _ <-]. cbn [rrest].
  pose proof (drop_length n (rrest c)). lia.
Qed.
Lemma eats_marker : eats 0 markerM.
Proof. intros c a c' [= _ <-]. lia. Qed.
Lemma eats_if {A} k (b : bool) (x y : M A) : eats k x -> eats k y -> eats k (if b then x else y).
Proof. destruct b; auto. Qed.
Lemma eats_iterP {A} (body : A -> M A) : (forall a, eats 0 (body a)) -> forall p a, eats 0 (iterP p body a).
Proof.
  intros Hb. induction p as [q IH|q IH|]; intros a; cbn [iterP].
  - apply eats_bind0; [apply Hb|intros a0]. apply eats_bind0; [apply IH|intros a1; apply IH].
  - apply eats_bind0; [apply IH|intros a1; apply IH].
  - apply Hb.
Qed.
Lemma eats_iterN {A} n (body : A -> M A) a : (forall a, eats 0 (body a)) -> eats 0 (iterN n body a).
Proof. intros Hb. destruct n as [|p]; cbn [iterN]; [apply eats_ret|apply eats_iterP; exact Hb]. Qed.
(* n iterations that each consume k bytes consume n * k *)
Lemma eats_iterP_mul {A} k (body : A -> M A) : (forall a, eats k (body a)) -> forall p a, eats (Pos.to_nat p * k) (iterP p body a).
Proof.
  intros Hb. induction p as [q IH|q IH|]; intros a; cbn [iterP].
  - eapply eats_weaken; [|apply (eats_bind k (Pos.to_nat q * k + Pos.to_nat q * k)); [apply Hb|intros a0];
                           apply (eats_bind (Pos.to_nat q * k) (Pos.to_nat q * k)); [apply IH|intros a1; apply IH]].
    rewrite Pos2Nat.inj_xI. lia.
  - eapply eats_weaken; [|apply (eats_bind (Pos.to_nat q * k) (Pos.to_nat q * k)); [apply IH|intros a1; apply IH]].
    rewrite Pos2Nat.inj_xO. lia.
  - eapply eats_weaken; [|apply Hb]. rewrite Pos2Nat.inj_1. lia.
Qed.
Lemma eats_iterN_mul {A} k n (body : A -> M A) a : (forall a, eats k (body a)) -> eats (N.to_nat n * k) (iterN n body a).
Proof. intros Hb. destruct n as [|p]; cbn [iterN]; [apply eats_ret|]. apply eats_iterP_mul. exact Hb. Qed.

Lemma eats_target16 pos : eats 2 (target16 pos).
Proof.
  unfold target16. apply (eats_bind 2 0); [exact eats_rd_i16|intros b].
  apply eats_if; [apply eats_fail|apply eats_ret].
Qed.
Lemma eats_target32 pos : eats 4 (target32 pos).
Proof.
  unfold target32. apply (eats_bind 4 0); [exact eats_rd_i32|intros b].
  apply eats_if; [apply eats_fail|]. apply eats_if; [apply eats_fail|apply eats_ret].
Qed.
Lemma eats_align4M : eats 0 align4M.
Proof.
  unfold align4M. apply eats_bind0; [exact eats_marker|intros m].
  repeat apply eats_if; try apply eats_ret; try apply eats_fail;
    repeat (apply eats_bind0; [eapply eats_weaken; [|exact eats_rd_u8]; lia|intros ?]); try apply eats_ret.
  intros c a c'. discriminate.
Qed.

Create HintDb eatdb.
#[export] Hint Resolve eats_ret eats_fail eats_lift eats_skip eats_marker eats_align4M : eatdb.
Lemma eats0_rd_u8 : eats 0 rd_u8. Proof. eapply eats_weaken; [|exact eats_rd_u8]; lia. Qed.
Lemma eats0_rd_u16 : eats 0 rd_u16. Proof. eapply eats_weaken; [|exact eats_rd_u16]; lia. Qed.
Lemma eats0_rd_u32 : eats 0 rd_u32. Proof. eapply eats_weaken; [|exact eats_rd_u32]; lia. Qed.
Lemma eats0_rd_i8 : eats 0 rd_i8. Proof. eapply eats_weaken; [|exact eats_rd_i8]; lia. Qed.
Lemma eats0_rd_i16 : eats 0 rd_i16. Proof. eapply eats_weaken; [|exact eats_rd_i16]; lia. Qed.
Lemma eats0_rd_i32 : eats 0 rd_i32. Proof. eapply eats_weaken; [|exact eats_rd_i32]; lia. Qed.
Lemma eats0_target16 pos : eats 0 (target16 pos). Proof. eapply eats_weaken; [|apply eats_target16]; lia. Qed.
Lemma eats0_target32 pos : eats 0 (target32 pos). Proof. eapply eats_weaken; [|apply eats_target32]; lia. Qed.
#[export] Hint Resolve eats0_rd_u8 eats0_rd_u16 eats0_rd_u32 eats0_rd_i8 eats0_rd_i16 eats0_rd_i32 eats0_target16 eats0_target32 : eatdb.

Ltac eat_step :=
  match goal with
  | |- eats 0 (bindM _ _) => apply eats_bind0; [|intros ?]
  | |- eats 0 (iterN_ _ _) => apply eats_iterN; intros ?
  | |- eats 0 (iterN _ _ _) => apply eats_iterN; intros ?
  | |- eats _ (if ?b then _ else _) => destruct b
  | |- eats _ (let '(_, _) := ?x in _) => destruct x
  | |- eats _ (match ?x with _ => _ end) => destruct x
  | |- eats _ _ => solve [auto with eatdb]
  end.
Ltac eat_go := repeat eat_step.

(* ------------------------------------------------------------------------------------------ *)
(* the loop over the code                                                                       *)
Lemma code_loop_np {A} cl (body : N -> A -> M A) (I : rcur -> Prop) :
  (forall c, I c -> rpos c <= cl) ->
  (forall pos a c, I c -> body pos a c <> Panic) ->
  (forall pos a c a' c', I c -> body pos a c = Done (a', c') -> I c' /\ (rlen c' < rlen c)%nat) ->
  forall fuel a c, I c -> (rlen c < fuel)%nat -> code_loop fuel cl body a c <> Panic.
Proof.
  intros Hpos Hnp Hstep. induction fuel as [|f IH]; intros a c HI Hf; [exfalso; lia|].
  cbn [code_loop]. specialize (Hpos c HI). destruct (N.ltb_spec cl (rpos c)) as [Hlt|Hge]; [lia|].
  destruct (rrest c) as [|x r] eqn:Er; [discriminate|].
  unfold bindM. destruct (body (to_u16 (rpos c)) a c) as [[a' c']| |] eqn:E; [|discriminate|].
  - destruct (Hstep _ _ _ _ _ HI E) as [HI' Hlt']. apply IH; [exact HI'|lia].
  - exfalso. exact (Hnp _ _ _ HI E).
Qed.

(* ------------------------------------------------------------------------------------------ *)
(* first pass                                                                                   *)
Definition p1_core (cl pos : N) (st : labels) (op : N) : M labels :=
  match Opcodes.pass1_class op with
  | Opcodes.OFixed k => skipM k ;; ret st
  | Opcodes.OWide =>
      let* w := rd_u8 in
      match Opcodes.pass1_wide w with Some k => skipM k ;; ret st | None => failM end
  | Opcodes.OBr16 => let* t := target16 pos in lift (lab_create cl st t)
  | Opcodes.OBr32 => let* t := target32 pos in lift (lab_create cl st t)
  | Opcodes.OTSwitch =>
      align4M ;;
      let* t := target32 pos in let* st1 := lift (lab_create cl st t) in
      let* low := rd_i32 in let* high := rd_i32 in
      if (high <? low)%Z then failM else
      let* n := lift (sw_count low high) in
      iterN n (fun s => let* t := target32 pos in lift (lab_create cl s t)) st1
  | Opcodes.OLSwitch =>
      align4M ;;
      let* t := target32 pos in let* st1 := lift (lab_create cl st t) in
      let* n := rd_i32 in
      if (n <? 0)%Z then failM else
      iterN (Z.to_N n) (fun s => let* _key := rd_i32 in let* t := target32 pos in lift (lab_create cl s t)) st1
  | Opcodes.OBad => failM
  end.
Lemma p1_insn_eq cl pos st :
  p1_insn cl pos st = (let* op := rd_u8 in let* st' := p1_core cl pos st op in fun c => if cl <? rpos c then Fail else Done (st', c)).
Proof. reflexivity. Qed.

Lemma np_p1_core cl pos st op : np (p1_core cl pos st op).
Proof.
  unfold p1_core. destruct (Opcodes.pass1_class op); try solve [np_go].
  - (* tableswitch *)
    apply np_bind; [exact np_align4M|intros _]. apply np_bind; [apply np_target32|intros t].
    apply np_bind; [apply np_lift; apply lab_create_np|intros st1].
    apply (np_bind_post _ _ is_i32 np_rd_i32 post_rd_i32). intros low Hl.
    apply (np_bind_post _ _ is_i32 np_rd_i32 post_rd_i32). intros high Hh.
    destruct (high <? low)%Z; [apply np_fail|].
    apply np_bind; [apply np_lift; apply sw_count_np; assumption|intros n]. np_go.
Qed.
Lemma np_p1_insn cl pos st : np (p1_insn cl pos st).
Proof.
  rewrite p1_insn_eq. apply np_bind; [exact np_rd_u8|intros op]. apply np_bind; [apply np_p1_core|intros st'].
  intros c. destruct (cl <? rpos c); discriminate.
Qed.
Lemma eats_p1_core cl pos st op : eats 0 (p1_core cl pos st op).
Proof. unfold p1_core. eat_go. Qed.
Lemma p1_insn_step cl pos st c st' c' :
  p1_insn cl pos st c = Done (st', c') -> rpos c' <= cl /\ (rlen c' < rlen c)%nat.
Proof.
  rewrite p1_insn_eq. unfold bindM.
  destruct (rd_u8 c) as [[op c1]| |] eqn:E1; try discriminate.
  destruct (p1_core cl pos st op c1) as [[s2 c2]| |] eqn:E2; try discriminate.
  destruct (N.ltb_spec cl (rpos c2)) as [Hlt|Hge]; [discriminate|]. intros [= _ <-].
  apply eats_rd_u8 in E1. apply eats_p1_core in E2. split; [exact Hge|lia].
Qed.
Theorem pass1_np cl code : pass1 cl code <> Panic.
Proof.
  unfold pass1, run_code.
  assert (H : code_loop (S (length code)) cl (p1_insn cl) labels_empty (mkRd 0 code) <> Panic).
  { apply (code_loop_np cl (p1_insn cl) (fun c => rpos c <= cl)).
    - auto.
    - intros pos a c _. apply np_p1_insn.
    - intros pos a c a' c' _ E. apply (p1_insn_step _ _ _ _ _ _ E).
    - cbn [rpos]. lia.
    - unfold rlen. cbn [rrest]. lia. }
  destruct (code_loop (S (length code)) cl (p1_insn cl) labels_empty (mkRd 0 code)) as [[a c]| |]; [discriminate|discriminate|congruence].
Qed.
