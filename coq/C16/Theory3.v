(* C16 theory, part 3: the budget of expanded bootstrap arguments is per instruction (work
   accounting, the budget decides acceptance), the u8 argument size of the class writer, unescape. *)
From FB Require Import C16.Model C16.Theory.
From Coq Require Import Lia.
Arguments N.add : simpl never.
Arguments N.sub : simpl never.
Arguments N.mul : simpl never.
Arguments N.ltb : simpl never.
Arguments N.leb : simpl never.
Arguments N.eqb : simpl never.

(* ------------------------------------------------------------------ theory *)
Definition charge (nesting : N) : N := if 0 <? nesting then 0 else 1.

(* the inner loop of resolve / resolve_w as standalone functions *)
Lemma resolve_S_all f limit pool bsms idx nesting budget :
  resolve (S f) limit pool bsms idx nesting budget =
  (let! budget1 := (if 0 <? nesting then (if budget =? 0 then Fail else Done (budget - 1)) else Done budget) in
   match nth_N pool idx with
   | None => Fail
   | Some PLeaf => Done budget1
   | Some POther => Fail
   | Some (PDyn b) =>
       if (match limit with Some m => m <? nesting | None => false end) then Fail else
       match nth_N bsms b with
       | None => Fail
       | Some args => resolve_all f limit pool bsms args (nesting + 1) budget1
       end
   end).
Proof.
  cbn [resolve]. destruct (if 0 <? nesting then if budget =? 0 then Fail else Done (budget - 1) else Done budget) as [b1| |]; cbn [obind]; try reflexivity.
  destruct (nth_N pool idx) as [[b| |]|]; try reflexivity.
  destruct (match limit with Some m => m <? nesting | None => false end); [reflexivity|].
  destruct (nth_N bsms b) as [args|]; [|reflexivity].
  generalize b1. induction args as [|a args IH]; intros bud; [reflexivity|].
  cbn [resolve_all]. destruct (resolve f limit pool bsms a (nesting + 1) bud); cbn [obind]; [apply IH|reflexivity|reflexivity].
Qed.

Lemma resolve_w_S f limit pool bsms idx nesting budget :
  resolve_w (S f) limit pool bsms idx nesting budget =
  (if (0 <? nesting) && (budget =? 0) then (1, Fail) else
   let budget1 := if 0 <? nesting then budget - 1 else budget in
   match nth_N pool idx with
   | None => (1, Fail)
   | Some PLeaf => (1, Done budget1)
   | Some POther => (1, Fail)
   | Some (PDyn b) =>
       if (match limit with Some m => m <? nesting | None => false end) then (1, Fail) else
       match nth_N bsms b with
       | None => (1, Fail)
       | Some args => let wr := resolve_all_w f limit pool bsms args (nesting + 1) budget1 in (1 + fst wr, snd wr)
       end
   end).
Proof.
  cbn [resolve_w]. destruct ((0 <? nesting) && (budget =? 0)); [reflexivity|].
  cbv zeta. generalize (if 0 <? nesting then budget - 1 else budget) as b1. intros b1.
  destruct (nth_N pool idx) as [[b| |]|]; try reflexivity.
  destruct (match limit with Some m => m <? nesting | None => false end); [reflexivity|].
  destruct (nth_N bsms b) as [args|]; [|reflexivity].
  f_equal; [f_equal|]; revert b1; induction args as [|a args IH]; intros bud; try reflexivity;
    cbn [resolve_all_w]; destruct (resolve_w f limit pool bsms a (nesting + 1) bud) as [w1 [bud'| |]]; cbn [fst snd]; try reflexivity.
  - rewrite IH. reflexivity.
  - apply IH.
Qed.

(* erasure: the instrumented function computes the same result *)
Lemma resolve_all_w_erase_from f limit pool bsms :
  (forall idx nesting bud, snd (resolve_w f limit pool bsms idx nesting bud) = resolve f limit pool bsms idx nesting bud) ->
  forall args nesting bud, snd (resolve_all_w f limit pool bsms args nesting bud) = resolve_all f limit pool bsms args nesting bud.
Proof.
  intros H args. induction args as [|a args IH]; intros nesting bud; [reflexivity|].
  cbn [resolve_all_w resolve_all]. rewrite <- (H a nesting bud).
  destruct (resolve_w f limit pool bsms a nesting bud) as [w1 [bud'| |]]; cbn [fst snd obind]; [apply IH|reflexivity|reflexivity].
Qed.
Lemma resolve_w_erase : forall fuel limit pool bsms idx nesting budget,
  snd (resolve_w fuel limit pool bsms idx nesting budget) = resolve fuel limit pool bsms idx nesting budget.
Proof.
  induction fuel as [|f IH]; intros limit pool bsms idx nesting budget; [reflexivity|].
  rewrite resolve_w_S, resolve_S_all.
  destruct (0 <? nesting); cbn [andb]; [destruct (budget =? 0); cbn [obind snd]; [reflexivity|]|cbn [obind]];
    (destruct (nth_N pool idx) as [[b| |]|]; try reflexivity;
     destruct (match limit with Some m => _ | None => false end); [reflexivity|];
     destruct (nth_N bsms b) as [args|]; [|reflexivity]; cbn [snd]; apply resolve_all_w_erase_from; apply IH).
Qed.
Lemma resolve_all_w_erase fuel limit pool bsms args nesting bud :
  snd (resolve_all_w fuel limit pool bsms args nesting bud) = resolve_all fuel limit pool bsms args nesting bud.
Proof. apply resolve_all_w_erase_from. intros. apply resolve_w_erase. Qed.

(* work accounting *)
Definition work_ok (bud extra w : N) (r : out N) : Prop :=
  match r with
  | Done lft => w + lft = bud + extra
  | Fail => w <= bud + 1 + extra
  | Panic => True
  end.

Lemma resolve_all_w_work_from f limit pool bsms :
  (forall idx nesting bud, let wr := resolve_w f limit pool bsms idx nesting bud in work_ok bud (charge nesting) (fst wr) (snd wr)) ->
  forall args nesting bud, 0 < nesting ->
    let wr := resolve_all_w f limit pool bsms args nesting bud in work_ok bud 0 (fst wr) (snd wr).
Proof.
  intros H args. induction args as [|a args IH]; intros nesting bud Hn; cbv zeta.
  - cbn. lia.
  - cbn [resolve_all_w]. specialize (H a nesting bud). cbv zeta in H.
    assert (Hc : charge nesting = 0) by (unfold charge; destruct (N.ltb_spec 0 nesting); [reflexivity|lia]).
    rewrite Hc in H.
    destruct (resolve_w f limit pool bsms a nesting bud) as [w1 [bud'| |]]; cbn [fst snd] in *.
    + specialize (IH nesting bud' Hn). cbv zeta in IH.
      destruct (resolve_all_w f limit pool bsms args nesting bud') as [w2 [lft| |]]; cbn [fst snd work_ok] in *; lia.
    + cbn [work_ok] in *. lia.
    + exact I.
Qed.

Lemma resolve_w_work : forall fuel limit pool bsms idx nesting budget,
  let wr := resolve_w fuel limit pool bsms idx nesting budget in work_ok budget (charge nesting) (fst wr) (snd wr).
Proof.
  induction fuel as [|f IH]; intros limit pool bsms idx nesting budget; cbv zeta; [exact I|].
  rewrite resolve_w_S. unfold charge.
  destruct (N.ltb_spec 0 nesting) as [Hn|Hn]; cbn [andb].
  - destruct (N.eqb_spec budget 0) as [Hb|Hb]; [cbn; lia|].
    cbv zeta.
    destruct (nth_N pool idx) as [[b| |]|]; try (cbn [fst snd work_ok]; lia).
    destruct (match limit with Some m => _ | None => false end); [cbn [fst snd work_ok]; lia|].
    destruct (nth_N bsms b) as [args|]; [|cbn [fst snd work_ok]; lia].
    pose proof (resolve_all_w_work_from f limit pool bsms (IH limit pool bsms) args (nesting + 1) (budget - 1)) as H.
    cbv zeta in H. specialize (H ltac:(lia)).
    destruct (resolve_all_w f limit pool bsms args (nesting + 1) (budget - 1)) as [w [lft| |]]; cbn [fst snd work_ok] in *; lia.
  - cbv zeta.
    destruct (nth_N pool idx) as [[b| |]|]; try (cbn [fst snd work_ok]; lia).
    destruct (match limit with Some m => _ | None => false end); [cbn [fst snd work_ok]; lia|].
    destruct (nth_N bsms b) as [args|]; [|cbn [fst snd work_ok]; lia].
    pose proof (resolve_all_w_work_from f limit pool bsms (IH limit pool bsms) args (nesting + 1) budget) as H.
    cbv zeta in H. specialize (H ltac:(lia)).
    destruct (resolve_all_w f limit pool bsms args (nesting + 1) budget) as [w [lft| |]]; cbn [fst snd work_ok] in *; lia.
Qed.
Lemma resolve_all_w_work fuel limit pool bsms args nesting bud : 0 < nesting ->
  let wr := resolve_all_w fuel limit pool bsms args nesting bud in work_ok bud 0 (fst wr) (snd wr).
Proof. apply resolve_all_w_work_from. apply resolve_w_work. Qed.

(* the budget decides: an accepted resolution consumes c = B - left of the budget, and with any
   other budget B' the same resolution is accepted iff c <= B' *)
Definition budget_spec (run : N -> out N) (B lft : N) : Prop :=
  lft <= B /\ forall B', run B' = if (B - lft) <=? B' then Done (B' - (B - lft)) else Fail.

Lemma resolve_all_budget_from f limit pool bsms :
  (forall idx nesting B lft, resolve f limit pool bsms idx nesting B = Done lft -> budget_spec (resolve f limit pool bsms idx nesting) B lft) ->
  forall args nesting B lft, resolve_all f limit pool bsms args nesting B = Done lft ->
    budget_spec (resolve_all f limit pool bsms args nesting) B lft.
Proof.
  intros H args. induction args as [|a args IH]; intros nesting B lft E.
  - cbn in E. injection E as <-. split; [lia|]. intros B'. cbn [resolve_all].
    destruct (N.leb_spec (B - B) B'); [f_equal; lia|lia].
  - cbn [resolve_all] in E. destruct (resolve f limit pool bsms a nesting B) as [b1| |] eqn:Ea; cbn [obind] in E; try discriminate.
    destruct (H _ _ _ _ Ea) as [Hle1 Hrun1]. destruct (IH _ _ _ E) as [Hle2 Hrun2].
    split; [lia|]. intros B'. cbn [resolve_all]. rewrite Hrun1.
    destruct (N.leb_spec (B - b1) B') as [L1|L1]; cbn [obind].
    + rewrite Hrun2. destruct (N.leb_spec (b1 - lft) (B' - (B - b1))) as [L2|L2]; destruct (N.leb_spec (B - lft) B') as [L3|L3]; try lia; try reflexivity.
      f_equal. lia.
    + destruct (N.leb_spec (B - lft) B') as [L3|L3]; [lia|reflexivity].
Qed.

Lemma resolve_budget : forall fuel limit pool bsms idx nesting B lft,
  resolve fuel limit pool bsms idx nesting B = Done lft -> budget_spec (resolve fuel limit pool bsms idx nesting) B lft.
Proof.
  induction fuel as [|f IH]; intros limit pool bsms idx nesting B lft E; [discriminate|].
  rewrite resolve_S_all in E. unfold budget_spec. 
  destruct (N.ltb_spec 0 nesting) as [Hn|Hn].
  - destruct (N.eqb_spec B 0) as [Hb|Hb]; [discriminate|]. cbn [obind] in E.
    destruct (nth_N pool idx) as [[b| |]|] eqn:Ep; try discriminate.
    + destruct (match limit with Some m => _ | None => false end) eqn:El; [discriminate|].
      destruct (nth_N bsms b) as [args|] eqn:Eb; [|discriminate].
      destruct (resolve_all_budget_from f limit pool bsms (IH limit pool bsms) _ _ _ _ E) as [Hle Hrun].
      split; [lia|]. intros B'. rewrite resolve_S_all.
      destruct (N.ltb_spec 0 nesting) as [_|?]; [|lia].
      destruct (N.eqb_spec B' 0) as [Hb'|Hb']; cbn [obind].
      * destruct (N.leb_spec (B - lft) B'); [lia|reflexivity].
      * rewrite Ep, El, Eb, Hrun.
        destruct (N.leb_spec (B - 1 - lft) (B' - 1)); destruct (N.leb_spec (B - lft) B'); try lia; try reflexivity. f_equal; lia.
    + injection E as <-. split; [lia|]. intros B'. rewrite resolve_S_all.
      destruct (N.ltb_spec 0 nesting) as [_|?]; [|lia].
      destruct (N.eqb_spec B' 0) as [Hb'|Hb']; cbn [obind].
      * destruct (N.leb_spec (B - (B - 1)) B'); [lia|reflexivity].
      * rewrite Ep. destruct (N.leb_spec (B - (B - 1)) B'); [f_equal; lia|lia].
  - cbn [obind] in E.
    destruct (nth_N pool idx) as [[b| |]|] eqn:Ep; try discriminate.
    + destruct (match limit with Some m => _ | None => false end) eqn:El; [discriminate|].
      destruct (nth_N bsms b) as [args|] eqn:Eb; [|discriminate].
      destruct (resolve_all_budget_from f limit pool bsms (IH limit pool bsms) _ _ _ _ E) as [Hle Hrun].
      split; [lia|]. intros B'. rewrite resolve_S_all.
      destruct (N.ltb_spec 0 nesting) as [?|_]; [lia|]. cbn [obind].
      rewrite Ep, El, Eb, Hrun. reflexivity.
    + injection E as <-. split; [lia|]. intros B'. rewrite resolve_S_all.
      destruct (N.ltb_spec 0 nesting) as [?|_]; [lia|]. cbn [obind]. rewrite Ep.
      destruct (N.leb_spec (B - B) B'); [f_equal; lia|lia].
Qed.
Lemma resolve_all_budget fuel limit pool bsms args nesting B lft :
  resolve_all fuel limit pool bsms args nesting B = Done lft -> budget_spec (resolve_all fuel limit pool bsms args nesting) B lft.
Proof. apply resolve_all_budget_from. intros. apply resolve_budget. assumption. Qed.

(* no panic for a whole argument list *)
Lemma resolve_all_no_panic pool bsms args nesting bud : nesting <= 65 -> (67 <= resolve_fuel + N.to_nat nesting)%nat ->
  resolve_all resolve_fuel (Some max_nesting) pool bsms args nesting bud <> Panic.
Proof.
  intros Hn Hf. revert bud. induction args as [|a args IH]; intros bud; [discriminate|].
  cbn [resolve_all]. destruct (resolve resolve_fuel (Some max_nesting) pool bsms a nesting bud) as [b| |] eqn:E; cbn [obind].
  - apply IH. - discriminate. - exfalso. exact (resolve_no_panic _ _ _ _ _ _ Hn Hf E).
Qed.

(* ---- one instruction ---- *)
Theorem indy_instruction_bounded pool bsms args :
  let wr := indy_instruction_w pool bsms args in
  snd wr = indy_instruction pool bsms args /\ snd wr <> Panic /\ fst wr <= max_expanded + 1 /\
  (forall lft, snd wr = Done lft -> fst wr + lft = max_expanded).
Proof.
  cbv zeta. unfold indy_instruction_w, indy_instruction.
  pose proof (resolve_all_w_erase resolve_fuel (Some max_nesting) pool bsms args 1 max_expanded) as He.
  pose proof (resolve_all_w_work resolve_fuel (Some max_nesting) pool bsms args 1 max_expanded ltac:(lia)) as Hw. cbv zeta in Hw.
  split; [exact He|]. split; [rewrite He; apply resolve_all_no_panic; unfold resolve_fuel; cbn; lia|].
  destruct (resolve_all_w resolve_fuel (Some max_nesting) pool bsms args 1 max_expanded) as [w [l| |]]; cbn [fst snd work_ok] in *.
  - split; [lia|]. intros lft E. injection E as <-. lia.
  - split; [lia|]. discriminate.
  - split; [|discriminate]. exfalso. revert He. intros He. symmetry in He. revert He. apply resolve_all_no_panic; unfold resolve_fuel; cbn; lia.
Qed.

Theorem ldc_instruction_bounded pool bsms idx :
  let wr := ldc_instruction_w pool bsms idx in
  snd wr = ldc_instruction pool bsms idx /\ snd wr <> Panic /\ fst wr <= max_expanded + 2 /\
  (forall lft, snd wr = Done lft -> fst wr + lft = max_expanded + 1).
Proof.
  cbv zeta. unfold ldc_instruction_w, ldc_instruction.
  pose proof (resolve_w_erase resolve_fuel (Some max_nesting) pool bsms idx 0 max_expanded) as He.
  pose proof (resolve_w_work resolve_fuel (Some max_nesting) pool bsms idx 0 max_expanded) as Hw. cbv zeta in Hw.
  change (charge 0) with 1 in Hw.
  assert (Hnp : resolve resolve_fuel (Some max_nesting) pool bsms idx 0 max_expanded <> Panic) by (apply (bootstrap_no_panic pool bsms idx false)).
  split; [exact He|]. split; [rewrite He; exact Hnp|].
  destruct (resolve_w resolve_fuel (Some max_nesting) pool bsms idx 0 max_expanded) as [w [l| |]]; cbn [fst snd work_ok] in *.
  - split; [lia|]. intros lft E. injection E as <-. lia.
  - split; [lia|]. discriminate.
  - exfalso. apply Hnp. symmetry. exact He.
Qed.

(* accepted iff the instruction's total number of expanded arguments is at most the budget: the
   number c that an accepting run consumes does not depend on the budget, and any budget below c refuses *)
Theorem indy_accepts_iff_total_within_budget pool bsms args B lft :
  resolve_all resolve_fuel (Some max_nesting) pool bsms args 1 B = Done lft ->
  lft <= B /\ forall B', resolve_all resolve_fuel (Some max_nesting) pool bsms args 1 B' = if (B - lft) <=? B' then Done (B' - (B - lft)) else Fail.
Proof. apply resolve_all_budget. Qed.

(* the model can express the defect: with a budget per top-level argument three copies of a DAG
   of depth 15 (32767 constants each) are all expanded, 98301 > 65536; the real rule refuses them
   and accepts two copies (65534) *)
Definition per_argument_budget_witness : Prop :=
  indy_per_argument_w (boot_pool (dag_graph 15)) (dag_graph 15) [0; 0; 0] = (98301, Done max_expanded) /\
  indy_instruction_w (boot_pool (dag_graph 15)) (dag_graph 15) [0; 0; 0] = (65537, Fail) /\
  indy_instruction_w (boot_pool (dag_graph 15)) (dag_graph 15) [0; 0] = (65534, Done 2).
Lemma per_argument_budget_witness_holds : per_argument_budget_witness.
Proof. unfold per_argument_budget_witness. split; [|split]; vm_compute; reflexivity. Qed.

(* ---------------- theory *)
Lemma skip_brackets_len s : (length (skip_brackets s) <= length s)%nat.
Proof. induction s as [|c r IH]; cbn [skip_brackets]; [lia|]. destruct (c =? 91); cbn [length] in *; lia. Qed.
Lemma skip_to_semi_len s r : skip_to_semi s = Some r -> (length r < length s)%nat.
Proof.
  revert r. induction s as [|c s IH]; intros r H; cbn [skip_to_semi] in H; [discriminate|].
  destruct (c =? 59). - injection H as Hr. subst r. cbn [length]. lia. - specialize (IH _ H). cbn [length]. lia.
Qed.
Lemma u8_bump_checked size k : u8_bump true size k <> Panic.
Proof. unfold u8_bump. destruct (size + k <=? u8_max); discriminate. Qed.
Lemma u8_bump_done c size k x : u8_bump c size k = Done x -> x <= u8_max.
Proof. unfold u8_bump. destruct (N.leb_spec (size + k) u8_max) as [L|L]; [|destruct c; discriminate]. intros E. injection E as <-. exact L. Qed.

Lemma args_loop_ok : forall fuel s size, (length s < fuel)%nat -> size <= u8_max ->
  match args_loop true fuel s size with Done n => n <= u8_max | Fail => True | Panic => False end.
Proof.
  induction fuel as [|f IH]; intros s size Hf Hs; [lia|].
  cbn [args_loop]. destruct s as [|c r]; [exact I|].
  destruct (c =? 41); [exact Hs|].
  destruct ((c =? 68) || (c =? 74)).
  - destruct (u8_bump true size 2) as [x| |] eqn:E; cbn [obind]; [|exact I|exact (u8_bump_checked _ _ E)].
    apply IH; [cbn [length] in Hf; lia|exact (u8_bump_done _ _ _ _ E)].
  - pose proof (skip_brackets_len (c :: r)) as Hl.
    destruct (skip_brackets (c :: r)) as [|ch r1]; [exact I|]. cbn [length] in *.
    destruct (ch =? 76).
    + destruct (skip_to_semi r1) as [r2|] eqn:E2; [|exact I]. apply skip_to_semi_len in E2.
      destruct (u8_bump true size 1) as [x| |] eqn:E; cbn [obind]; [|exact I|exact (u8_bump_checked _ _ E)].
      apply IH; [lia|exact (u8_bump_done _ _ _ _ E)].
    + destruct (u8_bump true size 1) as [x| |] eqn:E; cbn [obind]; [|exact I|exact (u8_bump_checked _ _ E)].
      apply IH; [lia|exact (u8_bump_done _ _ _ _ E)].
Qed.

Theorem arguments_size_no_panic s : arguments_size s <> Panic.
Proof.
  unfold arguments_size, arguments_size_with. destruct s as [|c r]; [discriminate|].
  destruct (c =? 40); [|discriminate].
  pose proof (args_loop_ok (S (length r)) r 1 ltac:(lia) ltac:(unfold u8_max; lia)) as H.
  destruct (args_loop true (S (length r)) r 1); [discriminate|discriminate|contradiction].
Qed.
Theorem arguments_size_fits_u8 s n : arguments_size s = Done n -> n <= 255.
Proof.
  unfold arguments_size, arguments_size_with. destruct s as [|c r]; [discriminate|].
  destruct (c =? 40); [|discriminate].
  pose proof (args_loop_ok (S (length r)) r 1 ltac:(lia) ltac:(unfold u8_max; lia)) as H.
  intros E. rewrite E in H. exact H.
Qed.

(* the code before the fix overflows: 128 `J` parameters, 255 `I` parameters *)
Definition arguments_size_unrepaired_witnesses : Prop :=
  arguments_size_unrepaired (40 :: repeat 74 128 ++ [41; 86]) = Panic /\
  arguments_size_unrepaired (40 :: repeat 73 255 ++ [41; 86]) = Panic /\
  arguments_size (40 :: repeat 74 128 ++ [41; 86]) = Fail /\
  arguments_size (40 :: repeat 74 127 ++ [41; 86]) = Done 255 /\
  arguments_size_unrepaired (40 :: repeat 74 127 ++ [41; 86]) = Done 255.
Lemma arguments_size_unrepaired_witnesses_hold : arguments_size_unrepaired_witnesses.
Proof. unfold arguments_size_unrepaired_witnesses. split; [|split; [|split; [|split]]]; vm_compute; reflexivity. Qed.

(* ---------------- unescape *)
Lemma unescape_cp_length s : (length (unescape_cp s) <= length s)%nat.
Proof.
  assert (H : forall n s, (length s <= n)%nat -> (length (unescape_cp s) <= length s)%nat).
  { induction n as [|n IH]; intros [|c r] Hl; cbn [length] in *; try (cbn; lia); try lia.
    cbn [unescape_cp]. destruct (c =? 92).
    - destruct r as [|e r']; [cbn; lia|]. destruct (unesc_letter e).
      + cbn [length] in *. specialize (IH r' ltac:(lia)). lia.
      + cbn [length] in *. specialize (IH (e :: r') ltac:(cbn [length]; lia)). cbn [length] in IH. lia.
    - cbn [length]. specialize (IH r ltac:(lia)). lia. }
  apply (H (length s)). lia.
Qed.
