(* C16 theory, WHOLE class reader, part 6: the attributes of Code, read_code, fields, methods, record
   components, the attributes of the class, the header, and the composition: for every byte string and
   every visitor, class_reader::read does not panic. *)
From FB Require Import C16.ModelClsRead C16.Theory C16.TheoryCls C16.TheoryClsAttr C16.TheoryClsCode C16.TheoryClsCode2 C16.TheoryClsCode3 C18.Model.
From Coq Require Import Lia.

Arguments N.add : simpl never.
Arguments N.mul : simpl never.
Arguments N.sub : simpl never.
Arguments N.leb : simpl never.
Arguments N.ltb : simpl never.
Arguments N.eqb : simpl never.
Arguments N.modulo : simpl never.

(* ------------------------------------------------------------------------------------------ *)
(* verification types, stack map frames                                                         *)
Lemma np_read_vti p cl st : np (read_vti p cl st).
Proof. unfold read_vti. np_go. Qed.
#[export] Hint Resolve np_read_vti : npdb.

Lemma u8_sub_ok a b : b <= a -> u8_sub a b <> Panic.
Proof. intros H. unfold u8_sub. destruct (N.leb_spec b a); [discriminate|lia]. Qed.
Lemma u8_sub_val a b x : u8_sub a b = Done x -> x = a - b.
Proof. unfold u8_sub. destruct (b <=? a); [|discriminate]. intros [= <-]. reflexivity. Qed.

Lemma np_read_stack_map_frame p cl st : np (read_stack_map_frame p cl st).
Proof.
  unfold read_stack_map_frame. apply np_bind; [exact np_rd_u8|intros ft].
  destruct (N.leb_spec ft 63) as [H63|H63]; [apply np_ret|].
  destruct (N.leb_spec ft 127) as [H127|H127].
  { apply np_bind; [apply np_lift; apply u8_sub_ok; lia|intros d]. np_go. }
  destruct (N.leb_spec ft 246) as [H246|H246]; [apply np_fail|].
  destruct (N.eqb_spec ft 247) as [H247|H247]; [np_go|].
  destruct (N.leb_spec ft 250) as [H250|H250].
  { apply np_bind; [exact np_rd_u16|intros d]. apply np_bind; [apply np_lift; apply u8_sub_ok; lia|intros k]. apply np_ret. }
  destruct (N.eqb_spec ft 251) as [H251|H251]; [np_go|].
  destruct (N.leb_spec ft 254) as [H254|H254].
  { apply np_bind; [exact np_rd_u16|intros d].
    apply (np_bind_post _ _ (fun count => count <= 3)); [apply np_lift; apply u8_sub_ok; lia| |].
    - intros c x c' H. apply lift_done in H. destruct H as [H _]. apply u8_sub_val in H. lia.
    - intros count Hc. apply np_bind; [|intros st1; apply np_ret].
      apply np_read_vec; [apply np_ret| |intros s; apply np_read_vti].
      intros c x c' [= <- _]. unfold max_vec_count. lia. }
  np_go.
Qed.
#[export] Hint Resolve np_read_stack_map_frame : npdb.

(* type annotations inside Code *)
Lemma np_lv_target_table cl st : np (lv_target_table cl st).
Proof. unfold lv_target_table. np_go. Qed.
#[export] Hint Resolve np_lv_target_table : npdb.
Lemma np_read_target_info_code cl st : np (read_target_info_code cl st).
Proof. unfold read_target_info_code. np_go. Qed.
#[export] Hint Resolve np_read_target_info_code : npdb.
Lemma np_read_type_annotations_code p cl st : np (read_type_annotations_code p cl st).
Proof. unfold read_type_annotations_code. np_go. Qed.
#[export] Hint Resolve np_read_type_annotations_code : npdb.

Lemma np_smt_step p cl x : np (smt_step p cl x).
Proof. unfold smt_step. destruct x as [[[first offset] st] fr]. np_go. Qed.
#[export] Hint Resolve np_smt_step : npdb.

Lemma np_max_count_check n : n <= 65535 -> np (if max_vec_count <? n then @panicM unit else ret tt).
Proof. intros H. unfold max_vec_count. destruct (N.ltb_spec 65535 n); [lia|apply np_ret]. Qed.

Lemma np_code_attr v p cl cs : np (code_attr v p cl cs).
Proof.
  unfold code_attr. apply np_bind; [exact np_rd_u16|intros ni]. apply np_bind; [apply np_lift; auto with npdb|intros name].
  apply np_bind; [exact np_rd_u32|intros length].
  destruct (str_eqb name A_STACK_MAP_TABLE).
  { destruct (negb (v_interest v 3 name)); [np_go|].
    apply (np_bind_post _ _ (fun n => n <= 65535) np_rd_u16 post_rd_u16). intros n Hn.
    apply np_bind; [apply np_max_count_check; exact Hn|intros _]. np_go. }
  destruct (str_eqb name A_STACK_MAP).
  { destruct (negb (v_interest v 3 name)); [np_go|].
    apply (np_bind_post _ _ (fun n => n <= 65535) np_rd_u16 post_rd_u16). intros n Hn.
    apply np_bind; [apply np_max_count_check; exact Hn|intros _]. np_go. }
  np_go.
Qed.
#[export] Hint Resolve np_code_attr : npdb.

(* ------------------------------------------------------------------------------------------ *)
(* read_code                                                                                    *)
Lemma takeN_length : forall l n a b, takeN n l = Some (a, b) -> N.of_nat (length a) = n.
Proof.
  induction l as [|x r IH]; intros n a b; cbn [takeN].
  - destruct (N.eqb_spec n 0); [|discriminate]. intros [= <- _]. cbn. lia.
  - destruct (N.eqb_spec n 0) as [->|Hn]; [intros [= <- _]; reflexivity|].
    destruct (takeN (n - 1) r) as [[a' b']|] eqn:E; [|discriminate]. intros [= <- _].
    apply IH in E. cbn [length]. lia.
Qed.
Lemma post_rd_vec n : post (rd_vec n) (fun v => N.of_nat (length v) = n).
Proof.
  intros c v c'. unfold rd_vec. destruct (read_u8_vec n (len_N (rrest c))) as [u| |]; try discriminate;
    (destruct (takeN n (rrest c)) as [[x y]|] eqn:E; [|discriminate]); intros [= <- _]; exact (takeN_length _ _ _ _ E).
Qed.
Lemma to_u16_le x : to_u16 x <= 65535.
Proof. unfold to_u16. pose proof (N.mod_lt x 65536). lia. Qed.

Theorem np_read_code v p bsms : np (read_code v p bsms).
Proof.
  unfold read_code. apply np_bind; [exact np_rd_u16|intros _]. apply np_bind; [exact np_rd_u16|intros _].
  apply np_bind; [exact np_rd_u32|intros code_length].
  destruct ((code_length =? 0) || (65535 <? code_length)); [apply np_fail|].
  apply (np_bind_post _ _ _ (np_rd_vec _) (post_rd_vec _)). intros code Hlen.
  apply (np_bind_post _ _ (fun st0 => pass1 (to_u16 code_length) code = Done st0)).
  { apply np_lift. apply pass1_np. }
  { intros c a c' H. apply lift_done in H. tauto. }
  intros st0 H1.
  apply np_bind; [np_go2|intros st1].
  apply np_bind; [exact np_rd_u16|intros n].
  apply np_bind; [np_go|intros cs].
  apply np_lift. exact (pass2_np p bsms _ code _ _ st0 (to_u16_le _) Hlen H1).
Qed.
#[export] Hint Resolve np_read_code : npdb.

(* ------------------------------------------------------------------------------------------ *)
(* members                                                                                      *)
Lemma np_annotation_arms v p level lvl_t name length m :
  annotation_arms v p level lvl_t name length = Some m -> np m.
Proof.
  unfold annotation_arms.
  destruct (str_eqb name A_RV_ANNOTATIONS || str_eqb name A_RI_ANNOTATIONS).
  { intros [= <-]. np_go. }
  destruct (str_eqb name A_RV_TYPE_ANNOTATIONS || str_eqb name A_RI_TYPE_ANNOTATIONS); [|discriminate].
  intros [= <-]. np_go.
Qed.
Lemma np_once_arm v level name length seen parse : np parse -> np (once_arm v level name length seen parse).
Proof. intros H. unfold once_arm. np_go. Qed.

Ltac arm_step :=
  match goal with
  | |- np (once_arm _ _ _ _ _ _) => apply np_once_arm
  | |- np (match annotation_arms ?v ?p ?l ?t ?n ?len with _ => _ end) =>
      let E := fresh "E" in destruct (annotation_arms v p l t n len) as [?m|] eqn:E;
      [apply np_bind; [exact (np_annotation_arms _ _ _ _ _ _ _ E)|intros ?]|]
  end.
Ltac np_go3 := repeat first [arm_step | idx_np | np_step].

Lemma np_record_attr v p seen : np (record_attr v p seen).
Proof. unfold record_attr. np_go3. Qed.
#[export] Hint Resolve np_record_attr : npdb.
Lemma np_read_record_component v p : np (read_record_component v p).
Proof. unfold read_record_component. np_go3. Qed.
#[export] Hint Resolve np_read_record_component : npdb.
Lemma np_field_attr v p seen : np (field_attr v p seen).
Proof. unfold field_attr. np_go3. Qed.
#[export] Hint Resolve np_field_attr : npdb.
Lemma np_read_field v p : np (read_field v p).
Proof. unfold read_field. np_go3. Qed.
#[export] Hint Resolve np_read_field : npdb.
Lemma np_method_attr v p bsms seen : np (method_attr v p bsms seen).
Proof. unfold method_attr. np_go3. Qed.
#[export] Hint Resolve np_method_attr : npdb.
Lemma np_read_method v p bsms : np (read_method v p bsms).
Proof. unfold read_method. np_go3. Qed.
#[export] Hint Resolve np_read_method : npdb.

(* ------------------------------------------------------------------------------------------ *)
(* the class                                                                                    *)
Lemma np_class_attr v p s : np (class_attr v p s).
Proof. unfold class_attr. np_go3. Qed.
#[export] Hint Resolve np_class_attr : npdb.
Lemma np_skip_members : np skip_members.
Proof. unfold skip_members. np_go. Qed.
#[export] Hint Resolve np_skip_members : npdb.

(* step 1: header and constant pool *)
Theorem np_read_header : np read_header.
Proof. unfold read_header. np_go3. Qed.
#[export] Hint Resolve np_read_header : npdb.
(* step 2: the members, attribute framing *)
Theorem np_read_members v p bsms : np (read_members v p bsms).
Proof. unfold read_members. np_go3. Qed.
#[export] Hint Resolve np_read_members : npdb.

Theorem np_read_class_M v data : np (read_class_M v data).
Proof. unfold read_class_M. np_go3. Qed.

Lemma run_M_np {A} (m : M A) data : np m -> run_M m data <> Panic.
Proof. intros H. unfold run_M. destruct (m (mkRd 0 data)) as [[a c]| |] eqn:E; [discriminate|discriminate|]. exfalso. exact (H _ E). Qed.

(* ------------------------------------------------------------------------------------------ *)
(* the theorems                                                                                 *)
Theorem header_no_panic bytes : header_out bytes <> Panic.
Proof. apply run_M_np. exact np_read_header. Qed.
Theorem members_skipped_no_panic bytes : members_skipped_out bytes <> Panic.
Proof. apply run_M_np. np_go3. Qed.
Theorem read_class_with_no_panic v bytes : read_class_with v bytes <> Panic.
Proof. apply run_M_np. apply np_read_class_M. Qed.
Theorem read_class_no_panic bytes : read_class_out bytes <> Panic.
Proof. apply read_class_with_no_panic. Qed.
