(* C16 model, WHOLE class reader, part 1: the reader monad and the constant pool
   (duke/src/lib.rs ClassRead; duke/src/class_reader/pool.rs).

   [M A := rcur -> out (A * rcur)]: a computation over the cursor (`Cursor<&[u8]>`: position and the
   bytes from the position on) with outcome Done | Fail (an Err of the reader) | Panic.  Panic is
   produced ONLY by the checked operations below (u8 / usize / i64 arithmetic of the source as the
   harness build evaluates it, `unreachable!()`, the cursor slice of read_code, the allocation
   stand-ins [alloc_ok] / the count bound of read_vec, running out of fuel); the theorems of
   TheoryCls*.v show that no byte string reaches one of them.
   Definitions only. *)
From FB Require Export C16.Model.
From FB Require Import C18.Model.
From FB Require C01.Mutf8.
From Coq Require Import String Ascii.
Open Scope N_scope.

(* ------------------------------------------------------------------------------------------ *)
(* the cursor and the monad                                                                     *)

Record rcur := mkRd { rpos : N; rrest : list N }.

Definition M (A : Type) : Type := rcur -> out (A * rcur).
Definition ret {A} (a : A) : M A := fun c => Done (a, c).
Definition failM {A} : M A := fun _ => Fail.
Definition panicM {A} : M A := fun _ => Panic.
Definition bindM {A B} (m : M A) (f : A -> M B) : M B :=
  fun c => match m c with Done (a, c') => f a c' | Fail => Fail | Panic => Panic end.
Definition lift {A} (o : out A) : M A :=
  fun c => match o with Done a => Done (a, c) | Fail => Fail | Panic => Panic end.
Notation "'let*' x := m 'in' k" := (bindM m (fun x => k)) (at level 200, x pattern, m at level 100, k at level 200).
Notation "m ;; k" := (bindM m (fun _ => k)) (at level 100, k at level 200, right associativity).

Definition is_byte (b : N) : bool := b <? 256.

(* read_n::<N>() + from_be_bytes; an element that is not a byte is refused (the theorems quantify over list N) *)
Definition rd_u8 : M N := fun c =>
  match rrest c with
  | a :: r => if is_byte a then Done (a, mkRd (rpos c + 1) r) else Fail
  | _ => Fail
  end.
Definition rd_u16 : M N := fun c =>
  match rrest c with
  | a :: b :: r => if is_byte a && is_byte b then Done (a * 256 + b, mkRd (rpos c + 2) r) else Fail
  | _ => Fail
  end.
Definition rd_u32 : M N := fun c =>
  match rrest c with
  | a :: b :: d :: e :: r =>
      if is_byte a && is_byte b && is_byte d && is_byte e
      then Done (((a * 256 + b) * 256 + d) * 256 + e, mkRd (rpos c + 4) r) else Fail
  | _ => Fail
  end.
Definition rd_i8 : M Z := let* x := rd_u8 in ret (to_signed 8 x).
Definition rd_i16 : M Z := let* x := rd_u16 in ret (to_signed 16 x).
Definition rd_i32 : M Z := let* x := rd_u32 in ret (to_signed 32 x).
(* read_u64 / read_i64: the value is never looked at *)
Definition rd_8bytes : M unit := let* _ := rd_u32 in let* _ := rd_u32 in ret tt.

(* `&l[n..]` clipped to the end, structural on the list: an attribute_length of 4 GiB costs nothing *)
Fixpoint drop (n : N) (l : list N) : list N :=
  match l with
  | [] => []
  | _ :: r => if n =? 0 then l else drop (n - 1) r
  end.
(* the first n elements and what follows them; None when there are fewer *)
Fixpoint takeN (n : N) (l : list N) : option (list N * list N) :=
  match l with
  | [] => if n =? 0 then Some ([], []) else None
  | x :: r =>
      if n =? 0 then Some ([], l)
      else match takeN (n - 1) r with Some (a, b) => Some (x :: a, b) | None => None end
  end.

Definition u64_max : N := 18446744073709551615.
Definition usize_max : N := 18446744073709551615.

(* reader.skip(n as i64) = Cursor::seek(SeekFrom::Current(n)), n >= 0: the position may move past the end
   of the data (then every later read fails); an overflowing position is an io error *)
Definition skipM (n : N) : M unit := fun c =>
  if u64_max <? rpos c + n then Fail else Done (tt, mkRd (rpos c + n) (drop n (rrest c))).
(* reader.marker() *)
Definition markerM : M N := fun c => Done (rpos c, c).
(* reader.goto(pos) = seek(SeekFrom::Start(pos)) on the cursor over [data] *)
Definition gotoM (data : list N) (p : N) : M unit := fun _ => Done (tt, mkRd p (drop p data)).
(* ClassRead::with_pos *)
Definition with_pos {A} (data : list N) (p : N) (f : M A) : M A :=
  let* marker := markerM in gotoM data p ;; let* r := f in gotoM data marker ;; ret r.

(* read_u8_vec(size): `Vec::with_capacity(size.min(1 << 16))`, then `take(size).read_to_end`: the
   allocation is the stand-in of Model.v (read_u8_vec: Panic when not bounded by the input) *)
Definition rd_vec (size : N) : M (list N) := fun c =>
  match read_u8_vec size (len_N (rrest c)) with
  | Panic => Panic
  | _ => match takeN size (rrest c) with
         | Some (v, r) => Done (v, mkRd (rpos c + size) r)
         | None => Fail
         end
  end.

(* ------------------------------------------------------------------------------------------ *)
(* loops                                                                                        *)

(* `for _ in 0..n { a = body(a)? }`: n applications, stopping at the first that is not Done.
   Structural on the binary representation of n (n may be 2^32); no fuel. *)
Fixpoint iterP {A} (p : positive) (body : A -> M A) (a : A) : M A :=
  match p with
  | xH => body a
  | xO q => let* a1 := iterP q body a in iterP q body a1
  | xI q => let* a0 := body a in let* a1 := iterP q body a0 in iterP q body a1
  end.
Definition iterN {A} (n : N) (body : A -> M A) (a : A) : M A :=
  match n with N0 => ret a | Npos p => iterP p body a end.
Definition iterN_ (n : N) (body : M unit) : M unit := iterN n (fun _ => body) tt.

(* ClassRead::read_vec(get_size, get_element): `Vec::with_capacity(size)` of the declared size BEFORE any
   element is read: the declared size must be bounded by a constant (every call site reads an u8 / u16
   count or passes a constant <= 3); a larger one is Panic (stand-in: allocation unrelated to the input) *)
Definition max_vec_count : N := 65535.
Definition read_vec {A} (get_size : M N) (elem : A -> M A) (a : A) : M A :=
  let* size := get_size in
  if max_vec_count <? size then panicM else iterN size elem a.
Definition read_vec_ (get_size : M N) (elem : M unit) : M unit := read_vec get_size (fun _ => elem) tt.

(* ------------------------------------------------------------------------------------------ *)
(* checked arithmetic of the source (overflow-checks = true)                                    *)
Definition u8_sub (a b : N) : out N := if b <=? a then Done (a - b) else Panic.
Definition u8_add (a b : N) : out N := if a + b <=? 255 then Done (a + b) else Panic.
Definition usize_add (a b : N) : out N := if a + b <=? usize_max then Done (a + b) else Panic.
Definition i64_min : Z := (- 9223372036854775808)%Z.
Definition i64_max : Z := 9223372036854775807%Z.
Definition i64_op (z : Z) : out Z := if ((i64_min <=? z) && (z <=? i64_max))%Z then Done z else Panic.
Definition to_u16 (x : N) : N := x mod 65536.

(* ------------------------------------------------------------------------------------------ *)
(* strings: attribute names                                                                     *)
Definition s2n (s : string) : list N := map N_of_ascii (list_ascii_of_string s).

(* ------------------------------------------------------------------------------------------ *)
(* the constant pool (class_reader/pool.rs)                                                     *)

Inductive pe :=
| PClass (name : N) | PFieldRef (cls nt : N) | PMethodRef (cls nt : N) | PIfaceRef (cls nt : N)
| PString (s : N) | PInteger | PFloat | PLong | PDouble | PNameAndType (name desc : N)
| PUtf8 (s : str) | PMethodHandle (kind idx : N) | PMethodType (desc : N)
| PDynamic (bsm nt : N) | PInvokeDynamic (bsm nt : N) | PModule (name : N) | PPackage (name : N).
Definition pool := list (option pe).

Definition rd_4bytes : M unit := let* _ := rd_u32 in ret tt.

(* one iteration of `while pool.len() < constant_pool_count`: the entry, and whether it takes two slots *)
Definition pool_entry : M (pe * bool) :=
  let* tag := rd_u8 in
  if tag =? 1 then
    let* length := rd_u16 in
    let* v := rd_vec length in
    match Mutf8.mutf8_dec v with Ok s => ret (PUtf8 s, false) | Err => failM end
  else if tag =? 3 then rd_4bytes ;; ret (PInteger, false)
  else if tag =? 4 then rd_4bytes ;; ret (PFloat, false)
  else if tag =? 5 then rd_8bytes ;; ret (PLong, true)
  else if tag =? 6 then rd_8bytes ;; ret (PDouble, true)
  else if tag =? 7 then let* i := rd_u16 in ret (PClass i, false)
  else if tag =? 8 then let* i := rd_u16 in ret (PString i, false)
  else if tag =? 9 then let* a := rd_u16 in let* b := rd_u16 in ret (PFieldRef a b, false)
  else if tag =? 10 then let* a := rd_u16 in let* b := rd_u16 in ret (PMethodRef a b, false)
  else if tag =? 11 then let* a := rd_u16 in let* b := rd_u16 in ret (PIfaceRef a b, false)
  else if tag =? 12 then let* a := rd_u16 in let* b := rd_u16 in ret (PNameAndType a b, false)
  else if tag =? 15 then let* k := rd_u8 in let* i := rd_u16 in ret (PMethodHandle k i, false)
  else if tag =? 16 then let* i := rd_u16 in ret (PMethodType i, false)
  else if tag =? 17 then let* a := rd_u16 in let* b := rd_u16 in ret (PDynamic a b, false)
  else if tag =? 18 then let* a := rd_u16 in let* b := rd_u16 in ret (PInvokeDynamic a b, false)
  else if tag =? 19 then let* i := rd_u16 in ret (PModule i, false)
  else if tag =? 20 then let* i := rd_u16 in ret (PPackage i, false)
  else failM.

(* [acc] is the pool in reverse, [plen] = pool.len(); every iteration pushes one or two slots, so
   [count] iterations suffice; running out of fuel would be an endless loop (Panic) *)
Fixpoint pool_loop (fuel : nat) (count plen : N) (acc : list (option pe)) : M (list (option pe)) :=
  if count <=? plen then ret acc else
  match fuel with
  | O => panicM
  | S f =>
      let* (e, two) := pool_entry in
      if two : bool then pool_loop f count (plen + 2) (None :: Some e :: acc)
      else pool_loop f count (plen + 1) (Some e :: acc)
  end.
Definition read_pool : M pool :=
  let* count := rd_u16 in
  let* acc := pool_loop (N.to_nat count) count 1 [None] in
  ret (rev' acc).

(* ---- accessors: Done | Fail only ---- *)
Definition pget (p : pool) (i : N) : out pe :=
  match nth_error p (N.to_nat i) with Some (Some e) => Done e | _ => Fail end.
Definition get_utf8 (p : pool) (i : N) : out str :=
  let! e := pget p i in match e with PUtf8 s => Done s | _ => Fail end.
(* a name newtype's try_from: check_valid *)
Definition checked (ok : str -> bool) (s : str) : out str := if ok s then Done s else Fail.
Definition get_class (p : pool) (i : N) : out str :=
  let! e := pget p i in match e with PClass n => let! s := get_utf8 p n in checked is_valid_class_name s | _ => Fail end.
Definition get_obj_class (p : pool) (i : N) : out str :=
  let! e := pget p i in match e with PClass n => let! s := get_utf8 p n in checked is_valid_obj_class_name s | _ => Fail end.
Definition get_package (p : pool) (i : N) : out str :=
  let! e := pget p i in match e with PPackage n => get_utf8 p n | _ => Fail end.
Definition get_module (p : pool) (i : N) : out str :=
  let! e := pget p i in match e with PModule n => get_utf8 p n | _ => Fail end.
Definition get_name_and_type (p : pool) (i : N) : out (str * str) :=
  let! e := pget p i in
  match e with PNameAndType n d => let! name := get_utf8 p n in let! desc := get_utf8 p d in Done (name, desc) | _ => Fail end.
Definition get_field_nt (p : pool) (i : N) : out unit :=
  let! (name, _) := get_name_and_type p i in let! _ := checked is_valid_unqualified_name name in Done tt.
Definition get_method_nt (p : pool) (i : N) : out unit :=
  let! (name, _) := get_name_and_type p i in let! _ := checked is_valid_method_name name in Done tt.
Definition get_field_ref (p : pool) (i : N) : out unit :=
  let! e := pget p i in match e with PFieldRef c nt => let! _ := get_obj_class p c in get_field_nt p nt | _ => Fail end.
Definition get_method_ref (p : pool) (i : N) : out unit :=
  let! e := pget p i in match e with PMethodRef c nt => let! _ := get_class p c in get_method_nt p nt | _ => Fail end.
Definition get_iface_ref (p : pool) (i : N) : out unit :=
  let! e := pget p i in match e with PIfaceRef c nt => let! _ := get_class p c in get_method_nt p nt | _ => Fail end.
Definition get_method_or_iface_ref (p : pool) (i : N) : out unit :=
  let! e := pget p i in
  match e with PMethodRef c nt | PIfaceRef c nt => let! _ := get_class p c in get_method_nt p nt | _ => Fail end.
Definition get_integer (p : pool) (i : N) : out unit := let! e := pget p i in match e with PInteger => Done tt | _ => Fail end.
Definition get_float (p : pool) (i : N) : out unit := let! e := pget p i in match e with PFloat => Done tt | _ => Fail end.
Definition get_long (p : pool) (i : N) : out unit := let! e := pget p i in match e with PLong => Done tt | _ => Fail end.
Definition get_double (p : pool) (i : N) : out unit := let! e := pget p i in match e with PDouble => Done tt | _ => Fail end.
Definition as_method_handle (p : pool) (kind idx : N) : out unit :=
  if in_range 1 4 kind then get_field_ref p idx
  else if kind =? 5 then get_method_ref p idx
  else if (kind =? 6) || (kind =? 7) then get_method_or_iface_ref p idx
  else if kind =? 8 then get_method_ref p idx
  else if kind =? 9 then get_iface_ref p idx
  else Fail.
Definition get_method_handle (p : pool) (i : N) : out unit :=
  let! e := pget p i in match e with PMethodHandle k x => as_method_handle p k x | _ => Fail end.
Definition get_constant_value (p : pool) (i : N) : out unit :=
  let! e := pget p i in
  match e with PInteger | PFloat | PLong | PDouble => Done tt | PString s => let! _ := get_utf8 p s in Done tt | _ => Fail end.
(* pool.get_optional(index, f) *)
Definition optional {A} (f : N -> out A) (i : N) : out unit := if i =? 0 then Done tt else let! _ := f i in Done tt.

(* ---- loadable constants and bootstrap arguments ----
   [bsms]: the BootstrapMethods attribute as read (None: no such attribute yet), per method the raw
   argument indices (the handle was resolved when the attribute was read).
   get_loadable_nested / as_loadable / as_dynamic with the nesting limit and the per-instruction budget;
   fuel = stack depth, out of fuel = Panic. *)
Definition max_bsm_nesting : N := 64.
Definition max_bsm_expanded : N := 65536.
Definition bsm_table := option (list (list N)).

Fixpoint loadable (fuel : nat) (p : pool) (bsms : bsm_table) (idx nesting budget : N) : out N :=
  match fuel with
  | O => Panic
  | S f =>
      (* get_loadable_nested: `if nesting > 0 { budget.checked_sub(1) }` *)
      let! budget1 := (if 0 <? nesting then (if budget =? 0 then Fail else Done (budget - 1)) else Done budget) in
      let! e := pget p idx in
      match e with
      | PInteger | PFloat | PLong | PDouble => Done budget1
      | PClass _ => let! _ := get_class p idx in Done budget1
      | PString s => let! _ := get_utf8 p s in Done budget1
      | PMethodHandle k x => let! _ := as_method_handle p k x in Done budget1
      | PMethodType d => let! _ := get_utf8 p d in Done budget1
      | PDynamic b nt =>
          (* as_dynamic *)
          if max_bsm_nesting <? nesting then Fail else
          let! _ := get_field_nt p nt in
          match bsms with
          | None => Fail
          | Some ms =>
              match nth_error ms (N.to_nat b) with
              | None => Fail
              | Some args =>
                  (fix go (args : list N) (bud : N) : out N :=
                     match args with
                     | [] => Done bud
                     | a :: rest =>
                         let! n1 := usize_add nesting 1 in
                         let! bud' := loadable f p bsms a n1 bud in go rest bud'
                     end) args budget1
              end
          end
      | _ => Fail
      end
  end.
Definition loadable_fuel : nat := 67.
(* pool.get_loadable(index, bootstrap_methods): ldc / ldc_w / ldc2_w *)
Definition get_loadable (p : pool) (bsms : bsm_table) (idx : N) : out unit :=
  let! _ := loadable loadable_fuel p bsms idx 0 max_bsm_expanded in Done tt.
(* pool.get_invoke_dynamic: one budget for all top-level arguments *)
Fixpoint loadable_all (fuel : nat) (p : pool) (bsms : bsm_table) (args : list N) (nesting bud : N) : out N :=
  match args with
  | [] => Done bud
  | a :: rest => let! bud' := loadable fuel p bsms a nesting bud in loadable_all fuel p bsms rest nesting bud'
  end.
Definition get_invoke_dynamic (p : pool) (bsms : bsm_table) (idx : N) : out unit :=
  let! e := pget p idx in
  match e with
  | PInvokeDynamic b nt =>
      let! _ := get_method_nt p nt in
      match bsms with
      | None => Fail
      | Some ms =>
          match nth_error ms (N.to_nat b) with
          | None => Fail
          | Some args => let! _ := loadable_all loadable_fuel p bsms args 1 max_bsm_expanded in Done tt
          end
      end
  | _ => Fail
  end.
