(* C16 theory: the inventory of operations that can panic / allocate / loop, as generated from the
   sources by translate/c16_sites.py (SitesGen.v), against what the model does with each of them.
   [text_model] / [writer_model] are written by hand: (function, operation, occurrences, treatment).
   The two *_sites_match theorems fail to compile when the source gains, loses or changes such an
   operation in one of the functions in scope (a new slice, unwrap, cast, arithmetic operation,
   loop, recursive call, conversion) — the table must then be revisited together with the model. *)
From FB Require Import C16.Model C16.Theory C16.Theory2 C16.SitesGen.
From Coq Require Import String List Lia ZArith.
Import ListNotations.
Open Scope string_scope.
Close Scope N_scope.

Definition text_model : list (string * string * nat * string) := [
  ("quill/src/lines.rs::new", "index line[idents..]", 1,
     "MODELLED slice_from (Panic off a char boundary / past the end); safe: C16_no_panic_text_line, used by tiny_line / enigma_line");
  ("quill/src/lines.rs::next_level", "arith self.depth + 1", 1,
     "ASSUMED no overflow: depth = number of running loops <= 68 (C16_no_panic_enigma) resp. 4");
  ("quill/src/lines.rs::on_every_line", "loop while let Some(line)= self.next()", 1,
     "MODELLED run_lines (structural recursion over the lines; each line is consumed once)");
  ("quill/src/tiny_v2.rs::read", "arith line_number + 1", 1,
     "ASSUMED no overflow: bounded by the number of lines of the input");
  ("quill/src/tiny_v2.rs::unescape", "call String::with_capacity(s.len())", 1,
     "ASSUMED: allocation of the length of the comment being unescaped");
  ("quill/src/tiny_v2.rs::unescape", "loop while let Some(c)= chars.next()", 1,
     "MODELLED unescape_chars (fuel = length + 1 suffices: C16_unescape_fuel_immaterial)");
  ("quill/src/tiny_v2_diff.rs::read", "arith line_number + 1", 1,
     "ASSUMED no overflow: bounded by the number of lines of the input");
  ("quill/src/enigma_file.rs::new", "index line[idents..]", 1,
     "MODELLED slice_from (Panic off a char boundary / past the end); safe: C16_no_panic_text_line, used by tiny_line / enigma_line");
  ("quill/src/enigma_file.rs::parse_class", "arith nesting + 1", 1,
     "MODELLED EClass (n + 1); n <= 64 where it is evaluated (enigma_ok)");
  ("quill/src/enigma_file.rs::parse_class", "recursion parse_class(mappings, iter, line, Some((&parent_src, &parent_dst)), nesting + 1)", 1,
     "MODELLED frame push of the indentation machine; more than 68 frames = Panic; never reached: C16_no_panic_enigma");
  ("quill/src/enigma_file.rs::read_into", "arith line_number + 1", 1,
     "ASSUMED no overflow: bounded by the number of lines of the input");
  ("dukenest/src/io.rs::parse_u16_hex_binary_and_decimal", "call u16::from_str_radix(binary, 2)", 1,
     "MODELLED from_str_radix (Panic for a radix outside 2..=36); radix 2 / 16: parse_access_np");
  ("dukenest/src/io.rs::parse_u16_hex_binary_and_decimal", "call u16::from_str_radix(hex, 16)", 1,
     "MODELLED from_str_radix (Panic for a radix outside 2..=36); radix 2 / 16: parse_access_np");
  ("dukenest/src/io.rs::read_from_reader", "arith line_number + 1", 1,
     "ASSUMED no overflow: bounded by the number of lines of the input")
].

Definition writer_model : list (string * string * nat * string) := [
  ("duke/src/simple_class_writer.rs::align_to_4_byte_boundary", "macro unreachable!", 1,
     "UNREACHABLE: arm excluded by the pattern of the enclosing match (x % 4 < 4; instruction variants matched just above)");
  ("duke/src/simple_class_writer.rs::compute_signed_offset", "arith (target as i32) - (opcode_pos as i32)", 1,
     "BOUNDED: difference of two u16 values in i32 (signed_offset_fits)");
  ("duke/src/simple_class_writer.rs::compute_signed_offset", "cast opcode_pos as i32", 1,
     "WIDENING cast: value preserving");
  ("duke/src/simple_class_writer.rs::compute_signed_offset", "cast target as i32", 1,
     "WIDENING cast: value preserving");
  ("duke/src/simple_class_writer.rs::goto_helper", "arith usize + 1", 2,
     "BOUNDED: an u16 position widened to usize plus constants");
  ("duke/src/simple_class_writer.rs::goto_helper", "cast opcode_pos as usize", 2,
     "WIDENING cast: value preserving");
  ("duke/src/simple_class_writer.rs::goto_helper", "checked i16::try_from(branch)", 1,
     "CHECKED: an error (None / Err), not a panic: checked_conversion_never_panics");
  ("duke/src/simple_class_writer.rs::if_helper", "arith 1 + 2", 5,
     "CONSTANT arithmetic");
  ("duke/src/simple_class_writer.rs::if_helper", "arith 1 + 4", 2,
     "CONSTANT arithmetic");
  ("duke/src/simple_class_writer.rs::if_helper", "arith 2 + 1", 3,
     "CONSTANT arithmetic");
  ("duke/src/simple_class_writer.rs::if_helper", "arith usize + 1", 2,
     "BOUNDED: an u16 position widened to usize plus constants");
  ("duke/src/simple_class_writer.rs::if_helper", "cast opcode_pos as usize", 2,
     "WIDENING cast: value preserving");
  ("duke/src/simple_class_writer.rs::if_helper", "checked i16::try_from(branch)", 1,
     "CHECKED: an error (None / Err), not a panic: checked_conversion_never_panics");
  ("duke/src/simple_class_writer.rs::if_helper", "checked opcode_pos.checked_add(1 + 2)", 2,
     "CHECKED: an error (None / Err), not a panic: checked_conversion_never_panics");
  ("duke/src/simple_class_writer.rs::put_i16_at", "arith pos + 1", 1,
     "PATCH position: inside the buffer the same attempt wrote (C02 model: C02_write_code_no_panic)");
  ("duke/src/simple_class_writer.rs::put_i16_at", "index writer[pos + 1]", 1,
     "PATCH position: inside the buffer the same attempt wrote (C02 model: C02_write_code_no_panic)");
  ("duke/src/simple_class_writer.rs::put_i16_at", "index writer[pos]", 1,
     "PATCH position: inside the buffer the same attempt wrote (C02 model: C02_write_code_no_panic)");
  ("duke/src/simple_class_writer.rs::put_i32_at", "arith pos + 1", 1,
     "PATCH position: inside the buffer the same attempt wrote (C02 model: C02_write_code_no_panic)");
  ("duke/src/simple_class_writer.rs::put_i32_at", "arith pos + 2", 1,
     "PATCH position: inside the buffer the same attempt wrote (C02 model: C02_write_code_no_panic)");
  ("duke/src/simple_class_writer.rs::put_i32_at", "arith pos + 3", 1,
     "PATCH position: inside the buffer the same attempt wrote (C02 model: C02_write_code_no_panic)");
  ("duke/src/simple_class_writer.rs::put_i32_at", "index writer[pos + 1]", 1,
     "PATCH position: inside the buffer the same attempt wrote (C02 model: C02_write_code_no_panic)");
  ("duke/src/simple_class_writer.rs::put_i32_at", "index writer[pos + 2]", 1,
     "PATCH position: inside the buffer the same attempt wrote (C02 model: C02_write_code_no_panic)");
  ("duke/src/simple_class_writer.rs::put_i32_at", "index writer[pos + 3]", 1,
     "PATCH position: inside the buffer the same attempt wrote (C02 model: C02_write_code_no_panic)");
  ("duke/src/simple_class_writer.rs::put_i32_at", "index writer[pos]", 1,
     "PATCH position: inside the buffer the same attempt wrote (C02 model: C02_write_code_no_panic)");
  ("duke/src/simple_class_writer.rs::write", "arith attribute_count += 1", 20,
     "COUNTER: usize, incremented once per attribute / parameter of the tree");
  ("duke/src/simple_class_writer.rs::write", "checked write_usize_as_u16(attribute_count)", 1,
     "CHECKED: an error (None / Err), not a panic: checked_conversion_never_panics");
  ("duke/src/simple_class_writer.rs::write", "checked write_usize_as_u16(bootstrap_methods.len())", 1,
     "CHECKED: an error (None / Err), not a panic: checked_conversion_never_panics");
  ("duke/src/simple_class_writer.rs::write", "checked write_usize_as_u16(class.record_components.len())", 1,
     "CHECKED: an error (None / Err), not a panic: checked_conversion_never_panics");
  ("duke/src/simple_class_writer.rs::write", "checked write_usize_as_u16(inner_classes.len())", 1,
     "CHECKED: an error (None / Err), not a panic: checked_conversion_never_panics");
  ("duke/src/simple_class_writer.rs::write", "checked write_usize_as_u16(len)", 2,
     "CHECKED: an error (None / Err), not a panic: checked_conversion_never_panics");
  ("duke/src/simple_class_writer.rs::write", "checked write_usize_as_u16(nest_members.len())", 1,
     "CHECKED: an error (None / Err), not a panic: checked_conversion_never_panics");
  ("duke/src/simple_class_writer.rs::write", "checked write_usize_as_u16(permitted_subclasses.len())", 1,
     "CHECKED: an error (None / Err), not a panic: checked_conversion_never_panics");
  ("duke/src/simple_class_writer.rs::write", "checked write_usize_as_u16(size)", 3,
     "CHECKED: an error (None / Err), not a panic: checked_conversion_never_panics");
  ("duke/src/simple_class_writer.rs::write", "checked write_usize_as_u32(attribute.bytes.len())", 1,
     "CHECKED: an error (None / Err), not a panic: checked_conversion_never_panics");
  ("duke/src/simple_class_writer.rs::write", "checked write_usize_as_u32(vec.len())", 1,
     "CHECKED: an error (None / Err), not a panic: checked_conversion_never_panics");
  ("duke/src/simple_class_writer.rs::write_annotations_attribute", "checked write_usize_as_u16(annotations.len())", 1,
     "CHECKED: an error (None / Err), not a panic: checked_conversion_never_panics");
  ("duke/src/simple_class_writer.rs::write_attribute", "checked write_usize_as_u32(buffer.len())", 1,
     "CHECKED: an error (None / Err), not a panic: checked_conversion_never_panics");
  ("duke/src/simple_class_writer.rs::write_attribute_fix_length", "checked write_usize_as_u32(length)", 1,
     "CHECKED: an error (None / Err), not a panic: checked_conversion_never_panics");
  ("duke/src/simple_class_writer.rs::write_code", "arith ((opcode - opcode::ILOAD)<< 2 | index) + opcode::ILOAD_0", 1,
     "BOUNDED u8 arithmetic on the five load / store opcodes and an index < 4 (short_load_store_fits)");
  ("duke/src/simple_class_writer.rs::write_code", "arith ((opcode - opcode::ISTORE)<< 2 | index) + opcode::ISTORE_0", 1,
     "BOUNDED u8 arithmetic on the five load / store opcodes and an index < 4 (short_load_store_fits)");
  ("duke/src/simple_class_writer.rs::write_code", "arith (opcode - opcode::ILOAD) << 2", 1,
     "BOUNDED u8 arithmetic on the five load / store opcodes and an index < 4 (short_load_store_fits)");
  ("duke/src/simple_class_writer.rs::write_code", "arith (opcode - opcode::ISTORE) << 2", 1,
     "BOUNDED u8 arithmetic on the five load / store opcodes and an index < 4 (short_load_store_fits)");
  ("duke/src/simple_class_writer.rs::write_code", "arith 251 + locals.len()", 1,
     "GUARDED u8 arithmetic: 1..=3 locals / k, offset_delta < 64 (frame_type_fits)");
  ("duke/src/simple_class_writer.rs::write_code", "arith 251 - k", 1,
     "GUARDED u8 arithmetic: 1..=3 locals / k, offset_delta < 64 (frame_type_fits)");
  ("duke/src/simple_class_writer.rs::write_code", "arith 64 + offset_delta", 1,
     "GUARDED u8 arithmetic: 1..=3 locals / k, offset_delta < 64 (frame_type_fits)");
  ("duke/src/simple_class_writer.rs::write_code", "arith attribute_count += 1", 7,
     "COUNTER: usize, incremented once per attribute / parameter of the tree");
  ("duke/src/simple_class_writer.rs::write_code", "arith desc += 1", 1,
     "COUNTER: usize, incremented once per attribute / parameter of the tree");
  ("duke/src/simple_class_writer.rs::write_code", "arith high - low", 1,
     "READER-BOUNDED i32 arithmetic: `high - low + 1`; overflows for a span past i32, which no accepted class has (C16_reader_tableswitch_span_small; C02 hypothesis spans_ok)");
  ("duke/src/simple_class_writer.rs::write_code", "arith low + 1", 1,
     "READER-BOUNDED i32 arithmetic: `high - low + 1`; overflows for a span past i32, which no accepted class has (C16_reader_tableswitch_span_small; C02 hypothesis spans_ok)");
  ("duke/src/simple_class_writer.rs::write_code", "arith opcode - opcode::ILOAD", 1,
     "BOUNDED u8 arithmetic on the five load / store opcodes and an index < 4 (short_load_store_fits)");
  ("duke/src/simple_class_writer.rs::write_code", "arith opcode - opcode::ISTORE", 1,
     "BOUNDED u8 arithmetic on the five load / store opcodes and an index < 4 (short_load_store_fits)");
  ("duke/src/simple_class_writer.rs::write_code", "arith sign += 1", 1,
     "COUNTER: usize, incremented once per attribute / parameter of the tree");
  ("duke/src/simple_class_writer.rs::write_code", "call Vec::with_capacity(w.len())", 1,
     "ALLOCATION of a length that is already in memory");
  ("duke/src/simple_class_writer.rs::write_code", "call pairs.windows(2)", 1,
     "CONSTANT argument 2 (windows panics for 0 only)");
  ("duke/src/simple_class_writer.rs::write_code", "cast (high - low + 1) as usize", 1,
     "cast of a positive i32 (low <= high was checked) to usize: value preserving");
  ("duke/src/simple_class_writer.rs::write_code", "cast index as u8", 2,
     "GUARDED cast: index < 4 (as_u8_small)");
  ("duke/src/simple_class_writer.rs::write_code", "cast locals.len() as u8", 1,
     "GUARDED cast: 1 <= len <= 3 (frame_type_fits)");
  ("duke/src/simple_class_writer.rs::write_code", "cast u16::MAX as u32", 1,
     "WIDENING cast: value preserving");
  ("duke/src/simple_class_writer.rs::write_code", "cast w.len() as u16", 1,
     "TRUNCATING cast: never panics; a length past 65535 is rejected by the code_length check that follows");
  ("duke/src/simple_class_writer.rs::write_code", "cast w.len() as u32", 1,
     "CAST usize -> u32: never panics; the result is compared with u16::MAX next (code_length check)");
  ("duke/src/simple_class_writer.rs::write_code", "checked i16::try_from(branch)", 1,
     "CHECKED: an error (None / Err), not a panic: checked_conversion_never_panics");
  ("duke/src/simple_class_writer.rs::write_code", "checked i32::try_from(pairs.len())", 1,
     "CHECKED: an error (None / Err), not a panic: checked_conversion_never_panics");
  ("duke/src/simple_class_writer.rs::write_code", "checked i8::try_from(value)", 1,
     "CHECKED: an error (None / Err), not a panic: checked_conversion_never_panics");
  ("duke/src/simple_class_writer.rs::write_code", "checked offset.checked_sub(previous)", 1,
     "CHECKED: an error (None / Err), not a panic: checked_conversion_never_panics");
  ("duke/src/simple_class_writer.rs::write_code", "checked u16::try_from(w.len())", 1,
     "CHECKED: an error (None / Err), not a panic: checked_conversion_never_panics");
  ("duke/src/simple_class_writer.rs::write_code", "checked u8::try_from(index)", 3,
     "CHECKED: an error (None / Err), not a panic: checked_conversion_never_panics");
  ("duke/src/simple_class_writer.rs::write_code", "checked u8::try_from(index.index)", 2,
     "CHECKED: an error (None / Err), not a panic: checked_conversion_never_panics");
  ("duke/src/simple_class_writer.rs::write_code", "checked u8::try_from(offset_delta)", 1,
     "CHECKED: an error (None / Err), not a panic: checked_conversion_never_panics");
  ("duke/src/simple_class_writer.rs::write_code", "checked write_usize_as_u16(attribute_count)", 1,
     "CHECKED: an error (None / Err), not a panic: checked_conversion_never_panics");
  ("duke/src/simple_class_writer.rs::write_code", "checked write_usize_as_u16(desc)", 1,
     "CHECKED: an error (None / Err), not a panic: checked_conversion_never_panics");
  ("duke/src/simple_class_writer.rs::write_code", "checked write_usize_as_u16(frames.len())", 1,
     "CHECKED: an error (None / Err), not a panic: checked_conversion_never_panics");
  ("duke/src/simple_class_writer.rs::write_code", "checked write_usize_as_u16(len)", 4,
     "CHECKED: an error (None / Err), not a panic: checked_conversion_never_panics");
  ("duke/src/simple_class_writer.rs::write_code", "checked write_usize_as_u16(sign)", 1,
     "CHECKED: an error (None / Err), not a panic: checked_conversion_never_panics");
  ("duke/src/simple_class_writer.rs::write_code", "checked write_usize_as_u32(attribute.bytes.len())", 1,
     "CHECKED: an error (None / Err), not a panic: checked_conversion_never_panics");
  ("duke/src/simple_class_writer.rs::write_code", "checked x.checked_sub(1)", 1,
     "CHECKED: an error (None / Err), not a panic: checked_conversion_never_panics");
  ("duke/src/simple_class_writer.rs::write_code", "index x[0]", 1,
     "WINDOW: elements of `pairs.windows(2)`, slices of length 2");
  ("duke/src/simple_class_writer.rs::write_code", "index x[1]", 1,
     "WINDOW: elements of `pairs.windows(2)`, slices of length 2");
  ("duke/src/simple_class_writer.rs::write_code", "loop loop", 1,
     "LOOP: the attempt loop of write_code; terminates: C02_write_code_f_terminates");
  ("duke/src/simple_class_writer.rs::write_code", "macro unreachable!", 2,
     "UNREACHABLE: arm excluded by the pattern of the enclosing match (x % 4 < 4; instruction variants matched just above)");
  ("duke/src/simple_class_writer.rs::write_element_values_named", "checked write_usize_as_u16(pairs.len())", 1,
     "CHECKED: an error (None / Err), not a panic: checked_conversion_never_panics");
  ("duke/src/simple_class_writer.rs::write_element_values_unnamed", "checked write_usize_as_u16(element_values.len())", 1,
     "CHECKED: an error (None / Err), not a panic: checked_conversion_never_panics");
  ("duke/src/simple_class_writer.rs::write_field", "arith attribute_count += 1", 9,
     "COUNTER: usize, incremented once per attribute / parameter of the tree");
  ("duke/src/simple_class_writer.rs::write_field", "checked write_usize_as_u16(attribute_count)", 1,
     "CHECKED: an error (None / Err), not a panic: checked_conversion_never_panics");
  ("duke/src/simple_class_writer.rs::write_field", "checked write_usize_as_u32(attribute.bytes.len())", 1,
     "CHECKED: an error (None / Err), not a panic: checked_conversion_never_panics");
  ("duke/src/simple_class_writer.rs::write_method", "arith attribute_count += 1", 12,
     "COUNTER: usize, incremented once per attribute / parameter of the tree");
  ("duke/src/simple_class_writer.rs::write_method", "checked write_usize_as_u16(attribute_count)", 1,
     "CHECKED: an error (None / Err), not a panic: checked_conversion_never_panics");
  ("duke/src/simple_class_writer.rs::write_method", "checked write_usize_as_u16(len)", 1,
     "CHECKED: an error (None / Err), not a panic: checked_conversion_never_panics");
  ("duke/src/simple_class_writer.rs::write_method", "checked write_usize_as_u32(attribute.bytes.len())", 1,
     "CHECKED: an error (None / Err), not a panic: checked_conversion_never_panics");
  ("duke/src/simple_class_writer.rs::write_method", "checked write_usize_as_u8(len)", 1,
     "CHECKED: an error (None / Err), not a panic: checked_conversion_never_panics");
  ("duke/src/simple_class_writer.rs::write_module", "checked write_usize_as_u16(len)", 8,
     "CHECKED: an error (None / Err), not a panic: checked_conversion_never_panics");
  ("duke/src/simple_class_writer.rs::write_record_component", "arith attribute_count += 1", 6,
     "COUNTER: usize, incremented once per attribute / parameter of the tree");
  ("duke/src/simple_class_writer.rs::write_record_component", "checked write_usize_as_u16(attribute_count)", 1,
     "CHECKED: an error (None / Err), not a panic: checked_conversion_never_panics");
  ("duke/src/simple_class_writer.rs::write_record_component", "checked write_usize_as_u32(attribute.bytes.len())", 1,
     "CHECKED: an error (None / Err), not a panic: checked_conversion_never_panics");
  ("duke/src/simple_class_writer.rs::write_type_annotations_attribute", "checked write_usize_as_u16(type_annotations.len())", 1,
     "CHECKED: an error (None / Err), not a panic: checked_conversion_never_panics");
  ("duke/src/simple_class_writer.rs::write_type_annotations_attribute_code", "checked write_usize_as_u16(type_annotations.len())", 1,
     "CHECKED: an error (None / Err), not a panic: checked_conversion_never_panics");
  ("duke/src/simple_class_writer.rs::write_type_path", "checked write_usize_as_u8(type_path.path.len())", 1,
     "CHECKED: an error (None / Err), not a panic: checked_conversion_never_panics");
  ("duke/src/simple_class_writer.rs::write_type_reference_code", "checked write_usize_as_u16(len)", 2,
     "CHECKED: an error (None / Err), not a panic: checked_conversion_never_panics");
  ("duke/src/simple_class_writer.rs::write_element_value_unnamed", "mutual-recursion write_element_value_unnamed <-> write_element_values_named <-> write_element_values_unnamed", 1,
     "RECURSION over element values of the tree: depth bounded by the reader (C16_element_value_depth_bounded)");
  ("duke/src/simple_class_writer/labels.rs::next_attempt", "call HashMap::with_capacity(self.index_to_offset.len())", 1,
     "ALLOCATION of a length that is already in memory");
  ("duke/src/simple_class_writer/labels.rs::next_attempt", "call HashMap::with_capacity(self.labels.len())", 1,
     "ALLOCATION of a length that is already in memory");
  ("duke/src/simple_class_writer/labels.rs::try_get_range", "arith end - start", 1,
     "READER-BOUNDED u16 arithmetic: the reader builds ranges with start <= end (C16_label_range_accepts_iff_inside; C02 hypothesis ranges_ok)");
  ("duke/src/simple_class_writer/pool.rs::put", "checked self.count.checked_add(inc)", 1,
     "CHECKED: an error (None / Err), not a panic: checked_conversion_never_panics");
  ("duke/src/simple_class_writer/pool.rs::put_bootstrap_method", "call Vec::with_capacity(arguments.len())", 1,
     "ALLOCATION of a length that is already in memory");
  ("duke/src/simple_class_writer/pool.rs::put_bootstrap_method", "checked vec.len().try_into()", 1,
     "CHECKED: an error (None / Err), not a panic: checked_conversion_never_panics");
  ("duke/src/simple_class_writer/pool.rs::put_byte_as_integer", "cast value as i32", 1,
     "WIDENING cast: value preserving");
  ("duke/src/simple_class_writer/pool.rs::put_char_as_integer", "cast value as i32", 1,
     "WIDENING cast: value preserving");
  ("duke/src/simple_class_writer/pool.rs::put_short_as_integer", "cast value as i32", 1,
     "WIDENING cast: value preserving");
  ("duke/src/simple_class_writer/pool.rs::write", "checked write_usize_as_u16(vec.len())", 1,
     "CHECKED: an error (None / Err), not a panic: checked_conversion_never_panics");
  ("duke/src/simple_class_writer/pool.rs::from_dynamic", "mutual-recursion from_dynamic <-> from_loadable <-> put_bootstrap_method <-> put_loadable", 1,
     "RECURSION over bootstrap arguments of the tree: depth bounded by the reader (C16_no_panic_bootstrap_arguments: nesting <= 65)");
  ("duke/src/lib.rs::write_usize_as_u16", "checked u16::try_from(value)", 1,
     "CHECKED: an error (None / Err), not a panic: checked_conversion_never_panics");
  ("duke/src/lib.rs::write_usize_as_u32", "checked u32::try_from(value)", 1,
     "CHECKED: an error (None / Err), not a panic: checked_conversion_never_panics");
  ("duke/src/lib.rs::write_usize_as_u8", "checked u8::try_from(value)", 1,
     "CHECKED: an error (None / Err), not a panic: checked_conversion_never_panics");
  ("duke/src/tree/descriptor.rs::get_arguments_size", "checked size.checked_add(n)", 1,
     "CHECKED: an error (None / Err), not a panic: checked_conversion_never_panics");
  ("duke/src/tree/descriptor.rs::get_arguments_size", "loop loop", 1,
     "MODELLED args_loop / skip_brackets / skip_to_semi (C16_no_panic_arguments_size)");
  ("duke/src/tree/descriptor.rs::get_arguments_size", "loop while char != CHARLIT", 1,
     "MODELLED args_loop / skip_brackets / skip_to_semi (C16_no_panic_arguments_size)");
  ("duke/src/tree/descriptor.rs::get_arguments_size", "loop while chars.next_if_eq(&CHARLIT).is_some()", 1,
     "MODELLED args_loop / skip_brackets / skip_to_semi (C16_no_panic_arguments_size)")
].

Definition strip (x : string * string * nat * string) : string * string * nat := fst x.

Theorem text_sites_match : map strip text_model = text_sites.
Proof. reflexivity. Qed.
Theorem writer_sites_match : map strip writer_model = writer_sites.
Proof. reflexivity. Qed.

(* what the tables say, counted *)
Definition count_with (p : string) (l : list (string * string * nat * string)) : nat :=
  fold_right (fun x acc => if prefix p (snd x) then (snd (fst x) + acc)%nat else acc) 0%nat l.

Close Scope string_scope.
Open Scope N_scope.

Arguments N.add : simpl never.
Arguments N.mul : simpl never.
Arguments N.sub : simpl never.
Arguments N.leb : simpl never.
Arguments N.ltb : simpl never.
Arguments N.eqb : simpl never.

(* ---------------------------------------------------------------- the writer's conversions *)

(* `uN::try_from(x)`, `.try_into()`, `write_usize_as_uN(x)`, `checked_add/sub`: an error, never a panic *)
Definition try_from_max (max x : N) : out N := if x <=? max then Done x else Fail.
Lemma checked_conversion_never_panics max x : try_from_max max x <> Panic /\ forall y, try_from_max max x = Done y -> y = x /\ y <= max.
Proof.
  unfold try_from_max. destruct (N.leb_spec x max); split; try discriminate.
  intros y [= <-]. split; [reflexivity|assumption].
Qed.

(* `x as u8` *)
Definition as_u8 (x : N) : N := x mod 256.
Lemma as_u8_small x : x < 4 -> as_u8 x = x.
Proof. intros H. unfold as_u8. apply N.mod_small. lia. Qed.

(* `((opcode - ILOAD) << 2 | index) + ILOAD_0` and the ISTORE twin, in u8: every intermediate value fits *)
Definition short_form (base base0 op idx : N) : N := N.lor (N.shiftl (op - base) 2) idx + base0.
Definition short_forms_ok : bool :=
  forallb (fun op => forallb (fun idx =>
      (21 <=? op) && (N.shiftl (op - 21) 2 <=? 255) && (short_form 21 26 op idx <=? 255) && (short_form 21 26 op idx =? 26 + 4 * (op - 21) + idx))
    [0; 1; 2; 3]) [21; 22; 23; 24; 25]
  && forallb (fun op => forallb (fun idx =>
      (54 <=? op) && (N.shiftl (op - 54) 2 <=? 255) && (short_form 54 59 op idx <=? 255) && (short_form 54 59 op idx =? 59 + 4 * (op - 54) + idx))
    [0; 1; 2; 3]) [54; 55; 56; 57; 58].
Lemma short_load_store_fits : short_forms_ok = true.
Proof. vm_compute. reflexivity. Qed.

(* stack map frame types: `251 + locals.len() as u8` (1..=3), `251 - k` (1..=3), `64 + offset_delta` (< 64) *)
Lemma frame_type_fits k d : 1 <= k <= 3 -> d < 64 ->
  as_u8 k = k /\ 251 + k <= 255 /\ k <= 251 /\ 248 <= 251 - k /\ 64 + d <= 127.
Proof. intros Hk Hd. unfold as_u8. rewrite N.mod_small by lia. lia. Qed.

(* compute_signed_offset: `(target as i32) - (opcode_pos as i32)` *)
Lemma signed_offset_fits t p : t <= 65535 -> p <= 65535 -> (i32_min <= Z.of_N t - Z.of_N p <= i32_max)%Z.
Proof. unfold i32_min, i32_max. lia. Qed.

(* ---------------------------------------------------------------- what the reader guarantees the writer *)

(* `for _ in 0..n { read_i32 ... }`: n entries need 4 n bytes (8 n with keys) *)
Lemma switch_entries_len : forall fuel wk cl p n c c',
  switch_entries fuel wk cl p n c = Done c' -> 4 * n <= N.of_nat (clen c).
Proof.
  induction fuel as [|f IH]; intros wk cl p n c c'; cbn [switch_entries].
  - destruct (N.eqb_spec n 0) as [->|Hn]; [lia|discriminate].
  - destruct (N.eqb_spec n 0) as [->|Hn]; [lia|].
    destruct (if wk then (let! (_, c1) := read_i32 c in Done c1) else Done c) as [c1| |] eqn:E1; cbn [obind]; try discriminate.
    assert (Hl1 : (clen c1 <= clen c)%nat).
    { destruct wk.
      - destruct (read_i32 c) as [[k c1']| |] eqn:E; cbn [obind] in E1; try discriminate.
        injection E1 as <-. apply read_i32_done in E. lia.
      - injection E1 as <-. lia. }
    destruct (branch32 cl p c1) as [c2| |] eqn:E2; cbn [obind]; try discriminate.
    apply branch32_done in E2. destruct E2 as [_ Hl2].
    intros H. apply IH in H. lia.
Qed.

(* the tableswitch arm of the first pass, written out *)
Lemma insn_tableswitch count cl p c1 :
  insn_operands count cl p 170 c1 =
    (let! c2 := align4 c1 in
     let! c3 := branch32 cl p c2 in
     let! (low, c4) := read_i32 c3 in
     let! (high, c5) := read_i32 c4 in
     if (high <? low)%Z then Fail else
     let! n := count low high in
     let! c6 := switch_entries (S (length (rest c5))) false cl p n c5 in
     Done (c6, true)).
Proof. reflexivity. Qed.

(* low and high of the tableswitch at the cursor *)
Definition tableswitch_bounds (cl p : N) (c1 : cur) : out (Z * Z) :=
  let! c2 := align4 c1 in
  let! c3 := branch32 cl p c2 in
  let! (low, c4) := read_i32 c3 in
  let! (high, _) := read_i32 c4 in
  Done (low, high).

Lemma obind_inv {A B} (r : out A) (k : A -> out B) b : obind r k = Done b -> exists a, r = Done a /\ k a = Done b.
Proof. destruct r as [a| |]; cbn [obind]; intros H; [exists a; auto|discriminate|discriminate]. Qed.

(* a tableswitch that the reader accepts spans at most 16383 values (its entries are in the code
   array, which has at most 65535 bytes): the writer's `high - low + 1` in i32 cannot overflow *)
Theorem reader_tableswitch_span cl p c1 c' e :
  N.of_nat (clen c1) <= 65535 ->
  insn_operands tableswitch_count cl p 170 c1 = Done (c', e) ->
  exists low high, tableswitch_bounds cl p c1 = Done (low, high)
    /\ (low <= high)%Z /\ (1 <= high - low + 1 <= 16383)%Z /\ (i32_min <= high - low <= i32_max)%Z.
Proof.
  intros Hlen. rewrite insn_tableswitch. unfold tableswitch_bounds. intros H.
  apply obind_inv in H. destruct H as (c2 & E2 & H). rewrite E2. cbn [obind].
  apply obind_inv in H. destruct H as (c3 & E3 & H). rewrite E3. cbn [obind].
  apply obind_inv in H. destruct H as ([low c4] & E4 & H). rewrite E4. cbn [obind].
  apply obind_inv in H. destruct H as ([high c5] & E5 & H). rewrite E5. cbn [obind].
  destruct (Z.ltb_spec high low) as [Hlt|Hge]; [discriminate|].
  apply obind_inv in H. destruct H as (n & En & H).
  apply obind_inv in H. destruct H as (c6 & E6 & _).
  unfold tableswitch_count in En. injection En as <-.
  apply switch_entries_len in E6.
  apply align4_done in E2. apply branch32_done in E3. apply read_i32_done in E4. apply read_i32_done in E5.
  exists low, high. split; [reflexivity|].
  assert (Hn : 4 * Z.to_N (high - low + 1) <= 65535) by lia.
  unfold i32_min, i32_max. lia.
Qed.
