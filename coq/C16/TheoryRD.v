(* C16 theory: the indentation machine of ModelText.v (one flat loop over the lines with a stack
   of frames) computes what nested loops compute.  [rd] is the recursive form, shaped like the Rust
   code: the loop of ONE frame (`on_every_line` at the depth of that frame) looks at the next line;
   shallower -> the loop ends and leaves the line to its caller; deeper -> error; at its depth ->
   the handler runs, and when the handler started a sub-section (pushed a frame), the loop of that
   sub-section runs to its end right there (the nested `next_level().on_every_line(..)` call), the
   sub-section is closed, and the loop goes on.  One unit of fuel per call. *)
From FB Require Import C16.Model C16.ModelText C16.Theory C16.TheoryText C18.Model.
From Coq Require Import Lia.

Definition lim_exceeded (limit : option nat) (n : nat) : bool :=
  match limit with Some m => (m <? n)%nat | None => false end.

Fixpoint rd {F St L} (fuel : nat) (limit : option nat) (mk : bytes -> out (option L)) (ind : L -> nat)
    (close : F -> St -> out St) (handle : list F -> St -> L -> out (list F * St))
    (top : F) (rest : list F) (s : St) (ls : list bytes) : out (F * St * list bytes) :=
  match fuel with
  | O => Panic
  | S fu =>
      match ls with
      | [] => Done (top, s, [])
      | raw :: ls' =>
          let! b := line_of raw in
          let! ol := mk b in
          match ol with
          | None => rd fu limit mk ind close handle top rest s ls'
          | Some l =>
              if (ind l <? length rest)%nat then Done (top, s, ls)            (* Ordering::Less: the loop ends, the line stays *)
              else if (length rest <? ind l)%nat then Fail                    (* Ordering::Greater *)
              else
                let! (st', s') := handle (top :: rest) s l in
                if lim_exceeded limit (length st') then Panic else
                match st' with
                | [] => Fail
                | a :: st'' =>
                    if Nat.eqb (length st'') (length rest) then
                      rd fu limit mk ind close handle a rest s' ls'            (* the handler rewrote its own frame *)
                    else
                      match st'' with
                      | [] => Fail
                      | top' :: _ =>
                          (* the handler started a sub-section [a]: its loop runs here, then it is closed *)
                          let! (a', s1, ls1) := rd fu limit mk ind close handle a (top' :: rest) s' ls' in
                          let! s2 := close a' s1 in
                          rd fu limit mk ind close handle top' rest s2 ls1
                      end
                end
          end
      end
  end.

(* what a handler may do to the stack: rewrite its own frame, and possibly start ONE sub-section *)
Definition handler_ok {F St L} (handle : list F -> St -> L -> out (list F * St)) : Prop :=
  forall top rest s l st' s', handle (top :: rest) s l = Done (st', s') ->
  (exists top', st' = top' :: rest) \/ (exists new top', st' = new :: top' :: rest).

(* the next line that counts is shallower than [d] (or there is none) *)
Definition leaves {L} (mk : bytes -> out (option L)) (ind : L -> nat) (ls : list bytes) (d : nat) : Prop :=
  ls = [] \/ exists raw ls' b l, ls = raw :: ls' /\ line_of raw = Done b /\ mk b = Done (Some l) /\ (ind l < d)%nat.

Lemma obind_assoc {A B C} (x : out A) (f : A -> out B) (g : B -> out C) :
  obind (obind x f) g = obind x (fun a => obind (f a) g).
Proof. destruct x; reflexivity. Qed.

(* a sub-section whose loop has ended is closed by the machine before anything else happens *)
Lemma run_lines_pop {F St L} limit (mk : bytes -> out (option L)) ind (close : F -> St -> out St) handle f ri s ls :
  leaves mk ind ls (length ri) ->
  run_lines limit mk ind close handle (f :: ri) s ls =
  (let! s2 := close f s in run_lines limit mk ind close handle ri s2 ls).
Proof.
  intros [->|(raw & ls' & b & l & -> & Hb & Hm & Hi)].
  - cbn [run_lines close_all]. reflexivity.
  - cbn [run_lines]. rewrite Hb. cbn [obind]. rewrite Hm. cbn [obind].
    cbn [settle]. destruct (Nat.ltb_spec (ind l) (length ri)) as [_|Hx]; [|lia].
    rewrite obind_assoc. destruct (close f s) as [s2| |]; cbn [obind]; reflexivity.
Qed.

Lemma settle_here {F St} (close : F -> St -> out St) top rest s :
  settle close (top :: rest) s (length rest) = Done (top :: rest, s).
Proof. cbn [settle]. rewrite Nat.ltb_irrefl. reflexivity. Qed.

Theorem rd_simulates {F St L} limit (mk : bytes -> out (option L)) ind (close : F -> St -> out St) handle :
  handler_ok handle ->
  forall fuel top rest s ls, (length ls < fuel)%nat ->
  match rd fuel limit mk ind close handle top rest s ls with
  | Done (top', s', ls') =>
      run_lines limit mk ind close handle (top :: rest) s ls = run_lines limit mk ind close handle (top' :: rest) s' ls'
      /\ leaves mk ind ls' (length rest) /\ (length ls' <= length ls)%nat
  | Fail => run_lines limit mk ind close handle (top :: rest) s ls = Fail
  | Panic => run_lines limit mk ind close handle (top :: rest) s ls = Panic
  end.
Proof.
  intros Hok. induction fuel as [|fu IH]; intros top rest s ls Hf; [lia|].
  destruct ls as [|raw ls'].
  - cbn [rd]. split; [reflexivity|]. split; [left; reflexivity|lia].
  - cbn [length] in Hf. cbn [rd run_lines].
    destruct (line_of raw) as [b| |] eqn:Hb; cbn [obind]; [|reflexivity|reflexivity].
    destruct (mk b) as [ol| |] eqn:Hm; cbn [obind]; [|reflexivity|reflexivity].
    destruct ol as [l|].
    2:{ specialize (IH top rest s ls' ltac:(lia)).
        destruct (rd fu limit mk ind close handle top rest s ls') as [[[top' s'] ls1]| |]; [|exact IH|exact IH].
        destruct IH as (H1 & H2 & H3). split; [exact H1|]. split; [exact H2|]. cbn [length]. lia. }
    destruct (Nat.ltb_spec (ind l) (length rest)) as [Hlt|Hge].
    { (* the loop ends *)
      split.
      - cbn [run_lines]. rewrite Hb. cbn [obind]. rewrite Hm. cbn [obind]. reflexivity.
      - split; [right; exists raw, ls', b, l; auto|lia]. }
    destruct (Nat.ltb_spec (length rest) (ind l)) as [Hgt|Hle].
    { cbn [settle]. destruct (Nat.ltb_spec (ind l) (length rest)); [lia|].
      destruct (Nat.ltb_spec (length rest) (ind l)); [reflexivity|lia]. }
    assert (Hi : ind l = length rest) by lia. rewrite Hi, settle_here. cbn [obind].
    destruct (handle (top :: rest) s l) as [[st' s']| |] eqn:Hh; cbn [obind]; [|reflexivity|reflexivity].
    unfold lim_exceeded.
    destruct (match limit with Some m => (m <? length st')%nat | None => false end); [reflexivity|].
    destruct (Hok _ _ _ _ _ _ Hh) as [(top' & ->)|(new & top' & ->)].
    + (* the frame was rewritten *)
      cbn [length]. rewrite Nat.eqb_refl.
      specialize (IH top' rest s' ls' ltac:(lia)).
      destruct (rd fu limit mk ind close handle top' rest s' ls') as [[[t2 s2] ls2]| |]; [|exact IH|exact IH].
      destruct IH as (H1 & H2 & H3). split; [exact H1|]. split; [exact H2|]. cbn [length]. lia.
    + (* a sub-section was started *)
      cbn [length]. destruct (Nat.eqb_spec (S (length rest)) (length rest)) as [Hx|_]; [lia|].
      pose proof (IH new (top' :: rest) s' ls' ltac:(lia)) as IHn.
      destruct (rd fu limit mk ind close handle new (top' :: rest) s' ls') as [[[a' s1] ls1]| |]; cbn [obind];
        [|exact IHn|exact IHn].
      destruct IHn as (H1 & H2 & H3). rewrite H1. cbn [length] in H2.
      rewrite (run_lines_pop limit mk ind close handle a' (top' :: rest) s1 ls1 H2).
      destruct (close a' s1) as [s2| |]; cbn [obind]; [|reflexivity|reflexivity].
      specialize (IH top' rest s2 ls1 ltac:(lia)).
      destruct (rd fu limit mk ind close handle top' rest s2 ls1) as [[[t3 s3] ls3]| |]; [|exact IH|exact IH].
      destruct IH as (H4 & H5 & H6). split; [exact H4|]. split; [exact H5|]. cbn [length]. lia.
Qed.

(* the outermost loop (depth 0) consumes every line; the machine then only has to close it *)
Theorem rd_is_the_machine {F St L} limit (mk : bytes -> out (option L)) ind (close : F -> St -> out St) handle bottom s ls :
  handler_ok handle ->
  run_lines limit mk ind close handle [bottom] s ls =
  (let! (top', s', _) := rd (S (length ls)) limit mk ind close handle bottom [] s ls in close_all close [top'] s').
Proof.
  intros Hok. pose proof (rd_simulates limit mk ind close handle Hok (S (length ls)) bottom [] s ls ltac:(lia)) as H.
  destruct (rd (S (length ls)) limit mk ind close handle bottom [] s ls) as [[[top' s'] ls']| |]; cbn [obind]; [|exact H|exact H].
  destruct H as (H1 & H2 & _). rewrite H1.
  destruct H2 as [->|(raw & ls2 & b & l & _ & _ & _ & Hi)]; [reflexivity|cbn [length] in Hi; lia].
Qed.

(* ---------------------------------------------------------------- the three readers *)

Ltac hok :=
  repeat match goal with
  | H : Done _ = Done _ |- _ => injection H as <- <-; ((left; eexists; reflexivity) || (right; eexists _, _; reflexivity))
  | H : Fail = Done _ |- _ => discriminate H
  | H : Panic = Done _ |- _ => discriminate H
  | H : obind ?r ?k = Done _ |- _ => apply obind_done in H; destruct H as (? & _ & H)
  | H : (match ?x with _ => _ end) = Done _ |- _ => destruct x
  end.

Lemma tiny_handle_ok n unesc : handler_ok (tiny_handle n unesc).
Proof. intros top rest s l st' s' H. unfold tiny_handle in H. destruct top; hok. Qed.
Lemma diff_handle_ok unesc : handler_ok (diff_handle unesc).
Proof. intros top rest s l st' s' H. unfold diff_handle in H. destruct top; hok. Qed.
Lemma enigma_handle_ok limit : handler_ok (enigma_handle limit).
Proof. intros top rest s l st' s' H. unfold enigma_handle in H. destruct top; hok. Qed.

(* Enigma: read_into is the loop of the root section; parse_class is the nested call *)
Theorem enigma_is_nested_loops limit input :
  enigma_with limit input =
  (let! (top', s', _) := rd (S (length (raw_lines input))) (Some enigma_max_frames) enigma_line tl_ind enigma_close
                            (enigma_handle limit) ETop [] [] (raw_lines input) in
   let! _ := close_all enigma_close [top'] s' in Done tt).
Proof.
  unfold enigma_with. rewrite (rd_is_the_machine _ _ _ _ _ ETop [] (raw_lines input) (enigma_handle_ok limit)).
  rewrite obind_assoc. destruct (rd _ _ _ _ _ _ _ _ _ _) as [[[top' s'] ls']| |]; reflexivity.
Qed.

(* tiny v2 / tiny diff: the body of the file is the loop of the header sub-section (tiny v2 only),
   then the loop of the classes, each with its nested loops *)
Theorem tiny_diff_body_is_nested_loops unesc body :
  run_lines None tiny_line tl_ind diff_close (diff_handle unesc) [DTop] [] body =
  (let! (top', s', _) := rd (S (length body)) None tiny_line tl_ind diff_close (diff_handle unesc) DTop [] [] body in
   close_all diff_close [top'] s').
Proof. apply rd_is_the_machine. apply diff_handle_ok. Qed.

Theorem tiny_v2_body_is_nested_loops n unesc body :
  run_lines None tiny_line tl_ind tiny_close (tiny_handle n unesc) [THeaderSub false; TTop] [] body =
  (let! (h', s1, ls1) := rd (S (length body)) None tiny_line tl_ind tiny_close (tiny_handle n unesc) (THeaderSub false) [TTop] [] body in
   let! s2 := tiny_close h' s1 in
   let! (t', s3, _) := rd (S (length body)) None tiny_line tl_ind tiny_close (tiny_handle n unesc) TTop [] s2 ls1 in
   close_all tiny_close [t'] s3).
Proof.
  pose proof (rd_simulates None tiny_line tl_ind tiny_close (tiny_handle n unesc) (tiny_handle_ok n unesc)
                (S (length body)) (THeaderSub false) [TTop] [] body ltac:(lia)) as H.
  destruct (rd (S (length body)) None tiny_line tl_ind tiny_close (tiny_handle n unesc) (THeaderSub false) [TTop] [] body)
    as [[[h' s1] ls1]| |]; cbn [obind]; [|exact H|exact H].
  destruct H as (H1 & H2 & H3). rewrite H1.
  rewrite (run_lines_pop None tiny_line tl_ind tiny_close (tiny_handle n unesc) h' [TTop] s1 ls1 H2).
  destruct (tiny_close h' s1) as [s2| |]; cbn [obind]; [|reflexivity|reflexivity].
  pose proof (rd_simulates None tiny_line tl_ind tiny_close (tiny_handle n unesc) (tiny_handle_ok n unesc)
                (S (length body)) TTop [] s2 ls1 ltac:(lia)) as H.
  destruct (rd (S (length body)) None tiny_line tl_ind tiny_close (tiny_handle n unesc) TTop [] s2 ls1)
    as [[[t' s3] ls3]| |]; cbn [obind]; [|exact H|exact H].
  destruct H as (H4 & H5 & _). rewrite H4.
  destruct H5 as [->|(raw & ls2 & b & l & _ & _ & _ & Hi)]; [reflexivity|cbn [length] in Hi; lia].
Qed.
