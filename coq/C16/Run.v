(* C16 correspondence cases: the numeric skeleton of an input together with what the real parser
   did with it (in a sandboxed child process): ROk / RErr, or RPanic for a panic, an abort
   (stack overflow, failed allocation), a timeout or a heap use unrelated to the input size. *)
From FB Require Export C16.Model C16.ModelText C16.ModelEv C16.ModelClsRead C16.ModelClsTree Base.Run.
From FB Require C16.SitesGen.

Inductive real := ROk | RErr | RPanic.

(* what the harness reads off the ClassFile duke::read_class returned.  Numbers the tree keeps raw: number of
   interfaces; per method Code as (max_stack, max_locals, exception table length, line numbers in order) and the
   number of Exceptions entries; the numbers of Module requires / exports / opens.  Flags are stored DECODED
   (structs of bools; From<u16> drops the bits it does not know): the harness sends u16::from(flags) together with
   the mask u16::from(T::from(0xFFFF)) of each flags type, and the model's raw value must agree under the mask:
   class access, InnerClasses flags, Module flags, per field its access, per method its access and its
   MethodParameters flags *)
Record masks := mkMK { mk_class : N; mk_inner : N; mk_module : N; mk_field : N; mk_method : N; mk_param : N }.
Record mskel := mkMS { ms_access : N; ms_code : option (N * N * N * list N); ms_exceptions : option N; ms_parameters : option (list N) }.
Record cskel := mkSK { sk_access : N; sk_interfaces : N; sk_inner : option (list N); sk_module : option (N * N * N * N);
                       sk_fields : list N; sk_methods : list mskel }.
Definition cnt {A} (l : list A) : N := N.of_nat (length l).
Definition masked (mask : N) (l : list N) : list N := map (fun x => N.land x mask) l.
Definition mskel_of (k : masks) (m : rmethod) : mskel :=
  let a := rm_attrs m in
  mkMS (N.land (rm_access m) (mk_method k))
       (option_map (fun c => (rc_max_stack c, rc_max_locals c, cnt (rc_handlers c), rc_lines c)) (ma_code a))
       (option_map cnt (ma_exceptions a)) (option_map (masked (mk_param k)) (ma_parameters a)).
Definition cskel_of (k : masks) (t : rtree) : cskel :=
  mkSK (N.land (t_access t) (mk_class k)) (cnt (t_interfaces t)) (option_map (masked (mk_inner k)) (t_inner_flags t))
       (option_map (fun m => (N.land (mo_flags m) (mk_module k), cnt (mo_requires m), cnt (mo_exports m), cnt (mo_opens m))) (t_module t))
       (masked (mk_field k) (map rf_access (t_fields t))) (map (mskel_of k) (t_methods t)).
Definition code_eqb (a b : N * N * N * list N) : bool :=
  let '(a1, a2, a3, a4) := a in let '(b1, b2, b3, b4) := b in (a1 =? b1) && (a2 =? b2) && (a3 =? b3) && list_eqb N.eqb a4 b4.
Definition quad_eqb (a b : N * N * N * N) : bool :=
  let '(a1, a2, a3, a4) := a in let '(b1, b2, b3, b4) := b in (a1 =? b1) && (a2 =? b2) && (a3 =? b3) && (a4 =? b4).
Definition mskel_eqb (a b : mskel) : bool :=
  (ms_access a =? ms_access b) && opt_eqb code_eqb (ms_code a) (ms_code b) && opt_eqb N.eqb (ms_exceptions a) (ms_exceptions b)
  && opt_eqb (list_eqb N.eqb) (ms_parameters a) (ms_parameters b).
Definition cskel_eqb (a b : cskel) : bool :=
  (sk_access a =? sk_access b) && (sk_interfaces a =? sk_interfaces b) && opt_eqb (list_eqb N.eqb) (sk_inner a) (sk_inner b)
  && opt_eqb quad_eqb (sk_module a) (sk_module b) && list_eqb N.eqb (sk_fields a) (sk_fields b)
  && list_eqb mskel_eqb (sk_methods a) (sk_methods b).

Inductive case :=
| CRange (code_len start len : N) (r : real)          (* LocalVariable(Type)Table entry *)
| CFrames (code_len : N) (deltas : list N) (r : real) (* StackMapTable of same_frame_extended frames *)
| CScan (code : list N) (r : real)                    (* Code attribute with exactly these code bytes *)
| CBoot (g : list (list N)) (root : N) (indy : bool) (r : real) (* bootstrap-argument graph *)
| CAttrLen (tag declared actual : N) (r : real)       (* unknown attribute (0) / SourceDebugExtension (1) at the end of the file *)
| CLine (l : list N) (r : real)                       (* tiny v2 header + this line (bytes) *)
| CDesc (kind : N) (s : str) (r : real)               (* 0 field 1 method 2 return descriptor *)
| CNest (kind depth : N) (r : real)                   (* element value below an annotation: 0 arrays / 1 annotations / 3, 4 alternating (array / annotation outermost);
                                                         5..8 the same four as AnnotationDefault value; 2 Enigma CLASS sections *)
| CShared (k a input_len : N) (r : real)              (* k invokedynamic instructions sharing a arguments (known finding F17) *)
| CBootN (g : list (list N)) (roots : list N) (indy : bool) (r : real) (expanded : option N)
    (* one instruction with several top-level bootstrap arguments; [expanded] = the number of
       bootstrap arguments (counting nested ones) found in the instruction of the accepted tree *)
| CArgSize (desc : str) (r : real)                    (* invokeinterface with this descriptor: what the class WRITER did *)
| CUnesc (cell : str) (r : real) (got : str)          (* tiny v2 class comment cell and the comment the reader stored, both as UTF-8 bytes *)
| CText (kind n : N) (input : list N) (r : real)      (* a whole text file (bytes): 0 tiny v2 with n namespaces, 1 tiny diff, 2 Enigma, 3 nests *)
| CClass (bytes : list N) (r : real)                  (* a whole class file: what duke::read_class did with it *)
| CClassV (bytes : list N) (r : real) (no_members decline_code unit skim decline : bool)
    (* ... and whether read_class_multi accepted it with each of five other visitors (no panic anywhere) *)
| CClassT (bytes : list N) (no_members decline_code unit skim decline : bool) (k : masks) (sk : cskel).
    (* an ACCEPTED class: the same, and the numbers found in the ClassFile that duke::read_class returned, for the
       instrumented reader of coq/C16/ModelClsTree.v *)

(* the model's answer and the observed one agree exactly *)
Definition same {A} (m : out A) (r : real) : bool :=
  match m, r with Done _, ROk | Fail, RErr | Panic, RPanic => true | _, _ => false end.
(* the model only decides between error and "no error from this part" *)
Definition compatible {A} (m : out A) (r : real) : bool :=
  match m, r with Done _, (ROk | RErr) | Fail, RErr | Panic, RPanic => true | _, _ => false end.

Definition check (c : case) : bool :=
  match c with
  | CRange cl st ln r =>
      same (if (cl =? 0) || (u16_max <? cl) then Fail else get_or_create_range cl st ln) r
  | CFrames cl ds r => same (stack_map cl ds) r
  | CScan code r =>
      match scan code with
      | Done true => same (Done tt) r        (* no pool operand anywhere: the class is accepted *)
      | m => compatible m r
      end
  | CBoot g root indy r => same (boot g root indy) r
  | CAttrLen _ declared actual r => same (read_u8_vec declared actual) r
  | CLine l r => compatible (text_line l) r
  | CDesc k s r => same (desc_out k s) r
  | CNest k depth r =>
      if k =? 2 then same (enigma_class_chain depth) r && same (enigma_out (class_staircase 0 (N.to_nat depth))) r
      else
        (* the three element_value readers with the increments and the limit read from the source *)
        match incs_of SitesGen.ev_calls with
        | Some incs =>
            let mode := if k =? 0 then 0%nat else if k =? 1 then 1%nat else if k =? 3 then 2%nat else if k =? 4 then 3%nat else N.to_nat (k - 5) in
            let entry := if k <? 5 then FNamed else FElem in
            same (ev_read incs SitesGen.ev_limit (ev_fuel SitesGen.ev_limit) entry 0 [ev_chain mode (N.to_nat depth) 0]) r
        | None => false
        end
  | CShared k a len r => same (shared_args_alloc k a len) r
  | CBootN g roots indy r expanded =>
      let m := boot_roots g roots indy in
      same m r &&
      match m, expanded with
      | Done lft, Some c => c =? max_expanded - lft   (* the tree holds exactly what the budget paid for *)
      | Done _, None => false
      | _, None => true
      | _, Some _ => false
      end
  | CArgSize desc r => same (arguments_size desc) r
  | CUnesc cell r got =>
      (* the char iteration of the code (unescape_b) and the byte-wise reading (unescape_cp) *)
      match r with ROk => str_eqb (unescape_b cell) got && str_eqb (unescape_cp cell) got | _ => false end
  | CText k n input r =>
      same (if k =? 0 then tiny_v2_out (N.to_nat n) input else if k =? 1 then tiny_diff_out input
            else if k =? 2 then enigma_out input else nests_out input) r
  | CClass bytes r => same (read_class_out bytes) r     (* the WHOLE class reader, exact outcome class *)
  | CClassV bytes r nm dc un sk de =>
      let accepts (v : vis) (b : bool) := match read_class_with v bytes with Done _ => b | Fail => negb b | Panic => false end in
      same (read_class_out bytes) r && accepts no_members_vis nm && accepts decline_code_vis dc && accepts unit_vis un
      && accepts skim_vis sk && accepts decline_vis de
  | CClassT bytes nm dc un sk de k skel =>
      let accepts (v : vis) (b : bool) := match read_class_with v bytes with Done _ => b | Fail => negb b | Panic => false end in
      match read_class_tree bytes with
      | Done t => cskel_eqb (cskel_of k t) skel
      | _ => false
      end (* a tree means read_class_out bytes = Done tt: C16_reader_tree_accepts_iff *)
      && accepts no_members_vis nm && accepts decline_code_vis dc && accepts unit_vis un
      && accepts skim_vis sk && accepts decline_vis de
  end.
