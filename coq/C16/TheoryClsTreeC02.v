(* C16 theory, WHOLE class reader, part 9: the range tests of ModelClsTree.v ARE the tests of C02's hypotheses
   (coq/C02/TheoryC4.v u16ok on Z) on the Z image of the numbers; C02's cinner_ok / cmodule_ok and the u16ok
   conjuncts of cclass_ok, cfield_ok, cmethod_ok, ccode_ok are such tests on the fields named in ModelClsTree.v. *)
From FB Require Import C16.ModelClsTree.
From FB Require C02.TheoryC4.
From Coq Require Import ZArith Lia.

Lemma u16ok_is_C02_u16ok (x : N) : C02.TheoryC4.u16ok (Z.of_N x) = u16ok x.
Proof.
  unfold C02.TheoryC4.u16ok, u16ok.
  destruct (N.leb_spec x 65535) as [H|H].
  - apply andb_true_iff. split; [apply Z.leb_le; lia|apply Z.leb_le; lia].
  - apply andb_false_iff. right. apply Z.leb_gt. lia.
Qed.
