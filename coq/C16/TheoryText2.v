(* C16 theory, text part 2: tiny_v2::unescape.  The code iterates `s.chars()`; on a String (valid
   UTF-8) that is the same as reading the bytes one by one, because the backslash and the four
   escape letters are ASCII and every byte of a multi-byte character is >= 128.  So the char
   iteration never needs an index, and the fuel of the model's char iteration suffices. *)
From FB Require Import C16.Model C16.ModelText C16.Theory C16.Theory3 C18.Model.
From Coq Require Import Lia.

Arguments N.add : simpl never.
Arguments N.mul : simpl never.
Arguments N.sub : simpl never.
Arguments N.leb : simpl never.
Arguments N.ltb : simpl never.
Arguments N.eqb : simpl never.

Lemma is_cont_ge b : is_cont b = true -> 128 <= b < 192.
Proof. unfold is_cont. rewrite andb_true_iff, N.leb_le, N.ltb_lt. tauto. Qed.

(* the shape of a valid string by its first byte *)
Lemma utf8_valid_cases b r : utf8_valid (b :: r) = true ->
  (b < 128 /\ utf8_valid r = true)
  \/ (194 <= b <= 223 /\ exists c1 r', r = c1 :: r' /\ is_cont c1 = true /\ utf8_valid r' = true)
  \/ (224 <= b <= 239 /\ exists c1 c2 r', r = c1 :: c2 :: r' /\ is_cont c1 = true /\ is_cont c2 = true /\ utf8_valid r' = true)
  \/ (240 <= b <= 244 /\ exists c1 c2 c3 r', r = c1 :: c2 :: c3 :: r' /\ is_cont c1 = true /\ is_cont c2 = true /\ is_cont c3 = true /\ utf8_valid r' = true).
Proof.
  cbn [utf8_valid]. destruct (N.ltb_spec b 128) as [H1|H1]; [intros Hv; left; split; [exact H1|exact Hv]|].
  destruct (in_range 194 223 b) eqn:E2.
  { apply in_range_spec in E2. intros Hv. right; left. split; [exact E2|].
    destruct r as [|c1 r']; [discriminate|]. apply andb_true_iff in Hv. destruct Hv as [Ha Hb].
    exists c1, r'. auto. }
  destruct (in_range 224 239 b) eqn:E3.
  { apply in_range_spec in E3. intros Hv. right; right; left. split; [exact E3|].
    destruct r as [|c1 [|c2 r']]; try discriminate.
    apply andb_true_iff in Hv; destruct Hv as [Hv Hr'].
    apply andb_true_iff in Hv; destruct Hv as [Hv _].
    apply andb_true_iff in Hv; destruct Hv as [Hv _].
    apply andb_true_iff in Hv; destruct Hv as [Ha Hb].
    exists c1, c2, r'. auto. }
  destruct (in_range 240 244 b) eqn:E4.
  { apply in_range_spec in E4. intros Hv. right; right; right. split; [exact E4|].
    destruct r as [|c1 [|c2 [|c3 r']]]; try discriminate.
    apply andb_true_iff in Hv; destruct Hv as [Hv Hr'].
    apply andb_true_iff in Hv; destruct Hv as [Hv _].
    apply andb_true_iff in Hv; destruct Hv as [Hv _].
    apply andb_true_iff in Hv; destruct Hv as [Hv Hc].
    apply andb_true_iff in Hv; destruct Hv as [Ha Hb].
    exists c1, c2, c3, r'. auto 10. }
  discriminate.
Qed.

Lemma unesc_letter_high e : 128 <= e -> unesc_letter e = None.
Proof.
  intros He. unfold unesc_letter.
  destruct (N.eqb_spec e 92); [lia|]. destruct (N.eqb_spec e 110); [lia|].
  destruct (N.eqb_spec e 114); [lia|]. destruct (N.eqb_spec e 116); [lia|]. reflexivity.
Qed.

Lemma width1 b : b < 128 -> char_width b = 1%nat.
Proof. intros H. unfold char_width. destruct (N.ltb_spec b 128); [reflexivity|lia]. Qed.
Lemma width2 b : 194 <= b <= 223 -> char_width b = 2%nat.
Proof. intros H. unfold char_width. destruct (N.ltb_spec b 128); [lia|]. destruct (N.ltb_spec b 224); [reflexivity|lia]. Qed.
Lemma width3 b : 224 <= b <= 239 -> char_width b = 3%nat.
Proof.
  intros H. unfold char_width. destruct (N.ltb_spec b 128); [lia|]. destruct (N.ltb_spec b 224); [lia|].
  destruct (N.ltb_spec b 240); [reflexivity|lia].
Qed.
Lemma width4 b : 240 <= b <= 244 -> char_width b = 4%nat.
Proof.
  intros H. unfold char_width. destruct (N.ltb_spec b 128); [lia|]. destruct (N.ltb_spec b 224); [lia|].
  destruct (N.ltb_spec b 240); [lia|reflexivity].
Qed.

(* what `chars.peek()` sees behind a backslash decides exactly like the next byte does *)
Lemma peek_escape e r : utf8_valid (e :: r) = true ->
  exists g rest, next_char (e :: r) = Some (g, rest) /\ esc_raw g = unesc_letter e /\ (e < 128 -> rest = r).
Proof.
  intros Hv. unfold next_char. eexists _, _. split; [reflexivity|].
  destruct (utf8_valid_cases _ _ Hv) as [[H1 _]|[[H1 (c1 & r' & -> & Hc1 & _)]|[[H1 (c1 & c2 & r' & -> & _)]|[H1 (c1 & c2 & c3 & r' & -> & _)]]]].
  - rewrite (width1 _ H1). cbn [firstn skipn esc_raw]. split; [reflexivity|auto].
  - rewrite (width2 _ H1). cbn [firstn skipn esc_raw]. split; [symmetry; apply unesc_letter_high; lia|intros; lia].
  - rewrite (width3 _ H1). cbn [firstn skipn esc_raw]. split; [symmetry; apply unesc_letter_high; lia|intros; lia].
  - rewrite (width4 _ H1). cbn [firstn skipn esc_raw]. split; [symmetry; apply unesc_letter_high; lia|intros; lia].
Qed.

Lemma unescape_chars_nil f : unescape_chars f [] = [].
Proof. destruct f; reflexivity. Qed.

Lemma unescape_cp_high b r : 128 <= b -> unescape_cp (b :: r) = b :: unescape_cp r.
Proof. intros H. cbn [unescape_cp]. destruct (N.eqb_spec b 92); [lia|reflexivity]. Qed.

Lemma str_eqb_multi b c r : 128 <= b -> str_eqb (b :: c :: r) [cBSLASH] = false.
Proof. intros H. cbn [str_eqb]. apply andb_false_r. Qed.

Theorem unescape_chars_bytewise : forall fuel l,
  utf8_valid l = true -> (length l < fuel)%nat -> unescape_chars fuel l = unescape_cp l.
Proof.
  induction fuel as [|f IH]; intros l Hv Hf; [lia|].
  destruct l as [|b r]; [reflexivity|].
  cbn [unescape_chars next_char].
  destruct (utf8_valid_cases _ _ Hv) as [[H1 Hr]|[[H1 (c1 & r' & -> & Hc1 & Hr)]|[[H1 (c1 & c2 & r' & -> & Hc1 & Hc2 & Hr)]|[H1 (c1 & c2 & c3 & r' & -> & Hc1 & Hc2 & Hc3 & Hr)]]]].
  - (* an ASCII character *)
    rewrite (width1 _ H1). cbn [firstn skipn]. cbn [length] in Hf.
    cbn [str_eqb unescape_cp]. unfold cBSLASH. rewrite andb_true_r.
    destruct (N.eqb_spec b 92) as [->|Hb].
    + destruct r as [|e r2].
      * cbn [next_char app]. rewrite unescape_chars_nil. reflexivity.
      * destruct (peek_escape e r2 Hr) as (g & rest & -> & Hg & Hrest). rewrite Hg.
        destruct (unesc_letter e) as [x|] eqn:Eu.
        -- assert (He : e < 128).
           { destruct (N.lt_ge_cases e 128) as [He|He]; [exact He|]. rewrite (unesc_letter_high _ He) in Eu. discriminate. }
           rewrite (Hrest He). f_equal. apply IH.
           ++ destruct (utf8_valid_cases _ _ Hr) as [[_ Hr2]|[[Hx _]|[[Hx _]|[Hx _]]]]; [exact Hr2|lia|lia|lia].
           ++ cbn [length] in Hf. lia.
        -- cbn [app]. f_equal. apply IH; [exact Hr|lia].
    + cbn [app]. f_equal. apply IH; [exact Hr|lia].
  - rewrite (width2 _ H1). cbn [firstn skipn]. rewrite str_eqb_multi by lia. cbn [app length] in *.
    rewrite unescape_cp_high by lia. apply is_cont_ge in Hc1. rewrite unescape_cp_high by lia.
    do 2 f_equal. apply IH; [exact Hr|lia].
  - rewrite (width3 _ H1). cbn [firstn skipn]. rewrite str_eqb_multi by lia. cbn [app length] in *.
    apply is_cont_ge in Hc1, Hc2. rewrite !unescape_cp_high by lia.
    do 3 f_equal. apply IH; [exact Hr|lia].
  - rewrite (width4 _ H1). cbn [firstn skipn]. rewrite str_eqb_multi by lia. cbn [app length] in *.
    apply is_cont_ge in Hc1, Hc2, Hc3. rewrite !unescape_cp_high by lia.
    do 4 f_equal. apply IH; [exact Hr|lia].
Qed.

(* the fuel of the model's char iteration suffices, and the result is the byte-wise reading *)
Theorem unescape_b_bytewise l : utf8_valid l = true -> unescape_b l = unescape_cp l.
Proof. intros Hv. unfold unescape_b. apply unescape_chars_bytewise; [exact Hv|lia]. Qed.

Theorem unescape_fuel_immaterial l k : utf8_valid l = true -> unescape_chars (S (length l) + k) l = unescape_b l.
Proof. intros Hv. rewrite unescape_b_bytewise by exact Hv. apply unescape_chars_bytewise; [exact Hv|lia]. Qed.

(* what unescape returns is a String again *)
Lemma utf8_valid_ascii b r : b < 128 -> utf8_valid (b :: r) = utf8_valid r.
Proof. intros H. cbn [utf8_valid]. destruct (N.ltb_spec b 128); [reflexivity|lia]. Qed.

Lemma unesc_letter_ascii e x : unesc_letter e = Some x -> x < 128.
Proof.
  unfold unesc_letter. destruct (e =? 92); [intros [= <-]; lia|]. destruct (e =? 110); [intros [= <-]; lia|].
  destruct (e =? 114); [intros [= <-]; lia|]. destruct (e =? 116); [intros [= <-]; lia|discriminate].
Qed.

(* replacing what follows the first character *)
Lemma utf8_head2 b c1 r r' : 128 <= b -> utf8_valid (b :: c1 :: r) = true -> in_range 194 223 b = true ->
  utf8_valid r' = true -> utf8_valid (b :: c1 :: r') = true.
Proof.
  intros Hb Hv E Hr'. cbn [utf8_valid] in Hv |- *. destruct (N.ltb_spec b 128); [lia|]. rewrite E in *.
  apply andb_true_iff in Hv. destruct Hv as [Ha _]. rewrite Ha, Hr'. reflexivity.
Qed.
Lemma utf8_head3 b c1 c2 r r' : 224 <= b <= 239 -> utf8_valid (b :: c1 :: c2 :: r) = true ->
  utf8_valid r' = true -> utf8_valid (b :: c1 :: c2 :: r') = true.
Proof.
  intros Hb Hv Hr'. cbn [utf8_valid] in Hv |- *. destruct (N.ltb_spec b 128); [lia|].
  destruct (in_range 194 223 b) eqn:E2; [apply in_range_spec in E2; lia|].
  destruct (in_range 224 239 b) eqn:E3; [|assert (E : in_range 224 239 b = true) by (apply in_range_spec; lia); congruence].
  apply andb_true_iff in Hv. destruct Hv as [Ha _]. rewrite Ha, Hr'. reflexivity.
Qed.
Lemma utf8_head4 b c1 c2 c3 r r' : 240 <= b <= 244 -> utf8_valid (b :: c1 :: c2 :: c3 :: r) = true ->
  utf8_valid r' = true -> utf8_valid (b :: c1 :: c2 :: c3 :: r') = true.
Proof.
  intros Hb Hv Hr'. cbn [utf8_valid] in Hv |- *. destruct (N.ltb_spec b 128); [lia|].
  destruct (in_range 194 223 b) eqn:E2; [apply in_range_spec in E2; lia|].
  destruct (in_range 224 239 b) eqn:E3; [apply in_range_spec in E3; lia|].
  destruct (in_range 240 244 b) eqn:E4; [|assert (E : in_range 240 244 b = true) by (apply in_range_spec; lia); congruence].
  apply andb_true_iff in Hv. destruct Hv as [Ha _]. rewrite Ha, Hr'. reflexivity.
Qed.

Theorem unescape_keeps_utf8 : forall n l, (length l <= n)%nat -> utf8_valid l = true -> utf8_valid (unescape_cp l) = true.
Proof.
  induction n as [|n IH]; intros l Hn Hv.
  - destruct l; [reflexivity|cbn [length] in Hn; lia].
  - destruct l as [|b r]; [reflexivity|]. cbn [length] in Hn.
    destruct (utf8_valid_cases _ _ Hv) as [[H1 Hr]|[[H1 (c1 & r' & -> & Hc1 & Hr)]|[[H1 (c1 & c2 & r' & -> & Hc1 & Hc2 & Hr)]|[H1 (c1 & c2 & c3 & r' & -> & Hc1 & Hc2 & Hc3 & Hr)]]]].
    + cbn [unescape_cp]. destruct (N.eqb_spec b 92) as [->|Hb].
      * destruct r as [|e r2]; [reflexivity|].
        destruct (unesc_letter e) as [x|] eqn:Eu.
        -- rewrite (utf8_valid_ascii x) by (eapply unesc_letter_ascii; eauto).
           assert (He : e < 128).
           { destruct (N.lt_ge_cases e 128) as [He|He]; [exact He|]. rewrite (unesc_letter_high _ He) in Eu. discriminate. }
           apply IH; [cbn [length] in Hn; lia|].
           rewrite (utf8_valid_ascii e) in Hr by exact He. exact Hr.
        -- rewrite utf8_valid_ascii by lia. apply IH; [lia|exact Hr].
      * rewrite utf8_valid_ascii by exact H1. apply IH; [lia|exact Hr].
    + pose proof (is_cont_ge _ Hc1). rewrite !unescape_cp_high by lia. cbn [length] in Hn.
      apply (utf8_head2 b c1 r'); [lia|exact Hv|apply in_range_spec; lia|]. apply IH; [lia|exact Hr].
    + pose proof (is_cont_ge _ Hc1). pose proof (is_cont_ge _ Hc2). rewrite !unescape_cp_high by lia. cbn [length] in Hn.
      apply (utf8_head3 b c1 c2 r'); [lia|exact Hv|]. apply IH; [lia|exact Hr].
    + pose proof (is_cont_ge _ Hc1). pose proof (is_cont_ge _ Hc2). pose proof (is_cont_ge _ Hc3).
      rewrite !unescape_cp_high by lia. cbn [length] in Hn.
      apply (utf8_head4 b c1 c2 c3 r'); [lia|exact Hv|]. apply IH; [lia|exact Hr].
Qed.

Theorem unescape_b_is_string l : utf8_valid l = true ->
  utf8_valid (unescape_b l) = true /\ (length (unescape_b l) <= length l)%nat.
Proof.
  intros Hv. rewrite unescape_b_bytewise by exact Hv. split.
  - apply (unescape_keeps_utf8 (length l)); [lia|exact Hv].
  - apply unescape_cp_length.
Qed.
