(* C16 theory, WHOLE class reader, part 4: the second pass of read_code.
   [keeps]: reads never move the cursor past the end (position + rest = length of the code);
   [rel]: two computations that run the same cursor operations end at the same cursor;
   the two passes walk the code in lockstep; the second pass never panics. *)
From FB Require Import C16.ModelClsCode C16.Theory C16.TheoryCls C16.TheoryClsAttr C16.TheoryClsCode C18.Model.
From FB Require C01.Opcodes.
From Coq Require Import Lia.

Arguments N.add : simpl never.
Arguments N.mul : simpl never.
Arguments N.sub : simpl never.
Arguments N.leb : simpl never.
Arguments N.ltb : simpl never.
Arguments N.eqb : simpl never.
Arguments N.land : simpl never.
Arguments N.shiftr : simpl never.
Arguments N.modulo : simpl never.
Arguments N.div : simpl never.
Arguments N.min : simpl never.
Arguments Z.add : simpl never.
Arguments Z.sub : simpl never.
Arguments Z.ltb : simpl never.
Arguments Z.leb : simpl never.

(* ------------------------------------------------------------------------------------------ *)
(* inversion of bind                                                                            *)
Lemma bind_done {A B} (m : M A) (f : A -> M B) c r :
  bindM m f c = Done r -> exists a c', m c = Done (a, c') /\ f a c' = Done r.
Proof. unfold bindM. destruct (m c) as [[a c']| |]; try discriminate. intros H. exists a, c'. split; [reflexivity|exact H]. Qed.
Lemma lift_done {A} (o : out A) c a c' : lift o c = Done (a, c') -> o = Done a /\ c' = c.
Proof. unfold lift. destruct o; try discriminate. intros [= <- <-]. split; reflexivity. Qed.

(* ------------------------------------------------------------------------------------------ *)
(* reads keep position + rest constant                                                          *)
Definition total (c : rcur) : N := rpos c + N.of_nat (rlen c).
Definition keeps {A} (m : M A) : Prop := forall c a c', m c = Done (a, c') -> total c' = total c.

Lemma keeps_ret {A} (a : A) : keeps (ret a).
Proof. intros c x c' [= _ <-]. reflexivity. Qed.
Lemma keeps_fail {A} : keeps (@failM A).
Proof. intros c x c'. discriminate. Qed.
Lemma keeps_panic {A} : keeps (@panicM A).
Proof. intros c x c'. discriminate. Qed.
Lemma keeps_lift {A} (o : out A) : keeps (lift o).
Proof. intros c x c' H. apply lift_done in H. destruct H as [_ ->]. reflexivity. Qed.
Lemma keeps_bind {A B} (m : M A) (f : A -> M B) : keeps m -> (forall a, keeps (f a)) -> keeps (bindM m f).
Proof.
  intros Hm Hf c b c' H. apply bind_done in H. destruct H as (a & c1 & E1 & E2).
  rewrite (Hf a c1 b c' E2). exact (Hm c a c1 E1).
Qed.
Lemma keeps_rd_u8 : keeps rd_u8.
Proof.
  intros c a c'. unfold rd_u8, total, rlen. destruct (rrest c) as [|x r]; [discriminate|].
  destruct (is_byte x); [|discriminate]. intros [= _ <-]. cbn [rpos rrest length]. lia.
Qed.
Lemma keeps_rd_u16 : keeps rd_u16.
Proof.
  intros c a c'. unfold rd_u16, total, rlen. destruct (rrest c) as [|x [|y r]]; try discriminate.
  destruct (is_byte x && is_byte y); [|discriminate]. intros [= _ <-]. cbn [rpos rrest length]. lia.
Qed.
Lemma keeps_rd_u32 : keeps rd_u32.
Proof.
  intros c a c'. unfold rd_u32, total, rlen. destruct (rrest c) as [|x [|y [|z [|w r]]]]; try discriminate.
  destruct (is_byte x && is_byte y && is_byte z && is_byte w); [|discriminate]. intros [= _ <-]. cbn [rpos rrest length]. lia.
Qed.
Lemma keeps_rd_i8 : keeps rd_i8. Proof. apply keeps_bind; [exact keeps_rd_u8|intros; apply keeps_ret]. Qed.
Lemma keeps_rd_i16 : keeps rd_i16. Proof. apply keeps_bind; [exact keeps_rd_u16|intros; apply keeps_ret]. Qed.
Lemma keeps_rd_i32 : keeps rd_i32. Proof. apply keeps_bind; [exact keeps_rd_u32|intros; apply keeps_ret]. Qed.
Lemma keeps_marker : keeps markerM.
Proof. intros c a c' [= _ <-]. reflexivity. Qed.
Lemma keeps_alloc_check b : keeps (alloc_checkM b).
Proof. intros c a c'. unfold alloc_checkM. destruct (alloc_ok b (len_N (rrest c))); [|discriminate]. intros [= _ <-]. reflexivity. Qed.
Lemma keeps_iterP {A} (body : A -> M A) : (forall a, keeps (body a)) -> forall p a, keeps (iterP p body a).
Proof.
  intros Hb. induction p as [q IH|q IH|]; intros a; cbn [iterP].
  - apply keeps_bind; [apply Hb|intros a0]. apply keeps_bind; [apply IH|intros a1; apply IH].
  - apply keeps_bind; [apply IH|intros a1; apply IH].
  - apply Hb.
Qed.
Lemma keeps_iterN {A} n (body : A -> M A) a : (forall a, keeps (body a)) -> keeps (iterN n body a).
Proof. intros Hb. destruct n as [|p]; cbn [iterN]; [apply keeps_ret|apply keeps_iterP; exact Hb]. Qed.

Create HintDb keepdb.
#[export] Hint Resolve keeps_ret keeps_fail keeps_panic keeps_lift keeps_rd_u8 keeps_rd_u16 keeps_rd_u32 keeps_rd_i8 keeps_rd_i16 keeps_rd_i32
  keeps_marker keeps_alloc_check : keepdb.
Ltac keep_step :=
  match goal with
  | |- keeps (bindM _ _) => apply keeps_bind; [|intros ?]
  | |- keeps (iterN_ _ _) => apply keeps_iterN; intros ?
  | |- keeps (iterN _ _ _) => apply keeps_iterN; intros ?
  | |- keeps (if ?b then _ else _) => destruct b
  | |- keeps (let '(_, _) := ?x in _) => destruct x
  | |- keeps (match ?x with _ => _ end) => destruct x
  | |- keeps _ => solve [auto with keepdb]
  end.
Ltac keep_go := repeat keep_step.

Lemma keeps_target16 pos : keeps (target16 pos). Proof. unfold target16. keep_go. Qed.
Lemma keeps_target32 pos : keeps (target32 pos). Proof. unfold target32. keep_go. Qed.
Lemma keeps_align4M : keeps align4M.
Proof. unfold align4M. keep_go. Qed.
#[export] Hint Resolve keeps_target16 keeps_target32 keeps_align4M : keepdb.

Lemma keeps_p2_read p bsms st pos r : keeps (p2_read p bsms st pos r).
Proof. unfold p2_read. keep_go. Qed.
#[export] Hint Resolve keeps_p2_read : keepdb.
Lemma keeps_p2_reads p bsms st pos rs : keeps (p2_reads p bsms st pos rs).
Proof. induction rs as [|r rs IH]; cbn [p2_reads]; [apply keeps_ret|]. apply keeps_bind; [apply keeps_p2_read|intros _; exact IH]. Qed.
#[export] Hint Resolve keeps_p2_reads : keepdb.
Lemma keeps_p2_entry p bsms cl st pos op e : keeps (p2_entry p bsms cl st pos op e).
Proof. unfold p2_entry. keep_go. Qed.
Lemma keeps_p2_insn p bsms cl st pos fr : keeps (p2_insn p bsms cl st pos fr).
Proof. unfold p2_insn. apply keeps_bind; [exact keeps_rd_u8|intros op]. apply keeps_bind; [apply keeps_p2_entry|intros _]. apply keeps_lift. Qed.

(* ... and consume *)
Lemma eats_alloc_check b : eats 0 (alloc_checkM b).
Proof. intros c a c'. unfold alloc_checkM. destruct (alloc_ok b (len_N (rrest c))); [|discriminate]. intros [= _ <-]. lia. Qed.
#[export] Hint Resolve eats_alloc_check : eatdb.
Lemma eats_p2_read p bsms st pos r : eats 0 (p2_read p bsms st pos r).
Proof. unfold p2_read. eat_go. Qed.
#[export] Hint Resolve eats_p2_read : eatdb.
Lemma eats_p2_reads p bsms st pos rs : eats 0 (p2_reads p bsms st pos rs).
Proof. induction rs as [|r rs IH]; cbn [p2_reads]; [apply eats_ret|]. apply eats_bind0; [apply eats_p2_read|intros _; exact IH]. Qed.
#[export] Hint Resolve eats_p2_reads : eatdb.
Lemma eats_p2_entry p bsms cl st pos op e : eats 0 (p2_entry p bsms cl st pos op e).
Proof. unfold p2_entry. eat_go. Qed.
Lemma eats_p2_insn p bsms cl st pos fr : eats 1 (p2_insn p bsms cl st pos fr).
Proof.
  unfold p2_insn. apply (eats_bind 1 0); [exact eats_rd_u8|intros op].
  apply eats_bind0; [apply eats_p2_entry|intros _; apply eats_lift].
Qed.

(* ------------------------------------------------------------------------------------------ *)
(* same cursor operations, same final cursor                                                    *)
Definition rel {A B} (R : A -> B -> Prop) (m1 : M A) (m2 : M B) : Prop :=
  forall c a c1 b c2, m1 c = Done (a, c1) -> m2 c = Done (b, c2) -> c1 = c2 /\ R a b.
Definition anyR {A B} : A -> B -> Prop := fun _ _ => True.
(* a computation that leaves the cursor where it is *)
Definition neutral {A} (m : M A) : Prop := forall c a c', m c = Done (a, c') -> c' = c.

Lemma rel_refl {A} (m : M A) : rel eq m m.
Proof. intros c a c1 b c2 E1 E2. rewrite E1 in E2. injection E2 as <- <-. split; reflexivity. Qed.
Lemma rel_weaken {A B} (R S : A -> B -> Prop) m1 m2 : (forall a b, R a b -> S a b) -> rel R m1 m2 -> rel S m1 m2.
Proof. intros H Hr c a c1 b c2 E1 E2. destruct (Hr c a c1 b c2 E1 E2) as [-> HR]. split; [reflexivity|apply H; exact HR]. Qed.
Lemma rel_any {A B} (R : A -> B -> Prop) m1 m2 : rel R m1 m2 -> rel anyR m1 m2.
Proof. apply rel_weaken. intros; exact I. Qed.
Lemma rel_bind {A B A' B'} (R : A -> B -> Prop) (S : A' -> B' -> Prop) m1 m2 f1 f2 :
  rel R m1 m2 -> (forall a b, R a b -> rel S (f1 a) (f2 b)) -> rel S (bindM m1 f1) (bindM m2 f2).
Proof.
  intros Hm Hf c a c1 b c2 E1 E2. apply bind_done in E1, E2.
  destruct E1 as (x & cx & Ex & E1). destruct E2 as (y & cy & Ey & E2).
  destruct (Hm c x cx y cy Ex Ey) as [-> HR]. exact (Hf x y HR cy a c1 b c2 E1 E2).
Qed.
Lemma rel_ret {A B} (R : A -> B -> Prop) a b : R a b -> rel R (ret a) (ret b).
Proof. intros H c x c1 y c2 [= <- <-] [= <- <-]. split; [reflexivity|exact H]. Qed.
Lemma rel_fail_l {A B} (R : A -> B -> Prop) m2 : rel R failM m2.
Proof. intros c a c1 b c2. discriminate. Qed.
Lemma rel_fail_r {A B} (R : A -> B -> Prop) m1 : rel R m1 failM.
Proof. intros c a c1 b c2 _. discriminate. Qed.
Lemma rel_neutral {A B} (m1 : M A) (m2 : M B) : neutral m1 -> neutral m2 -> rel anyR m1 m2.
Proof. intros H1 H2 c a c1 b c2 E1 E2. rewrite (H1 _ _ _ E1), (H2 _ _ _ E2). split; [reflexivity|exact I]. Qed.
Lemma neutral_lift {A} (o : out A) : neutral (lift o).
Proof. intros c a c' H. apply lift_done in H. tauto. Qed.
Lemma neutral_ret {A} (a : A) : neutral (ret a).
Proof. intros c x c' [= _ <-]. reflexivity. Qed.
Lemma neutral_alloc_check b : neutral (alloc_checkM b).
Proof. intros c a c'. unfold alloc_checkM. destruct (alloc_ok b (len_N (rrest c))); [|discriminate]. intros [= _ <-]. reflexivity. Qed.
(* a neutral step more on one side *)
Lemma rel_step_r {A B C} (R : A -> C -> Prop) (m1 : M A) (n : M B) (f2 : B -> M C) :
  neutral n -> (forall b, rel R m1 (f2 b)) -> rel R m1 (bindM n f2).
Proof.
  intros Hn Hf c a c1 x c2 E1 E2. apply bind_done in E2. destruct E2 as (b & cb & Eb & E2).
  rewrite (Hn _ _ _ Eb) in E2. exact (Hf b c a c1 x c2 E1 E2).
Qed.
Lemma rel_step_l {A B C} (R : C -> A -> Prop) (m2 : M A) (n : M B) (f1 : B -> M C) :
  neutral n -> (forall b, rel R (f1 b) m2) -> rel R (bindM n f1) m2.
Proof.
  intros Hn Hf c x c1 a c2 E1 E2. apply bind_done in E1. destruct E1 as (b & cb & Eb & E1).
  rewrite (Hn _ _ _ Eb) in E1. exact (Hf b c x c1 a c2 E1 E2).
Qed.
Lemma rel_iterP {A B} (R : A -> B -> Prop) body1 body2 :
  (forall a b, R a b -> rel R (body1 a) (body2 b)) -> forall p a b, R a b -> rel R (iterP p body1 a) (iterP p body2 b).
Proof.
  intros Hb. induction p as [q IH|q IH|]; intros a b HR; cbn [iterP].
  - eapply rel_bind; [apply Hb; exact HR|intros a0 b0 H0]. eapply rel_bind; [apply IH; exact H0|intros a1 b1 H1; apply IH; exact H1].
  - eapply rel_bind; [apply IH; exact HR|intros a1 b1 H1; apply IH; exact H1].
  - apply Hb. exact HR.
Qed.
Lemma rel_iterN {A B} (R : A -> B -> Prop) n body1 body2 a b :
  (forall a b, R a b -> rel R (body1 a) (body2 b)) -> R a b -> rel R (iterN n body1 a) (iterN n body2 b).
Proof. intros Hb HR. destruct n as [|p]; cbn [iterN]; [apply rel_ret; exact HR|apply rel_iterP; assumption]. Qed.

(* ------------------------------------------------------------------------------------------ *)
(* skipping k bytes and reading k bytes                                                         *)
Definition adv (k : N) (c : rcur) : rcur := mkRd (rpos c + k) (drop k (rrest c)).
Definition advances {A} (k : N) (m : M A) : Prop := forall c a c', m c = Done (a, c') -> c' = adv k c.

Lemma drop_0 l : drop 0 l = l.
Proof. destruct l; reflexivity. Qed.
Lemma drop_succ n x l : drop (n + 1) (x :: l) = drop n l.
Proof. cbn [drop]. destruct (N.eqb_spec (n + 1) 0); [lia|]. f_equal. lia. Qed.
Lemma drop_drop a b l : drop b (drop a l) = drop (a + b) l.
Proof.
  revert a. induction l as [|x r IH]; intros a.
  - cbn [drop]. destruct b; reflexivity.
  - cbn [drop]. destruct (N.eqb_spec a 0) as [->|Ha].
    + rewrite N.add_0_l. reflexivity.
    + destruct (N.eqb_spec (a + b) 0); [lia|]. rewrite IH. f_equal. lia.
Qed.
Lemma adv_0 c : adv 0 c = c.
Proof. unfold adv. rewrite drop_0, N.add_0_r. destruct c; reflexivity. Qed.
Lemma adv_adv a b c : adv b (adv a c) = adv (a + b) c.
Proof. unfold adv. cbn [rpos rrest]. rewrite drop_drop. f_equal. lia. Qed.

Lemma advances_ret {A} (a : A) : advances 0 (ret a).
Proof. intros c x c' [= _ <-]. symmetry. apply adv_0. Qed.
Lemma advances_lift {A} (o : out A) : advances 0 (lift o).
Proof. intros c x c' H. apply lift_done in H. destruct H as [_ ->]. symmetry. apply adv_0. Qed.
Lemma advances_bind {A B} j k (m : M A) (f : A -> M B) : advances j m -> (forall a, advances k (f a)) -> advances (j + k) (bindM m f).
Proof.
  intros Hm Hf c b c' H. apply bind_done in H. destruct H as (a & c1 & E1 & E2).
  rewrite (Hf a c1 b c' E2), (Hm c a c1 E1). apply adv_adv.
Qed.
Lemma drop1 x r : drop 1 (x :: r) = r.
Proof. change (drop 1 (x :: r)) with (drop 0 r). apply drop_0. Qed.
Lemma drop2 x y r : drop 2 (x :: y :: r) = r.
Proof. change (drop 2 (x :: y :: r)) with (drop 0 r). apply drop_0. Qed.
Lemma drop4 x y z w r : drop 4 (x :: y :: z :: w :: r) = r.
Proof. change (drop 4 (x :: y :: z :: w :: r)) with (drop 0 r). apply drop_0. Qed.
Lemma advances_rd_u8 : advances 1 rd_u8.
Proof.
  intros c a c'. unfold rd_u8, adv. destruct (rrest c) as [|x r]; [discriminate|]. destruct (is_byte x); [|discriminate].
  intros [= _ <-]. rewrite drop1. reflexivity.
Qed.
Lemma advances_rd_u16 : advances 2 rd_u16.
Proof.
  intros c a c'. unfold rd_u16, adv. destruct (rrest c) as [|x [|y r]]; try discriminate. destruct (is_byte x && is_byte y); [|discriminate].
  intros [= _ <-]. rewrite drop2. reflexivity.
Qed.
Lemma advances_rd_u32 : advances 4 rd_u32.
Proof.
  intros c a c'. unfold rd_u32, adv. destruct (rrest c) as [|x [|y [|z [|w r]]]]; try discriminate.
  destruct (is_byte x && is_byte y && is_byte z && is_byte w); [|discriminate].
  intros [= _ <-]. rewrite drop4. reflexivity.
Qed.
Lemma advances_skip k : advances k (skipM k).
Proof. intros c a c'. unfold skipM. destruct (u64_max <? rpos c + k); [discriminate|]. intros [= _ <-]. reflexivity. Qed.

Definition rdk_width (r : Opcodes.rdk) : N :=
  match r with
  | Opcodes.RU8 | Opcodes.RI8 | Opcodes.RLv8 | Opcodes.RSkip8 | Opcodes.RAtype | Opcodes.RCp8 _ => 1
  | Opcodes.RI16 | Opcodes.RLv16 | Opcodes.RBr16 | Opcodes.RCp16 _ => 2
  | Opcodes.RBr32 => 4
  end.
Fixpoint reads_width (rs : list Opcodes.rdk) : N := match rs with [] => 0 | r :: t => rdk_width r + reads_width t end.

Ltac adv_bind j k := apply (advances_bind j k); [|intros ?].
Lemma advances_if {A} k (b : bool) (x y : M A) : advances k x -> advances k y -> advances k (if b then x else y).
Proof. destruct b; auto. Qed.
Lemma advances_fail {A} k : advances k (@failM A).
Proof. intros c a c'. discriminate. Qed.
Lemma advances_rd_i8 : advances 1 rd_i8. Proof. apply (advances_bind 1 0); [exact advances_rd_u8|intros; apply advances_ret]. Qed.
Lemma advances_rd_i16 : advances 2 rd_i16. Proof. apply (advances_bind 2 0); [exact advances_rd_u16|intros; apply advances_ret]. Qed.
Lemma advances_rd_i32 : advances 4 rd_i32. Proof. apply (advances_bind 4 0); [exact advances_rd_u32|intros; apply advances_ret]. Qed.
Lemma advances_target16 pos : advances 2 (target16 pos).
Proof. unfold target16. apply (advances_bind 2 0); [exact advances_rd_i16|intros b]. apply advances_if; [apply advances_fail|apply advances_ret]. Qed.
Lemma advances_target32 pos : advances 4 (target32 pos).
Proof.
  unfold target32. apply (advances_bind 4 0); [exact advances_rd_i32|intros b].
  apply advances_if; [apply advances_fail|]. apply advances_if; [apply advances_fail|apply advances_ret].
Qed.
Lemma advances_p2_read p bsms st pos r : advances (rdk_width r) (p2_read p bsms st pos r).
Proof.
  destruct r; cbn [p2_read rdk_width];
    try (apply (advances_bind 1 0); [first [exact advances_rd_u8|exact advances_rd_i8]|intros ?]);
    try (apply (advances_bind 2 0); [first [exact advances_rd_u16|exact advances_rd_i16|apply advances_target16]|intros ?]);
    try (apply (advances_bind 4 0); [apply advances_target32|intros ?]);
    try apply advances_ret; try apply advances_lift.
  apply advances_if; [apply advances_ret|apply advances_fail].
Qed.
Lemma advances_p2_reads p bsms st pos rs : advances (reads_width rs) (p2_reads p bsms st pos rs).
Proof.
  induction rs as [|r rs IH]; cbn [p2_reads reads_width]; [apply advances_ret|].
  apply advances_bind; [apply advances_p2_read|intros _; exact IH].
Qed.
