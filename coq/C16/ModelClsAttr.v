(* C16 model, WHOLE class reader, part 2: what the attribute arms call — element values, annotations,
   type annotations (type paths, target infos), the Module attribute, attribute framing
   (duke/src/class_reader.rs: skip_attributes, read_element_value*, read_annotations_attribute,
   read_type_annotations_attribute, TargetInfoRead, read_type_path, read_module).
   Definitions only. *)
From FB Require Export C16.ModelCls.
From FB Require Import C18.Model.
From Coq Require Import String.
Open Scope N_scope.

(* ------------------------------------------------------------------------------------------ *)
(* attribute names (class_constants.rs mod attribute)                                           *)
Definition A_ANNOTATION_DEFAULT := Eval vm_compute in s2n "AnnotationDefault".
Definition A_BOOTSTRAP_METHODS := Eval vm_compute in s2n "BootstrapMethods".
Definition A_CODE := Eval vm_compute in s2n "Code".
Definition A_CONSTANT_VALUE := Eval vm_compute in s2n "ConstantValue".
Definition A_DEPRECATED := Eval vm_compute in s2n "Deprecated".
Definition A_ENCLOSING_METHOD := Eval vm_compute in s2n "EnclosingMethod".
Definition A_EXCEPTIONS := Eval vm_compute in s2n "Exceptions".
Definition A_INNER_CLASSES := Eval vm_compute in s2n "InnerClasses".
Definition A_LINE_NUMBER_TABLE := Eval vm_compute in s2n "LineNumberTable".
Definition A_LOCAL_VARIABLE_TABLE := Eval vm_compute in s2n "LocalVariableTable".
Definition A_LOCAL_VARIABLE_TYPE_TABLE := Eval vm_compute in s2n "LocalVariableTypeTable".
Definition A_METHOD_PARAMETERS := Eval vm_compute in s2n "MethodParameters".
Definition A_MODULE := Eval vm_compute in s2n "Module".
Definition A_MODULE_MAIN_CLASS := Eval vm_compute in s2n "ModuleMainClass".
Definition A_MODULE_PACKAGES := Eval vm_compute in s2n "ModulePackages".
Definition A_NEST_HOST := Eval vm_compute in s2n "NestHost".
Definition A_NEST_MEMBERS := Eval vm_compute in s2n "NestMembers".
Definition A_PERMITTED_SUBCLASSES := Eval vm_compute in s2n "PermittedSubclasses".
Definition A_RECORD := Eval vm_compute in s2n "Record".
Definition A_RV_ANNOTATIONS := Eval vm_compute in s2n "RuntimeVisibleAnnotations".
Definition A_RV_PARAMETER_ANNOTATIONS := Eval vm_compute in s2n "RuntimeVisibleParameterAnnotations".
Definition A_RV_TYPE_ANNOTATIONS := Eval vm_compute in s2n "RuntimeVisibleTypeAnnotations".
Definition A_RI_ANNOTATIONS := Eval vm_compute in s2n "RuntimeInvisibleAnnotations".
Definition A_RI_PARAMETER_ANNOTATIONS := Eval vm_compute in s2n "RuntimeInvisibleParameterAnnotations".
Definition A_RI_TYPE_ANNOTATIONS := Eval vm_compute in s2n "RuntimeInvisibleTypeAnnotations".
Definition A_SIGNATURE := Eval vm_compute in s2n "Signature".
Definition A_SOURCE_DEBUG_EXTENSION := Eval vm_compute in s2n "SourceDebugExtension".
Definition A_SOURCE_FILE := Eval vm_compute in s2n "SourceFile".
Definition A_STACK_MAP := Eval vm_compute in s2n "StackMap".
Definition A_STACK_MAP_TABLE := Eval vm_compute in s2n "StackMapTable".
Definition A_SYNTHETIC := Eval vm_compute in s2n "Synthetic".

(* ------------------------------------------------------------------------------------------ *)
(* the visitor, as far as the reader's control flow depends on it.  [interest level name]: the
   `interests.<field>` flag that guards the parsing arm of the attribute [name] at [level]
   (0 class, 1 field, 2 method, 3 code, 4 record component; the name of an attribute without an arm
   stands for `unknown_attributes`).  [v_once]: the visitor refuses the second attribute of a kind
   that it stores in an Option (the tree builder: insert_if_empty).                              *)
Record vis := mkVis {
  v_interest : N -> str -> bool;
  v_fields : bool; v_methods : bool;
  v_class_break : bool; v_field_break : bool; v_method_break : bool; v_record_break : bool;
  v_code_declined : bool;
  v_once : bool
}.
(* duke::read_class: Vec<ClassFile> / ClassFile / Field / Method / Code / RecordComponent of visitor/implementations/tree.rs *)
Definition tree_vis : vis := mkVis (fun _ _ => true) true true false false false false false true.

(* `x.insert_if_empty(v)?` of the reader itself, and of the tree builder when [strict] *)
Definition once (strict : bool) (name : str) (seen : list str) : out (list str) :=
  if strict && existsb (str_eqb name) seen then Fail else Done (name :: seen).

(* ------------------------------------------------------------------------------------------ *)
(* skip_attributes                                                                              *)
Definition skip_attributes : M unit :=
  let* count := rd_u16 in
  iterN_ count (let* _name := rd_u16 in let* length := rd_u32 in skipM length).

(* ------------------------------------------------------------------------------------------ *)
(* element values: three functions, five recursive calls, nesting limit 64                      *)
Definition max_ev_nesting : N := 64.
Inductive evf := EvNamed | EvUnnamedS | EvUnnamed.

(* the `match reader.read_u8()?` of read_element_values_named / read_element_value_unnamed (the same arms) *)
Definition ev_value (rec : evf -> N -> M unit) (p : pool) (tag nesting : N) : M unit :=
  if (tag =? 66) || (tag =? 67) || (tag =? 73) || (tag =? 83) || (tag =? 90) then   (* B C I S Z *)
    let* i := rd_u16 in lift (get_integer p i)
  else if tag =? 68 then let* i := rd_u16 in lift (get_double p i)                  (* D *)
  else if tag =? 70 then let* i := rd_u16 in lift (get_float p i)                   (* F *)
  else if tag =? 74 then let* i := rd_u16 in lift (get_long p i)                    (* J *)
  else if tag =? 115 then let* i := rd_u16 in let* _ := lift (get_utf8 p i) in ret tt   (* s *)
  else if tag =? 101 then                                                              (* e *)
    let* t := rd_u16 in let* _ := lift (get_utf8 p t) in
    let* n := rd_u16 in let* _ := lift (get_utf8 p n) in ret tt
  else if tag =? 99 then let* i := rd_u16 in let* _ := lift (get_utf8 p i) in ret tt    (* c *)
  else if tag =? 64 then                                                               (* @ *)
    let* i := rd_u16 in let* _ := lift (get_utf8 p i) in
    let* n1 := lift (usize_add nesting 1) in rec EvNamed n1
  else if tag =? 91 then                                                               (* [ *)
    let* n1 := lift (usize_add nesting 1) in rec EvUnnamedS n1
  else failM.

Fixpoint ev (fuel : nat) (p : pool) (f : evf) (nesting : N) : M unit :=
  match fuel with
  | O => panicM
  | S fu =>
      match f with
      | EvNamed =>
          if max_ev_nesting <? nesting then failM else
          let* n := rd_u16 in
          iterN_ n (let* name := rd_u16 in let* _ := lift (get_utf8 p name) in
                    let* tag := rd_u8 in ev_value (ev fu p) p tag nesting)
      | EvUnnamedS =>
          if max_ev_nesting <? nesting then failM else
          let* n := rd_u16 in iterN_ n (ev fu p EvUnnamed nesting)
      | EvUnnamed => let* tag := rd_u8 in ev_value (ev fu p) p tag nesting
      end
  end.
(* 2 * (65 - nesting) + 1 frames suffice (TheoryClsAttr.ev_np) *)
Definition ev_fuel_cls : nat := 132.
Definition read_element_values_named (p : pool) : M unit := ev ev_fuel_cls p EvNamed 0.
Definition read_element_value_unnamed (p : pool) : M unit := ev ev_fuel_cls p EvUnnamed 0.

(* read_annotations_attribute *)
Definition read_annotations (p : pool) : M unit :=
  let* n := rd_u16 in
  iterN_ n (let* d := rd_u16 in let* _ := lift (get_utf8 p d) in read_element_values_named p).

(* read_type_path *)
Definition read_type_path : M unit :=
  let* n := rd_u8 in
  iterN_ n (let* kind := rd_u8 in let* idx := rd_u8 in
            if kind <=? 2 then
              (* inner `match kind { 0 => .., 1 => .., 2 => .., _ => unreachable!() }` *)
              (if (kind =? 0) || (kind =? 1) || (kind =? 2) then ret tt else panicM) ;;
              (if negb (idx =? 0) then failM else ret tt)
            else if kind =? 3 then ret tt
            else failM).

(* TargetInfoRead::read_type_reference for TargetInfoClass (0), TargetInfoField (1: fields and record
   components), TargetInfoMethod (2) *)
Definition read_target_info (level : N) : M unit :=
  let* tag := rd_u8 in
  if level =? 0 then
    if tag =? 0 then let* _ := rd_u8 in ret tt
    else if tag =? 16 then let* _ := rd_u16 in ret tt
    else if tag =? 17 then let* _ := rd_u8 in let* _ := rd_u8 in ret tt
    else failM
  else if level =? 1 then
    if tag =? 19 then ret tt else failM
  else
    if tag =? 1 then let* _ := rd_u8 in ret tt
    else if tag =? 18 then let* _ := rd_u8 in let* _ := rd_u8 in ret tt
    else if (tag =? 20) || (tag =? 21) then ret tt
    else if tag =? 22 then let* _ := rd_u8 in ret tt
    else if tag =? 23 then let* _ := rd_u16 in ret tt
    else failM.

(* read_type_annotations_attribute *)
Definition read_type_annotations (level : N) (p : pool) : M unit :=
  let* n := rd_u16 in
  iterN_ n (read_target_info level ;; read_type_path ;;
            let* d := rd_u16 in let* _ := lift (get_utf8 p d) in read_element_values_named p).

(* read_module *)
Definition rd_idx (f : N -> out unit) : M unit := let* i := rd_u16 in lift (f i).
Definition as_unit {A} (f : N -> out A) (i : N) : out unit := let! _ := f i in Done tt.
Definition read_module (p : pool) : M unit :=
  rd_idx (as_unit (get_module p)) ;;
  let* _flags := rd_u16 in
  rd_idx (optional (get_utf8 p)) ;;
  read_vec_ rd_u16 (rd_idx (as_unit (get_module p)) ;; let* _ := rd_u16 in rd_idx (optional (get_utf8 p))) ;;     (* requires *)
  read_vec_ rd_u16 (rd_idx (as_unit (get_package p)) ;; let* _ := rd_u16 in
                    read_vec_ rd_u16 (rd_idx (as_unit (get_module p)))) ;;                                         (* exports *)
  read_vec_ rd_u16 (rd_idx (as_unit (get_package p)) ;; let* _ := rd_u16 in
                    read_vec_ rd_u16 (rd_idx (as_unit (get_module p)))) ;;                                         (* opens *)
  read_vec_ rd_u16 (rd_idx (as_unit (get_class p))) ;;                                                             (* uses *)
  read_vec_ rd_u16 (rd_idx (as_unit (get_class p)) ;; read_vec_ rd_u16 (rd_idx (as_unit (get_class p)))).          (* provides *)
