(* C16 theory, WHOLE class reader, part 5: the opcode tables of the two passes agree on the length of every
   instruction (computed over the regenerated tables), hence the passes walk the code in lockstep; the second
   pass never panics on code the first pass accepted; read_code never panics. *)
From FB Require Import C16.ModelClsCode C16.Theory C16.TheoryCls C16.TheoryClsAttr C16.TheoryClsCode C16.TheoryClsCode2 C18.Model.
From FB Require C01.Opcodes.
From Coq Require Import Lia.

Arguments N.add : simpl never.
Arguments N.mul : simpl never.
Arguments N.sub : simpl never.
Arguments N.leb : simpl never.
Arguments N.ltb : simpl never.
Arguments N.eqb : simpl never.
Arguments N.land : simpl never.
Arguments N.shiftr : simpl never.
Arguments N.modulo : simpl never.
Arguments N.div : simpl never.
Arguments N.min : simpl never.
Arguments Z.add : simpl never.
Arguments Z.sub : simpl never.
Arguments Z.ltb : simpl never.
Arguments Z.leb : simpl never.

(* ------------------------------------------------------------------------------------------ *)
(* facts about the regenerated tables, by computation over the 256 opcodes                      *)
Lemma ops_all (P : N -> bool) :
  forallb (fun i => P (N.of_nat i)) (seq 0 256) = true -> (forall op, 256 <= op -> P op = true) -> forall op, P op = true.
Proof.
  intros H1 H2 op. destruct (N.ltb_spec op 256) as [Hlt|Hge]; [|apply H2; exact Hge].
  rewrite forallb_forall in H1. specialize (H1 (N.to_nat op)). rewrite N2Nat.id in H1. apply H1.
  apply in_seq. lia.
Qed.
Lemma pass1_class_big op : 256 <= op -> Opcodes.pass1_class op = Opcodes.OBad.
Proof. intros H. unfold Opcodes.pass1_class. apply nth_overflow. change (length Opcodes.pass1_table) with 256%nat. lia. Qed.
Lemma pass2_entry_big op : 256 <= op -> Opcodes.pass2_entry op = Opcodes.P2Bad.
Proof. intros H. unfold Opcodes.pass2_entry. apply nth_overflow. change (length Opcodes.pass2_table) with 256%nat. lia. Qed.
Lemma pass1_wide_big op : 256 <= op -> Opcodes.pass1_wide op = None.
Proof. intros H. unfold Opcodes.pass1_wide. apply nth_overflow. change (length Opcodes.pass1_wide_table) with 256%nat. lia. Qed.
Lemma pass2_wide_entry_big op : 256 <= op -> Opcodes.pass2_wide_entry op = Opcodes.P2Bad.
Proof. intros H. unfold Opcodes.pass2_wide_entry. apply nth_overflow. change (length Opcodes.pass2_wide_table) with 256%nat. lia. Qed.

(* the operand bytes the first pass skips = the operand bytes the second pass reads *)
Definition compat (c1 : Opcodes.opclass) (e : Opcodes.p2) : bool :=
  match c1, e with
  | Opcodes.OBad, _ => true
  | _, Opcodes.P2Bad => true
  | Opcodes.OFixed k, Opcodes.P2 _ rs => k =? reads_width rs
  | Opcodes.OFixed k, Opcodes.P2Short _ _ => k =? 0
  | Opcodes.OBr16, Opcodes.P2 _ rs => 2 =? reads_width rs
  | Opcodes.OBr32, Opcodes.P2 _ rs => 4 =? reads_width rs
  | Opcodes.OWide, Opcodes.P2Wide => true
  | Opcodes.OTSwitch, Opcodes.P2TSwitch => true
  | Opcodes.OLSwitch, Opcodes.P2LSwitch => true
  | _, _ => false
  end.
Definition wide_compat (k1 : option N) (e : Opcodes.p2) : bool :=
  match k1, e with
  | None, _ => true
  | Some _, Opcodes.P2Bad => true
  | Some k, Opcodes.P2 _ rs => k =? reads_width rs
  | Some _, _ => false
  end.
Definition is_done {A} (o : out A) : bool := match o with Done _ => true | _ => false end.
Definition short_ok (op : N) : bool :=
  match Opcodes.pass2_entry op with Opcodes.P2Short ctor _ => is_done (p2_short (ctor <? 54) op) | _ => true end.

Lemma tables_compat op : compat (Opcodes.pass1_class op) (Opcodes.pass2_entry op) = true.
Proof.
  revert op. apply (ops_all (fun op => compat (Opcodes.pass1_class op) (Opcodes.pass2_entry op))).
  - vm_compute. reflexivity.
  - intros op H. rewrite pass1_class_big by exact H. reflexivity.
Qed.
Lemma tables_wide_compat w : wide_compat (Opcodes.pass1_wide w) (Opcodes.pass2_wide_entry w) = true.
Proof.
  revert w. apply (ops_all (fun w => wide_compat (Opcodes.pass1_wide w) (Opcodes.pass2_wide_entry w))).
  - vm_compute. reflexivity.
  - intros w H. rewrite pass1_wide_big by exact H. reflexivity.
Qed.
(* iload_0 ..= aload_3 / istore_0 ..= astore_3: the u8 arithmetic does not overflow and the computed opcode is
   one of the five of the inner match *)
Lemma tables_short_ok op : short_ok op = true.
Proof.
  revert op. apply (ops_all short_ok).
  - vm_compute. reflexivity.
  - intros op H. unfold short_ok. rewrite pass2_entry_big by exact H. reflexivity.
Qed.

(* ------------------------------------------------------------------------------------------ *)
(* lockstep                                                                                     *)
Lemma rel_of_advances {A B} k (m1 : M A) (m2 : M B) : advances k m1 -> advances k m2 -> rel anyR m1 m2.
Proof. intros H1 H2 c a c1 b c2 E1 E2. rewrite (H1 _ _ _ E1), (H2 _ _ _ E2). split; [reflexivity|exact I]. Qed.
Lemma advances_eq {A} j k (m : M A) : j = k -> advances j m -> advances k m.
Proof. intros ->. auto. Qed.

Lemma advances_skip_ret {A} k (a : A) : advances k (skipM k ;; ret a).
Proof. eapply advances_eq; [|apply (advances_bind k 0); [apply advances_skip|intros _; apply advances_ret]]. lia. Qed.

Lemma rel_switch_entries cl pos st n s1 :
  rel anyR (iterN n (fun s => let* t := target32 pos in lift (lab_create cl s t)) s1)
           (iterN_ n (let* t := target32 pos in lift (lab_try_get st t))).
Proof.
  unfold iterN_. apply rel_iterN; [|exact I]. intros a b _.
  eapply rel_bind; [apply rel_refl|intros t t' _]. apply rel_neutral; apply neutral_lift.
Qed.
Lemma rel_lswitch_entries cl pos st n s1 :
  rel anyR (iterN n (fun s => let* _key := rd_i32 in let* t := target32 pos in lift (lab_create cl s t)) s1)
           (iterN_ n (let* _key := rd_i32 in let* t := target32 pos in lift (lab_try_get st t))).
Proof.
  unfold iterN_. apply rel_iterN; [|exact I]. intros a b _.
  eapply rel_bind; [apply rel_refl|intros k k' _].
  eapply rel_bind; [apply rel_refl|intros t t' _]. apply rel_neutral; apply neutral_lift.
Qed.

Lemma lockstep_core cl pos s1 p bsms st op :
  rel anyR (p1_core cl pos s1 op) (p2_entry p bsms cl st pos op (Opcodes.pass2_entry op)).
Proof.
  pose proof (tables_compat op) as Hc. unfold p1_core, p2_entry.
  destruct (Opcodes.pass1_class op) as [k| | | | | |] eqn:E1; destruct (Opcodes.pass2_entry op) as [ctor rs|ctor idx| | | |] eqn:E2;
    cbn [compat] in Hc; try discriminate Hc; try apply rel_fail_l; try apply rel_fail_r.
  - (* fixed / reads *)
    apply N.eqb_eq in Hc. subst k. apply (rel_of_advances (reads_width rs)); [apply advances_skip_ret|apply advances_p2_reads].
  - (* fixed 0 / short form *)
    apply N.eqb_eq in Hc. subst k. apply (rel_of_advances 0); [apply advances_skip_ret|apply advances_lift].
  - (* wide *)
    eapply rel_bind; [apply rel_refl|intros w w' <-].
    pose proof (tables_wide_compat w) as Hw.
    destruct (Opcodes.pass1_wide w) as [k|]; [|apply rel_fail_l].
    destruct (Opcodes.pass2_wide_entry w) as [ctor rs|ctor idx| | | |]; cbn [wide_compat] in Hw; try discriminate Hw; try apply rel_fail_r.
    apply N.eqb_eq in Hw. subst k. apply (rel_of_advances (reads_width rs)); [apply advances_skip_ret|apply advances_p2_reads].
  - (* branch 16 *)
    apply N.eqb_eq in Hc. apply (rel_of_advances 2).
    + eapply advances_eq; [|apply (advances_bind 2 0); [apply advances_target16|intros ?; apply advances_lift]]. lia.
    + rewrite Hc. apply advances_p2_reads.
  - (* branch 32 *)
    apply N.eqb_eq in Hc. apply (rel_of_advances 4).
    + eapply advances_eq; [|apply (advances_bind 4 0); [apply advances_target32|intros ?; apply advances_lift]]. lia.
    + rewrite Hc. apply advances_p2_reads.
  - (* tableswitch *)
    eapply rel_bind; [apply rel_refl|intros ? ? _].
    eapply rel_bind; [apply rel_refl|intros t t' <-].
    eapply rel_bind; [apply (rel_neutral (lift (lab_create cl s1 t)) (lift (lab_try_get st t))); apply neutral_lift|intros s2 ? _].
    eapply rel_bind; [apply rel_refl|intros low low' <-].
    eapply rel_bind; [apply rel_refl|intros high high' <-].
    destruct (high <? low)%Z; [apply rel_fail_l|].
    eapply rel_bind; [apply rel_refl|intros n n' <-].
    apply rel_step_r; [apply neutral_alloc_check|intros _]. apply rel_switch_entries.
  - (* lookupswitch *)
    eapply rel_bind; [apply rel_refl|intros ? ? _].
    eapply rel_bind; [apply rel_refl|intros t t' <-].
    eapply rel_bind; [apply (rel_neutral (lift (lab_create cl s1 t)) (lift (lab_try_get st t))); apply neutral_lift|intros s2 ? _].
    eapply rel_bind; [apply rel_refl|intros n n' <-].
    destruct (n <? 0)%Z; [apply rel_fail_l|].
    apply rel_step_r; [apply neutral_alloc_check|intros _]. apply rel_lswitch_entries.
Qed.

(* the two passes leave every instruction at the same place *)
Theorem lockstep cl pos s1 p bsms st fr : rel anyR (p1_insn cl pos s1) (p2_insn p bsms cl st pos fr).
Proof.
  rewrite p1_insn_eq. unfold p2_insn.
  eapply rel_bind; [apply rel_refl|intros op op' <-].
  eapply rel_bind; [apply lockstep_core|intros s' ? _].
  apply rel_neutral; [|apply neutral_lift].
  intros c a c'. destruct (cl <? rpos c); [discriminate|]. intros [= _ <-]. reflexivity.
Qed.

(* ------------------------------------------------------------------------------------------ *)
(* the second pass: what cannot panic by itself                                                 *)
Lemma cp_access_np p bsms k i : cp_access p bsms k i <> Panic.
Proof. unfold cp_access. onp; auto with npdb. apply as_unit_np. intros; auto with npdb. Qed.
#[export] Hint Resolve cp_access_np : npdb.
Lemma np_p2_read p bsms st pos r : np (p2_read p bsms st pos r).
Proof. unfold p2_read. np_go. Qed.
#[export] Hint Resolve np_p2_read : npdb.
Lemma np_p2_reads p bsms st pos rs : np (p2_reads p bsms st pos rs).
Proof. induction rs as [|r rs IH]; cbn [p2_reads]; [apply np_ret|]. apply np_bind; [apply np_p2_read|intros _; exact IH]. Qed.
#[export] Hint Resolve np_p2_reads : npdb.
Lemma take_frame_np st pos fr : take_frame st pos fr <> Panic.
Proof.
  unfold take_frame. destruct fr as [fs|]; [|discriminate]. destruct (lab_has st pos); [|discriminate].
  destruct fs as [|f r]; [discriminate|]. destruct (f =? pos); discriminate.
Qed.

Lemma np_alloc_check bytes : (forall c, alloc_ok bytes (len_N (rrest c)) = true) -> np (alloc_checkM bytes).
Proof. intros H c. unfold alloc_checkM. rewrite H. discriminate. Qed.

Lemma np_p2_tswitch cl st pos : cl <= 65535 ->
  np (align4M ;;
      let* t := target32 pos in lift (lab_try_get st t) ;;
      let* low := rd_i32 in let* high := rd_i32 in
      if (high <? low)%Z then failM else
      let* n := lift (sw_count low high) in
      alloc_checkM (2 * N.min n (cl / 4)) ;;
      iterN_ n (let* t := target32 pos in lift (lab_try_get st t))).
Proof.
  intros Hcl. apply np_bind; [exact np_align4M|intros _]. apply np_bind; [apply np_target32|intros t].
  apply np_bind; [apply np_lift; apply lab_try_get_np|intros _].
  apply (np_bind_post _ _ is_i32 np_rd_i32 post_rd_i32). intros low Hl.
  apply (np_bind_post _ _ is_i32 np_rd_i32 post_rd_i32). intros high Hh.
  destruct (high <? low)%Z; [apply np_fail|].
  apply np_bind; [apply np_lift; apply sw_count_np; assumption|intros n].
  apply np_bind; [|intros _; np_go].
  apply np_alloc_check. intros c. unfold alloc_ok. apply N.leb_le.
  assert (H4 : cl / 4 < 16384) by (apply N.div_lt_upper_bound; lia).
  pose proof (N.le_min_r n (cl / 4)). lia.
Qed.

(* the pairs of a lookupswitch: the first pass read them all from the same place *)
Lemma lswitch_pairs_present cl pos n s1 c r :
  iterN n (fun s => let* _key := rd_i32 in let* t := target32 pos in lift (lab_create cl s t)) s1 c = Done r ->
  8 * n <= len_N (rrest c).
Proof.
  destruct r as [s' c']. intros H.
  assert (He : eats (N.to_nat n * 8) (iterN n (fun s => let* _key := rd_i32 in let* t := target32 pos in lift (lab_create cl s t)) s1)).
  { apply eats_iterN_mul. intros a. apply (eats_bind 4 4); [exact eats_rd_i32|intros _].
    eapply eats_weaken; [|apply (eats_bind 4 0); [apply eats_target32|intros ?; apply eats_lift]]. lia. }
  specialize (He c s' c' H). unfold rlen, len_N in *. lia.
Qed.

Lemma bind_np_from {A B} (m : M A) (f : A -> M B) c a c' : m c = Done (a, c') -> f a c' <> Panic -> bindM m f c <> Panic.
Proof. intros E H. unfold bindM. rewrite E. exact H. Qed.

Lemma p2_entry_np_given_p1 p bsms cl st pos op s1 c r :
  cl <= 65535 -> p1_core cl pos s1 op c = Done r ->
  p2_entry p bsms cl st pos op (Opcodes.pass2_entry op) c <> Panic.
Proof.
  intros Hcl H1. pose proof (tables_compat op) as Hc. pose proof (tables_short_ok op) as Hs. unfold short_ok in Hs.
  unfold p2_entry. destruct (Opcodes.pass2_entry op) as [ctor rs|ctor idx| | | |] eqn:E2.
  - apply np_p2_reads.
  - apply np_lift. destruct (p2_short (ctor <? 54) op); [discriminate|discriminate Hs|discriminate Hs].
  - assert (Hw : np (let* w := rd_u8 in match Opcodes.pass2_wide_entry w with Opcodes.P2 _ rs => p2_reads p bsms st pos rs | _ => failM end)) by np_go.
    apply Hw.
  - apply (np_p2_tswitch cl st pos Hcl).
  - (* lookupswitch: the allocation of the pairs *)
    unfold p1_core in H1. destruct (Opcodes.pass1_class op); cbn [compat] in Hc; try discriminate Hc; try discriminate H1.
    apply bind_done in H1. destruct H1 as (u & c1 & Ea & H1).
    apply bind_done in H1. destruct H1 as (t & c2 & Et & H1).
    apply bind_done in H1. destruct H1 as (s2 & c2' & El & H1). apply lift_done in El. destruct El as [_ ->].
    apply bind_done in H1. destruct H1 as (n & c3 & En & H1).
    apply (bind_np_from _ _ _ _ _ Ea). apply (bind_np_from _ _ _ _ _ Et).
    unfold bindM at 1. destruct (lift (lab_try_get st t) c2) as [[v c2']| |] eqn:El; [|discriminate|exfalso; revert El; apply np_lift; apply lab_try_get_np].
    apply lift_done in El. destruct El as [_ ->].
    apply (bind_np_from _ _ _ _ _ En).
    destruct (n <? 0)%Z; [discriminate|].
    apply lswitch_pairs_present in H1.
    unfold bindM at 1, alloc_checkM.
    assert (Hok : alloc_ok (8 * Z.to_N n) (len_N (rrest c3)) = true) by (unfold alloc_ok; apply N.leb_le; lia).
    rewrite Hok.
    assert (Hit : np (iterN_ (Z.to_N n) (let* _key := rd_i32 in let* t := target32 pos in lift (lab_try_get st t)))) by np_go.
    apply Hit.
  - discriminate.
Qed.

Lemma p2_insn_np_given_p1 p bsms cl st pos fr s1 c r :
  cl <= 65535 -> p1_insn cl pos s1 c = Done r -> p2_insn p bsms cl st pos fr c <> Panic.
Proof.
  intros Hcl H1. rewrite p1_insn_eq in H1.
  apply bind_done in H1. destruct H1 as (op & c0 & Eo & H1).
  apply bind_done in H1. destruct H1 as (s' & c1 & Ec & _).
  unfold p2_insn. apply (bind_np_from _ _ _ _ _ Eo).
  unfold bindM at 1.
  destruct (p2_entry p bsms cl st pos op (Opcodes.pass2_entry op) c0) as [[u c2]| |] eqn:E2; [|discriminate|].
  - apply np_lift. apply take_frame_np.
  - exfalso. exact (p2_entry_np_given_p1 p bsms cl st pos op s1 c0 (s', c1) Hcl Ec E2).
Qed.

(* ------------------------------------------------------------------------------------------ *)
(* the loop of the second pass                                                                  *)
Lemma code_loop_np' {A} cl (body : N -> A -> M A) (I : rcur -> Prop) :
  (forall c, I c -> rpos c <= cl) ->
  (forall a c, I c -> rrest c <> [] -> body (to_u16 (rpos c)) a c <> Panic) ->
  (forall a c a' c', I c -> rrest c <> [] -> body (to_u16 (rpos c)) a c = Done (a', c') -> I c' /\ (rlen c' < rlen c)%nat) ->
  forall fuel a c, I c -> (rlen c < fuel)%nat -> code_loop fuel cl body a c <> Panic.
Proof.
  intros Hpos Hnp Hstep. induction fuel as [|f IH]; intros a c HI Hf; [exfalso; lia|].
  cbn [code_loop]. specialize (Hpos c HI). destruct (N.ltb_spec cl (rpos c)) as [Hlt|Hge]; [lia|].
  destruct (rrest c) as [|x r] eqn:Er; [discriminate|].
  assert (Hne : rrest c <> []) by (rewrite Er; discriminate).
  unfold bindM. destruct (body (to_u16 (rpos c)) a c) as [[a' c']| |] eqn:E; [|discriminate|].
  - destruct (Hstep _ _ _ _ HI Hne E) as [HI' Hlt']. apply IH; [exact HI'|lia].
  - exfalso. exact (Hnp _ _ HI Hne E).
Qed.

(* the first pass succeeds from here *)
Definition p1_from (cl : N) (c : rcur) : Prop := exists f1 s1 r, code_loop f1 cl (p1_insn cl) s1 c = Done r.
Lemma p1_from_unfold cl c : p1_from cl c -> rrest c <> [] ->
  exists s1 s1' c1, p1_insn cl (to_u16 (rpos c)) s1 c = Done (s1', c1) /\ p1_from cl c1.
Proof.
  intros (f1 & s1 & r & H) Hne. destruct f1 as [|f]; cbn [code_loop] in H.
  - destruct (cl <? rpos c); [discriminate|]. destruct (rrest c); [congruence|discriminate].
  - destruct (cl <? rpos c); [discriminate|]. destruct (rrest c) as [|x l] eqn:Er; [congruence|].
    apply bind_done in H. destruct H as (s1' & c1 & E1 & E2).
    exists s1, s1', c1. split; [exact E1|]. exists f, s1', r. exact E2.
Qed.

Theorem pass2_np p bsms cl code st fr st0 :
  cl <= 65535 -> N.of_nat (length code) = cl -> pass1 cl code = Done st0 -> pass2 p bsms cl code st fr <> Panic.
Proof.
  intros Hcl Hlen H1. unfold pass2. apply obind_np; [|discriminate]. unfold run_code.
  assert (H : code_loop (S (length code)) cl (p2_insn p bsms cl st) fr (mkRd 0 code) <> Panic).
  { apply (code_loop_np' cl (p2_insn p bsms cl st) (fun c => total c = cl /\ p1_from cl c)).
    - intros c [Ht _]. unfold total in Ht. lia.
    - intros a c [_ Hp] Hne. destruct (p1_from_unfold cl c Hp Hne) as (s1 & s1' & c1 & E1 & _).
      exact (p2_insn_np_given_p1 p bsms cl st _ a s1 c _ Hcl E1).
    - intros a c a' c' [Ht Hp] Hne E2. destruct (p1_from_unfold cl c Hp Hne) as (s1 & s1' & c1 & E1 & Hp1).
      destruct (lockstep cl (to_u16 (rpos c)) s1 p bsms st a c s1' c1 a' c' E1 E2) as [<- _].
      split; [split; [|exact Hp1]|].
      + rewrite (keeps_p2_insn _ _ _ _ _ _ _ _ _ E2). exact Ht.
      + apply eats_p2_insn in E2. lia.
    - split.
      + unfold total, rlen. cbn [rpos rrest]. lia.
      + unfold pass1, run_code in H1.
        destruct (code_loop (S (length code)) cl (p1_insn cl) labels_empty (mkRd 0 code)) as [[s c]| |] eqn:E; try discriminate.
        exists (S (length code)), labels_empty, (s, c). exact E.
    - unfold rlen. cbn [rrest]. lia. }
  destruct (code_loop (S (length code)) cl (p2_insn p bsms cl st) fr (mkRd 0 code)) as [[a c]| |]; [discriminate|discriminate|congruence].
Qed.
