(* C16 model: the arithmetic / indexing / recursion skeleton of the places where the parsers of
   /repo could crash instead of returning an error.  Outcome type [out]: [Done] (Ok), [Fail]
   (Err, `bail!`), [Panic] (a Rust panic: integer overflow under overflow checks, slice index out
   of range; and, as stand-ins that only the correspondence run justifies: running out of fuel =
   unbounded recursion / stack overflow, an allocation not bounded by the input = abort).

   The model follows the code AFTER the `fix:` commits of this property
   (duke/src/class_reader.rs read_code first pass, tableswitch count, StackMapTable offsets;
   class_reader/labels.rs get_or_create_range and the label counter; class_reader/pool.rs
   bootstrap-argument nesting and budget; read_element_value* nesting; duke/src/lib.rs
   read_u8_vec; quill/src/enigma_file.rs CLASS nesting; quill/src/lines.rs `&line[idents..]`;
   class_reader/pool.rs the per-instruction budget of expanded bootstrap arguments;
   tree/descriptor.rs get_arguments_size (the writer's u8 count operand); tiny_v2.rs unescape).
   The [*_unrepaired] variants restate the code before the fixes; Theory.v shows that they do
   reach [Panic] on the witnesses found by the harness.  Definitions only. *)
From FB Require Export Base.Str.
From FB Require Import C18.Model.
From Coq Require Export ZArith.

Inductive out (A : Type) : Type := Done (a : A) | Fail | Panic.
Arguments Done {A} a.
Arguments Fail {A}.
Arguments Panic {A}.

Definition obind {A B} (r : out A) (f : A -> out B) : out B :=
  match r with Done a => f a | Fail => Fail | Panic => Panic end.
Notation "'let!' x := r 'in' k" := (obind r (fun x => k)) (at level 200, x pattern, r at level 100, k at level 200).

Definition u16_max : N := 65535.

(* `a + b` on u16 as the harness build evaluates it (overflow-checks = true) *)
Definition u16_add_unchecked (a b : N) : out N := if a + b <=? u16_max then Done (a + b) else Panic.
(* `a.checked_add(b)` *)
Definition u16_checked_add (a b : N) : option N := if a + b <=? u16_max then Some (a + b) else None.

(* ------------------------------------------------------------------------------------------ *)
(* Labels (class_reader/labels.rs)                                                              *)

(* `create` / `get_or_create`: bail when pc >= code_length *)
Definition get_or_create (code_len pc : N) : out unit := if code_len <=? pc then Fail else Done tt.
(* `get_or_create_check_exclusive`: bail when pc > code_length *)
Definition get_or_create_excl (code_len pc : N) : out unit := if code_len <? pc then Fail else Done tt.

(* get_or_create_range after the fix: start_pc.checked_add(length) *)
Definition get_or_create_range (code_len start len : N) : out unit :=
  match u16_checked_add start len with
  | None => Fail
  | Some e => let! _ := get_or_create code_len start in get_or_create_excl code_len e
  end.
(* before: `start_pc + length` evaluated (after the start label) as an u16 addition *)
Definition get_or_create_range_unrepaired (code_len start len : N) : out unit :=
  let! _ := get_or_create code_len start in
  let! e := u16_add_unchecked start len in
  get_or_create_excl code_len e.

(* the label table: the set of offsets that have a label, and the id counter `max_id : u16`.
   `get_or_add_unchecked` hands out `max_id` and increments it; after the fix with wrapping_add. *)
Record labels := { lab_pcs : list N; lab_next : N }.
Definition labels_empty : labels := {| lab_pcs := []; lab_next := 0 |}.
Definition labels_add (wrapping : bool) (st : labels) (pc : N) : out labels :=
  if mem_N pc (lab_pcs st) then Done st
  else if lab_next st + 1 <=? u16_max then Done {| lab_pcs := pc :: lab_pcs st; lab_next := lab_next st + 1 |}
  else if wrapping then Done {| lab_pcs := pc :: lab_pcs st; lab_next := 0 |}
  else Panic.
(* a sequence of label requests, each bounds-checked (inclusive bound for range ends) before it is added *)
Fixpoint labels_add_all (wrapping : bool) (code_len : N) (st : labels) (reqs : list (N * bool)) : out labels :=
  match reqs with
  | [] => Done st
  | (pc, exclusive) :: rest =>
      let! _ := (if exclusive then get_or_create_excl code_len pc else get_or_create code_len pc) in
      let! st' := labels_add wrapping st pc in
      labels_add_all wrapping code_len st' rest
  end.
(* the invariant of the table: ids handed out so far = number of labelled offsets (mod 2^16) *)
Definition labels_requests (code_len : N) (reqs : list (N * bool)) : out labels :=
  if (code_len =? 0) || (u16_max <? code_len) then Fail else labels_add_all true code_len labels_empty reqs.
Definition labels_requests_unrepaired (code_len : N) (reqs : list (N * bool)) : out labels :=
  if (code_len =? 0) || (u16_max <? code_len) then Fail else labels_add_all false code_len labels_empty reqs.

(* ------------------------------------------------------------------------------------------ *)
(* StackMapTable offset accumulation (read_code): offset = offset + delta + (i == 0 ? 0 : 1)    *)

Fixpoint frames (code_len : N) (first : bool) (offset : N) (deltas : list N) : out unit :=
  match deltas with
  | [] => Done tt
  | d :: ds =>
      match u16_checked_add offset d with
      | None => Fail
      | Some o1 =>
          match u16_checked_add o1 (if first then 0 else 1) with
          | None => Fail
          | Some o2 => let! _ := get_or_create code_len o2 in frames code_len false o2 ds
          end
      end
  end.
Definition stack_map (code_len : N) (deltas : list N) : out unit :=
  if (code_len =? 0) || (u16_max <? code_len) then Fail else frames code_len true 0 deltas.

Fixpoint frames_unrepaired (code_len : N) (first : bool) (offset : N) (deltas : list N) : out unit :=
  match deltas with
  | [] => Done tt
  | d :: ds =>
      let! inc := u16_add_unchecked d (if first then 0 else 1) in
      let! o2 := u16_add_unchecked offset inc in
      let! _ := get_or_create code_len o2 in frames_unrepaired code_len false o2 ds
  end.

(* ------------------------------------------------------------------------------------------ *)
(* The bytecode cursor and the first pass of read_code                                          *)

(* `Cursor<&Vec<u8>>`: [pos], the bytes from pos on ([rest]), and [over] = how far a seek moved
   the position past the end of the data (seeking past the end is not an error for a Cursor). *)
Record cur := { pos : N; rest : list N; over : N }.

Definition len_N {A} (l : list A) : N := N.of_nat (length l).

(* r.read_n::<k>(): Err when fewer than k bytes remain (also when the position is past the end) *)
Definition read_n (k : nat) (c : cur) : out (list N * cur) :=
  if (0 <? over c) || (length (rest c) <? k)%nat then Fail
  else Done (firstn k (rest c), {| pos := pos c + N.of_nat k; rest := skipn k (rest c); over := 0 |}).
(* r.skip(k): SeekFrom::Current, never fails *)
Definition skip (k : nat) (c : cur) : cur :=
  if (0 <? over c) then {| pos := pos c + N.of_nat k; rest := []; over := over c + N.of_nat k |}
  else if (k <=? length (rest c))%nat then {| pos := pos c + N.of_nat k; rest := skipn k (rest c); over := 0 |}
  else {| pos := pos c + N.of_nat k; rest := []; over := N.of_nat k - len_N (rest c) |}.

Fixpoint be (bytes : list N) (acc : N) : N :=
  match bytes with [] => acc | b :: r => be r (acc * 256 + b) end.
Definition to_signed (bits : N) (x : N) : Z :=
  if x <? 2 ^ (bits - 1) then Z.of_N x else (Z.of_N x - Z.of_N (2 ^ bits))%Z.

Definition read_u8 (c : cur) : out (N * cur) :=
  let! (b, c') := read_n 1 c in Done (be b 0, c').
Definition read_i16 (c : cur) : out (Z * cur) :=
  let! (b, c') := read_n 2 c in Done (to_signed 16 (be b 0), c').
Definition read_i32 (c : cur) : out (Z * cur) :=
  let! (b, c') := read_n 4 c in Done (to_signed 32 (be b 0), c').

(* read_i16/i32_as_branch_target_label + labels.create: checked_add_signed, try_into u16, bound *)
Definition branch_target (code_len opcode_pos : N) (branch : Z) : out unit :=
  let t := (Z.of_N opcode_pos + branch)%Z in
  if (t <? 0)%Z || (Z.of_N u16_max <? t)%Z then Fail else get_or_create code_len (Z.to_N t).
Definition branch16 (code_len opcode_pos : N) (c : cur) : out cur :=
  let! (b, c') := read_i16 c in let! _ := branch_target code_len opcode_pos b in Done c'.
Definition branch32 (code_len opcode_pos : N) (c : cur) : out cur :=
  let! (b, c') := read_i32 c in let! _ := branch_target code_len opcode_pos b in Done c'.

(* align_to_4_byte_boundary: marker & 3 = 1 -> three bytes, 2 -> two, 3 -> one *)
Definition align4 (c : cur) : out cur :=
  let m := N.modulo (pos c) 4 in
  let k := if m =? 0 then 0%nat else if m =? 1 then 3%nat else if m =? 2 then 2%nat else 1%nat in
  let! (_, c') := read_n k c in Done c'.

(* `for _ in 0..n { labels.create(read_i32_as_branch_target_label) }`: [with_key] for lookupswitch.
   Fuel bounds the iterations; running out of fuel is Panic (an endless loop stand-in). *)
Fixpoint switch_entries (fuel : nat) (with_key : bool) (code_len opcode_pos : N) (n : N) (c : cur) : out cur :=
  if n =? 0 then Done c else
  match fuel with
  | O => Panic
  | S f =>
      let! c1 := (if with_key then (let! (_, c1) := read_i32 c in Done c1) else Done c) in
      let! c2 := branch32 code_len opcode_pos c1 in
      switch_entries f with_key code_len opcode_pos (n - 1) c2
  end.

Definition i32_min : Z := (- 2147483648)%Z.
Definition i32_max : Z := 2147483647%Z.
(* `high - low + 1` in i32 with overflow checks (before the fix) and in i64 (after) *)
Definition tableswitch_count_unrepaired (low high : Z) : out N :=
  let d := (high - low)%Z in
  if (d <? i32_min)%Z || (i32_max <? d)%Z then Panic
  else if (i32_max <? d + 1)%Z then Panic else Done (Z.to_N (d + 1)).
Definition tableswitch_count (low high : Z) : out N := Done (Z.to_N (high - low + 1)).

(* operand lengths of the first pass; None = not a fixed-length instruction *)
Definition in_range (lo hi x : N) : bool := (lo <=? x) && (x <=? hi).
Definition plain_len (op : N) : option nat :=
  if in_range 0 15 op || in_range 26 53 op || in_range 59 131 op || in_range 133 152 op || in_range 172 177 op
     || (op =? 190) || (op =? 191) || (op =? 194) || (op =? 195) then Some 0%nat
  else if (op =? 16) || (op =? 18) || in_range 21 25 op || in_range 54 58 op || (op =? 169) || (op =? 188) then Some 1%nat
  else if (op =? 17) || (op =? 19) || (op =? 20) || (op =? 132) || in_range 178 184 op || (op =? 187) || (op =? 189) || (op =? 192) || (op =? 193) then Some 2%nat
  else if op =? 197 then Some 3%nat
  else if (op =? 185) || (op =? 186) then Some 4%nat
  else None.
(* opcodes whose second-pass result depends on the constant pool (not modelled) *)
Definition uses_pool (op : N) : bool :=
  (op =? 18) || (op =? 19) || (op =? 20) || in_range 178 187 op || (op =? 189) || (op =? 192) || (op =? 193) || (op =? 197).
Definition is_wide_load_store (w : N) : bool := in_range 21 25 w || in_range 54 58 w || (w =? 169).

(* the operands of one instruction (the `match r.read_u8()?` of the closure body); returns the
   cursor and whether the instruction's outcome in the second pass is independent of the pool *)
Definition insn_operands (count : Z -> Z -> out N) (code_len opcode_pos op : N) (c1 : cur) : out (cur * bool) :=
  match plain_len op with
  | Some k =>
      (* second pass: newarray checks its atype, everything else without pool operand just reads *)
      if op =? 188 then
        match rest c1 with
        | a :: _ => if in_range 4 11 a then Done (skip k c1, true) else Fail
        | [] => Done (skip k c1, true)
        end
      else Done (skip k c1, negb (uses_pool op))
  | None =>
      if op =? 196 then
        let! (w, c2) := read_u8 c1 in
        if is_wide_load_store w then Done (skip 2 c2, true)
        else if w =? 132 then Done (skip 4 c2, true)
        else Fail
      else if in_range 153 168 op || (op =? 198) || (op =? 199) then
        let! c2 := branch16 code_len opcode_pos c1 in Done (c2, true)
      else if (op =? 200) || (op =? 201) then
        let! c2 := branch32 code_len opcode_pos c1 in Done (c2, true)
      else if op =? 170 then
        let! c2 := align4 c1 in
        let! c3 := branch32 code_len opcode_pos c2 in
        let! (low, c4) := read_i32 c3 in
        let! (high, c5) := read_i32 c4 in
        if (high <? low)%Z then Fail else
        let! n := count low high in
        let! c6 := switch_entries (S (length (rest c5))) false code_len opcode_pos n c5 in
        Done (c6, true)
      else if op =? 171 then
        let! c2 := align4 c1 in
        let! c3 := branch32 code_len opcode_pos c2 in
        let! (n, c4) := read_i32 c3 in
        if (n <? 0)%Z then Fail else
        let! c5 := switch_entries (S (length (rest c4))) true code_len opcode_pos (Z.to_N n) c4 in
        Done (c5, true)
      else Fail
  end.

(* one instruction of the first pass (the closure body), [repaired] = the position check that the
   fix added at the end of the closure *)
Definition scan_insn (repaired : bool) (count : Z -> Z -> out N) (code_len : N) (c : cur) : out (cur * bool) :=
  let! (op, c1) := read_u8 c in
  let! (c2, exact) := insn_operands count code_len (pos c) op c1 in
  if repaired && (0 <? over c2) then Fail else Done (c2, exact).

(* `while !r.get_ref()[(r.position() as usize)..].is_empty()`: the slice panics when the
   position is past the end *)
Fixpoint scan_loop (fuel : nat) (repaired : bool) (count : Z -> Z -> out N) (code_len : N) (c : cur) (exact : bool) : out bool :=
  if 0 <? over c then Panic else
  match rest c with
  | [] => Done exact
  | _ :: _ =>
      match fuel with
      | O => Panic
      | S f => let! (c', e) := scan_insn repaired count code_len c in scan_loop f repaired count code_len c' (exact && e)
      end
  end.

Definition scan_with (repaired : bool) (count : Z -> Z -> out N) (code : list N) : out bool :=
  let n := len_N code in
  if (n =? 0) || (u16_max <? n) then Fail
  else scan_loop (S (length code)) repaired count n {| pos := 0; rest := code; over := 0 |} true.
Definition scan (code : list N) : out bool := scan_with true tableswitch_count code.
Definition scan_unrepaired (code : list N) : out bool := scan_with false tableswitch_count_unrepaired code.

(* ------------------------------------------------------------------------------------------ *)
(* Bootstrap-argument resolution (class_reader/pool.rs get_loadable / as_dynamic)               *)

Inductive pentry := PDyn (bsm : N) | PLeaf | POther.
Definition max_nesting : N := 64.
Definition max_expanded : N := 65536.

Definition nth_N {A} (l : list A) (i : N) : option A := nth_error l (N.to_nat i).

(* get_loadable_nested: [limit] = Some 64 after the fix (None before); the budget is threaded
   through (it bounds the work, not the recursion depth).  fuel = stack; out of fuel = Panic. *)
Fixpoint resolve (fuel : nat) (limit : option N) (pool : list pentry) (bsms : list (list N)) (idx nesting budget : N) : out N :=
  match fuel with
  | O => Panic
  | S f =>
      let! budget1 := (if 0 <? nesting then (if budget =? 0 then Fail else Done (budget - 1)) else Done budget) in
      match nth_N pool idx with
      | None => Fail
      | Some PLeaf => Done budget1
      | Some POther => Fail
      | Some (PDyn b) =>
          if (match limit with Some m => m <? nesting | None => false end) then Fail else
          match nth_N bsms b with
          | None => Fail
          | Some args =>
              (fix go (args : list N) (bud : N) : out N :=
                 match args with
                 | [] => Done bud
                 | a :: rest => let! bud' := resolve f limit pool bsms a (nesting + 1) bud in go rest bud'
                 end) args budget1
          end
      end
  end.

(* fuel that always suffices for the repaired reader: nesting never exceeds 65 *)
Definition resolve_fuel : nat := 67.
(* the graphs the harness builds: constant i is `PDyn i`, index >= length = the Integer leaf;
   [indy]: the root is the single argument of an invokedynamic's bootstrap method (nesting 1) *)
Definition boot_pool (g : list (list N)) : list pentry := map (fun i => PDyn (N.of_nat i)) (seq 0 (length g)) ++ [PLeaf].
Definition boot_top (fuel : nat) (limit : option N) (g : list (list N)) (root : N) (indy : bool) : out N :=
  resolve fuel limit (boot_pool g) g root (if indy then 1 else 0) max_expanded.
Definition boot (g : list (list N)) (root : N) (indy : bool) : out N := boot_top resolve_fuel (Some max_nesting) g root indy.

(* ------------------------------------------------------------------------------------------ *)
(* Recursion on nesting with a limit: element values (nesting starts at 0 for the pairs of the
   annotation, every `[` / `@` adds one) and Enigma CLASS sections.  A chain of [depth] nested
   containers around one constant.                                                              *)
Inductive nest := NLeaf | NNode (children : list nest).
Fixpoint chain (depth : nat) : nest := match depth with O => NLeaf | S d => NNode [chain d] end.

Fixpoint read_nest (fuel : nat) (limit : option N) (nesting : N) (t : nest) : out unit :=
  match fuel with
  | O => Panic
  | S f =>
      match t with
      | NLeaf => Done tt
      | NNode cs =>
          (* entering read_element_values_* / parse_class at nesting + 1 *)
          if (match limit with Some m => m <? nesting + 1 | None => false end) then Fail else
          (fix go (cs : list nest) : out unit :=
             match cs with [] => Done tt | x :: r => let! _ := read_nest f limit (nesting + 1) x in go r end) cs
      end
  end.
Definition nest_fuel : nat := 67.
(* element values: the top-level value sits at nesting 0 *)
Definition element_value_chain (depth : N) : out unit := read_nest nest_fuel (Some max_nesting) 0 (chain (N.to_nat depth)).
(* Enigma: a top-level CLASS is read at nesting 0, so [depth] nested CLASS lines = chain of depth, entered at nesting -1+1 *)
Definition enigma_class_chain (depth : N) : out unit :=
  match N.to_nat depth with O => Done tt | S d => read_nest nest_fuel (Some max_nesting) 0 (chain d) end.

(* ------------------------------------------------------------------------------------------ *)
(* read_u8_vec(size) with [remaining] bytes of input left: bytes allocated vs input             *)
Definition alloc_ok (bytes remaining : N) : bool := bytes <=? 65536 + 2 * remaining.
Definition read_u8_vec (declared remaining : N) : out unit :=
  let up_front := N.min declared 65536 in
  let grown := N.max up_front (2 * N.min declared remaining) in
  if negb (alloc_ok grown remaining) then Panic else if declared <=? remaining then Done tt else Fail.
(* before: vec![0; size] *)
Definition read_u8_vec_unrepaired (declared remaining : N) : out unit :=
  if negb (alloc_ok declared remaining) then Panic else if declared <=? remaining then Done tt else Fail.

(* ------------------------------------------------------------------------------------------ *)
(* Known finding F17 (open): the tree keeps the resolved bootstrap arguments BY VALUE in every
   ldc / invokedynamic instruction (`InvokeDynamic { arguments: Vec<Loadable> }`), so [k]
   instructions that share a bootstrap method with [a] (expanded) arguments cost k * (a + 1) Loadable-sized
   values of about 256 bytes each, for an input of about 5k + 2a bytes.  [heap_bound] is the
   linear bound the harness enforces (32 MiB + 512 bytes per input byte).                       *)
Definition heap_bound (input_len : N) : N := 33554432 + 512 * input_len.
Definition loadable_bytes : N := 256.
Definition shared_args_alloc (k a input_len : N) : out unit :=
  if heap_bound input_len <? loadable_bytes * (k * (a + 1)) then Panic else Done tt.
(* the witness class: the by-value copies alone exceed the bound *)
Definition known_class_F17 (k a input_len : N) : bool := heap_bound input_len <? loadable_bytes * (k * (a + 1)).

(* ------------------------------------------------------------------------------------------ *)
(* Text lines (quill/src/lines.rs TinyLine::new, enigma_file.rs EnigmaLine::new):
   idents = number of leading tab chars; `&line[idents..]` indexes BYTES and panics when the
   index is not a char boundary.  The line is a `String` (valid UTF-8) or the reader errs.      *)
Definition is_cont (b : N) : bool := (128 <=? b) && (b <? 192).
Fixpoint utf8_valid (l : list N) : bool :=
  match l with
  | [] => true
  | b :: r =>
      if b <? 128 then utf8_valid r
      else if in_range 194 223 b then
        match r with c1 :: r' => is_cont c1 && utf8_valid r' | _ => false end
      else if in_range 224 239 b then
        match r with
        | c1 :: c2 :: r' =>
            is_cont c1 && is_cont c2 && (if b =? 224 then 160 <=? c1 else true) && (if b =? 237 then c1 <? 160 else true) && utf8_valid r'
        | _ => false
        end
      else if in_range 240 244 b then
        match r with
        | c1 :: c2 :: c3 :: r' =>
            is_cont c1 && is_cont c2 && is_cont c3 && (if b =? 240 then 144 <=? c1 else true) && (if b =? 244 then c1 <? 144 else true) && utf8_valid r'
        | _ => false
        end
      else false
  end.
Fixpoint count_tabs (l : list N) : nat :=
  match l with b :: r => if b =? cTAB then S (count_tabs r) else O | [] => O end.
(* `&s[i..]` *)
Definition slice_from (l : list N) (i : nat) : out (list N) :=
  if (length l <? i)%nat then Panic
  else match nth_error l i with
       | None => Done []
       | Some b => if is_cont b then Panic else Done (skipn i l)
       end.
Definition text_line (l : list N) : out (list N) :=
  if utf8_valid l then slice_from l (count_tabs l) else Fail.

(* ------------------------------------------------------------------------------------------ *)
(* Descriptors: the C18 model is total by construction                                          *)
Definition desc_out (kind : N) (s : str) : out unit :=
  match kind with
  | 0 => match parse_field s with Ok _ => Done tt | Err => Fail end
  | 1 => match parse_method s with Ok _ => Done tt | Err => Fail end
  | _ => match parse_return s with Ok _ => Done tt | Err => Fail end
  end.

(* ------------------------------------------------------------------------------------------ *)
(* One instruction: ALL top-level bootstrap arguments share one budget (pool.rs as_invoke_dynamic:
   `let budget = &Cell::new(MAX_BOOTSTRAP_ARGUMENTS_EXPANDED)` BEFORE the loop over the arguments;
   get_loadable for ldc: one budget for the constant).                                          *)
Fixpoint resolve_all (fuel : nat) (limit : option N) (pool : list pentry) (bsms : list (list N)) (args : list N) (nesting bud : N) : out N :=
  match args with
  | [] => Done bud
  | a :: rest => let! bud' := resolve fuel limit pool bsms a nesting bud in resolve_all fuel limit pool bsms rest nesting bud'
  end.

(* instrumented: number of get_loadable_nested calls made, and the result *)
Fixpoint resolve_w (fuel : nat) (limit : option N) (pool : list pentry) (bsms : list (list N)) (idx nesting budget : N) : N * out N :=
  match fuel with
  | O => (0, Panic)
  | S f =>
      if (0 <? nesting) && (budget =? 0) then (1, Fail) else
      let budget1 := if 0 <? nesting then budget - 1 else budget in
      match nth_N pool idx with
      | None => (1, Fail)
      | Some PLeaf => (1, Done budget1)
      | Some POther => (1, Fail)
      | Some (PDyn b) =>
          if (match limit with Some m => m <? nesting | None => false end) then (1, Fail) else
          match nth_N bsms b with
          | None => (1, Fail)
          | Some args =>
              let wr := (fix go (args : list N) (bud : N) : N * out N :=
                 match args with
                 | [] => (0, Done bud)
                 | a :: rest =>
                     match resolve_w f limit pool bsms a (nesting + 1) bud with
                     | (w1, Done bud') => let wr := go rest bud' in (w1 + fst wr, snd wr)
                     | (w1, r) => (w1, r)
                     end
                 end) args budget1 in
              (1 + fst wr, snd wr)
          end
      end
  end.
Fixpoint resolve_all_w (fuel : nat) (limit : option N) (pool : list pentry) (bsms : list (list N)) (args : list N) (nesting bud : N) : N * out N :=
  match args with
  | [] => (0, Done bud)
  | a :: rest =>
      match resolve_w fuel limit pool bsms a nesting bud with
      | (w1, Done bud') => let wr := resolve_all_w fuel limit pool bsms rest nesting bud' in (w1 + fst wr, snd wr)
      | (w1, r) => (w1, r)
      end
  end.

Definition indy_instruction (pool : list pentry) (bsms : list (list N)) (args : list N) : out N :=
  resolve_all resolve_fuel (Some max_nesting) pool bsms args 1 max_expanded.
Definition ldc_instruction (pool : list pentry) (bsms : list (list N)) (idx : N) : out N :=
  resolve resolve_fuel (Some max_nesting) pool bsms idx 0 max_expanded.
Definition indy_instruction_w pool bsms args := resolve_all_w resolve_fuel (Some max_nesting) pool bsms args 1 max_expanded.
Definition ldc_instruction_w pool bsms idx := resolve_w resolve_fuel (Some max_nesting) pool bsms idx 0 max_expanded.


(* the defect that a budget created INSIDE the loop would be: every top-level argument gets a fresh budget *)
Fixpoint indy_per_argument_w (pool : list pentry) (bsms : list (list N)) (args : list N) : N * out N :=
  match args with
  | [] => (0, Done max_expanded)
  | a :: rest =>
      match resolve_w resolve_fuel (Some max_nesting) pool bsms a 1 max_expanded with
      | (w1, Done _) => let wr := indy_per_argument_w pool bsms rest in (w1 + fst wr, snd wr)
      | (w1, r) => (w1, r)
      end
  end.
(* the shared DAG of the harness: constant i lists constant i+1 twice, the last one has no arguments *)
Definition dag_graph (depth : nat) : list (list N) :=
  map (fun i => if (S i <? depth)%nat then [N.of_nat (S i); N.of_nat (S i)] else []) (seq 0 depth).

(* correspondence form: graph as for [boot]; [indy] = the roots are the arguments of the
   invokedynamic's bootstrap method, otherwise the single root is loaded by ldc *)
Definition boot_roots (g : list (list N)) (roots : list N) (indy : bool) : out N :=
  if indy then indy_instruction (boot_pool g) g roots
  else match roots with [x] => ldc_instruction (boot_pool g) g x | _ => Fail end.

(* ------------------------------------------------------------------------------------------ *)
(* MethodDescriptorSlice::get_arguments_size (duke/src/tree/descriptor.rs): the `count` operand
   of invokeinterface that the class WRITER recomputes from the descriptor, an u8.
   [checked] = after the fix (checked_add, an error); before: `size += k` on an u8.            *)
Definition u8_max : N := 255.
Definition u8_bump (checked : bool) (size k : N) : out N :=
  if size + k <=? u8_max then Done (size + k) else if checked then Fail else Panic.

(* `while chars.next_if_eq(&'[').is_some() {}` *)
Fixpoint skip_brackets (s : str) : str :=
  match s with c :: r => if c =? 91 then skip_brackets r else s | [] => [] end.
(* after an `L`: read chars up to and including `;`; None = abrupt ending *)
Fixpoint skip_to_semi (s : str) : option str :=
  match s with [] => None | c :: r => if c =? 59 then Some r else skip_to_semi r end.

Fixpoint args_loop (checked : bool) (fuel : nat) (s : str) (size : N) : out N :=
  match fuel with
  | O => Panic
  | S f =>
      match s with
      | [] => Fail                                   (* chars.next() is None: abrupt ending *)
      | c :: r =>
          if c =? 41 then Done size                   (* ')' *)
          else if (c =? 68) || (c =? 74) then         (* 'D' | 'J' *)
            let! size' := u8_bump checked size 2 in args_loop checked f r size'
          else
            match skip_brackets s with
            | [] => Fail
            | ch :: r1 =>
                if ch =? 76 then                      (* 'L' … ';' *)
                  match skip_to_semi r1 with
                  | None => Fail
                  | Some r2 => let! size' := u8_bump checked size 1 in args_loop checked f r2 size'
                  end
                else let! size' := u8_bump checked size 1 in args_loop checked f r1 size'
            end
      end
  end.
Definition arguments_size_with (checked : bool) (s : str) : out N :=
  match s with
  | c :: r => if c =? 40 then args_loop checked (S (length r)) r 1 else Fail
  | [] => Fail
  end.
Definition arguments_size : str -> out N := arguments_size_with true.
Definition arguments_size_unrepaired : str -> out N := arguments_size_with false.


(* ------------------------------------------------------------------------------------------ *)
(* tiny_v2::unescape on code points (`s.chars()`; table ESCAPES = (\\,\\) (LF,n) (CR,r) (TAB,t)):
   a backslash followed by an escape letter is replaced, every other char is kept — also a
   backslash that starts no escape.  No byte index is computed anywhere.                        *)
Definition unesc_letter (e : N) : option N :=
  if e =? 92 then Some 92 else if e =? 110 then Some 10 else if e =? 114 then Some 13 else if e =? 116 then Some 9 else None.
Fixpoint unescape_cp (s : list N) : list N :=
  match s with
  | [] => []
  | c :: r =>
      if c =? 92 then
        match r with
        | e :: r' => match unesc_letter e with Some x => x :: unescape_cp r' | None => c :: unescape_cp r end
        | [] => [c]
        end
      else c :: unescape_cp r
  end.

(* ------------------------------------------------------------------------------------------ *)
(* read_field_type (duke/src/tree/descriptor.rs): the only arithmetic of the descriptor parsers.
   `array_dimension` is an u8, incremented once per `[` (`array_dimension += 1`, a Panic past 255
   under overflow checks); the check `array_dimension == 255` in front of the increment makes the
   256th bracket an error.  [guarded] = the code as it is; [false] = without the check.           *)
Fixpoint array_dims (guarded : bool) (s : str) (dim : N) : out (N * str) :=
  match s with
  | c :: r =>
      if c =? 91 then
        if guarded && (dim =? 255) then Fail
        else let! d := u8_bump false dim 1 in array_dims guarded r d
      else Done (dim, s)
  | [] => Done (dim, [])
  end.
