(* C16 model, WHOLE class reader, part 3: read_code (duke/src/class_reader.rs) with
   class_reader/labels.rs: both passes over the bytecode (operand classes and operand reads per opcode
   from the tables that translate/c01_opcodes.py regenerates from the two `match r.read_u8()?` of
   read_code: coq/C01/Opcodes.v), the exception table, the attributes of Code (StackMapTable, StackMap,
   LineNumberTable, LocalVariableTable, LocalVariableTypeTable, type annotations with their code target
   infos), stack map frames and verification types.
   Definitions only. *)
From FB Require Export C16.ModelClsAttr.
From FB Require Import C18.Model.
From FB Require C01.Opcodes.
Open Scope N_scope.

(* ------------------------------------------------------------------------------------------ *)
(* Labels (labels.rs) on the label table of Model.v: [lab_pcs] the offsets that have a label       *)
Definition lab_create (cl : N) (st : labels) (pc : N) : out labels :=       (* create / get_or_create *)
  let! _ := get_or_create cl pc in labels_add true st pc.
Definition lab_create_excl (cl : N) (st : labels) (pc : N) : out labels :=  (* get_or_create_check_exclusive *)
  let! _ := get_or_create_excl cl pc in labels_add true st pc.
Definition lab_range (cl : N) (st : labels) (start len : N) : out labels :=  (* get_or_create_range *)
  match u16_checked_add start len with
  | None => Fail
  | Some e => let! st1 := lab_create cl st start in lab_create_excl cl st1 e
  end.
Definition lab_has (st : labels) (pc : N) : bool := mem_N pc (lab_pcs st).    (* get(pc).is_some() *)
Definition lab_try_get (st : labels) (pc : N) : out unit := if lab_has st pc then Done tt else Fail.

(* ------------------------------------------------------------------------------------------ *)
(* CodeReadHelper: branch targets                                                               *)
(* opcode_pos.checked_add_signed(branch: i16) *)
Definition target16 (pos : N) : M N :=
  let* b := rd_i16 in
  let t := (Z.of_N pos + b)%Z in
  if (t <? 0)%Z || (65535 <? t)%Z then failM else ret (Z.to_N t).
(* (opcode_pos as u32).checked_add_signed(branch: i32), then u16::try_from *)
Definition target32 (pos : N) : M N :=
  let* b := rd_i32 in
  let t := (Z.of_N pos + b)%Z in
  if (t <? 0)%Z || (4294967295 <? t)%Z then failM
  else if (65535 <? t)%Z then failM else ret (Z.to_N t).

(* align_to_4_byte_boundary *)
Definition align4M : M unit :=
  let* m := markerM in
  let k := N.land m 3 in
  if k =? 0 then ret tt
  else if k =? 1 then let* _ := rd_u8 in let* _ := rd_u8 in let* _ := rd_u8 in ret tt
  else if k =? 2 then let* _ := rd_u8 in let* _ := rd_u8 in ret tt
  else if k =? 3 then let* _ := rd_u8 in ret tt
  else panicM.                                        (* unreachable!() *)

(* `high as i64 - low as i64 + 1` *)
Definition sw_count (low high : Z) : out N :=
  let! d := i64_op (high - low) in
  let! n := i64_op (d + 1) in Done (Z.to_N n).

(* `while !r.get_ref()[(r.position() as usize)..].is_empty() { let opcode_pos = r.position() as u16; .. }`
   over the cursor on the bytecode ([cl] = bytecode.len()): the slice panics when the position is past the
   end; every iteration must consume something, fuel = S (length code), out of fuel = Panic *)
Fixpoint code_loop {A} (fuel : nat) (cl : N) (body : N -> A -> M A) (a : A) : M A := fun c =>
  if cl <? rpos c then Panic
  else match rrest c with
       | [] => Done (a, c)
       | _ :: _ =>
           match fuel with
           | O => Panic
           | S f => bindM (body (to_u16 (rpos c)) a) (code_loop f cl body) c
           end
       end.
Definition run_code {A} (cl : N) (code : list N) (body : N -> A -> M A) (a : A) : out A :=
  match code_loop (S (length code)) cl body a (mkRd 0 code) with
  | Done (a', _) => Done a' | Fail => Fail | Panic => Panic
  end.

(* ------------------------------------------------------------------------------------------ *)
(* first pass: labels for every branch target                                                   *)
Definition p1_insn (cl : N) (pos : N) (st : labels) : M labels :=
  let* op := rd_u8 in
  let* st' :=
    match Opcodes.pass1_class op with
    | Opcodes.OFixed k => skipM k ;; ret st
    | Opcodes.OWide =>
        let* w := rd_u8 in
        match Opcodes.pass1_wide w with Some k => skipM k ;; ret st | None => failM end
    | Opcodes.OBr16 => let* t := target16 pos in lift (lab_create cl st t)
    | Opcodes.OBr32 => let* t := target32 pos in lift (lab_create cl st t)
    | Opcodes.OTSwitch =>
        align4M ;;
        let* t := target32 pos in let* st1 := lift (lab_create cl st t) in
        let* low := rd_i32 in let* high := rd_i32 in
        if (high <? low)%Z then failM else
        let* n := lift (sw_count low high) in
        iterN n (fun s => let* t := target32 pos in lift (lab_create cl s t)) st1
    | Opcodes.OLSwitch =>
        align4M ;;
        let* t := target32 pos in let* st1 := lift (lab_create cl st t) in
        let* n := rd_i32 in
        if (n <? 0)%Z then failM else
        iterN (Z.to_N n) (fun s => let* _key := rd_i32 in let* t := target32 pos in lift (lab_create cl s t)) st1
    | Opcodes.OBad => failM
    end in
  (* `if r.position() > bytecode.len() as u64 { bail!(..) }` *)
  fun c => if cl <? rpos c then Fail else Done (st', c).
Definition pass1 (cl : N) (code : list N) : out labels := run_code cl code (p1_insn cl) labels_empty.

(* ------------------------------------------------------------------------------------------ *)
(* second pass: the instructions                                                                *)
Definition cp_access (p : pool) (bsms : bsm_table) (kind idx : N) : out unit :=
  if kind =? 0 then get_loadable p bsms idx
  else if kind =? 1 then get_field_ref p idx
  else if kind =? 2 then get_method_ref p idx
  else if kind =? 3 then get_method_or_iface_ref p idx
  else if kind =? 4 then get_iface_ref p idx
  else if kind =? 5 then get_invoke_dynamic p bsms idx
  else if kind =? 6 then as_unit (get_class p) idx
  else Fail.

Definition p2_read (p : pool) (bsms : bsm_table) (st : labels) (pos : N) (r : Opcodes.rdk) : M unit :=
  match r with
  | Opcodes.RU8 | Opcodes.RSkip8 | Opcodes.RLv8 => let* _ := rd_u8 in ret tt
  | Opcodes.RI8 => let* _ := rd_i8 in ret tt
  | Opcodes.RI16 => let* _ := rd_i16 in ret tt
  | Opcodes.RLv16 => let* _ := rd_u16 in ret tt
  | Opcodes.RBr16 => let* t := target16 pos in lift (lab_try_get st t)
  | Opcodes.RBr32 => let* t := target32 pos in lift (lab_try_get st t)
  | Opcodes.RAtype => let* a := rd_u8 in if mem_N a Opcodes.atypes then ret tt else failM
  | Opcodes.RCp8 k => let* i := rd_u8 in lift (cp_access p bsms k i)
  | Opcodes.RCp16 k => let* i := rd_u16 in lift (cp_access p bsms k i)
  end.
Fixpoint p2_reads (p : pool) (bsms : bsm_table) (st : labels) (pos : N) (rs : list Opcodes.rdk) : M unit :=
  match rs with
  | [] => ret tt
  | r :: rest => p2_read p bsms st pos r ;; p2_reads p bsms st pos rest
  end.

(* the arms `opcode @ ILOAD_0..=ALOAD_3` ([load]) and `opcode @ ISTORE_0..=ASTORE_3`: u8 arithmetic and the
   inner match with its `_ => unreachable!()` *)
Definition p2_short (load : bool) (op : N) : out unit :=
  let! shifted := u8_sub op (if load then 26 else 59) in
  let _index := N.land shifted 3 in
  let! opc := u8_add (if load then 21 else 54) (N.shiftr shifted 2) in
  if in_range (if load then 21 else 54) (if load then 25 else 58) opc then Done tt else Panic.

(* an allocation made before the data is read: Panic unless bounded by what is left of the code *)
Definition alloc_checkM (bytes : N) : M unit := fun c =>
  if alloc_ok bytes (len_N (rrest c)) then Done (tt, c) else Panic.

Definition p2_entry (p : pool) (bsms : bsm_table) (cl : N) (st : labels) (pos op : N) (e : Opcodes.p2) : M unit :=
  match e with
  | Opcodes.P2 _ rs => p2_reads p bsms st pos rs
  | Opcodes.P2Short ctor _ => lift (p2_short (ctor <? 54) op)
  | Opcodes.P2Wide =>
      let* w := rd_u8 in
      match Opcodes.pass2_wide_entry w with
      | Opcodes.P2 _ rs => p2_reads p bsms st pos rs
      | _ => failM
      end
  | Opcodes.P2TSwitch =>
      align4M ;;
      let* t := target32 pos in lift (lab_try_get st t) ;;
      let* low := rd_i32 in let* high := rd_i32 in
      if (high <? low)%Z then failM else
      let* n := lift (sw_count low high) in
      (* Vec::with_capacity(n.min(bytecode.len() as i64 / 4) as usize) of Label (2 bytes each) *)
      alloc_checkM (2 * N.min n (cl / 4)) ;;
      iterN_ n (let* t := target32 pos in lift (lab_try_get st t))
  | Opcodes.P2LSwitch =>
      align4M ;;
      let* t := target32 pos in lift (lab_try_get st t) ;;
      let* n := rd_i32 in
      if (n <? 0)%Z then failM else
      (* Vec::with_capacity(n as usize) of (i32, Label) (8 bytes each) *)
      alloc_checkM (8 * Z.to_N n) ;;
      iterN_ (Z.to_N n) (let* _key := rd_i32 in let* t := target32 pos in lift (lab_try_get st t))
  | Opcodes.P2Bad => failM
  end.

(* after the instruction: the stack map frame that belongs to its label ([frames]: the offsets of the
   frames still to be handed out) *)
Definition take_frame (st : labels) (pos : N) (frames : option (list N)) : out (option (list N)) :=
  match frames with
  | None => Done None
  | Some fs =>
      if lab_has st pos then
        match fs with
        | f :: _ =>
            if f =? pos then
              match fs with _ :: r => Done (Some r) | [] => Panic end   (* `let Some(..) = pop_front() else { unreachable!() }` *)
            else Done frames
        | [] => Done frames
        end
      else Done frames
  end.

Definition p2_insn (p : pool) (bsms : bsm_table) (cl : N) (st : labels) (pos : N) (frames : option (list N)) : M (option (list N)) :=
  let* op := rd_u8 in
  p2_entry p bsms cl st pos op (Opcodes.pass2_entry op) ;;
  lift (take_frame st pos frames).
Definition pass2 (p : pool) (bsms : bsm_table) (cl : N) (code : list N) (st : labels) (frames : option (list N)) : out unit :=
  let! _ := run_code cl code (p2_insn p bsms cl st) frames in Done tt.

(* ------------------------------------------------------------------------------------------ *)
(* verification types and stack map frames                                                      *)
Definition read_vti (p : pool) (cl : N) (st : labels) : M labels :=
  let* tag := rd_u8 in
  if tag <=? 6 then ret st
  else if tag =? 7 then let* i := rd_u16 in let* _ := lift (get_class p i) in ret st
  else if tag =? 8 then let* pc := rd_u16 in lift (lab_create cl st pc)
  else failM.

(* read_stack_map_frame: (offset_delta, labels) *)
Definition read_stack_map_frame (p : pool) (cl : N) (st : labels) : M (N * labels) :=
  let* ft := rd_u8 in
  if ft <=? 63 then ret (ft, st)
  else if ft <=? 127 then
    let* d := lift (u8_sub ft 64) in let* st1 := read_vti p cl st in ret (d, st1)
  else if ft <=? 246 then failM
  else if ft =? 247 then let* d := rd_u16 in let* st1 := read_vti p cl st in ret (d, st1)
  else if ft <=? 250 then let* d := rd_u16 in let* _k := lift (u8_sub 251 ft) in ret (d, st)
  else if ft =? 251 then let* d := rd_u16 in ret (d, st)
  else if ft <=? 254 then
    let* d := rd_u16 in
    let* count := lift (u8_sub ft 251) in
    let* st1 := read_vec (ret count) (read_vti p cl) st in ret (d, st1)
  else
    let* d := rd_u16 in
    let* st1 := read_vec rd_u16 (read_vti p cl) st in
    let* st2 := read_vec rd_u16 (read_vti p cl) st1 in ret (d, st2).

(* ------------------------------------------------------------------------------------------ *)
(* type annotations inside Code                                                                 *)
Definition lv_target_table (cl : N) (st : labels) : M labels :=
  let* n := rd_u16 in
  iterN n (fun s => let* start := rd_u16 in let* len := rd_u16 in
                    let* s1 := lift (lab_range cl s start len) in let* _idx := rd_u16 in ret s1) st.
Definition read_target_info_code (cl : N) (st : labels) : M labels :=
  let* tag := rd_u8 in
  if (tag =? 64) || (tag =? 65) then lv_target_table cl st
  else if tag =? 66 then let* _ := rd_u16 in ret st
  else if in_range 67 70 tag then let* pc := rd_u16 in lift (lab_create cl st pc)
  else if in_range 71 75 tag then let* pc := rd_u16 in let* st1 := lift (lab_create cl st pc) in let* _ := rd_u8 in ret st1
  else failM.
Definition read_type_annotations_code (p : pool) (cl : N) (st : labels) : M labels :=
  let* n := rd_u16 in
  iterN n (fun s => let* s1 := read_target_info_code cl s in
                    read_type_path ;;
                    let* d := rd_u16 in let* _ := lift (get_utf8 p d) in
                    read_element_values_named p ;; ret s1) st.

(* ------------------------------------------------------------------------------------------ *)
(* read_code                                                                                    *)
Record cstate := mkCs { cs_labels : labels; cs_frames : option (list N) }.

Definition smt_step (p : pool) (cl : N) (x : bool * N * labels * list N) : M (bool * N * labels * list N) :=
  let '(first, offset, st, fr) := x in
  let* (delta, st1) := read_stack_map_frame p cl st in
  match u16_checked_add offset delta with
  | None => failM
  | Some o1 =>
      match u16_checked_add o1 (if first : bool then 0 else 1) with
      | None => failM
      | Some o2 => let* st2 := lift (lab_create cl st1 o2) in ret (false, o2, st2, o2 :: fr)
      end
  end.

Definition code_attr (v : vis) (p : pool) (cl : N) (cs : cstate) : M cstate :=
  let st := cs_labels cs in
  let* ni := rd_u16 in
  let* name := lift (get_utf8 p ni) in
  let* length := rd_u32 in
  let interested := v_interest v 3 name in
  if str_eqb name A_STACK_MAP_TABLE then
    if negb interested then skipM length ;; ret cs else
    let* n := rd_u16 in
    (if max_vec_count <? n then panicM else ret tt) ;;            (* VecDeque::with_capacity(number_of_entries) *)
    let* (_, _, st1, fr) := iterN n (smt_step p cl) (true, 0, st, []) in
    match cs_frames cs with                                        (* stack_map_frame.insert_if_empty(frames) *)
    | Some _ => failM
    | None => ret (mkCs st1 (Some (rev' fr)))
    end
  else if str_eqb name A_STACK_MAP then
    if negb interested then skipM length ;; ret cs else
    let* n := rd_u16 in
    (if max_vec_count <? n then panicM else ret tt) ;;            (* Vec::with_capacity(number_of_entries) *)
    let* (st1, fr) := iterN n (fun '(s, fr) =>
        let* offset := rd_u16 in
        let* s1 := read_vec rd_u16 (read_vti p cl) s in
        let* s2 := read_vec rd_u16 (read_vti p cl) s1 in
        let* s3 := lift (lab_create cl s2 offset) in ret (s3, offset :: fr)) (st, []) in
    match cs_frames cs with
    | Some _ => failM
    | None => ret (mkCs st1 (Some (rev' fr)))     (* sort_by_key(offset): the order plays no role for the outcome *)
    end
  else if str_eqb name A_LINE_NUMBER_TABLE then
    if negb interested then skipM length ;; ret cs else
    let* n := rd_u16 in
    let* st1 := iterN n (fun s => let* pc := rd_u16 in let* s1 := lift (lab_create cl s pc) in let* _line := rd_u16 in ret s1) st in
    ret (mkCs st1 (cs_frames cs))
  else if str_eqb name A_LOCAL_VARIABLE_TABLE || str_eqb name A_LOCAL_VARIABLE_TYPE_TABLE then
    if negb interested then skipM length ;; ret cs else
    let* n := rd_u16 in
    let* st1 := iterN n (fun s =>
        let* start := rd_u16 in let* len := rd_u16 in
        let* s1 := lift (lab_range cl s start len) in
        let* nm := rd_u16 in let* nms := lift (get_utf8 p nm) in let* _ := lift (checked is_valid_unqualified_name nms) in
        let* d := rd_u16 in let* _ := lift (get_utf8 p d) in       (* FieldDescriptor / FieldSignature: always valid *)
        let* _idx := rd_u16 in ret s1) st in
    ret (mkCs st1 (cs_frames cs))
  else if str_eqb name A_RV_TYPE_ANNOTATIONS || str_eqb name A_RI_TYPE_ANNOTATIONS then
    if negb interested then skipM length ;; ret cs else
    let* st1 := read_type_annotations_code p cl st in ret (mkCs st1 (cs_frames cs))
  else
    if negb interested then skipM length ;; ret cs else
    let* _ := rd_vec length in ret cs.

Definition read_code (v : vis) (p : pool) (bsms : bsm_table) : M unit :=
  let* _max_stack := rd_u16 in let* _max_locals := rd_u16 in
  let* code_length := rd_u32 in
  if (code_length =? 0) || (65535 <? code_length) then failM else
  let cl := to_u16 code_length in
  let* code := rd_vec cl in
  let* st0 := lift (pass1 cl code) in
  let* st1 := read_vec rd_u16 (fun s =>
      let* a := rd_u16 in let* s1 := lift (lab_create cl s a) in
      let* b := rd_u16 in let* s2 := lift (lab_create_excl cl s1 b) in
      let* h := rd_u16 in let* s3 := lift (lab_create cl s2 h) in
      rd_idx (optional (get_class p)) ;; ret s3) st0 in
  let* n := rd_u16 in
  let* cs := iterN n (code_attr v p cl) (mkCs st1 None) in
  lift (pass2 p bsms cl code (cs_labels cs) (cs_frames cs)).
