(* C16 theory, WHOLE class reader, part 2: attribute framing, element values (bounded recursion),
   annotations, type annotations (type paths, target infos), the Module attribute never panic. *)
From FB Require Import C16.ModelClsAttr C16.Theory C16.TheoryCls C18.Model.
From Coq Require Import Lia.

Arguments N.add : simpl never.
Arguments N.mul : simpl never.
Arguments N.sub : simpl never.
Arguments N.leb : simpl never.
Arguments N.ltb : simpl never.
Arguments N.eqb : simpl never.

Lemma once_np strict name seen : once strict name seen <> Panic.
Proof. unfold once. onp. Qed.
#[export] Hint Resolve once_np : npdb.

Lemma np_skip_attributes : np skip_attributes.
Proof. unfold skip_attributes. np_go. Qed.
#[export] Hint Resolve np_skip_attributes : npdb.

Lemma as_unit_np {A} (f : N -> out A) i : (forall j, f j <> Panic) -> as_unit f i <> Panic.
Proof. intros H. unfold as_unit. apply obind_np; [apply H|discriminate]. Qed.
Lemma np_rd_idx f : (forall i, f i <> Panic) -> np (rd_idx f).
Proof. intros H. unfold rd_idx. apply np_bind; [exact np_rd_u16|intros i]. apply np_lift. apply H. Qed.

Ltac idx_np :=
  match goal with
  | |- np (rd_idx _) => apply np_rd_idx; intros ?
  | |- as_unit _ _ <> Panic => apply as_unit_np; intros ?
  | |- optional _ _ <> Panic => apply optional_np; intros ?
  end.
Ltac np_go2 := repeat first [idx_np | np_step].

(* ------------------------------------------------------------------------------------------ *)
(* element values: with the limit 64 the three functions nest at most 2 * 65 + 1 frames           *)
Definition ev_need (f : evf) (nesting : N) : nat :=
  match f with
  | EvUnnamedS => 2 * (65 - N.to_nat nesting) + 1
  | _ => 2 * (65 - N.to_nat nesting)
  end.
Definition ev_ok (f : evf) (nesting : N) : Prop :=
  match f with EvUnnamed => nesting <= 64 | _ => nesting <= 65 end.

Lemma np_ev_value rec p tag nesting :
  nesting <= 64 ->
  np (rec EvNamed (nesting + 1)) -> np (rec EvUnnamedS (nesting + 1)) ->
  np (ev_value rec p tag nesting).
Proof.
  intros Hn H1 H2. unfold ev_value.
  assert (Hu : usize_add nesting 1 = Done (nesting + 1)) by (apply usize_add_small; unfold usize_max; lia).
  rewrite Hu.
  repeat match goal with
  | |- np (if ?b then _ else _) => destruct b
  end; np_go; try exact H1; try exact H2.
  all: match goal with |- np (rec _ ?a) => cbn [lift] in *; idtac end.
Abort.
