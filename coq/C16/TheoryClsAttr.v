(* C16 theory, WHOLE class reader, part 2: attribute framing, element values (bounded recursion),
   annotations, type annotations (type paths, target infos), the Module attribute never panic. *)
From FB Require Import C16.ModelClsAttr C16.Theory C16.TheoryCls C18.Model.
From Coq Require Import Lia.

Arguments N.add : simpl never.
Arguments N.mul : simpl never.
Arguments N.sub : simpl never.
Arguments N.leb : simpl never.
Arguments N.ltb : simpl never.
Arguments N.eqb : simpl never.

Lemma once_np strict name seen : once strict name seen <> Panic.
Proof. unfold once. onp. Qed.
#[export] Hint Resolve once_np : npdb.

Lemma np_skip_attributes : np skip_attributes.
Proof. unfold skip_attributes. np_go. Qed.
#[export] Hint Resolve np_skip_attributes : npdb.

Lemma as_unit_np {A} (f : N -> out A) i : (forall j, f j <> Panic) -> as_unit f i <> Panic.
Proof. intros H. unfold as_unit. apply obind_np; [apply H|discriminate]. Qed.
Lemma np_rd_idx f : (forall i, f i <> Panic) -> np (rd_idx f).
Proof. intros H. unfold rd_idx. apply np_bind; [exact np_rd_u16|intros i]. apply np_lift. apply H. Qed.

Ltac idx_np :=
  match goal with
  | |- np (rd_idx _) => apply np_rd_idx; intros ?
  | |- as_unit _ _ <> Panic => apply as_unit_np; intros ?
  | |- optional _ _ <> Panic => apply optional_np; intros ?
  end.
Ltac np_go2 := repeat first [idx_np | np_step].

(* ------------------------------------------------------------------------------------------ *)
(* element values: with the limit 64 the three functions nest at most 2 * 65 + 1 frames           *)
Definition ev_need (f : evf) (nesting : N) : nat :=
  match f with
  | EvUnnamed => 2 * (65 - N.to_nat nesting)
  | _ => 2 * (65 - N.to_nat nesting) + 1
  end.
Definition ev_ok (f : evf) (nesting : N) : Prop :=
  match f with EvUnnamed => nesting <= 64 | _ => nesting <= 65 end.

Lemma np_bind_lift_done {A B} (x : A) (f : A -> M B) : np (f x) -> np (bindM (lift (Done x)) f).
Proof. intros H c. unfold bindM, lift. apply H. Qed.

Lemma np_ev_value rec p tag nesting :
  nesting <= 64 ->
  np (rec EvNamed (nesting + 1)) -> np (rec EvUnnamedS (nesting + 1)) ->
  np (ev_value rec p tag nesting).
Proof.
  intros Hn H1 H2. unfold ev_value.
  assert (Hu : usize_add nesting 1 = Done (nesting + 1)) by (apply usize_add_small; unfold usize_max; lia).
  repeat first
    [ match goal with |- np (bindM (lift (usize_add _ _)) _) => rewrite Hu; apply np_bind_lift_done; first [exact H1|exact H2] end
    | np_step ].
Qed.

Lemma np_ev p : forall fuel f nesting, ev_ok f nesting -> (ev_need f nesting <= fuel)%nat -> np (ev fuel p f nesting).
Proof.
  induction fuel as [|fu IH]; intros f nesting Hok Hf.
  - exfalso. destruct f; cbn [ev_need ev_ok] in *; lia.
  - cbn [ev]. destruct f; cbn [ev_need ev_ok] in *.
    + unfold max_ev_nesting. destruct (N.ltb_spec 64 nesting) as [Hlt|Hge]; [apply np_fail|].
      apply np_bind; [exact np_rd_u16|intros n]. apply np_iterN_.
      apply np_bind; [exact np_rd_u16|intros nm]. apply np_bind; [apply np_lift; auto with npdb|intros _].
      apply np_bind; [exact np_rd_u8|intros tag].
      apply np_ev_value; [exact Hge| |]; apply IH; cbn [ev_need ev_ok]; lia.
    + unfold max_ev_nesting. destruct (N.ltb_spec 64 nesting) as [Hlt|Hge]; [apply np_fail|].
      apply np_bind; [exact np_rd_u16|intros n]. apply np_iterN_.
      apply IH; cbn [ev_need ev_ok]; lia.
    + apply np_bind; [exact np_rd_u8|intros tag].
      apply np_ev_value; [exact Hok| |]; apply IH; cbn [ev_need ev_ok]; lia.
Qed.
Lemma np_read_element_values_named p : np (read_element_values_named p).
Proof. apply np_ev; [cbn [ev_ok]; lia|apply Nat.leb_le; vm_compute; reflexivity]. Qed.
Lemma np_read_element_value_unnamed p : np (read_element_value_unnamed p).
Proof. apply np_ev; [cbn [ev_ok]; lia|apply Nat.leb_le; vm_compute; reflexivity]. Qed.
#[export] Hint Resolve np_read_element_values_named np_read_element_value_unnamed : npdb.

(* fuel is immaterial: the limit, not the stack, ends a deep nesting (a chain of 66 arrays is refused) *)

Lemma np_read_annotations p : np (read_annotations p).
Proof. unfold read_annotations. np_go2. Qed.
Lemma np_read_type_path : np read_type_path.
Proof.
  unfold read_type_path. apply np_bind; [exact np_rd_u8|intros n]. apply np_iterN_.
  apply np_bind; [exact np_rd_u8|intros kind]. apply np_bind; [exact np_rd_u8|intros idx].
  destruct (N.leb_spec kind 2) as [Hle|Hgt].
  - (* the inner match is exhaustive for 0, 1, 2 *)
    assert (H : (kind =? 0) || (kind =? 1) || (kind =? 2) = true).
    { destruct (N.eqb_spec kind 0); [reflexivity|]. destruct (N.eqb_spec kind 1); [reflexivity|].
      destruct (N.eqb_spec kind 2); [reflexivity|]. lia. }
    rewrite H. np_go.
  - np_go.
Qed.
Lemma np_read_target_info level : np (read_target_info level).
Proof. unfold read_target_info. np_go. Qed.
#[export] Hint Resolve np_read_annotations np_read_type_path np_read_target_info : npdb.
Lemma np_read_type_annotations level p : np (read_type_annotations level p).
Proof. unfold read_type_annotations. np_go2. Qed.
Lemma np_read_module p : np (read_module p).
Proof. unfold read_module. np_go2. Qed.
#[export] Hint Resolve np_read_type_annotations np_read_module : npdb.
