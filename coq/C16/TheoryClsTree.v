(* C16 theory, WHOLE class reader, part 8: the instrumented reader of ModelClsTree.v
   (a) erases to the validated model of ModelClsRead.v (same outcome class, for every visitor and byte string),
   (b) returns only trees whose numbers fit the fields the writer stores them in (rtree_ok): the first
       conjuncts of C02's cclass_ok / cfield_ok / cmethod_ok / ccode_ok, and the u16 counts. *)
From FB Require Import C16.ModelClsTree C16.Theory C16.TheoryCls C16.TheoryClsRead C16.TheoryClsWit C18.Model.
From Coq Require Import Lia.

Arguments N.add : simpl never.
Arguments N.mul : simpl never.
Arguments N.sub : simpl never.
Arguments N.leb : simpl never.
Arguments N.ltb : simpl never.
Arguments N.eqb : simpl never.
Arguments N.modulo : simpl never.

(* ------------------------------------------------------------------------------------------ *)
(* simulation: two computations move the cursor alike, end alike, and their results are related *)
Definition simR {A B} (R : A -> B -> Prop) (m1 : M A) (m2 : M B) : Prop :=
  forall c, match m1 c, m2 c with
            | Done (a, c1), Done (b, c2) => c1 = c2 /\ R a b
            | Fail, Fail => True
            | Panic, Panic => True
            | _, _ => False
            end.
Definition anyR {A B} : A -> B -> Prop := fun _ _ => True.

Lemma simR_same {A} (m : M A) : simR eq m m.
Proof. intros c. destruct (m c) as [[a c']| |]; auto. Qed.
Lemma simR_weaken {A B} (R Q : A -> B -> Prop) m1 m2 : (forall a b, R a b -> Q a b) -> simR R m1 m2 -> simR Q m1 m2.
Proof.
  intros H S c. specialize (S c). destruct (m1 c) as [[a c1]| |], (m2 c) as [[b c2]| |]; auto.
  destruct S as [E r]. split; [exact E|apply H, r].
Qed.
Lemma simR_ret {A B} (R : A -> B -> Prop) a b : R a b -> simR R (ret a) (ret b).
Proof. intros H c. cbn. split; [reflexivity|exact H]. Qed.
Lemma simR_fail {A B} (R : A -> B -> Prop) : simR R failM failM.
Proof. intros c. exact I. Qed.
Lemma simR_bind {A B A' B'} (Q : A -> B -> Prop) (R : A' -> B' -> Prop) m1 m2 f g :
  simR Q m1 m2 -> (forall a b, Q a b -> simR R (f a) (g b)) -> simR R (bindM m1 f) (bindM m2 g).
Proof.
  intros S F c. unfold bindM. specialize (S c). destruct (m1 c) as [[a c1]| |], (m2 c) as [[b c2]| |]; try contradiction; auto.
  destruct S as [<- r]. exact (F a b r c1).
Qed.
Lemma simR_bind_same {A A' B'} (R : A' -> B' -> Prop) (m : M A) f g :
  (forall a, simR R (f a) (g a)) -> simR R (bindM m f) (bindM m g).
Proof. intros F. apply (simR_bind eq); [apply simR_same|]. intros a b <-. apply F. Qed.
(* the instrumented side keeps a value the other side drops *)
Lemma simR_bind_ret_l {A B C} (R : C -> B -> Prop) (Q : A -> B -> Prop) m1 m2 (f : A -> C) :
  simR Q m1 m2 -> (forall a b, Q a b -> R (f a) b) -> simR R (let* x := m1 in ret (f x)) m2.
Proof.
  intros S F c. unfold bindM. specialize (S c). destruct (m1 c) as [[a c1]| |], (m2 c) as [[b c2]| |]; try contradiction; auto.
  destruct S as [<- r]. cbn. split; [reflexivity|apply F, r].
Qed.
Lemma simR_iterP {A B} (R : A -> B -> Prop) body1 body2 :
  (forall a b, R a b -> simR R (body1 a) (body2 b)) -> forall p a b, R a b -> simR R (iterP p body1 a) (iterP p body2 b).
Proof.
  intros Hb. induction p as [q IH|q IH|]; intros a b r; cbn [iterP].
  - apply (simR_bind R); [apply Hb, r|]. intros a0 b0 r0. apply (simR_bind R); [apply IH, r0|]. intros a1 b1 r1. apply IH, r1.
  - apply (simR_bind R); [apply IH, r|]. intros a1 b1 r1. apply IH, r1.
  - apply Hb, r.
Qed.
Lemma simR_iterN {A B} (R : A -> B -> Prop) n body1 body2 a b :
  (forall a b, R a b -> simR R (body1 a) (body2 b)) -> R a b -> simR R (iterN n body1 a) (iterN n body2 b).
Proof. intros Hb r. destruct n as [|p]; cbn [iterN]; [apply simR_ret, r|apply simR_iterP; assumption]. Qed.
Lemma simR_read_vec {A B} (R : A -> B -> Prop) size e1 e2 a b :
  (forall a b, R a b -> simR R (e1 a) (e2 b)) -> R a b -> simR R (read_vec size e1 a) (read_vec size e2 b).
Proof.
  intros He r. unfold read_vec. apply simR_bind_same. intros n.
  destruct (max_vec_count <? n); [intros c; exact I|]. apply simR_iterN; assumption.
Qed.
Lemma simR_with_pos {A B} (R : A -> B -> Prop) data p f g : simR R f g -> simR R (with_pos data p f) (with_pos data p g).
Proof.
  intros S. unfold with_pos. apply simR_bind_same. intros mk. apply simR_bind_same. intros _.
  apply (simR_bind R); [exact S|]. intros a b r. apply simR_bind_same. intros _. apply simR_ret, r.
Qed.

(* ------------------------------------------------------------------------------------------ *)
(* (a) erasure                                                                                  *)
Definition fstR {C} {S} : (S * C) -> S -> Prop := fun s1 s2 => fst s1 = s2.
Lemma sim_keep {S C} (x : C) (m : M S) : simR fstR (let* s' := m in ret (s', x)) m.
Proof. apply (simR_bind_ret_l _ eq); [apply simR_same|]. intros a b <-. reflexivity. Qed.

Lemma sim_once_arm {X} v level name length seen (parse : M X) (parse' : M unit) :
  simR anyR parse parse' -> simR fstR (once_arm_T v level name length seen parse) (once_arm v level name length seen parse').
Proof.
  intros S. unfold once_arm_T, once_arm. destruct (negb (v_interest v level name)).
  - apply simR_bind_same. intros _. apply simR_ret. reflexivity.
  - apply (simR_bind anyR); [exact S|]. intros x u _. apply (simR_bind_ret_l _ eq); [apply simR_same|]. intros a b <-. reflexivity.
Qed.

Lemma sim_code_attr v p cl s1 s2 : fstR s1 s2 -> simR fstR (code_attr_T v p cl s1) (code_attr v p cl s2).
Proof.
  intros <-. unfold code_attr_T, code_attr.
  apply simR_bind_same. intros ni. apply simR_bind_same. intros name. apply simR_bind_same. intros length.
  destruct (str_eqb name A_STACK_MAP_TABLE); [apply sim_keep|].
  destruct (str_eqb name A_STACK_MAP); [apply sim_keep|].
  destruct (str_eqb name A_LINE_NUMBER_TABLE).
  { destruct (negb (v_interest v 3 name)); [apply sim_keep|]. apply simR_bind_same. intros n.
    apply (simR_bind fstR).
    - apply simR_iterN; [|reflexivity]. intros x s <-. apply simR_bind_same. intros pc. apply simR_bind_same. intros sa.
      apply simR_bind_same. intros line. apply simR_ret. reflexivity.
    - intros r st1 <-. apply simR_ret. reflexivity. }
  destruct (str_eqb name A_LOCAL_VARIABLE_TABLE || str_eqb name A_LOCAL_VARIABLE_TYPE_TABLE).
  { destruct (negb (v_interest v 3 name)); [apply sim_keep|]. apply simR_bind_same. intros n.
    apply (simR_bind fstR).
    - apply simR_iterN; [|reflexivity]. intros x s <-. do 9 (apply simR_bind_same; intros ?). apply simR_ret. reflexivity.
    - intros r st1 <-. apply simR_ret. reflexivity. }
  destruct (str_eqb name A_RV_TYPE_ANNOTATIONS || str_eqb name A_RI_TYPE_ANNOTATIONS); [apply sim_keep|].
  apply sim_keep.
Qed.

Lemma sim_read_code v p bsms : simR anyR (read_code_T v p bsms) (read_code v p bsms).
Proof.
  unfold read_code_T, read_code.
  apply simR_bind_same. intros ms. apply simR_bind_same. intros ml. apply simR_bind_same. intros cl.
  destruct ((cl =? 0) || (65535 <? cl)); [apply simR_fail|].
  apply simR_bind_same. intros code. apply simR_bind_same. intros st0.
  apply (simR_bind fstR).
  { apply simR_read_vec; [|reflexivity]. intros x s <-. do 7 (apply simR_bind_same; intros ?). apply simR_ret. reflexivity. }
  intros x1 st1 <-. apply simR_bind_same. intros n.
  apply (simR_bind fstR); [apply simR_iterN; [intros a b r; apply sim_code_attr, r|reflexivity]|].
  intros y cs <-.
  intros c. unfold bindM, lift, ret. destruct (pass2 p bsms (to_u16 cl) code (cs_labels (fst y)) (cs_frames (fst y))) as [[]| |]; cbn; auto.
  split; [reflexivity|exact I].
Qed.

Lemma sim_collect {X} (m : M unit) (f : list X -> M (list X)) :
  (forall acc, simR anyR (f acc) m) -> forall size, simR anyR (read_vec size f []) (read_vec_ size m).
Proof. intros H size. unfold read_vec_. apply simR_read_vec; [|exact I]. intros a b _. apply H. Qed.

Lemma sim_method_attr v p bsms s1 s2 : fstR s1 s2 -> simR fstR (method_attr_T v p bsms s1) (method_attr v p bsms s2).
Proof.
  intros <-. unfold method_attr_T, method_attr.
  apply simR_bind_same. intros ni. apply simR_bind_same. intros name. apply simR_bind_same. intros length.
  destruct (str_eqb name A_DEPRECATED || str_eqb name A_SYNTHETIC); [apply sim_keep|].
  destruct (str_eqb name A_CODE).
  { destruct (negb (v_interest v 2 name)); [apply sim_keep|]. destruct (v_code_declined v); [apply sim_keep|].
    apply (simR_bind anyR); [apply sim_read_code|]. intros mx u _.
    apply (simR_bind_ret_l _ eq); [apply simR_same|]. intros a b <-. reflexivity. }
  destruct (str_eqb name A_EXCEPTIONS).
  { apply (simR_bind_ret_l _ fstR); [|intros a b r; exact r]. apply sim_once_arm, sim_collect. intros acc.
    unfold rd_idx. apply simR_bind_same. intros i. apply (simR_bind_ret_l _ eq); [apply simR_same|]. intros; exact I. }
  destruct (str_eqb name A_SIGNATURE); [apply sim_keep|].
  destruct (str_eqb name A_RV_PARAMETER_ANNOTATIONS || str_eqb name A_RI_PARAMETER_ANNOTATIONS); [apply sim_keep|].
  destruct (str_eqb name A_ANNOTATION_DEFAULT); [apply sim_keep|].
  destruct (str_eqb name A_METHOD_PARAMETERS).
  { apply (simR_bind_ret_l _ fstR); [|intros a b r; exact r]. apply sim_once_arm, sim_collect. intros acc.
    apply simR_bind_same. intros i. apply simR_bind_same. intros _. apply simR_bind_same. intros fl. apply simR_ret. exact I. }
  apply sim_keep.
Qed.

Lemma sim_read_module p : simR anyR (read_module_T p) (read_module p).
Proof.
  unfold read_module_T, read_module.
  apply simR_bind_same. intros _. apply simR_bind_same. intros flags. apply simR_bind_same. intros _.
  apply (simR_bind anyR).
  { apply sim_collect. intros acc. apply simR_bind_same. intros _. apply simR_bind_same. intros f.
    apply (simR_bind_ret_l _ eq); [apply simR_same|]. intros; exact I. }
  intros rq u _. apply (simR_bind anyR).
  { apply sim_collect. intros acc. apply simR_bind_same. intros _. apply simR_bind_same. intros f.
    apply (simR_bind_ret_l _ eq); [apply simR_same|]. intros; exact I. }
  intros ex u1 _. apply (simR_bind anyR).
  { apply sim_collect. intros acc. apply simR_bind_same. intros _. apply simR_bind_same. intros f.
    apply (simR_bind_ret_l _ eq); [apply simR_same|]. intros; exact I. }
  intros op u2 _. apply simR_bind_same. intros _.
  apply (simR_bind_ret_l _ eq); [apply simR_same|]. intros; exact I.
Qed.

Lemma sim_class_attr v p x1 s2 : fstR x1 s2 -> simR fstR (class_attr_T v p x1) (class_attr v p s2).
Proof.
  intros <-. unfold class_attr_T, class_attr.
  apply simR_bind_same. intros ni. apply simR_bind_same. intros name. apply simR_bind_same. intros length.
  destruct (str_eqb name A_DEPRECATED || str_eqb name A_SYNTHETIC); [apply sim_keep|].
  destruct (str_eqb name A_INNER_CLASSES).
  { apply (simR_bind fstR).
    - apply sim_once_arm, sim_collect. intros acc. do 3 (apply simR_bind_same; intros ?). apply simR_bind_same. intros fl. apply simR_ret. exact I.
    - intros r seen' <-. apply simR_ret. reflexivity. }
  destruct (str_eqb name A_ENCLOSING_METHOD); [apply sim_keep|].
  destruct (str_eqb name A_SIGNATURE || str_eqb name A_SOURCE_FILE); [apply sim_keep|].
  destruct (str_eqb name A_SOURCE_DEBUG_EXTENSION); [apply sim_keep|].
  destruct (str_eqb name A_MODULE).
  { apply (simR_bind fstR).
    - apply sim_once_arm, sim_read_module.
    - intros r seen' <-. apply simR_ret. reflexivity. }
  destruct (str_eqb name A_MODULE_PACKAGES); [apply sim_keep|].
  destruct (str_eqb name A_MODULE_MAIN_CLASS || str_eqb name A_NEST_HOST); [apply sim_keep|].
  destruct (str_eqb name A_NEST_MEMBERS || str_eqb name A_PERMITTED_SUBCLASSES); [apply sim_keep|].
  destruct (str_eqb name A_RECORD); [apply sim_keep|].
  destruct (str_eqb name A_BOOTSTRAP_METHODS); [apply sim_keep|].
  apply sim_keep.
Qed.

Lemma sim_read_method v p bsms : simR anyR (read_method_T v p bsms) (read_method v p bsms).
Proof.
  unfold read_method_T, read_method.
  apply simR_bind_same. intros access. apply simR_bind_same. intros n. apply simR_bind_same. intros name.
  apply simR_bind_same. intros _. apply simR_bind_same. intros _.
  destruct (v_method_break v).
  - apply (simR_bind_ret_l _ eq); [apply simR_same|]. intros; exact I.
  - apply simR_bind_same. intros k.
    apply (simR_bind fstR); [apply simR_iterN; [intros a b r; apply sim_method_attr, r|reflexivity]|].
    intros a b _. apply simR_ret. exact I.
Qed.

Lemma sim_read_field v p : simR anyR (read_field_T v p) (read_field v p).
Proof.
  unfold read_field_T, read_field.
  apply simR_bind_same. intros access. apply simR_bind_same. intros n. apply simR_bind_same. intros name.
  apply simR_bind_same. intros _. apply simR_bind_same. intros _.
  apply (simR_bind_ret_l _ eq); [apply simR_same|]. intros; exact I.
Qed.

Lemma sim_read_header : simR (fun ph p => fst ph = p) read_header_T read_header.
Proof.
  unfold read_header_T, read_header.
  apply simR_bind_same. intros magic. destruct (negb (magic =? class_magic)); [apply simR_fail|].
  apply simR_bind_same. intros minor. apply simR_bind_same. intros major.
  destruct (version_too_new major minor); [apply simR_fail|].
  apply simR_bind_same. intros p. apply simR_bind_same. intros access. apply simR_bind_same. intros _. apply simR_bind_same. intros _.
  apply (simR_bind anyR).
  - unfold read_vec_. apply simR_read_vec; [|exact I]. intros a b _. unfold rd_idx. apply simR_bind_same. intros i.
    apply (simR_bind_ret_l _ eq); [apply simR_same|]. intros; exact I.
  - intros ifs u _. apply simR_ret. reflexivity.
Qed.

Lemma sim_skip_or {A} (acc : A) (m : M unit) : simR anyR (m ;; ret acc) m.
Proof. apply (simR_bind_ret_l anyR eq m m (fun _ => acc)); [apply simR_same|]. intros; exact I. Qed.

Lemma sim_read_members v p bsms : simR anyR (read_members_T v p bsms) (read_members v p bsms).
Proof.
  unfold read_members_T, read_members, iterN_.
  apply simR_bind_same. intros nf.
  apply (simR_bind anyR).
  { apply simR_iterN; [|exact I]. intros a b _. destruct (v_fields v).
    - apply (simR_bind_ret_l _ anyR); [apply sim_read_field|]. intros; exact I.
    - apply (simR_bind_same anyR). intros _. apply sim_skip_or. }
  intros fs u _. apply simR_bind_same. intros nm.
  apply (simR_bind_ret_l _ anyR); [|intros; exact I].
  apply simR_iterN; [|exact I]. intros a b _. destruct (v_methods v).
  - apply (simR_bind_ret_l _ anyR); [apply sim_read_method|]. intros; exact I.
  - apply (simR_bind_same anyR). intros _. apply sim_skip_or.
Qed.

Lemma sim_read_class v data : simR anyR (read_class_T v data) (read_class_M v data).
Proof.
  unfold read_class_T, read_class_M.
  apply (simR_bind (fun ph p => fst ph = p)); [apply sim_read_header|].
  intros [p [[[minor major] access] ifs]] p' E. cbn [fst] in E. subst p'.
  apply simR_bind_same. intros fs. apply simR_bind_same. intros _. apply simR_bind_same. intros _.
  destruct (v_class_break v); [apply sim_skip_or|].
  apply simR_bind_same. intros n.
  apply (simR_bind fstR); [apply simR_iterN; [intros a b r; apply sim_class_attr, r|reflexivity]|].
  intros x s <-.
  apply (simR_bind_ret_l _ anyR); [|intros; exact I].
  apply simR_with_pos, sim_read_members.
Qed.

Definition erase {A} (o : out A) : out unit := match o with Done _ => Done tt | Fail => Fail | Panic => Panic end.
Theorem read_class_tree_erases v bytes : erase (read_class_tree_with v bytes) = read_class_with v bytes.
Proof.
  unfold read_class_tree_with, read_class_with, run_M. pose proof (sim_read_class v bytes (mkRd 0 bytes)) as S.
  destruct (read_class_T v bytes (mkRd 0 bytes)) as [[t c1]| |], (read_class_M v bytes (mkRd 0 bytes)) as [[u c2]| |];
    try contradiction; reflexivity.
Qed.
Corollary read_class_tree_no_panic v bytes : read_class_tree_with v bytes <> Panic.
Proof.
  intros H. apply (read_class_with_no_panic v bytes). rewrite <- read_class_tree_erases, H. reflexivity.
Qed.
(* duke::read_class accepts exactly when the instrumented reader returns a tree *)
Corollary read_class_tree_accepts_iff bytes : (exists t, read_class_tree bytes = Done t) <-> read_class_out bytes = Done tt.
Proof.
  unfold read_class_tree, read_class_out. rewrite <- read_class_tree_erases. split.
  - intros [t ->]. reflexivity.
  - destruct (read_class_tree_with tree_vis bytes) as [t| |]; [eexists; reflexivity|discriminate|discriminate].
Qed.

(* ------------------------------------------------------------------------------------------ *)
(* (b) what an accepted run guarantees                                                          *)
Lemma post_bind {A B} (m : M A) (f : A -> M B) (P : A -> Prop) (Q : B -> Prop) :
  post m P -> (forall a, P a -> post (f a) Q) -> post (bindM m f) Q.
Proof.
  intros Hm Hf c b c'. unfold bindM. destruct (m c) as [[a c1]| |] eqn:E; [|discriminate|discriminate].
  intros H. exact (Hf a (Hm c a c1 E) c1 b c' H).
Qed.
Lemma post_any {A} (m : M A) : post m (fun _ => True).
Proof. intros c a c' _. exact I. Qed.
Lemma post_bind_ {A B} (m : M A) (f : A -> M B) (Q : B -> Prop) : (forall a, post (f a) Q) -> post (bindM m f) Q.
Proof. intros Hf. apply (post_bind m f (fun _ => True)); [apply post_any|]. intros a _. apply Hf. Qed.
Lemma post_fail {A} (Q : A -> Prop) : post failM Q.
Proof. intros c a c'. discriminate. Qed.
Lemma post_panic {A} (Q : A -> Prop) : post panicM Q.
Proof. intros c a c'. discriminate. Qed.
Lemma post_weaken {A} (m : M A) (P Q : A -> Prop) : (forall a, P a -> Q a) -> post m P -> post m Q.
Proof. intros H Hm c a c' E. apply H. exact (Hm c a c' E). Qed.

(* a loop whose body adds at most one to a measure and keeps an invariant *)
Lemma post_iterP {A} (body : A -> M A) (I : A -> Prop) (len : A -> N) :
  (forall a, I a -> post (body a) (fun r => I r /\ len r <= len a + 1)) ->
  forall p a, I a -> post (iterP p body a) (fun r => I r /\ len r <= len a + Npos p).
Proof.
  intros Hb. induction p as [q IH|q IH|]; intros a Ha; cbn [iterP].
  - eapply post_bind; [apply Hb, Ha|]. intros a0 [I0 L0]. eapply post_bind; [apply IH, I0|]. intros a1 [I1 L1].
    eapply post_weaken; [|apply IH, I1]. intros r [Ir Lr]. split; [exact Ir|]. lia.
  - eapply post_bind; [apply IH, Ha|]. intros a1 [I1 L1].
    eapply post_weaken; [|apply IH, I1]. intros r [Ir Lr]. split; [exact Ir|]. lia.
  - apply Hb, Ha.
Qed.
Lemma post_iterN {A} (body : A -> M A) (I : A -> Prop) (len : A -> N) n a :
  (forall a, I a -> post (body a) (fun r => I r /\ len r <= len a + 1)) -> I a ->
  post (iterN n body a) (fun r => I r /\ len r <= len a + n).
Proof.
  intros Hb Ha. destruct n as [|p]; cbn [iterN]; [|apply post_iterP; assumption].
  apply post_ret. split; [exact Ha|lia].
Qed.

Definition lenN {A} (l : list A) : N := N.of_nat (length l).
Lemma lenN_cons {A} (x : A) l : lenN (x :: l) = lenN l + 1.
Proof. unfold lenN. cbn [length]. lia. Qed.
Lemma rev'_length {A} (l : list A) : length (rev' l) = length l.
Proof. unfold rev'. rewrite <- rev_alt. apply rev_length. Qed.
Lemma forallb_rev' {A} (f : A -> bool) l : forallb f l = true -> forallb f (rev' l) = true.
Proof.
  intros H. apply forallb_forall. intros x Hx. unfold rev' in Hx. rewrite <- rev_alt in Hx. apply in_rev in Hx.
  rewrite forallb_forall in H. apply H, Hx.
Qed.
Lemma u16ok_le x : x <= 65535 -> u16ok x = true.
Proof. intros H. unfold u16ok. apply N.leb_le, H. Qed.

(* a loop that conses one checked element per round: at most n elements, all checked *)
Lemma post_collect {A} (ok : A -> bool) (n : N) (body : list A -> M (list A)) :
  (forall acc, post (body acc) (fun r => r = acc \/ exists x, ok x = true /\ r = x :: acc)) ->
  post (iterN n body []) (fun r => lenN r <= n /\ forallb ok r = true).
Proof.
  intros Hb. eapply post_weaken; [|apply (post_iterN body (fun r => forallb ok r = true) lenN n [])].
  - intros r [Ir Lr]. split; [|exact Ir]. unfold lenN in Lr at 2. cbn [length] in Lr. lia.
  - intros acc Hacc. eapply post_weaken; [|apply Hb]. intros r [->|[x [Hx ->]]].
    + split; [exact Hacc|lia].
    + split; [cbn [forallb]; rewrite Hx; exact Hacc|rewrite lenN_cons; lia].
  - reflexivity.
Qed.

Lemma forallb_rev'_ok {A} (f : A -> bool) l : forallb f l = true -> forallb f (rev' l) = true.
Proof. apply forallb_rev'. Qed.
Lemma count_ok_rev' {A} (l : list A) n : lenN l <= n -> n <= 65535 -> count_ok (rev' l) = true.
Proof. intros H1 H2. unfold count_ok. rewrite rev'_length. fold (lenN l). apply N.leb_le. lia. Qed.
Lemma count8_ok_rev' {A} (l : list A) n : lenN l <= n -> n <= 255 -> count8_ok (rev' l) = true.
Proof. intros H1 H2. unfold count8_ok. rewrite rev'_length. fold (lenN l). apply N.leb_le. lia. Qed.

(* a loop over a pair (state, list) that conses one checked element per round *)
Lemma post_collect2 {S A} (ok : A -> bool) (n : N) (body : S * list A -> M (S * list A)) x0 :
  (forall x, post (body x) (fun r => exists a, ok a = true /\ snd r = a :: snd x)) ->
  forallb ok (snd x0) = true ->
  post (iterN n body x0) (fun r => lenN (snd r) <= lenN (snd x0) + n /\ forallb ok (snd r) = true).
Proof.
  intros Hb H0. eapply post_weaken; [|apply (post_iterN body (fun r => forallb ok (snd r) = true) (fun r => lenN (snd r)) n x0)].
  - intros r [Ir Lr]. split; assumption.
  - intros x Hx. eapply post_weaken; [|apply Hb]. intros r [a [Ha E]]. rewrite E. split.
    + cbn [forallb]. rewrite Ha. exact Hx.
    + rewrite lenN_cons. lia.
  - exact H0.
Qed.

(* read_vec with an u16 / u8 count that conses one checked element per round *)
Lemma post_read_vec_collect {A} (ok : A -> bool) (size : M N) (bound : N) (body : list A -> M (list A)) :
  post size (fun n => n <= bound) ->
  (forall acc, post (body acc) (fun r => exists x, ok x = true /\ r = x :: acc)) ->
  post (read_vec size body []) (fun r => lenN r <= bound /\ forallb ok r = true).
Proof.
  intros Hs Hb. unfold read_vec. eapply post_bind; [exact Hs|]. intros n Hn.
  destruct (max_vec_count <? n); [apply post_panic|].
  eapply post_weaken; [|apply (post_collect ok n)].
  - intros r [L F]. exact (conj (N.le_trans _ _ _ L Hn) F).
  - intros acc. eapply post_weaken; [|apply Hb]. intros r H. right. exact H.
Qed.

Definition cx_okP (s : cstate * (list N * list N)) : Prop :=
  forallb u16ok (fst (snd s)) = true /\ forallb u16ok (snd (snd s)) = true.
Lemma post_keep_cx (s : cstate * (list N * list N)) (m : M cstate) :
  cx_okP s -> post (let* cs' := m in ret (cs', snd s)) cx_okP.
Proof. intros H. apply post_bind_. intros cs'. apply post_ret. exact H. Qed.
Lemma post_code_attr v p cl s : cx_okP s -> post (code_attr_T v p cl s) cx_okP.
Proof.
  intros Hs. pose proof Hs as [Hl Hv]. unfold code_attr_T.
  apply post_bind_. intros ni. apply post_bind_. intros name. apply post_bind_. intros length.
  destruct (str_eqb name A_STACK_MAP_TABLE); [apply post_keep_cx, Hs|].
  destruct (str_eqb name A_STACK_MAP); [apply post_keep_cx, Hs|].
  destruct (str_eqb name A_LINE_NUMBER_TABLE).
  { destruct (negb (v_interest v 3 name)); [apply post_keep_cx, Hs|]. apply post_bind_. intros n.
    eapply post_bind.
    - apply (post_collect2 u16ok n); [|exact Hl]. intros x. apply post_bind_. intros pc. apply post_bind_. intros s1.
      eapply post_bind; [apply post_rd_u16|]. intros line Hline. apply post_ret. exists line. split; [apply u16ok_le, Hline|reflexivity].
    - intros r [_ Hr]. apply post_ret. split; [exact Hr|exact Hv]. }
  destruct (str_eqb name A_LOCAL_VARIABLE_TABLE || str_eqb name A_LOCAL_VARIABLE_TYPE_TABLE).
  { destruct (negb (v_interest v 3 name)); [apply post_keep_cx, Hs|]. apply post_bind_. intros n.
    eapply post_bind.
    - apply (post_collect2 u16ok n); [|exact Hv]. intros x. do 8 (apply post_bind_; intros ?).
      eapply post_bind; [apply post_rd_u16|]. intros idx Hidx. apply post_ret. exists idx. split; [apply u16ok_le, Hidx|reflexivity].
    - intros r [_ Hr]. apply post_ret. split; [exact Hl|exact Hr]. }
  destruct (str_eqb name A_RV_TYPE_ANNOTATIONS || str_eqb name A_RI_TYPE_ANNOTATIONS); [apply post_keep_cx, Hs|].
  apply post_keep_cx, Hs.
Qed.

Lemma post_read_code v p bsms : post (read_code_T v p bsms) (fun c => rcode_ok c = true).
Proof.
  unfold read_code_T.
  eapply post_bind; [apply post_rd_u16|]. intros ms Hms. eapply post_bind; [apply post_rd_u16|]. intros ml Hml.
  apply post_bind_. intros cl. destruct ((cl =? 0) || (65535 <? cl)); [apply post_fail|].
  apply post_bind_. intros code. apply post_bind_. intros st0.
  eapply post_bind.
  { unfold read_vec. eapply post_bind; [apply post_rd_u16|]. intros n Hn.
    destruct (max_vec_count <? n); [apply post_panic|].
    eapply post_weaken; [|apply (post_collect2 u16ok n)].
    - intros r [L F]. cbn [snd] in L. exact (conj (N.le_trans _ _ _ L Hn) F).
    - intros x. do 4 (apply post_bind_; intros ?). eapply post_bind; [apply post_rd_u16|]. intros h Hh.
      apply post_bind_. intros s3. apply post_bind_. intros _. apply post_ret. exists h. split; [apply u16ok_le, Hh|reflexivity].
    - reflexivity. }
  intros x1 [L1 F1]. apply post_bind_. intros n.
  eapply post_bind.
  { apply (post_iterN _ cx_okP (fun _ => 0)); [|split; reflexivity]. intros s Hs.
    eapply post_weaken; [|apply post_code_attr, Hs]. intros r Hr. split; [exact Hr|lia]. }
  intros y [[Hl Hv] _]. apply post_bind_. intros _. apply post_ret.
  unfold rcode_ok. cbn [rc_max_stack rc_max_locals rc_handlers rc_lines rc_lvidx].
  rewrite !u16ok_le by assumption. rewrite (count_ok_rev' (snd x1) 65535) by (cbn in L1; lia).
  rewrite !forallb_rev' by assumption. reflexivity.
Qed.

Definition ma_okP (s : list str * rmattrs) : Prop := rmattrs_ok (snd s) = true.
Lemma post_keep (s : list str * rmattrs) (m : M (list str)) :
  ma_okP s -> post (let* seen' := m in ret (seen', snd s)) ma_okP.
Proof. intros H. apply post_bind_. intros seen'. apply post_ret. exact H. Qed.
Lemma post_once_arm {X} v level name length seen (parse : M X) (Q : X -> Prop) :
  post parse Q -> post (once_arm_T v level name length seen parse) (fun r => match snd r with Some x => Q x | None => True end).
Proof.
  intros H. unfold once_arm_T. destruct (negb (v_interest v level name)).
  - apply post_bind_. intros _. apply post_ret. exact I.
  - eapply post_bind; [exact H|]. intros x Hx. apply post_bind_. intros seen'. apply post_ret. exact Hx.
Qed.
Lemma opt_ok_or_old {X} (f : X -> bool) new old : opt_ok f new = true -> opt_ok f old = true -> opt_ok f (or_old new old) = true.
Proof. destruct new; cbn [or_old opt_ok]; auto. Qed.

Lemma post_method_attr v p bsms s : ma_okP s -> post (method_attr_T v p bsms s) ma_okP.
Proof.
  intros Hs. pose proof Hs as Hs0. unfold ma_okP, rmattrs_ok in Hs0.
  apply andb_true_iff in Hs0 as [Hs0 Hpa]. apply andb_true_iff in Hs0 as [Hco Hex].
  unfold method_attr_T.
  apply post_bind_. intros ni. apply post_bind_. intros name. apply post_bind_. intros length.
  destruct (str_eqb name A_DEPRECATED || str_eqb name A_SYNTHETIC); [apply post_keep, Hs|].
  destruct (str_eqb name A_CODE).
  { destruct (negb (v_interest v 2 name)); [apply post_keep, Hs|]. destruct (v_code_declined v); [apply post_keep, Hs|].
    eapply post_bind; [apply post_read_code|]. intros c Hc. apply post_bind_. intros seen'. apply post_ret.
    unfold ma_okP, rmattrs_ok. cbn [snd ma_code ma_exceptions ma_parameters opt_ok]. rewrite Hc, Hex, Hpa. reflexivity. }
  destruct (str_eqb name A_EXCEPTIONS).
  { eapply post_bind.
    - apply (post_once_arm _ _ _ _ _ _ (fun l => lenN l <= 65535 /\ forallb u16ok l = true)).
      apply (post_read_vec_collect u16ok rd_u16 65535); [apply post_rd_u16|]. intros acc.
      eapply post_bind; [apply post_rd_u16|]. intros i Hi. apply post_bind_. intros _. apply post_ret.
      exists i. split; [apply u16ok_le, Hi|reflexivity].
    - intros r Hr. apply post_ret. unfold ma_okP, rmattrs_ok. cbn [snd ma_code ma_exceptions ma_parameters]. rewrite Hco, Hpa.
      rewrite opt_ok_or_old; [reflexivity| |exact Hex].
      cbv beta in Hr. destruct (snd r) as [l|]; cbn [option_map opt_ok]; [|reflexivity]. destruct Hr as [L F].
      rewrite (count_ok_rev' l 65535 L) by lia. rewrite forallb_rev' by exact F. reflexivity. }
  destruct (str_eqb name A_SIGNATURE); [apply post_keep, Hs|].
  destruct (str_eqb name A_RV_PARAMETER_ANNOTATIONS || str_eqb name A_RI_PARAMETER_ANNOTATIONS); [apply post_keep, Hs|].
  destruct (str_eqb name A_ANNOTATION_DEFAULT); [apply post_keep, Hs|].
  destruct (str_eqb name A_METHOD_PARAMETERS).
  { eapply post_bind.
    - apply (post_once_arm _ _ _ _ _ _ (fun l => lenN l <= 255 /\ forallb u16ok l = true)).
      apply (post_read_vec_collect u16ok rd_u8 255); [apply post_rd_u8|]. intros acc.
      apply post_bind_. intros i. apply post_bind_. intros _.
      eapply post_bind; [apply post_rd_u16|]. intros fl Hfl. apply post_ret.
      exists fl. split; [apply u16ok_le, Hfl|reflexivity].
    - intros r Hr. apply post_ret. unfold ma_okP, rmattrs_ok. cbn [snd ma_code ma_exceptions ma_parameters]. rewrite Hco, Hex.
      rewrite opt_ok_or_old; [reflexivity| |exact Hpa].
      cbv beta in Hr. destruct (snd r) as [l|]; cbn [option_map opt_ok]; [|reflexivity]. destruct Hr as [L F].
      rewrite (count8_ok_rev' l 255 L) by lia. rewrite forallb_rev' by exact F. reflexivity. }
  apply post_keep, Hs.
Qed.

Lemma post_read_method v p bsms : post (read_method_T v p bsms) (fun m => rmethod_ok m = true).
Proof.
  unfold read_method_T. eapply post_bind; [apply post_rd_u16|]. intros access Ha.
  do 4 (apply post_bind_; intros ?).
  destruct (v_method_break v).
  - apply post_bind_. intros _. apply post_ret. unfold rmethod_ok. cbn [rm_access rm_attrs]. rewrite u16ok_le by exact Ha. reflexivity.
  - apply post_bind_. intros k.
    eapply post_bind.
    { apply (post_iterN _ ma_okP (fun _ => 0)); [|reflexivity]. intros s Hs.
      eapply post_weaken; [|apply post_method_attr, Hs]. intros r Hr. split; [exact Hr|lia]. }
    intros s [Hs _]. apply post_ret. unfold rmethod_ok. cbn [rm_access rm_attrs]. rewrite u16ok_le by exact Ha. exact Hs.
Qed.

Definition flags_okP (bound : N) (l : list N) : Prop := lenN l <= bound /\ forallb u16ok l = true.
Lemma flags_ok_rev' l : flags_okP 65535 l -> count_ok (rev' l) && forallb u16ok (rev' l) = true.
Proof. intros [L F]. rewrite (count_ok_rev' l 65535 L) by lia. rewrite forallb_rev' by exact F. reflexivity. Qed.
Lemma post_read_module p : post (read_module_T p) (fun m => rmodule_ok m = true).
Proof.
  unfold read_module_T. apply post_bind_. intros _. eapply post_bind; [apply post_rd_u16|]. intros flags Hfl. apply post_bind_. intros _.
  eapply post_bind.
  { apply (post_read_vec_collect u16ok rd_u16 65535); [apply post_rd_u16|]. intros acc. apply post_bind_. intros _.
    eapply post_bind; [apply post_rd_u16|]. intros f Hf. apply post_bind_. intros _. apply post_ret. exists f. split; [apply u16ok_le, Hf|reflexivity]. }
  intros rq Hrq. eapply post_bind.
  { apply (post_read_vec_collect u16ok rd_u16 65535); [apply post_rd_u16|]. intros acc. apply post_bind_. intros _.
    eapply post_bind; [apply post_rd_u16|]. intros f Hf. apply post_bind_. intros _. apply post_ret. exists f. split; [apply u16ok_le, Hf|reflexivity]. }
  intros ex Hex. eapply post_bind.
  { apply (post_read_vec_collect u16ok rd_u16 65535); [apply post_rd_u16|]. intros acc. apply post_bind_. intros _.
    eapply post_bind; [apply post_rd_u16|]. intros f Hf. apply post_bind_. intros _. apply post_ret. exists f. split; [apply u16ok_le, Hf|reflexivity]. }
  intros op Hop. apply post_bind_. intros _. apply post_bind_. intros _. apply post_ret.
  unfold rmodule_ok. cbn [mo_flags mo_requires mo_exports mo_opens]. rewrite u16ok_le by exact Hfl.
  rewrite (flags_ok_rev' rq Hrq), (flags_ok_rev' ex Hex), (flags_ok_rev' op Hop). reflexivity.
Qed.

Definition inner_okP (x : clstate * clx) : Prop :=
  opt_ok (fun l => count_ok l && forallb u16ok l) (fst (snd x)) = true /\ opt_ok rmodule_ok (snd (snd x)) = true.
Lemma post_keep_cl (x : clstate * clx) (m : M clstate) :
  inner_okP x -> post (let* s' := m in ret (s', snd x)) inner_okP.
Proof. intros H. apply post_bind_. intros s'. apply post_ret. exact H. Qed.
Lemma post_class_attr v p x : inner_okP x -> post (class_attr_T v p x) inner_okP.
Proof.
  intros Hx. pose proof Hx as [Hin Hmo]. unfold class_attr_T.
  apply post_bind_. intros ni. apply post_bind_. intros name. apply post_bind_. intros length.
  destruct (str_eqb name A_DEPRECATED || str_eqb name A_SYNTHETIC); [apply post_keep_cl, Hx|].
  destruct (str_eqb name A_INNER_CLASSES).
  { eapply post_bind.
    - apply (post_once_arm _ _ _ _ _ _ (fun l => lenN l <= 65535 /\ forallb u16ok l = true)).
      apply (post_read_vec_collect u16ok rd_u16 65535); [apply post_rd_u16|]. intros acc.
      do 3 (apply post_bind_; intros ?).
      eapply post_bind; [apply post_rd_u16|]. intros fl Hfl. apply post_ret.
      exists fl. split; [apply u16ok_le, Hfl|reflexivity].
    - intros r Hr. apply post_ret. unfold inner_okP. cbn [fst snd]. split; [|exact Hmo].
      apply opt_ok_or_old; [|exact Hin].
      cbv beta in Hr. destruct (snd r) as [l|]; cbn [option_map opt_ok]; [|reflexivity]. destruct Hr as [L F].
      rewrite (count_ok_rev' l 65535 L) by lia. rewrite forallb_rev' by exact F. reflexivity. }
  destruct (str_eqb name A_ENCLOSING_METHOD); [apply post_keep_cl, Hx|].
  destruct (str_eqb name A_SIGNATURE || str_eqb name A_SOURCE_FILE); [apply post_keep_cl, Hx|].
  destruct (str_eqb name A_SOURCE_DEBUG_EXTENSION); [apply post_keep_cl, Hx|].
  destruct (str_eqb name A_MODULE).
  { eapply post_bind.
    - apply (post_once_arm _ _ _ _ _ _ (fun m => rmodule_ok m = true)). apply post_read_module.
    - intros r Hr. apply post_ret. unfold inner_okP. cbn [fst snd]. split; [exact Hin|].
      apply opt_ok_or_old; [|exact Hmo]. cbv beta in Hr. destruct (snd r) as [m|]; cbn [opt_ok]; [exact Hr|reflexivity]. }
  destruct (str_eqb name A_MODULE_PACKAGES); [apply post_keep_cl, Hx|].
  destruct (str_eqb name A_MODULE_MAIN_CLASS || str_eqb name A_NEST_HOST); [apply post_keep_cl, Hx|].
  destruct (str_eqb name A_NEST_MEMBERS || str_eqb name A_PERMITTED_SUBCLASSES); [apply post_keep_cl, Hx|].
  destruct (str_eqb name A_RECORD); [apply post_keep_cl, Hx|].
  destruct (str_eqb name A_BOOTSTRAP_METHODS); [apply post_keep_cl, Hx|].
  apply post_keep_cl, Hx.
Qed.

Lemma post_read_field v p : post (read_field_T v p) (fun f => u16ok (rf_access f) = true).
Proof.
  unfold read_field_T. eapply post_bind; [apply post_rd_u16|]. intros access Ha.
  do 5 (apply post_bind_; intros ?). apply post_ret. cbn [rf_access]. apply u16ok_le, Ha.
Qed.

Lemma post_read_header : post read_header_T (fun ph =>
  let '(_, (minor, major, access, ifs)) := ph in
  u16ok minor && u16ok major && u16ok access && count_ok ifs && forallb u16ok ifs = true).
Proof.
  unfold read_header_T. apply post_bind_. intros magic. destruct (negb (magic =? class_magic)); [apply post_fail|].
  eapply post_bind; [apply post_rd_u16|]. intros minor Hmi. eapply post_bind; [apply post_rd_u16|]. intros major Hma.
  destruct (version_too_new major minor); [apply post_fail|].
  apply post_bind_. intros p. eapply post_bind; [apply post_rd_u16|]. intros access Hac.
  apply post_bind_. intros _. apply post_bind_. intros _.
  eapply post_bind.
  { unfold read_vec. eapply post_bind; [apply post_rd_u16|]. intros n Hn.
    destruct (max_vec_count <? n); [apply post_panic|].
    eapply post_weaken; [|apply (post_collect u16ok n)].
    - intros r [L F]. exact (conj (N.le_trans _ _ _ L Hn) F).
    - intros acc. eapply post_bind; [apply post_rd_u16|]. intros i Hi. apply post_bind_. intros _. apply post_ret.
      right. exists i. split; [apply u16ok_le, Hi|reflexivity]. }
  intros ifs [L F]. apply post_ret. rewrite !u16ok_le by assumption. cbn [andb].
  unfold count_ok. rewrite rev'_length. fold (lenN ifs). rewrite (proj2 (N.leb_le _ _) L). cbn [andb]. apply forallb_rev', F.
Qed.

Lemma post_read_members v p bsms : post (read_members_T v p bsms) (fun fm =>
  count_ok (fst fm) && forallb (fun f => u16ok (rf_access f)) (fst fm) &&
  count_ok (snd fm) && forallb rmethod_ok (snd fm) = true).
Proof.
  unfold read_members_T. eapply post_bind; [apply post_rd_u16|]. intros nf Hnf.
  eapply post_bind.
  { apply (post_collect (fun f => u16ok (rf_access f)) nf). intros acc. destruct (v_fields v).
    - eapply post_bind; [apply post_read_field|]. intros f Hf. apply post_ret. right. exists f. split; [exact Hf|reflexivity].
    - apply post_bind_. intros _. apply post_bind_. intros _. apply post_ret. left. reflexivity. }
  intros fs [Lf Ff]. eapply post_bind; [apply post_rd_u16|]. intros nm Hnm.
  eapply post_bind.
  { apply (post_collect rmethod_ok nm). intros acc. destruct (v_methods v).
    - eapply post_bind; [apply post_read_method|]. intros m Hm. apply post_ret. right. exists m. split; [exact Hm|reflexivity].
    - apply post_bind_. intros _. apply post_bind_. intros _. apply post_ret. left. reflexivity. }
  intros ms [Lm Fm]. apply post_ret. cbn [fst snd]. unfold count_ok. rewrite !rev'_length. fold (lenN fs) (lenN ms).
  rewrite (proj2 (N.leb_le _ _) (N.le_trans _ _ _ Lf Hnf)), (proj2 (N.leb_le _ _) (N.le_trans _ _ _ Lm Hnm)).
  rewrite (forallb_rev' _ _ Ff), (forallb_rev' _ _ Fm). reflexivity.
Qed.

Lemma post_with_pos {A} data p (f : M A) Q : post f Q -> post (with_pos data p f) Q.
Proof.
  intros Hf. unfold with_pos. apply post_bind_. intros mk. apply post_bind_. intros _.
  eapply post_bind; [exact Hf|]. intros a Ha. apply post_bind_. intros _. apply post_ret, Ha.
Qed.

Lemma post_read_class v data : post (read_class_T v data) (fun t => rtree_ok t = true).
Proof.
  unfold read_class_T. eapply post_bind; [apply post_read_header|].
  intros [p [[[minor major] access] ifs]] Hh.
  apply post_bind_. intros fs. apply post_bind_. intros _. apply post_bind_. intros _.
  destruct (v_class_break v).
  - apply post_bind_. intros _. apply post_ret. unfold rtree_ok. cbn [t_minor t_major t_access t_interfaces t_inner_flags t_module t_fields t_methods].
    rewrite Hh. reflexivity.
  - apply post_bind_. intros n.
    eapply post_bind.
    { apply (post_iterN _ inner_okP (fun _ => 0)); [|split; reflexivity]. intros x Hx.
      eapply post_weaken; [|apply post_class_attr, Hx]. intros r Hr. split; [exact Hr|lia]. }
    intros x [[Hin Hmo] _].
    eapply post_bind; [apply post_with_pos, post_read_members|]. intros fm Hfm. apply post_ret.
    unfold rtree_ok. cbn [t_minor t_major t_access t_interfaces t_inner_flags t_module t_fields t_methods].
    rewrite Hh, Hin, Hmo. cbn [andb]. exact Hfm.
Qed.

(* every tree the reader returns has its numbers inside the fields the writer stores them in *)
Theorem reader_tree_ranges v bytes t : read_class_tree_with v bytes = Done t -> rtree_ok t = true.
Proof.
  unfold read_class_tree_with. destruct (read_class_T v bytes (mkRd 0 bytes)) as [[t' c']| |] eqn:E; [|discriminate|discriminate].
  intros [= <-]. exact (post_read_class v bytes _ _ _ E).
Qed.


(* ------------------------------------------------------------------------------------------ *)
(* the conjuncts one by one, for duke::read_class (the tree-building visitor)                   *)
Ltac tree_ok H bytes t :=
  apply (reader_tree_ranges tree_vis bytes t) in H; unfold rtree_ok in H;
  repeat match goal with H : _ && _ = true |- _ => apply andb_true_iff in H as [H ?] end.

(* cclass_ok: u16ok (k_minor t) && u16ok (k_major t) && u16ok (k_access t) *)
Theorem reader_class_scalars bytes t : read_class_tree bytes = Done t ->
  u16ok (t_minor t) && u16ok (t_major t) && u16ok (t_access t) = true.
Proof. intros H. tree_ok H bytes t. repeat (apply andb_true_iff; split); assumption. Qed.
(* interfaces_count is an u16 *)
Theorem reader_interfaces_count bytes t : read_class_tree bytes = Done t ->
  count_ok (t_interfaces t) && forallb u16ok (t_interfaces t) = true.
Proof. intros H. tree_ok H bytes t. apply andb_true_iff; split; assumption. Qed.
(* cclass_ok: forallb cinner_ok; number_of_classes is an u16 *)
Theorem reader_inner_classes bytes t l : read_class_tree bytes = Done t -> t_inner_flags t = Some l ->
  count_ok l && forallb u16ok l = true.
Proof. intros H E. tree_ok H bytes t. rewrite E in *. assumption. Qed.
(* cclass_ok: cmodule_ok; requires_count / exports_count / opens_count are u16 *)
Theorem reader_module bytes t m : read_class_tree bytes = Done t -> t_module t = Some m -> rmodule_ok m = true.
Proof. intros H E. tree_ok H bytes t. rewrite E in *. assumption. Qed.
(* cfield_ok: u16ok (f_access f); fields_count is an u16 *)
Theorem reader_fields bytes t : read_class_tree bytes = Done t ->
  count_ok (t_fields t) && forallb (fun f => u16ok (rf_access f)) (t_fields t) = true.
Proof. intros H. tree_ok H bytes t. apply andb_true_iff; split; assumption. Qed.
(* methods_count is an u16 *)
Theorem reader_methods_count bytes t : read_class_tree bytes = Done t -> count_ok (t_methods t) = true.
Proof. intros H. tree_ok H bytes t. assumption. Qed.
Lemma reader_method_ok bytes t m : read_class_tree bytes = Done t -> In m (t_methods t) -> rmethod_ok m = true.
Proof. intros H Hm. tree_ok H bytes t. match goal with F : forallb rmethod_ok _ = true |- _ => rewrite forallb_forall in F; exact (F m Hm) end. Qed.
(* cmethod_ok: u16ok (md_access m) *)
Theorem reader_method_access bytes t m : read_class_tree bytes = Done t -> In m (t_methods t) -> u16ok (rm_access m) = true.
Proof. intros H Hm. pose proof (reader_method_ok bytes t m H Hm) as Hok. unfold rmethod_ok in Hok. apply andb_true_iff in Hok as [A _]. exact A. Qed.
(* ccode_ok: c_max is Some (max_stack, max_locals) with both u16 — present whenever Code is; c_lines, c_locals;
   exception_table_length is an u16 *)
Theorem reader_method_code bytes t m c : read_class_tree bytes = Done t -> In m (t_methods t) -> ma_code (rm_attrs m) = Some c ->
  u16ok (rc_max_stack c) && u16ok (rc_max_locals c) = true
  /\ count_ok (rc_handlers c) && forallb u16ok (rc_handlers c) = true
  /\ forallb u16ok (rc_lines c) = true /\ forallb u16ok (rc_lvidx c) = true.
Proof.
  intros H Hm E. pose proof (reader_method_ok bytes t m H Hm) as Hok. unfold rmethod_ok, rmattrs_ok in Hok. rewrite E in Hok. cbn [opt_ok] in Hok.
  unfold rcode_ok in Hok. repeat match goal with H : _ && _ = true |- _ => apply andb_true_iff in H as [H ?] end.
  repeat split; try assumption; apply andb_true_iff; split; assumption.
Qed.
(* the Exceptions attribute: number_of_exceptions is an u16 *)
Theorem reader_method_exceptions bytes t m l : read_class_tree bytes = Done t -> In m (t_methods t) -> ma_exceptions (rm_attrs m) = Some l ->
  count_ok l && forallb u16ok l = true.
Proof.
  intros H Hm E. pose proof (reader_method_ok bytes t m H Hm) as Hok. unfold rmethod_ok, rmattrs_ok in Hok. rewrite E in Hok. cbn [opt_ok] in Hok.
  repeat match goal with H : _ && _ = true |- _ => apply andb_true_iff in H as [H ?] end. apply andb_true_iff; split; assumption.
Qed.
(* cmethod_ok: forallb (fun p => u16ok (snd p)) on md_parameters; parameters_count is an u8 *)
Theorem reader_method_parameters bytes t m l : read_class_tree bytes = Done t -> In m (t_methods t) -> ma_parameters (rm_attrs m) = Some l ->
  count8_ok l && forallb u16ok l = true.
Proof.
  intros H Hm E. pose proof (reader_method_ok bytes t m H Hm) as Hok. unfold rmethod_ok, rmattrs_ok in Hok. rewrite E in Hok. cbn [opt_ok] in Hok.
  repeat match goal with H : _ && _ = true |- _ => apply andb_true_iff in H as [H ?] end. apply andb_true_iff; split; assumption.
Qed.

(* ------------------------------------------------------------------------------------------ *)
(* not vacuous: real class files are read to trees with methods, Code, line numbers, local variables,
   InnerClasses, MethodParameters and Module; and rtree_ok is a real test *)
(* hand-assembled module-info.class: open module m { requires mandated java.base; } (major 53) *)
Definition fixture_module_info : list N := [202; 254; 186; 190; 0; 0; 0; 53; 0; 8; 1; 0; 11; 109; 111; 100; 117; 108; 101; 45; 105; 110; 102; 111; 7; 0; 1; 1; 0; 6; 77; 111; 100; 117; 108; 101; 1; 0; 1; 109; 19; 0; 4; 1; 0; 9; 106; 97; 118; 97; 46; 98; 97; 115; 101; 19; 0; 6; 128; 0; 0; 2; 0; 0; 0; 0; 0; 0; 0; 0; 0; 1; 0; 3; 0; 0; 0; 22; 0; 5; 0; 32; 0; 0; 0; 1; 0; 7; 128; 0; 0; 0; 0; 0; 0; 0; 0; 0; 0; 0].
Definition tree_fixtures_read : Prop :=
  read_class_tree fixture_type_annos = Done
    {| t_minor := 0; t_major := 55; t_access := 33; t_interfaces := []; t_inner_flags := Some [9]; t_module := None; t_fields := [];
       t_methods := [ {| rm_access := 1; rm_attrs := {| ma_code := Some (mkRC 1 1 [] [56] [0]); ma_exceptions := None; ma_parameters := None |} |};
                      {| rm_access := 1; rm_attrs := {| ma_code := Some (mkRC 1 2 [] [56] [0; 1; 1]); ma_exceptions := None; ma_parameters := Some [0] |} |} ] |}
  /\ (exists t, read_class_tree fixture_my_node = Done t /\ t_major t = 52 /\ map rm_access (t_methods t) = [1; 1; 4161]
                /\ map (fun m => option_map rc_lines (ma_code (rm_attrs m))) (t_methods t) = [Some [25]; Some [28; 29; 30]; Some [24]])
  /\ read_class_tree (firstn 300 fixture_my_node) = Fail
  /\ read_class_tree fixture_module_info = Done (mkRT 0 53 32768 [] None (Some (mkRMod 32 [32768] [] [])) [] [])
  /\ rtree_ok (mkRT 0 53 32768 [] None (Some (mkRMod 32 [65536] [] [])) [] []) = false
  /\ rtree_ok (mkRT 0 65536 33 [] None None [] []) = false
  /\ rtree_ok (mkRT 0 55 33 [] None None [] [mkRM 1 (mkRMA (Some (mkRC 65536 0 [] [] [])) None None)]) = false.
Lemma tree_fixtures_read_hold : tree_fixtures_read.
Proof.
  split; [vm_compute; reflexivity|]. split; [|repeat split; vm_compute; reflexivity].
  eexists. split; [vm_compute; reflexivity|]. repeat split; vm_compute; reflexivity.
Qed.
