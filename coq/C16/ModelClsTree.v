(* C16 model, WHOLE class reader, part 5: the reader of ModelClsRead.v / ModelClsCode.v INSTRUMENTED with the
   numbers it hands to the visitor (what the tree builder stores): class_reader::read returns unit in
   ModelClsRead.v because only the outcome class mattered there; here the same computation returns the
   skeleton of the tree — versions, access flags, the interface indices, the InnerClasses flags, the Module flags, per field its
   access flags, per method its access flags, the Exceptions indices, the MethodParameters flags and, when a Code
   attribute was read, max_stack, max_locals, the exception table, the line numbers and the local variable indices.

   Every function below is the function of the same name without `_T` with the read values kept instead of
   dropped: same reads, same tests, same order.  TheoryClsTree.v proves that erasing the result gives back
   the validated model (read_class_tree_erases), so the correspondence run of ModelClsRead.v covers this file.
   Definitions only. *)
From FB Require Export C16.ModelClsRead.
From FB Require Import C18.Model.
Open Scope N_scope.

Record rfield := mkRF { rf_access : N }.
(* Code: max_stack, max_locals, the handler_pc of every exception table entry, every line number of the
   LineNumberTable attributes and every index of the LocalVariable(Type)Table attributes, as pushed *)
Record rcode := mkRC { rc_max_stack : N; rc_max_locals : N; rc_handlers : list N; rc_lines : list N; rc_lvidx : list N }.
(* the attributes of a method that carry numbers: Code; Exceptions (pool index per class); MethodParameters (flags) *)
Record rmattrs := mkRMA { ma_code : option rcode; ma_exceptions : option (list N); ma_parameters : option (list N) }.
Record rmethod := mkRM { rm_access : N; rm_attrs : rmattrs }.
(* Module: module_flags, and requires_flags / exports_flags / opens_flags per entry *)
Record rmodule := mkRMod { mo_flags : N; mo_requires : list N; mo_exports : list N; mo_opens : list N }.
Record rtree := mkRT {
  t_minor : N; t_major : N; t_access : N;
  t_interfaces : list N;            (* constant pool index of every interface, in file order *)
  t_inner_flags : option (list N);  (* InnerClasses: inner_class_access_flags per entry *)
  t_module : option rmodule;
  t_fields : list rfield; t_methods : list rmethod }.

(* an arm `name == X && !interests.x => skip, name == X => { parse; visitor.visit_x(..)? }` that keeps what it parsed *)
Definition once_arm_T {X} (v : vis) (level : N) (name : str) (length : N) (seen : list str) (parse : M X) : M (list str * option X) :=
  if negb (v_interest v level name) then skipM length ;; ret (seen, None)
  else let* x := parse in let* seen' := lift (once (v_once v) name seen) in ret (seen', Some x).
Definition or_old {X} (new old : option X) : option X := match new with Some _ => new | None => old end.

(* ---- the attributes of Code: the state is (cstate, (lines, lvidx)) ---- *)
Definition code_attr_T (v : vis) (p : pool) (cl : N) (s : cstate * (list N * list N)) : M (cstate * (list N * list N)) :=
  let cs := fst s in
  let st := cs_labels cs in
  let keep (m : M cstate) : M (cstate * (list N * list N)) := let* cs' := m in ret (cs', snd s) in
  let* ni := rd_u16 in
  let* name := lift (get_utf8 p ni) in
  let* length := rd_u32 in
  let interested := v_interest v 3 name in
  if str_eqb name A_STACK_MAP_TABLE then keep (
    if negb interested then skipM length ;; ret cs else
    let* n := rd_u16 in
    (if max_vec_count <? n then panicM else ret tt) ;;
    let* (_, _, st1, fr) := iterN n (smt_step p cl) (true, 0, st, []) in
    match cs_frames cs with
    | Some _ => failM
    | None => ret (mkCs st1 (Some (rev' fr)))
    end)
  else if str_eqb name A_STACK_MAP then keep (
    if negb interested then skipM length ;; ret cs else
    let* n := rd_u16 in
    (if max_vec_count <? n then panicM else ret tt) ;;
    let* (st1, fr) := iterN n (fun '(s, fr) =>
        let* offset := rd_u16 in
        let* s1 := read_vec rd_u16 (read_vti p cl) s in
        let* s2 := read_vec rd_u16 (read_vti p cl) s1 in
        let* s3 := lift (lab_create cl s2 offset) in ret (s3, offset :: fr)) (st, []) in
    match cs_frames cs with
    | Some _ => failM
    | None => ret (mkCs st1 (Some (rev' fr)))
    end)
  else if str_eqb name A_LINE_NUMBER_TABLE then
    if negb interested then keep (skipM length ;; ret cs) else
    let* n := rd_u16 in
    let* r := iterN n (fun x => let* pc := rd_u16 in let* s1 := lift (lab_create cl (fst x) pc) in
                                let* line := rd_u16 in ret (s1, line :: snd x)) (st, fst (snd s)) in
    ret (mkCs (fst r) (cs_frames cs), (snd r, snd (snd s)))
  else if str_eqb name A_LOCAL_VARIABLE_TABLE || str_eqb name A_LOCAL_VARIABLE_TYPE_TABLE then
    if negb interested then keep (skipM length ;; ret cs) else
    let* n := rd_u16 in
    let* r := iterN n (fun x =>
        let* start := rd_u16 in let* len := rd_u16 in
        let* s1 := lift (lab_range cl (fst x) start len) in
        let* nm := rd_u16 in let* nms := lift (get_utf8 p nm) in let* _ := lift (checked is_valid_unqualified_name nms) in
        let* d := rd_u16 in let* _ := lift (get_utf8 p d) in
        let* idx := rd_u16 in ret (s1, idx :: snd x)) (st, snd (snd s)) in
    ret (mkCs (fst r) (cs_frames cs), (fst (snd s), snd r))
  else if str_eqb name A_RV_TYPE_ANNOTATIONS || str_eqb name A_RI_TYPE_ANNOTATIONS then keep (
    if negb interested then skipM length ;; ret cs else
    let* st1 := read_type_annotations_code p cl st in ret (mkCs st1 (cs_frames cs)))
  else keep (
    if negb interested then skipM length ;; ret cs else
    let* _ := rd_vec length in ret cs).

(* ---- read_code: what visit_code / visit_exception_table / visit_line_numbers / visit_local_variables store ---- *)
Definition read_code_T (v : vis) (p : pool) (bsms : bsm_table) : M rcode :=
  let* max_stack := rd_u16 in let* max_locals := rd_u16 in
  let* code_length := rd_u32 in
  if (code_length =? 0) || (65535 <? code_length) then failM else
  let cl := to_u16 code_length in
  let* code := rd_vec cl in
  let* st0 := lift (pass1 cl code) in
  let* x1 := read_vec rd_u16 (fun x =>
      let* a := rd_u16 in let* s1 := lift (lab_create cl (fst x) a) in
      let* b := rd_u16 in let* s2 := lift (lab_create_excl cl s1 b) in
      let* h := rd_u16 in let* s3 := lift (lab_create cl s2 h) in
      rd_idx (optional (get_class p)) ;; ret (s3, h :: snd x)) (st0, []) in
  let* n := rd_u16 in
  let* y := iterN n (code_attr_T v p cl) (mkCs (fst x1) None, ([], [])) in
  let cs := fst y in
  lift (pass2 p bsms cl code (cs_labels cs) (cs_frames cs)) ;;
  ret (mkRC max_stack max_locals (rev' (snd x1)) (rev' (fst (snd y))) (rev' (snd (snd y)))).

(* ---- fields ---- *)
Definition read_field_T (v : vis) (p : pool) : M rfield :=
  let* access := rd_u16 in
  let* n := rd_u16 in let* name := lift (get_utf8 p n) in let* _ := lift (checked is_valid_unqualified_name name) in
  rd_idx (as_unit (get_utf8 p)) ;;
  (if v_field_break v then skip_attributes
   else let* n := rd_u16 in let* _ := iterN n (field_attr v p) [] in ret tt) ;;
  ret (mkRF access).

(* ---- methods: the state of the attribute loop is (seen, rmattrs) ---- *)
Definition method_attr_T (v : vis) (p : pool) (bsms : bsm_table) (s : list str * rmattrs) : M (list str * rmattrs) :=
  let seen := fst s in
  let ma := snd s in
  let keep (m : M (list str)) : M (list str * rmattrs) := let* seen' := m in ret (seen', ma) in
  let* ni := rd_u16 in let* name := lift (get_utf8 p ni) in let* length := rd_u32 in
  if str_eqb name A_DEPRECATED || str_eqb name A_SYNTHETIC then keep (ret seen)
  else if str_eqb name A_CODE then
    if negb (v_interest v 2 name) then keep (skipM length ;; ret seen)
    else if v_code_declined v then keep (skipM length ;; ret seen)
    else let* c := read_code_T v p bsms in let* seen' := lift (once (v_once v) name seen) in
         ret (seen', mkRMA (Some c) (ma_exceptions ma) (ma_parameters ma))
  else if str_eqb name A_EXCEPTIONS then
    let* r := once_arm_T v 2 name length seen
                (read_vec rd_u16 (fun acc => let* i := rd_u16 in lift (as_unit (get_class p) i) ;; ret (i :: acc)) []) in
    ret (fst r, mkRMA (ma_code ma) (or_old (option_map (@rev' N) (snd r)) (ma_exceptions ma)) (ma_parameters ma))
  else if str_eqb name A_SIGNATURE then keep (once_arm v 2 name length seen (rd_idx (as_unit (get_utf8 p))))
  else if str_eqb name A_RV_PARAMETER_ANNOTATIONS || str_eqb name A_RI_PARAMETER_ANNOTATIONS then keep (skipM length ;; ret seen)
  else if str_eqb name A_ANNOTATION_DEFAULT then
    keep (if negb (v_interest v 2 name) then skipM length ;; ret seen else read_element_value_unnamed p ;; ret seen)
  else if str_eqb name A_METHOD_PARAMETERS then
    let* r := once_arm_T v 2 name length seen
      (read_vec rd_u8 (fun acc =>
                        let* i := rd_u16 in
                        (if i =? 0 then ret tt
                         else let* s := lift (get_utf8 p i) in let* _ := lift (checked is_valid_unqualified_name s) in ret tt) ;;
                        let* flags := rd_u16 in ret (flags :: acc)) []) in
    ret (fst r, mkRMA (ma_code ma) (ma_exceptions ma) (or_old (option_map (@rev' N) (snd r)) (ma_parameters ma)))
  else keep (match annotation_arms v p 2 2 name length with
             | Some m => m ;; ret seen
             | None => if negb (v_interest v 2 name) then skipM length ;; ret seen else let* _ := rd_vec length in ret seen
             end).
Definition no_mattrs : rmattrs := mkRMA None None None.
Definition read_method_T (v : vis) (p : pool) (bsms : bsm_table) : M rmethod :=
  let* access := rd_u16 in
  let* n := rd_u16 in let* name := lift (get_utf8 p n) in let* _ := lift (checked is_valid_method_name name) in
  rd_idx (as_unit (get_utf8 p)) ;;
  if v_method_break v then skip_attributes ;; ret (mkRM access no_mattrs)
  else let* n := rd_u16 in let* s := iterN n (method_attr_T v p bsms) ([], no_mattrs) in ret (mkRM access (snd s)).

(* ---- read_module ---- *)
Definition read_module_T (p : pool) : M rmodule :=
  rd_idx (as_unit (get_module p)) ;;
  let* flags := rd_u16 in
  rd_idx (optional (get_utf8 p)) ;;
  let* rq := read_vec rd_u16 (fun acc => rd_idx (as_unit (get_module p)) ;; let* f := rd_u16 in
                                         rd_idx (optional (get_utf8 p)) ;; ret (f :: acc)) [] in
  let* ex := read_vec rd_u16 (fun acc => rd_idx (as_unit (get_package p)) ;; let* f := rd_u16 in
                    read_vec_ rd_u16 (rd_idx (as_unit (get_module p))) ;; ret (f :: acc)) [] in
  let* op := read_vec rd_u16 (fun acc => rd_idx (as_unit (get_package p)) ;; let* f := rd_u16 in
                    read_vec_ rd_u16 (rd_idx (as_unit (get_module p))) ;; ret (f :: acc)) [] in
  read_vec_ rd_u16 (rd_idx (as_unit (get_class p))) ;;
  read_vec_ rd_u16 (rd_idx (as_unit (get_class p)) ;; read_vec_ rd_u16 (rd_idx (as_unit (get_class p)))) ;;
  ret (mkRMod flags (rev' rq) (rev' ex) (rev' op)).

(* ---- the attributes of the class: the state is (clstate, (inner flags, module)) ---- *)
Definition clx : Type := (option (list N) * option rmodule)%type.
Definition class_attr_T (v : vis) (p : pool) (x : clstate * clx) : M (clstate * clx) :=
  let s := fst x in
  let seen := cl_seen s in
  let upd (m : M (list str)) : M clstate := let* seen' := m in ret (mkCl seen' (cl_bsms s)) in
  let keep (m : M clstate) : M (clstate * clx) := let* s' := m in ret (s', snd x) in
  let* ni := rd_u16 in let* name := lift (get_utf8 p ni) in let* length := rd_u32 in
  if str_eqb name A_DEPRECATED || str_eqb name A_SYNTHETIC then keep (ret s)
  else if str_eqb name A_INNER_CLASSES then
    let* r := once_arm_T v 0 name length seen
      (read_vec rd_u16 (fun acc => rd_idx (as_unit (get_class p)) ;; rd_idx (optional (get_class p)) ;;
                                   rd_idx (optional (get_utf8 p)) ;; let* flags := rd_u16 in ret (flags :: acc)) []) in
    ret (mkCl (fst r) (cl_bsms s), (or_old (option_map (@rev' N) (snd r)) (fst (snd x)), snd (snd x)))
  else if str_eqb name A_ENCLOSING_METHOD then
    keep (upd (once_arm v 0 name length seen (rd_idx (as_unit (get_class p)) ;; rd_idx (optional (get_method_nt p)))))
  else if str_eqb name A_SIGNATURE || str_eqb name A_SOURCE_FILE then
    keep (upd (once_arm v 0 name length seen (rd_idx (as_unit (get_utf8 p)))))
  else if str_eqb name A_SOURCE_DEBUG_EXTENSION then
    keep (upd (once_arm v 0 name length seen
           (let* bytes := rd_vec length in match Mutf8.mutf8_dec bytes with Ok _ => ret tt | Err => failM end)))
  else if str_eqb name A_MODULE then
    let* r := once_arm_T v 0 name length seen (read_module_T p) in
    ret (mkCl (fst r) (cl_bsms s), (fst (snd x), or_old (snd r) (snd (snd x))))
  else if str_eqb name A_MODULE_PACKAGES then
    keep (upd (once_arm v 0 name length seen (read_vec_ rd_u16 (rd_idx (as_unit (get_package p))))))
  else if str_eqb name A_MODULE_MAIN_CLASS || str_eqb name A_NEST_HOST then
    keep (upd (once_arm v 0 name length seen (rd_idx (as_unit (get_class p)))))
  else if str_eqb name A_NEST_MEMBERS || str_eqb name A_PERMITTED_SUBCLASSES then
    keep (upd (once_arm v 0 name length seen (read_vec_ rd_u16 (rd_idx (as_unit (get_class p))))))
  else if str_eqb name A_RECORD then keep (
    if negb (v_interest v 0 name) then skipM length ;; ret s else
    let* seen' := lift (once true name seen) in
    let* n := rd_u16 in
    iterN_ n (read_record_component v p) ;; ret (mkCl seen' (cl_bsms s)))
  else if str_eqb name A_BOOTSTRAP_METHODS then keep (
    let* ms := read_vec rd_u16 (fun acc =>
        rd_idx (get_method_handle p) ;;
        let* args := read_vec rd_u16 (fun a => let* x := rd_u16 in ret (x :: a)) [] in
        ret (rev' args :: acc)) [] in
    match cl_bsms s with
    | Some _ => failM
    | None => ret (mkCl seen (Some (rev' ms)))
    end)
  else keep (match annotation_arms v p 0 0 name length with
       | Some m => m ;; ret s
       | None => if negb (v_interest v 0 name) then skipM length ;; ret s else let* _ := rd_vec length in ret s
       end).

(* ---- header ---- *)
Definition read_header_T : M (pool * (N * N * N * list N)) :=
  let* magic := rd_u32 in
  if negb (magic =? class_magic) then failM else
  let* minor := rd_u16 in let* major := rd_u16 in
  if version_too_new major minor then failM else
  let* p := read_pool in
  let* access := rd_u16 in
  rd_idx (as_unit (get_obj_class p)) ;;
  rd_idx (optional (get_obj_class p)) ;;
  let* ifs := read_vec rd_u16 (fun acc => let* i := rd_u16 in lift (as_unit (get_obj_class p) i) ;; ret (i :: acc)) [] in
  ret (p, (minor, major, access, rev' ifs)).

Definition read_members_T (v : vis) (p : pool) (bsms : bsm_table) : M (list rfield * list rmethod) :=
  let* nf := rd_u16 in
  let* fs := iterN nf (fun acc => if v_fields v then let* f := read_field_T v p in ret (f :: acc)
                                  else skipM 6 ;; skip_attributes ;; ret acc) [] in
  let* nm := rd_u16 in
  let* ms := iterN nm (fun acc => if v_methods v then let* m := read_method_T v p bsms in ret (m :: acc)
                                  else skipM 6 ;; skip_attributes ;; ret acc) [] in
  ret (rev' fs, rev' ms).

Definition read_class_T (v : vis) (data : list N) : M rtree :=
  let* ph := read_header_T in
  let '(p, (minor, major, access, ifs)) := ph in
  let* fields_start := markerM in
  skip_members ;; skip_members ;;
  if v_class_break v then skip_attributes ;; ret (mkRT minor major access ifs None None [] []) else
  let* n := rd_u16 in
  let* x := iterN n (class_attr_T v p) (mkCl [] None, (None, None)) in
  let* fm := with_pos data fields_start (read_members_T v p (cl_bsms (fst x))) in
  ret (mkRT minor major access ifs (fst (snd x)) (snd (snd x)) (fst fm) (snd fm)).

Definition read_class_tree_with (v : vis) (bytes : list N) : out rtree :=
  match read_class_T v bytes (mkRd 0 bytes) with Done (t, _) => Done t | Fail => Fail | Panic => Panic end.
(* duke::read_class: the skeleton of the ClassFile it returns *)
Definition read_class_tree (bytes : list N) : out rtree := read_class_tree_with tree_vis bytes.

(* ---- the conjuncts (C02: u16ok z := 0 <= z <= 65535 on the Z image of the same numbers) ---- *)
Definition u16ok (x : N) : bool := x <=? 65535.
Definition count_ok {A} (l : list A) : bool := N.of_nat (length l) <=? 65535.
Definition count8_ok {A} (l : list A) : bool := N.of_nat (length l) <=? 255.
Definition opt_ok {A} (f : A -> bool) (o : option A) : bool := match o with Some a => f a | None => true end.
(* ccode_ok: c_max, c_lines, c_locals; the exception table fits its u16 count *)
Definition rcode_ok (c : rcode) : bool :=
  u16ok (rc_max_stack c) && u16ok (rc_max_locals c) &&
  count_ok (rc_handlers c) && forallb u16ok (rc_handlers c) &&
  forallb u16ok (rc_lines c) && forallb u16ok (rc_lvidx c).
(* cmethod_ok: md_access, md_code, md_parameters; Exceptions fits its u16 count, MethodParameters its u8 count *)
Definition rmattrs_ok (a : rmattrs) : bool :=
  opt_ok rcode_ok (ma_code a) &&
  opt_ok (fun l => count_ok l && forallb u16ok l) (ma_exceptions a) &&
  opt_ok (fun l => count8_ok l && forallb u16ok l) (ma_parameters a).
Definition rmethod_ok (m : rmethod) : bool := u16ok (rm_access m) && rmattrs_ok (rm_attrs m).
(* cmodule_ok: m_flags, rq_flags, ex_flags of exports and of opens; the u16 counts *)
Definition rmodule_ok (m : rmodule) : bool :=
  u16ok (mo_flags m) && (count_ok (mo_requires m) && forallb u16ok (mo_requires m)) &&
  (count_ok (mo_exports m) && forallb u16ok (mo_exports m)) && (count_ok (mo_opens m) && forallb u16ok (mo_opens m)).
(* cclass_ok: k_minor, k_major, k_access, cfield_ok's f_access, cmethod_ok (above), cinner_ok, cmodule_ok; the u16 counts *)
Definition rtree_ok (t : rtree) : bool :=
  u16ok (t_minor t) && u16ok (t_major t) && u16ok (t_access t) &&
  count_ok (t_interfaces t) && forallb u16ok (t_interfaces t) &&
  opt_ok (fun l => count_ok l && forallb u16ok l) (t_inner_flags t) && opt_ok rmodule_ok (t_module t) &&
  count_ok (t_fields t) && forallb (fun f => u16ok (rf_access f)) (t_fields t) &&
  count_ok (t_methods t) && forallb rmethod_ok (t_methods t).
