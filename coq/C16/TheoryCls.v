(* C16 theory, WHOLE class reader, part 1: the no-panic calculus for the reader monad, the primitives,
   the loops, the constant pool and its accessors, bootstrap-argument resolution. *)
From FB Require Import C16.ModelCls C16.Theory C18.Model.
From Coq Require Import Lia.

Arguments N.add : simpl never.
Arguments N.mul : simpl never.
Arguments N.sub : simpl never.
Arguments N.leb : simpl never.
Arguments N.ltb : simpl never.
Arguments N.eqb : simpl never.

(* ------------------------------------------------------------------------------------------ *)
(* outcomes                                                                                     *)
Lemma obind_np {A B} (r : out A) (f : A -> out B) :
  r <> Panic -> (forall a, r = Done a -> f a <> Panic) -> obind r f <> Panic.
Proof. destruct r as [a| |]; cbn [obind]; intros H1 H2; [apply H2; reflexivity|discriminate|congruence]. Qed.

Ltac onp_step :=
  match goal with
  | |- Done _ <> Panic => discriminate
  | |- Fail <> Panic => discriminate
  | |- obind _ _ <> Panic => apply obind_np; [|intros ? ?]
  | |- (if ?b then _ else _) <> Panic => destruct b
  | |- (let '(_, _) := ?x in _) <> Panic => destruct x
  | |- match ?x with _ => _ end <> Panic => destruct x
  end.
Ltac onp := repeat onp_step.

(* ------------------------------------------------------------------------------------------ *)
(* the calculus                                                                                 *)
Definition np {A} (m : M A) : Prop := forall c, m c <> Panic.
(* what a successful run guarantees about its result *)
Definition post {A} (m : M A) (Q : A -> Prop) : Prop := forall c a c', m c = Done (a, c') -> Q a.

Lemma np_ret {A} (a : A) : np (ret a).
Proof. intros c. discriminate. Qed.
Lemma np_fail {A} : np (@failM A).
Proof. intros c. discriminate. Qed.
Lemma np_lift {A} (o : out A) : o <> Panic -> np (lift o).
Proof. intros H c. unfold lift. destruct o; [discriminate|discriminate|congruence]. Qed.
Lemma np_bind {A B} (m : M A) (f : A -> M B) : np m -> (forall a, np (f a)) -> np (bindM m f).
Proof.
  intros Hm Hf c. unfold bindM. destruct (m c) as [[a c']| |] eqn:E; [apply Hf|discriminate|].
  exfalso. exact (Hm c E).
Qed.
Lemma np_bind_post {A B} (m : M A) (f : A -> M B) (Q : A -> Prop) :
  np m -> post m Q -> (forall a, Q a -> np (f a)) -> np (bindM m f).
Proof.
  intros Hm HQ Hf c. unfold bindM. destruct (m c) as [[a c']| |] eqn:E; [|discriminate|].
  - apply Hf. exact (HQ c a c' E).
  - exfalso. exact (Hm c E).
Qed.

Lemma np_rd_u8 : np rd_u8.
Proof. intros c. unfold rd_u8. destruct (rrest c) as [|a r]; [discriminate|]. destruct (is_byte a); discriminate. Qed.
Lemma np_rd_u16 : np rd_u16.
Proof. intros c. unfold rd_u16. destruct (rrest c) as [|a [|b r]]; try discriminate. destruct (is_byte a && is_byte b); discriminate. Qed.
Lemma np_rd_u32 : np rd_u32.
Proof.
  intros c. unfold rd_u32. destruct (rrest c) as [|a [|b [|d [|e r]]]]; try discriminate.
  destruct (is_byte a && is_byte b && is_byte d && is_byte e); discriminate.
Qed.
Lemma np_rd_i8 : np rd_i8.
Proof. apply np_bind; [exact np_rd_u8|intros; apply np_ret]. Qed.
Lemma np_rd_i16 : np rd_i16.
Proof. apply np_bind; [exact np_rd_u16|intros; apply np_ret]. Qed.
Lemma np_rd_i32 : np rd_i32.
Proof. apply np_bind; [exact np_rd_u32|intros; apply np_ret]. Qed.
Lemma np_rd_4bytes : np rd_4bytes.
Proof. apply np_bind; [exact np_rd_u32|intros; apply np_ret]. Qed.
Lemma np_rd_8bytes : np rd_8bytes.
Proof. apply np_bind; [exact np_rd_u32|intros]. apply np_bind; [exact np_rd_u32|intros; apply np_ret]. Qed.
Lemma np_skip n : np (skipM n).
Proof. intros c. unfold skipM. destruct (u64_max <? rpos c + n); discriminate. Qed.
Lemma np_marker : np markerM.
Proof. intros c. discriminate. Qed.
Lemma np_goto data p : np (gotoM data p).
Proof. intros c. discriminate. Qed.
Lemma np_rd_vec n : np (rd_vec n).
Proof.
  intros c. unfold rd_vec.
  destruct (read_u8_vec n (len_N (rrest c))) eqn:E; [| |exfalso; exact (read_u8_vec_no_panic _ _ E)];
    destruct (takeN n (rrest c)) as [[v r]|]; discriminate.
Qed.
Lemma np_with_pos {A} data p (f : M A) : np f -> np (with_pos data p f).
Proof.
  intros Hf. unfold with_pos.
  apply np_bind; [exact np_marker|intros m]. apply np_bind; [apply np_goto|intros _].
  apply np_bind; [exact Hf|intros r]. apply np_bind; [apply np_goto|intros _]. apply np_ret.
Qed.

(* ranges of what was read *)
Lemma is_byte_lt b : is_byte b = true -> b < 256.
Proof. unfold is_byte. intros H. apply N.ltb_lt. exact H. Qed.
Lemma post_rd_u8 : post rd_u8 (fun x => x <= 255).
Proof.
  intros c a c'. unfold rd_u8. destruct (rrest c) as [|x r]; [discriminate|].
  destruct (is_byte x) eqn:Hx; [|discriminate]. intros [= <- _]. apply is_byte_lt in Hx. lia.
Qed.
Lemma post_rd_u16 : post rd_u16 (fun x => x <= 65535).
Proof.
  intros c a c'. unfold rd_u16. destruct (rrest c) as [|x [|y r]]; try discriminate.
  destruct (is_byte x) eqn:Hx; cbn [andb]; [|discriminate]. destruct (is_byte y) eqn:Hy; [|discriminate].
  intros [= <- _]. apply is_byte_lt in Hx, Hy. lia.
Qed.
Lemma post_ret {A} (a : A) (Q : A -> Prop) : Q a -> post (ret a) Q.
Proof. intros H c x c' [= <- _]. exact H. Qed.

(* loops *)
Lemma np_iterP {A} (body : A -> M A) : (forall a, np (body a)) -> forall p a, np (iterP p body a).
Proof.
  intros Hb. induction p as [q IH|q IH|]; intros a; cbn [iterP].
  - apply np_bind; [apply Hb|intros a0]. apply np_bind; [apply IH|intros a1; apply IH].
  - apply np_bind; [apply IH|intros a1; apply IH].
  - apply Hb.
Qed.
Lemma np_iterN {A} n (body : A -> M A) a : (forall a, np (body a)) -> np (iterN n body a).
Proof. intros Hb. destruct n as [|p]; cbn [iterN]; [apply np_ret|apply np_iterP; exact Hb]. Qed.
Lemma np_iterN_ n body : np body -> np (iterN_ n body).
Proof. intros Hb. apply np_iterN. intros _. exact Hb. Qed.

(* read_vec: the declared size is bounded by a constant *)
Lemma np_read_vec {A} (size : M N) (elem : A -> M A) a :
  np size -> post size (fun n => n <= max_vec_count) -> (forall a, np (elem a)) -> np (read_vec size elem a).
Proof.
  intros Hs Hp He. unfold read_vec. apply (np_bind_post _ _ _ Hs Hp). intros n Hn.
  destruct (N.ltb_spec max_vec_count n) as [Hlt|Hge]; [lia|]. apply np_iterN. exact He.
Qed.
Lemma np_read_vec_u16 {A} (elem : A -> M A) a : (forall a, np (elem a)) -> np (read_vec rd_u16 elem a).
Proof. apply np_read_vec; [exact np_rd_u16|]. intros c x c' H. apply post_rd_u16 in H. unfold max_vec_count. lia. Qed.
Lemma np_read_vec_u8 {A} (elem : A -> M A) a : (forall a, np (elem a)) -> np (read_vec rd_u8 elem a).
Proof. apply np_read_vec; [exact np_rd_u8|]. intros c x c' H. apply post_rd_u8 in H. unfold max_vec_count. lia. Qed.
Lemma np_read_vec_u16_ elem : np elem -> np (read_vec_ rd_u16 elem).
Proof. intros H. apply np_read_vec_u16. intros _. exact H. Qed.
Lemma np_read_vec_u8_ elem : np elem -> np (read_vec_ rd_u8 elem).
Proof. intros H. apply np_read_vec_u8. intros _. exact H. Qed.

(* the generic step of a no-panic proof: structure first, then the leaves from the hint database *)
Create HintDb npdb.
#[export] Hint Resolve np_rd_u8 np_rd_u16 np_rd_u32 np_rd_i8 np_rd_i16 np_rd_i32 np_rd_4bytes np_rd_8bytes
  np_skip np_marker np_goto np_rd_vec np_ret np_fail : npdb.

Ltac np_step :=
  match goal with
  | |- np (ret _) => apply np_ret
  | |- np failM => apply np_fail
  | |- np (bindM _ _) => apply np_bind; [|intros ?]
  | |- np (lift _) => apply np_lift
  | |- np (iterN_ _ _) => apply np_iterN_
  | |- np (iterN _ _ _) => apply np_iterN; intros ?
  | |- np (read_vec_ rd_u16 _) => apply np_read_vec_u16_
  | |- np (read_vec_ rd_u8 _) => apply np_read_vec_u8_
  | |- np (read_vec rd_u16 _ _) => apply np_read_vec_u16; intros ?
  | |- np (with_pos _ _ _) => apply np_with_pos
  | |- np (if ?b then _ else _) => destruct b
  | |- np (let '(_, _) := ?x in _) => destruct x
  | |- np (match ?x with _ => _ end) => destruct x
  | |- np _ => solve [auto with npdb]
  | |- _ <> Panic => solve [auto with npdb]
  end.
Ltac np_go := repeat np_step.

(* ------------------------------------------------------------------------------------------ *)
(* step 1a: the constant pool                                                                   *)
Lemma np_pool_entry : np pool_entry.
Proof. unfold pool_entry. np_go. Qed.
#[export] Hint Resolve np_pool_entry : npdb.

(* every iteration pushes at least one slot: count - plen iterations suffice *)
Lemma np_pool_loop : forall fuel count plen acc, (N.to_nat (count - plen) <= fuel)%nat -> np (pool_loop fuel count plen acc).
Proof.
  induction fuel as [|f IH]; intros count plen acc Hf; cbn [pool_loop].
  - destruct (N.leb_spec count plen) as [Hle|Hgt]; [apply np_ret|lia].
  - destruct (N.leb_spec count plen) as [Hle|Hgt]; [apply np_ret|].
    apply np_bind; [exact np_pool_entry|intros [e two]]. destruct two; apply IH; lia.
Qed.
Lemma np_read_pool : np read_pool.
Proof.
  unfold read_pool. apply np_bind; [exact np_rd_u16|intros count].
  apply np_bind; [apply np_pool_loop; lia|intros acc]. apply np_ret.
Qed.
#[export] Hint Resolve np_read_pool : npdb.

(* the accessors answer Done or Fail *)
Lemma pget_np p i : pget p i <> Panic.
Proof. unfold pget. onp. Qed.
#[export] Hint Resolve pget_np : npdb.
Lemma get_utf8_np p i : get_utf8 p i <> Panic.
Proof. unfold get_utf8. onp; auto with npdb. Qed.
#[export] Hint Resolve get_utf8_np : npdb.
Lemma checked_np ok s : checked ok s <> Panic.
Proof. unfold checked. onp. Qed.
#[export] Hint Resolve checked_np : npdb.
Ltac acc_np := intros; onp; auto with npdb.
Lemma get_class_np p i : get_class p i <> Panic. Proof. unfold get_class. acc_np. Qed.
Lemma get_obj_class_np p i : get_obj_class p i <> Panic. Proof. unfold get_obj_class. acc_np. Qed.
Lemma get_package_np p i : get_package p i <> Panic. Proof. unfold get_package. acc_np. Qed.
Lemma get_module_np p i : get_module p i <> Panic. Proof. unfold get_module. acc_np. Qed.
#[export] Hint Resolve get_class_np get_obj_class_np get_package_np get_module_np : npdb.
Lemma get_name_and_type_np p i : get_name_and_type p i <> Panic. Proof. unfold get_name_and_type. acc_np. Qed.
#[export] Hint Resolve get_name_and_type_np : npdb.
Lemma get_field_nt_np p i : get_field_nt p i <> Panic. Proof. unfold get_field_nt. acc_np. Qed.
Lemma get_method_nt_np p i : get_method_nt p i <> Panic. Proof. unfold get_method_nt. acc_np. Qed.
#[export] Hint Resolve get_field_nt_np get_method_nt_np : npdb.
Lemma get_field_ref_np p i : get_field_ref p i <> Panic. Proof. unfold get_field_ref. acc_np. Qed.
Lemma get_method_ref_np p i : get_method_ref p i <> Panic. Proof. unfold get_method_ref. acc_np. Qed.
Lemma get_iface_ref_np p i : get_iface_ref p i <> Panic. Proof. unfold get_iface_ref. acc_np. Qed.
Lemma get_method_or_iface_ref_np p i : get_method_or_iface_ref p i <> Panic. Proof. unfold get_method_or_iface_ref. acc_np. Qed.
#[export] Hint Resolve get_field_ref_np get_method_ref_np get_iface_ref_np get_method_or_iface_ref_np : npdb.
Lemma get_integer_np p i : get_integer p i <> Panic. Proof. unfold get_integer. acc_np. Qed.
Lemma get_float_np p i : get_float p i <> Panic. Proof. unfold get_float. acc_np. Qed.
Lemma get_long_np p i : get_long p i <> Panic. Proof. unfold get_long. acc_np. Qed.
Lemma get_double_np p i : get_double p i <> Panic. Proof. unfold get_double. acc_np. Qed.
#[export] Hint Resolve get_integer_np get_float_np get_long_np get_double_np : npdb.
Lemma as_method_handle_np p k i : as_method_handle p k i <> Panic. Proof. unfold as_method_handle. acc_np. Qed.
#[export] Hint Resolve as_method_handle_np : npdb.
Lemma get_method_handle_np p i : get_method_handle p i <> Panic. Proof. unfold get_method_handle. acc_np. Qed.
Lemma get_constant_value_np p i : get_constant_value p i <> Panic. Proof. unfold get_constant_value. acc_np. Qed.
#[export] Hint Resolve get_method_handle_np get_constant_value_np : npdb.
Lemma optional_np {A} (f : N -> out A) i : (forall j, f j <> Panic) -> optional f i <> Panic.
Proof. intros H. unfold optional. onp. apply H. Qed.

(* ------------------------------------------------------------------------------------------ *)
(* bootstrap arguments: nesting never exceeds 65, so 67 frames suffice, for every pool and every
   (also cyclic) argument graph                                                                  *)
Lemma usize_add_small a b : a + b <= usize_max -> usize_add a b = Done (a + b).
Proof. intros H. unfold usize_add. destruct (N.leb_spec (a + b) usize_max); [reflexivity|lia]. Qed.

Lemma loadable_np : forall fuel p bsms idx nesting budget,
  nesting <= 65 -> (67 <= fuel + N.to_nat nesting)%nat ->
  loadable fuel p bsms idx nesting budget <> Panic.
Proof.
  induction fuel as [|f IH]; intros p bsms idx nesting budget Hn Hf; [exfalso; lia|].
  cbn [loadable].
  apply obind_np; [onp|intros b1 _].
  apply obind_np; [apply pget_np|intros e _].
  destruct e; try solve [onp; auto with npdb].
  unfold max_bsm_nesting. destruct (N.ltb_spec 64 nesting) as [Hlt|Hge]; [discriminate|].
  apply obind_np; [auto with npdb|intros _ _].
  destruct bsms as [ms|]; [|discriminate].
  destruct (nth_error ms (N.to_nat bsm)) as [args|]; [|discriminate].
  generalize b1. induction args as [|a args IHa]; intros bud; [discriminate|].
  apply obind_np; [rewrite usize_add_small by (unfold usize_max; lia); discriminate|intros n1 Hn1].
  rewrite usize_add_small in Hn1 by (unfold usize_max; lia). injection Hn1 as <-.
  apply obind_np; [apply IH; lia|intros bud' _]. apply IHa.
Qed.
Lemma get_loadable_np p bsms idx : get_loadable p bsms idx <> Panic.
Proof.
  unfold get_loadable. apply obind_np; [|discriminate].
  apply loadable_np; unfold loadable_fuel; cbn; lia.
Qed.
Lemma loadable_all_np p bsms args bud : loadable_all loadable_fuel p bsms args 1 bud <> Panic.
Proof.
  revert bud. induction args as [|a args IH]; intros bud; cbn [loadable_all]; [discriminate|].
  apply obind_np; [apply loadable_np; unfold loadable_fuel; cbn; lia|intros bud' _; apply IH].
Qed.
Lemma get_invoke_dynamic_np p bsms idx : get_invoke_dynamic p bsms idx <> Panic.
Proof.
  unfold get_invoke_dynamic. apply obind_np; [apply pget_np|intros e _].
  destruct e; try discriminate.
  apply obind_np; [auto with npdb|intros _ _].
  destruct bsms as [ms|]; [|discriminate]. destruct (nth_error ms (N.to_nat bsm)) as [args|]; [|discriminate].
  apply obind_np; [apply loadable_all_np|discriminate].
Qed.
#[export] Hint Resolve get_loadable_np get_invoke_dynamic_np : npdb.
