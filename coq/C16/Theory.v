(* C16 theory, part 1: labels, stack map offsets, byte vectors, nesting limits, bootstrap
   arguments, text lines, descriptors.  (The bytecode scan is in Theory2.v.) *)
From FB Require Import C16.Model C18.Model.
From Coq Require Import Lia.

Arguments N.add : simpl never.
Arguments N.mul : simpl never.
Arguments N.sub : simpl never.
Arguments N.leb : simpl never.
Arguments N.ltb : simpl never.
Arguments N.eqb : simpl never.

(* ---------------------------------------------------------------- labels *)

Lemma get_or_create_no_panic cl pc : get_or_create cl pc <> Panic.
Proof. unfold get_or_create. destruct (cl <=? pc); discriminate. Qed.
Lemma get_or_create_excl_no_panic cl pc : get_or_create_excl cl pc <> Panic.
Proof. unfold get_or_create_excl. destruct (cl <? pc); discriminate. Qed.

Theorem range_no_panic cl st ln : get_or_create_range cl st ln <> Panic.
Proof.
  unfold get_or_create_range, u16_checked_add.
  destruct (st + ln <=? u16_max); [|discriminate].
  unfold get_or_create. destruct (cl <=? st); cbn [obind]; [discriminate|].
  apply get_or_create_excl_no_panic.
Qed.

(* what the repaired function accepts: exactly the ranges inside the code *)
Theorem range_spec cl st ln :
  get_or_create_range cl st ln = Done tt <-> st < cl /\ st + ln <= cl /\ st + ln <= u16_max.
Proof.
  unfold get_or_create_range, u16_checked_add, get_or_create, get_or_create_excl.
  destruct (N.leb_spec (st + ln) u16_max) as [H1|H1].
  - destruct (N.leb_spec cl st) as [H2|H2]; cbn [obind].
    + split; [discriminate|lia].
    + destruct (N.ltb_spec cl (st + ln)) as [H3|H3]; split; try discriminate; try lia; auto.
  - split; [discriminate|lia].
Qed.

(* the label table never hands out an id twice: all labelled offsets are distinct and at most
   code_length, hence at most 65536 of them; the counter equals their number modulo 2^16 *)
Definition labels_inv (cl : N) (st : labels) : Prop :=
  NoDup (lab_pcs st) /\ Forall (fun pc => pc <= cl) (lab_pcs st)
  /\ lab_next st = N.of_nat (length (lab_pcs st)) mod 65536.

Lemma NoDup_map_inj {A B} (f : A -> B) (l : list A) :
  (forall a b, f a = f b -> a = b) -> NoDup l -> NoDup (map f l).
Proof.
  intros Hinj Hnd. induction Hnd as [|x l Hx Hnd IH]; cbn [map]; constructor; [|exact IH].
  intro Hin. apply in_map_iff in Hin. destruct Hin as (y & E & Hy). apply Hinj in E. subst y. contradiction.
Qed.

Lemma nodup_bounded_length (l : list N) (cl : N) :
  NoDup l -> Forall (fun pc => pc <= cl) l -> (length l <= S (N.to_nat cl))%nat.
Proof.
  intros Hnd Hb.
  assert (Hm : NoDup (map N.to_nat l)).
  { apply NoDup_map_inj; [|exact Hnd]. intros a b E. apply N2Nat.inj. exact E. }
  assert (Hi : incl (map N.to_nat l) (seq 0 (S (N.to_nat cl)))).
  { intros x Hx. apply in_map_iff in Hx. destruct Hx as (y & <- & Hy).
    rewrite Forall_forall in Hb. specialize (Hb y Hy). apply in_seq. lia. }
  pose proof (NoDup_incl_length Hm Hi) as HL. rewrite map_length, seq_length in HL. exact HL.
Qed.

Lemma labels_add_inv cl st pc st' :
  cl <= u16_max -> pc <= cl -> labels_inv cl st -> labels_add true st pc = Done st' -> labels_inv cl st'.
Proof.
  intros Hcl Hpc (Hnd & Hb & Hn) H. unfold labels_add in H.
  destruct (mem_N pc (lab_pcs st)) eqn:Em.
  - injection H as <-. repeat split; assumption.
  - assert (Hni : ~ In pc (lab_pcs st)).
    { intro Hin. apply mem_N_In in Hin. congruence. }
    assert (Hnd' : NoDup (pc :: lab_pcs st)) by (constructor; assumption).
    assert (Hb' : Forall (fun p => p <= cl) (pc :: lab_pcs st)) by (constructor; assumption).
    pose proof (nodup_bounded_length _ _ Hnd' Hb') as HL. cbn [length] in HL.
    unfold u16_max in *.
    assert (Hlen : N.of_nat (length (lab_pcs st)) < 65536) by lia.
    rewrite (N.mod_small _ _ Hlen) in Hn.
    destruct (N.leb_spec (lab_next st + 1) 65535) as [Hle|Hgt].
    + injection H as <-. unfold labels_inv. cbn [lab_pcs lab_next length].
      split; [exact Hnd'|]. split; [exact Hb'|].
      rewrite Nat2N.inj_succ, N.mod_small by lia. lia.
    + injection H as <-. unfold labels_inv. cbn [lab_pcs lab_next length].
      split; [exact Hnd'|]. split; [exact Hb'|].
      rewrite Nat2N.inj_succ.
      replace (N.succ (N.of_nat (length (lab_pcs st)))) with 65536 by lia. reflexivity.
Qed.

Lemma labels_add_all_inv cl reqs : forall st st',
  cl <= u16_max -> labels_inv cl st -> labels_add_all true cl st reqs = Done st' -> labels_inv cl st'.
Proof.
  induction reqs as [|[pc ex] reqs IH]; intros st st' Hcl Hinv H; cbn [labels_add_all] in H.
  - injection H as <-. exact Hinv.
  - assert (Hpc : (if ex then get_or_create_excl cl pc else get_or_create cl pc) = Done tt -> pc <= cl).
    { destruct ex; unfold get_or_create_excl, get_or_create.
      - destruct (N.ltb_spec cl pc); [discriminate|intros _; lia].
      - destruct (N.leb_spec cl pc); [discriminate|intros _; lia]. }
    destruct (if ex then get_or_create_excl cl pc else get_or_create cl pc) as [[]| |] eqn:E; cbn [obind] in H; try discriminate.
    destruct (labels_add true st pc) as [st1| |] eqn:E1; cbn [obind] in H; try discriminate.
    eapply IH; [exact Hcl| |exact H].
    eapply labels_add_inv; eauto.
Qed.

Theorem labels_ids_unique cl reqs st :
  labels_requests cl reqs = Done st ->
  NoDup (lab_pcs st) /\ N.of_nat (length (lab_pcs st)) <= 65536
  /\ lab_next st = N.of_nat (length (lab_pcs st)) mod 65536.
Proof.
  unfold labels_requests. intros H.
  destruct (N.eqb_spec cl 0) as [|Hz]; cbn [orb] in H; [discriminate|].
  destruct (N.ltb_spec u16_max cl) as [|Hle]; [discriminate|].
  assert (Hinv : labels_inv cl labels_empty).
  { repeat split; cbn; [constructor|constructor]. }
  pose proof (labels_add_all_inv cl reqs _ _ Hle Hinv H) as (Hnd & Hb & Hn).
  repeat split; try assumption.
  pose proof (nodup_bounded_length _ _ Hnd Hb). unfold u16_max in Hle. lia.
Qed.

Lemma labels_add_true_no_panic st pc : labels_add true st pc <> Panic.
Proof.
  unfold labels_add. destruct (mem_N pc (lab_pcs st)); [discriminate|].
  destruct (lab_next st + 1 <=? u16_max); discriminate.
Qed.

Theorem labels_no_panic cl reqs : labels_requests cl reqs <> Panic.
Proof.
  unfold labels_requests. destruct ((cl =? 0) || (u16_max <? cl)); [discriminate|].
  generalize labels_empty. induction reqs as [|[pc ex] reqs IH]; intros st; cbn [labels_add_all]; [discriminate|].
  destruct ex.
  - unfold get_or_create_excl. destruct (cl <? pc); cbn [obind]; [discriminate|].
    destruct (labels_add true st pc) eqn:E; cbn [obind]; [apply IH|discriminate|].
    exfalso. eapply labels_add_true_no_panic; eauto.
  - unfold get_or_create. destruct (cl <=? pc); cbn [obind]; [discriminate|].
    destruct (labels_add true st pc) eqn:E; cbn [obind]; [apply IH|discriminate|].
    exfalso. eapply labels_add_true_no_panic; eauto.
Qed.

(* ---------------------------------------------------------------- stack map offsets *)

Lemma frames_no_panic cl ds : forall first off, frames cl first off ds <> Panic.
Proof.
  induction ds as [|d ds IH]; intros first off; cbn [frames]; [discriminate|].
  unfold u16_checked_add.
  destruct (off + d <=? u16_max); [|discriminate].
  destruct (off + d + (if first then 0 else 1) <=? u16_max); [|discriminate].
  unfold get_or_create. destruct (cl <=? _); cbn [obind]; [discriminate|apply IH].
Qed.

Theorem stack_map_no_panic cl ds : stack_map cl ds <> Panic.
Proof. unfold stack_map. destruct ((cl =? 0) || (u16_max <? cl)); [discriminate|apply frames_no_panic]. Qed.

(* ---------------------------------------------------------------- read_u8_vec *)

Theorem read_u8_vec_no_panic declared remaining : read_u8_vec declared remaining <> Panic.
Proof.
  unfold read_u8_vec, alloc_ok.
  destruct (N.leb_spec (N.max (N.min declared 65536) (2 * N.min declared remaining)) (65536 + 2 * remaining)) as [H|H]; cbn [negb].
  - destruct (declared <=? remaining); discriminate.
  - exfalso. lia.
Qed.

Theorem read_u8_vec_spec declared remaining :
  read_u8_vec declared remaining = Done tt <-> declared <= remaining.
Proof.
  pose proof (read_u8_vec_no_panic declared remaining) as Hn. revert Hn.
  unfold read_u8_vec. destruct (negb _); [congruence|]. intros _.
  destruct (N.leb_spec declared remaining); split; try discriminate; try lia; auto.
Qed.

(* ---------------------------------------------------------------- F17 (known finding) *)

Theorem shared_args_no_panic_partial k a len : known_class_F17 k a len = false -> shared_args_alloc k a len <> Panic.
Proof. unfold known_class_F17, shared_args_alloc. intros ->. discriminate. Qed.

(* 1000 invokedynamic instructions sharing 1000 arguments: a class of 7200 bytes *)
Theorem shared_args_refuted : exists k a len, known_class_F17 k a len = true /\ ~ (shared_args_alloc k a len <> Panic).
Proof. exists 1000, 1000, 7200. split; [vm_compute; reflexivity|]. intros H. apply H. vm_compute. reflexivity. Qed.

(* the unrestricted statement: NOT proved (and false, by shared_args_refuted) *)
Definition shared_args_no_panic_full : Prop := forall k a len, shared_args_alloc k a len <> Panic.

(* ---------------------------------------------------------------- nesting limits *)

Lemma read_nest_no_panic : forall fuel nesting t,
  nesting <= 65 -> (67 <= fuel + N.to_nat nesting)%nat -> read_nest fuel (Some max_nesting) nesting t <> Panic.
Proof.
  induction fuel as [|f IH]; intros nesting t Hn Hf.
  - exfalso. lia.
  - cbn [read_nest]. destruct t as [|cs]; [discriminate|].
    unfold max_nesting. destruct (N.ltb_spec 64 (nesting + 1)) as [Hlt|Hge]; [discriminate|].
    induction cs as [|x cs IHcs]; [discriminate|].
    destruct (read_nest f (Some 64) (nesting + 1) x) as [[]| |] eqn:E; cbn [obind].
    + exact IHcs.
    + discriminate.
    + exfalso. apply (IH (nesting + 1) x); [lia|lia|exact E].
Qed.

Theorem nesting_no_panic t : read_nest nest_fuel (Some max_nesting) 0 t <> Panic.
Proof. apply read_nest_no_panic; unfold nest_fuel; cbn; lia. Qed.

Theorem element_value_chain_no_panic d : element_value_chain d <> Panic.
Proof. apply nesting_no_panic. Qed.
Theorem enigma_class_chain_no_panic d : enigma_class_chain d <> Panic.
Proof. unfold enigma_class_chain. destruct (N.to_nat d); [discriminate|apply nesting_no_panic]. Qed.

(* ---------------------------------------------------------------- bootstrap arguments *)

Lemma resolve_no_panic : forall fuel pool bsms idx nesting budget,
  nesting <= 65 -> (67 <= fuel + N.to_nat nesting)%nat ->
  resolve fuel (Some max_nesting) pool bsms idx nesting budget <> Panic.
Proof.
  induction fuel as [|f IH]; intros pool bsms idx nesting budget Hn Hf.
  - exfalso. lia.
  - cbn [resolve].
    destruct (if 0 <? nesting then if budget =? 0 then Fail else Done (budget - 1) else Done budget) as [b1| |] eqn:Eb;
      cbn [obind]; [|discriminate|].
    2:{ destruct (0 <? nesting); [destruct (budget =? 0)|]; discriminate. }
    destruct (nth_N pool idx) as [[b| |]|]; try discriminate.
    unfold max_nesting. destruct (N.ltb_spec 64 nesting) as [Hlt|Hge]; [discriminate|].
    destruct (nth_N bsms b) as [args|]; [|discriminate].
    generalize b1. induction args as [|a args IHa]; intros bud; [discriminate|].
    destruct (resolve f (Some 64) pool bsms a (nesting + 1) bud) as [bud'| |] eqn:E; cbn [obind].
    + apply IHa.
    + discriminate.
    + exfalso. apply (IH pool bsms a (nesting + 1) bud); [lia|lia|exact E].
Qed.

Theorem bootstrap_no_panic pool bsms idx indy budget :
  resolve resolve_fuel (Some max_nesting) pool bsms idx (if indy : bool then 1 else 0) budget <> Panic.
Proof. apply resolve_no_panic; unfold resolve_fuel; destruct indy; cbn; lia. Qed.

(* more stack never changes an answer that is not Panic (so the particular fuel 67 is immaterial) *)
Definition resolve_body (rec : N -> N -> N -> out N) (limit : option N) (pool : list pentry) (bsms : list (list N))
    (idx nesting budget : N) : out N :=
  let! budget1 := (if 0 <? nesting then (if budget =? 0 then Fail else Done (budget - 1)) else Done budget) in
  match nth_N pool idx with
  | None => Fail
  | Some PLeaf => Done budget1
  | Some POther => Fail
  | Some (PDyn b) =>
      if (match limit with Some m => m <? nesting | None => false end) then Fail else
      match nth_N bsms b with
      | None => Fail
      | Some args =>
          (fix go (args : list N) (bud : N) : out N :=
             match args with
             | [] => Done bud
             | a :: rest => let! bud' := rec a (nesting + 1) bud in go rest bud'
             end) args budget1
      end
  end.
Lemma resolve_S f limit pool bsms idx nesting budget :
  resolve (S f) limit pool bsms idx nesting budget = resolve_body (resolve f limit pool bsms) limit pool bsms idx nesting budget.
Proof. reflexivity. Qed.

Lemma resolve_fuel_mono : forall fuel limit pool bsms idx nesting budget r,
  resolve fuel limit pool bsms idx nesting budget = r -> r <> Panic ->
  resolve (S fuel) limit pool bsms idx nesting budget = r.
Proof.
  induction fuel as [|f IH]; intros limit pool bsms idx nesting budget r H Hr.
  - cbn in H. congruence.
  - rewrite resolve_S in H. rewrite resolve_S. unfold resolve_body in *.
    destruct (if 0 <? nesting then if budget =? 0 then Fail else Done (budget - 1) else Done budget) as [b1| |];
      cbn [obind] in *; try exact H.
    destruct (nth_N pool idx) as [[b| |]|]; try exact H.
    destruct (match limit with Some m => m <? nesting | None => false end); [exact H|].
    destruct (nth_N bsms b) as [args|]; [|exact H].
    revert H. generalize b1. induction args as [|a args IHa]; intros bud H; [exact H|].
    destruct (resolve f limit pool bsms a (nesting + 1) bud) as [bud'| |] eqn:E.
    + rewrite (IH _ _ _ _ _ _ _ E) by discriminate. cbn [obind] in *. apply IHa. exact H.
    + rewrite (IH _ _ _ _ _ _ _ E) by discriminate. cbn [obind] in *. exact H.
    + cbn [obind] in H. congruence.
Qed.

(* ---------------------------------------------------------------- text lines *)

Lemma count_tabs_le l : (count_tabs l <= length l)%nat.
Proof. induction l as [|b r IH]; cbn [count_tabs length]; [lia|]. destruct (b =? cTAB); lia. Qed.

Lemma in_range_spec lo hi x : in_range lo hi x = true <-> lo <= x <= hi.
Proof. unfold in_range. rewrite andb_true_iff, !N.leb_le. tauto. Qed.

Lemma utf8_first_not_cont l b :
  utf8_valid l = true -> nth_error l (count_tabs l) = Some b -> is_cont b = false.
Proof.
  induction l as [|x r IH]; intros Hv Hn; cbn [count_tabs] in Hn.
  - discriminate.
  - destruct (N.eqb_spec x cTAB) as [->|Hx].
    + cbn [nth_error] in Hn. apply IH; [|exact Hn].
      unfold cTAB in Hv. cbn [utf8_valid] in Hv. exact Hv.
    + cbn [nth_error] in Hn. injection Hn as <-.
      cbn [utf8_valid] in Hv. unfold is_cont.
      destruct (N.ltb_spec x 128) as [H1|H1].
      * destruct (N.leb_spec 128 x); [lia|reflexivity].
      * destruct (in_range 194 223 x) eqn:E2.
        { apply in_range_spec in E2. destruct (N.ltb_spec x 192); [lia|apply andb_false_r]. }
        destruct (in_range 224 239 x) eqn:E3.
        { apply in_range_spec in E3. destruct (N.ltb_spec x 192); [lia|apply andb_false_r]. }
        destruct (in_range 240 244 x) eqn:E4.
        { apply in_range_spec in E4. destruct (N.ltb_spec x 192); [lia|apply andb_false_r]. }
        discriminate.
Qed.

Theorem text_line_no_panic l : text_line l <> Panic.
Proof.
  unfold text_line. destruct (utf8_valid l) eqn:Ev; [|discriminate].
  unfold slice_from. pose proof (count_tabs_le l) as Hle.
  destruct (Nat.ltb_spec (length l) (count_tabs l)); [lia|].
  destruct (nth_error l (count_tabs l)) as [b|] eqn:En; [|discriminate].
  rewrite (utf8_first_not_cont l b Ev En). discriminate.
Qed.

(* without the UTF-8 guarantee of `String` the slice can panic: tab, then a continuation byte *)
Example slice_needs_utf8 : slice_from [cTAB; 169] (count_tabs [cTAB; 169]) = Panic.
Proof. reflexivity. Qed.

(* ---------------------------------------------------------------- descriptors *)

Theorem descriptor_total s : (exists t, parse_field s = Ok t) \/ parse_field s = Err.
Proof. destruct (parse_field s) as [t|]; [left; exists t; reflexivity|right; reflexivity]. Qed.
Theorem method_descriptor_total s : (exists m, parse_method s = Ok m) \/ parse_method s = Err.
Proof. destruct (parse_method s) as [t|]; [left; exists t; reflexivity|right; reflexivity]. Qed.
Theorem return_descriptor_total s : (exists r, parse_return s = Ok r) \/ parse_return s = Err.
Proof. destruct (parse_return s) as [t|]; [left; exists t; reflexivity|right; reflexivity]. Qed.
Theorem desc_no_panic k s : desc_out k s <> Panic.
Proof.
  unfold desc_out. destruct k as [|[p|p|]].
  - destruct (parse_field s); discriminate.
  - destruct (parse_return s); discriminate.
  - destruct (parse_return s); discriminate.
  - destruct (parse_method s); discriminate.
Qed.

(* ---------------------------------------------------------------- the code before the fixes *)

(* The model can express every failure the harness observed on the pinned tree: the unrepaired
   variants reach Panic on the (minimised) witnesses. *)
Definition unrepaired_witnesses : Prop :=
  get_or_create_range_unrepaired 8 1 65535 = Panic                       (* start_pc + length *)
  /\ frames_unrepaired 4 true 0 [0; 65535] = Panic                      (* offset_delta + 1 *)
  /\ frames_unrepaired 65535 true 0 [40000; 40000] = Panic              (* offset += ... *)
  /\ read_u8_vec_unrepaired 4294967295 0 = Panic                        (* vec![0; attribute_length] *)
  /\ resolve 1000 None (boot_pool [[0]]) [[0]] 0 0 max_expanded = Panic (* constant is its own argument *)
  /\ read_nest 1000 None 0 (chain 2000) = Panic                         (* element values 2000 deep *)
  /\ tableswitch_count_unrepaired i32_min i32_max = Panic               (* high - low *)
  /\ tableswitch_count_unrepaired 0 i32_max = Panic.                    (* ... + 1 *)
Lemma unrepaired_witnesses_hold : unrepaired_witnesses.
Proof. unfold unrepaired_witnesses. repeat split; vm_compute; reflexivity. Qed.
