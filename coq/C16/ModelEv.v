(* C16 model: the three mutually recursive element_value readers of duke/src/class_reader.rs

     read_element_values_named    (the pairs of an annotation)        [FNamed]  checks the limit
     read_element_values_unnamed  (the elements of an array)          [FArray]  checks the limit
     read_element_value_unnamed   (one array element / default value) [FElem]   no check

   and their five recursive calls, each with the nesting it passes on ([ev_incs]: true = `nesting + 1`,
   false = `nesting`).  translate/c16_sites.py reads the five calls, the limit checks and the limit
   from the source (SitesGen.ev_calls / ev_checks / ev_limit); [incs_of] turns the generated list
   into an [ev_incs], so the theorems of TheoryEv.v are about the increments the source has NOW.
   One call = one frame of the Rust stack = one unit of fuel; out of fuel = Panic (stack overflow).
   Definitions only. *)
From FB Require Export C16.Model.
From Coq Require Import String.

Inductive ev := EvConst | EvAnnot (pairs : list ev) | EvArray (elems : list ev).
Inductive evfn := FNamed | FArray | FElem.

Record ev_incs := mkIncs {
  i_named_annot : bool;    (* read_element_values_named, tag `@`  -> read_element_values_named *)
  i_named_array : bool;    (* read_element_values_named, tag `[`  -> read_element_values_unnamed *)
  i_array_elem : bool;     (* read_element_values_unnamed         -> read_element_value_unnamed (per element) *)
  i_elem_annot : bool;     (* read_element_value_unnamed, tag `@` -> read_element_values_named *)
  i_elem_array : bool      (* read_element_value_unnamed, tag `[` -> read_element_values_unnamed *)
}.
Definition bump (b : bool) (n : nat) : nat := if b then S n else n.

Fixpoint ev_read (incs : ev_incs) (limit : nat) (fuel : nat) (f : evfn) (nesting : nat) (arg : list ev) : out unit :=
  match fuel with
  | O => Panic
  | S fu =>
      match f with
      | FNamed =>
          if (limit <? nesting)%nat then Fail else
          (fix go (ps : list ev) : out unit :=
             match ps with
             | [] => Done tt
             | p :: r =>
                 let! _ := (match p with
                            | EvConst => Done tt
                            | EvAnnot ps' => ev_read incs limit fu FNamed (bump (i_named_annot incs) nesting) ps'
                            | EvArray es => ev_read incs limit fu FArray (bump (i_named_array incs) nesting) es
                            end) in
                 go r
             end) arg
      | FArray =>
          if (limit <? nesting)%nat then Fail else
          (fix go (es : list ev) : out unit :=
             match es with
             | [] => Done tt
             | e :: r => let! _ := ev_read incs limit fu FElem (bump (i_array_elem incs) nesting) [e] in go r
             end) arg
      | FElem =>
          match arg with
          | [EvConst] => Done tt
          | [EvAnnot ps] => ev_read incs limit fu FNamed (bump (i_elem_annot incs) nesting) ps
          | [EvArray es] => ev_read incs limit fu FArray (bump (i_elem_array incs) nesting) es
          | _ => Fail
          end
      end
  end.

(* the increments as the source has them: every call adds one except array -> element *)
Definition incs_expected : ev_incs := mkIncs true true false true true.
(* the seeded change C16-b3: annotation -> array and array element -> annotation stop counting *)
Definition incs_b3 : ev_incs := mkIncs true false false false true.
(* each of the two alone *)
Definition incs_b3_first : ev_incs := mkIncs true false false true true.
Definition incs_b3_second : ev_incs := mkIncs true true false false true.

(* from the generated call list *)
Definition nest_arg (calls : list (string * string * string)) (caller callee : string) : option bool :=
  match filter (fun x => (String.eqb (fst (fst x)) caller && String.eqb (snd (fst x)) callee)%bool) calls with
  | [x] => if String.eqb (snd x) "nesting + 1" then Some true else if String.eqb (snd x) "nesting" then Some false else None
  | _ => None
  end.
Definition incs_of (calls : list (string * string * string)) : option ev_incs :=
  let named := "read_element_values_named"%string in
  let arr := "read_element_values_unnamed"%string in
  let elem := "read_element_value_unnamed"%string in
  match nest_arg calls named named, nest_arg calls named arr, nest_arg calls arr elem, nest_arg calls elem named, nest_arg calls elem arr with
  | Some a, Some b, Some c, Some d, Some e => if Nat.eqb (List.length calls) 5 then Some (mkIncs a b c d e) else None
  | _, _, _, _, _ => None
  end.
Definition checks_expected : list (string * list string) :=
  [("read_element_value_unnamed"%string, []);
   ("read_element_values_named"%string, ["> MAX_ELEMENT_VALUE_NESTING"%string]);
   ("read_element_values_unnamed"%string, ["> MAX_ELEMENT_VALUE_NESTING"%string])].

(* a rank for the three functions: calls that do not increase the nesting go strictly down in
   rank (so they cannot form a cycle), the self call of FNamed always counts *)
Definition rank_ok (incs : ev_incs) (c : evfn -> nat) : bool :=
  i_named_annot incs
  && (i_named_array incs || (c FArray <? c FNamed)%nat)
  && (i_array_elem incs || (c FElem <? c FArray)%nat)
  && (i_elem_annot incs || (c FNamed <? c FElem)%nat)
  && (i_elem_array incs || (c FArray <? c FElem)%nat)
  && (c FNamed <=? 2)%nat && (c FArray <=? 2)%nat && (c FElem <=? 2)%nat.
(* the rank that works whenever one exists: the length of the longest chain of calls that do not
   increase the nesting, starting from the function *)
Definition zero_succ (incs : ev_incs) (f : evfn) : list evfn :=
  match f with
  | FNamed => if i_named_array incs then [] else [FArray]
  | FArray => if i_array_elem incs then [] else [FElem]
  | FElem => (if i_elem_annot incs then [] else [FNamed]) ++ (if i_elem_array incs then [] else [FArray])
  end.
Fixpoint longest (incs : ev_incs) (k : nat) (f : evfn) : nat :=
  match k with
  | O => O
  | S k' => fold_right (fun g m => Nat.max (S (longest incs k' g)) m) O (zero_succ incs f)
  end.
Definition rank_of (incs : ev_incs) (f : evfn) : nat := longest incs 3 f.

(* frames that always suffice when a rank exists: three per nesting level up to limit + 3 *)
Definition ev_fuel (limit : nat) : nat := 3 * (limit + 3) + 3.

(* the chains of the harness: [depth] containers around one constant.
   mode 0 arrays, 1 annotations, 2 alternating with an array outermost, 3 alternating with an annotation outermost *)
Fixpoint ev_chain (mode : nat) (depth : nat) (i : nat) : ev :=
  match depth with
  | O => EvConst
  | S d =>
      let annotation := match mode with
                        | O => false | S O => true
                        | S (S O) => Nat.odd i
                        | _ => Nat.even i
                        end in
      if annotation then EvAnnot [ev_chain mode d (S i)] else EvArray [ev_chain mode d (S i)]
  end.
