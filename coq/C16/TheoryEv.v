(* C16 theory: the recursion depth of the element_value readers (ModelEv.v) is bounded exactly
   when every cycle of recursive calls increases `nesting`; stated for the increments read from
   the source by translate/c16_sites.py. *)
From FB Require Import C16.Model C16.ModelEv C16.SitesGen.
From Coq Require Import Lia String.

(* a checking function entered above the limit fails at once *)
Lemma ev_read_high incs limit fu f n arg :
  (limit < n)%nat -> f <> FElem -> ev_read incs limit (S fu) f n arg = Fail.
Proof.
  intros Hn Hf. cbn [ev_read]. destruct f; [| |contradiction].
  - destruct (Nat.ltb_spec limit n); [reflexivity|lia].
  - destruct (Nat.ltb_spec limit n); [reflexivity|lia].
Qed.

Lemma rank_ok_facts incs c : rank_ok incs c = true ->
  i_named_annot incs = true
  /\ (i_named_array incs = false -> (c FArray < c FNamed)%nat)
  /\ (i_array_elem incs = false -> (c FElem < c FArray)%nat)
  /\ (i_elem_annot incs = false -> (c FNamed < c FElem)%nat)
  /\ (i_elem_array incs = false -> (c FArray < c FElem)%nat)
  /\ (c FNamed <= 2)%nat /\ (c FArray <= 2)%nat /\ (c FElem <= 2)%nat.
Proof.
  unfold rank_ok. intros H.
  repeat (apply andb_true_iff in H; destruct H as [H ?]).
  repeat match goal with
         | X : (_ <=? _)%nat = true |- _ => apply Nat.leb_le in X
         | X : (_ || _)%bool = true |- _ => apply orb_true_iff in X
         end.
  repeat split; auto; intros E;
    match goal with
    | X : _ = true \/ (_ <? _)%nat = true |- _ => destruct X as [X|X]; [congruence|apply Nat.ltb_lt in X; exact X]
    end.
Qed.

Lemma ev_read_np incs c limit : rank_ok incs c = true ->
  forall fuel f n arg, (n <= limit + 2)%nat -> (3 * (limit + 3 - n) + c f < fuel)%nat ->
  ev_read incs limit fuel f n arg <> Panic.
Proof.
  intros Hr. destruct (rank_ok_facts _ _ Hr) as (Ha & Hb & Hc & Hd & He & HN & HA & HE).
  induction fuel as [|fu IH]; intros f n arg Hn Hf; [lia|].
  cbn [ev_read]. destruct f.
  - (* FNamed *)
    destruct (Nat.ltb_spec limit n) as [Hlt|Hge]; [discriminate|].
    induction arg as [|p r IHr]; [discriminate|].
    assert (Hp : (match p with
                  | EvConst => Done tt
                  | EvAnnot ps' => ev_read incs limit fu FNamed (bump (i_named_annot incs) n) ps'
                  | EvArray es => ev_read incs limit fu FArray (bump (i_named_array incs) n) es
                  end) <> Panic).
    { destruct p as [|ps'|es]; [discriminate| |].
      - rewrite Ha. cbn [bump]. apply IH; lia.
      - destruct (i_named_array incs) eqn:Eb; cbn [bump].
        + apply IH; lia.
        + specialize (Hb eq_refl). apply IH; lia. }
    destruct (match p with EvConst => Done tt | EvAnnot ps' => _ | EvArray es => _ end) as [[]| |]; cbn [obind];
      [exact IHr|discriminate|contradiction].
  - (* FArray *)
    destruct (Nat.ltb_spec limit n) as [Hlt|Hge]; [discriminate|].
    induction arg as [|e r IHr]; [discriminate|].
    assert (Hp : ev_read incs limit fu FElem (bump (i_array_elem incs) n) [e] <> Panic).
    { destruct (i_array_elem incs) eqn:Ec; cbn [bump].
      - apply IH; lia.
      - specialize (Hc eq_refl). apply IH; lia. }
    destruct (ev_read incs limit fu FElem (bump (i_array_elem incs) n) [e]) as [[]| |]; cbn [obind];
      [exact IHr|discriminate|contradiction].
  - (* FElem *)
    destruct arg as [|v [|w r]]; try discriminate. 2: destruct v; discriminate.
    destruct v as [|ps|es]; [discriminate| |].
    + destruct (i_elem_annot incs) eqn:Ed; cbn [bump].
      * destruct (Nat.leb_spec (S n) (limit + 2)) as [Hs|Hs]; [apply IH; lia|].
        destruct fu as [|fu']; [lia|]. rewrite ev_read_high; [discriminate|lia|discriminate].
      * specialize (Hd eq_refl). apply IH; lia.
    + destruct (i_elem_array incs) eqn:Ee; cbn [bump].
      * destruct (Nat.leb_spec (S n) (limit + 2)) as [Hs|Hs]; [apply IH; lia|].
        destruct fu as [|fu']; [lia|]. rewrite ev_read_high; [discriminate|lia|discriminate].
      * specialize (He eq_refl). apply IH; lia.
Qed.

(* every entry point (nesting 0), every value: [ev_fuel limit] frames suffice *)
Theorem ev_depth_bounded incs c limit : rank_ok incs c = true ->
  forall f arg, ev_read incs limit (ev_fuel limit) f 0 arg <> Panic.
Proof.
  intros Hr f arg. apply (ev_read_np incs c limit Hr); [lia|].
  destruct (rank_ok_facts _ _ Hr) as (_ & _ & _ & _ & _ & HN & HA & HE).
  unfold ev_fuel. destruct f; lia.
Qed.

(* ---- the source as it is now ---- *)
Definition incs_src : option ev_incs := incs_of ev_calls.

(* the limit checks are where the model has them (FNamed and FArray check, FElem does not) *)
Theorem ev_checks_as_modelled : ev_checks = checks_expected.
Proof. vm_compute. reflexivity. Qed.

(* whatever increments the source has now: they admit a rank (computed, checked by evaluation) *)
Definition src_ranked : bool :=
  match incs_src with Some incs => rank_ok incs (rank_of incs) | None => false end.
Lemma src_ranked_true : src_ranked = true.
Proof. vm_compute. reflexivity. Qed.

Theorem ev_depth_bounded_src : exists incs, incs_src = Some incs
  /\ rank_ok incs (rank_of incs) = true
  /\ forall f arg, ev_read incs ev_limit (ev_fuel ev_limit) f 0 arg <> Panic.
Proof.
  pose proof src_ranked_true as H. unfold src_ranked in H.
  destruct incs_src as [incs|]; [|discriminate].
  exists incs. split; [reflexivity|]. split; [exact H|].
  apply (ev_depth_bounded incs (rank_of incs)). exact H.
Qed.

(* either one of the two increments of the annotation -> array -> annotation cycle may go, the
   depth stays bounded (about twice as deep) ... *)
Theorem ev_single_removal_bounded :
  (forall f arg, ev_read incs_b3_first 64 (ev_fuel 64) f 0 arg <> Panic)
  /\ (forall f arg, ev_read incs_b3_second 64 (ev_fuel 64) f 0 arg <> Panic).
Proof.
  split.
  - apply (ev_depth_bounded incs_b3_first (rank_of incs_b3_first)). vm_compute. reflexivity.
  - apply (ev_depth_bounded incs_b3_second (rank_of incs_b3_second)). vm_compute. reflexivity.
Qed.

(* ... but not both: then no rank exists and, whatever the stack, some class file overflows it *)
Fixpoint alt (k : nat) : ev := match k with O => EvConst | S k' => EvArray [EvAnnot [alt k']] end.

Lemma ev_b3_unbounded_from : forall fuel k n, (n <= 64)%nat -> (fuel <= 3 * k)%nat ->
  ev_read incs_b3 64 fuel FNamed n [alt k] = Panic.
Proof.
  induction fuel as [fuel IH] using lt_wf_ind. intros k n Hn Hk.
  destruct fuel as [|fu]; [reflexivity|].
  destruct k as [|k']; [lia|].
  cbn [ev_read alt]. destruct (Nat.ltb_spec 64 n); [lia|].
  cbn [incs_b3 i_named_array bump].
  destruct fu as [|fu2]; [reflexivity|].
  cbn [ev_read]. destruct (Nat.ltb_spec 64 n); [lia|].
  cbn [incs_b3 i_array_elem bump].
  destruct fu2 as [|fu3]; [reflexivity|].
  cbn [ev_read]. cbn [incs_b3 i_elem_annot bump].
  rewrite (IH fu3); [reflexivity|lia|exact Hn|lia].
Qed.

Theorem ev_b3_unbounded : rank_ok incs_b3 (rank_of incs_b3) = false /\
  forall fuel, exists v, ev_read incs_b3 64 fuel FNamed 0 [v] = Panic.
Proof.
  split; [vm_compute; reflexivity|].
  intros fuel. exists (alt fuel). apply ev_b3_unbounded_from; lia.
Qed.

(* the boundaries that the correspondence run compares (depth counted in containers) *)
Theorem ev_boundaries :
  ev_read incs_expected 64 (ev_fuel 64) FNamed 0 [ev_chain 0 64 0] = Done tt
  /\ ev_read incs_expected 64 (ev_fuel 64) FNamed 0 [ev_chain 0 65 0] = Fail
  /\ ev_read incs_expected 64 (ev_fuel 64) FNamed 0 [ev_chain 2 64 0] = Done tt
  /\ ev_read incs_expected 64 (ev_fuel 64) FNamed 0 [ev_chain 2 65 0] = Fail
  /\ ev_read incs_expected 64 (ev_fuel 64) FNamed 0 [ev_chain 3 65 0] = Fail
  /\ ev_read incs_b3_first 64 (ev_fuel 64) FNamed 0 [ev_chain 2 127 0] = Done tt
  /\ ev_read incs_b3_first 64 (ev_fuel 64) FNamed 0 [ev_chain 2 130 0] = Fail
  /\ ev_read incs_b3 64 (ev_fuel 64) FNamed 0 [ev_chain 2 130 0] = Done tt
  /\ ev_read incs_b3 64 (ev_fuel 64) FNamed 0 [ev_chain 2 1000 0] = Panic.
Proof. repeat split; vm_compute; reflexivity. Qed.

(* ---- what an accepted element value looks like (the class writer recurses over it) ---- *)
Fixpoint ev_depth (v : ev) : nat :=
  match v with
  | EvConst => O
  | EvAnnot ps => S (fold_right Nat.max O (map ev_depth ps))
  | EvArray es => S (fold_right Nat.max O (map ev_depth es))
  end.
Definition depth_all (l : list ev) : nat := fold_right Nat.max O (map ev_depth l).
Lemma ev_depth_annot ps : ev_depth (EvAnnot ps) = S (depth_all ps).
Proof. reflexivity. Qed.
Lemma ev_depth_array es : ev_depth (EvArray es) = S (depth_all es).
Proof. reflexivity. Qed.
Lemma depth_all_cons x r : depth_all (x :: r) = Nat.max (ev_depth x) (depth_all r).
Proof. reflexivity. Qed.

(* with the increments of the source (every container adds one): what is read at nesting n without
   an error has at most limit - n containers inside one another *)
Lemma ev_accepted_shallow limit : forall fuel f n arg,
  ev_read incs_expected limit fuel f n arg = Done tt ->
  (f <> FElem -> n <= limit)%nat /\ (depth_all arg = 0 \/ depth_all arg + n <= limit)%nat.
Proof.
  induction fuel as [|fu IH]; intros f n arg; [discriminate|].
  cbn [ev_read]. destruct f.
  - destruct (Nat.ltb_spec limit n) as [Hlt|Hge]; [discriminate|].
    intros H. split; [intros _; exact Hge|]. revert H.
    induction arg as [|p r IHr]; [intros _; left; reflexivity|].
    destruct (match p with EvConst => Done tt | EvAnnot ps' => _ | EvArray es => _ end) as [[]| |] eqn:Ep; cbn [obind]; try discriminate.
    intros Hr. specialize (IHr Hr). rewrite depth_all_cons.
    destruct p as [|ps'|es].
    + cbn [ev_depth]. destruct IHr as [IHr|IHr]; [left; lia|right; lia].
    + cbn [incs_expected i_named_annot bump] in Ep. apply IH in Ep. destruct Ep as [Ec Ed].
      assert (Hc : (S n <= limit)%nat) by (apply Ec; discriminate).
      rewrite ev_depth_annot. right. destruct Ed as [Ed|Ed]; destruct IHr as [IHr|IHr]; lia.
    + cbn [incs_expected i_named_array bump] in Ep. apply IH in Ep. destruct Ep as [Ec Ed].
      assert (Hc : (S n <= limit)%nat) by (apply Ec; discriminate).
      rewrite ev_depth_array. right. destruct Ed as [Ed|Ed]; destruct IHr as [IHr|IHr]; lia.
  - destruct (Nat.ltb_spec limit n) as [Hlt|Hge]; [discriminate|].
    intros H. split; [intros _; exact Hge|]. revert H.
    induction arg as [|e r IHr]; [intros _; left; reflexivity|].
    destruct (ev_read incs_expected limit fu FElem (bump (i_array_elem incs_expected) n) [e]) as [[]| |] eqn:Ee; cbn [obind]; try discriminate.
    intros Hr. specialize (IHr Hr). rewrite depth_all_cons.
    cbn [incs_expected i_array_elem bump] in Ee. apply IH in Ee. destruct Ee as [_ Ee]. rewrite depth_all_cons in Ee. change (depth_all []) with O in Ee.
    rewrite Nat.max_0_r in Ee.
    destruct Ee as [Ee|Ee]; destruct IHr as [IHr|IHr]; [left|right|right|right]; lia.
  - intros H. split; [intros Hx; contradiction|]. revert H.
    destruct arg as [|v [|w r]]; try discriminate. 2: destruct v; discriminate.
    rewrite depth_all_cons. change (depth_all []) with O. rewrite Nat.max_0_r.
    destruct v as [|ps|es].
    + intros _. left. reflexivity.
    + cbn [incs_expected i_elem_annot bump]. intros H. apply IH in H. destruct H as [Ec Ed].
      assert (Hc : (S n <= limit)%nat) by (apply Ec; discriminate).
      rewrite ev_depth_annot. right. destruct Ed as [Ed|Ed]; lia.
    + cbn [incs_expected i_elem_array bump]. intros H. apply IH in H. destruct H as [Ec Ed].
      assert (Hc : (S n <= limit)%nat) by (apply Ec; discriminate).
      rewrite ev_depth_array. right. destruct Ed as [Ed|Ed]; lia.
Qed.

(* an accepted annotation / default value never nests more than 64 containers: the recursion of the
   class writer over it (write_element_value_unnamed <-> write_element_values_named <->
   write_element_values_unnamed) is at most 3 * 64 + 3 frames deep *)
Theorem ev_accepted_depth fuel f arg v :
  ev_read incs_expected 64 fuel f 0 arg = Done tt -> In v arg -> (ev_depth v <= 64)%nat.
Proof.
  intros H Hin. apply ev_accepted_shallow in H. destruct H as [_ H].
  assert (Hle : (ev_depth v <= depth_all arg)%nat).
  { clear H. induction arg as [|x r IH]; [contradiction|]. rewrite depth_all_cons.
    destruct Hin as [->|Hin]; [lia|]. specialize (IH Hin). lia. }
  lia.
Qed.
