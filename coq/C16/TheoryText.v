(* C16 theory, text part 1: the whole text parsers of ModelText.v never reach Panic.
   (Part 2, TheoryText2.v: unescape on chars = unescape on bytes.) *)
From FB Require Import C16.Model C16.ModelText C16.Theory C18.Model.
From Coq Require Import Lia.

Arguments N.add : simpl never.
Arguments N.mul : simpl never.
Arguments N.sub : simpl never.
Arguments N.leb : simpl never.
Arguments N.ltb : simpl never.
Arguments N.eqb : simpl never.

(* ---------------------------------------------------------------- tools *)

Lemma obind_np {A B} (r : out A) (k : A -> out B) :
  r <> Panic -> (forall a, r = Done a -> k a <> Panic) -> obind r k <> Panic.
Proof. destruct r as [a| |]; cbn [obind]; intros H1 H2; [apply H2; reflexivity|discriminate|contradiction]. Qed.

Lemma obind_done {A B} (r : out A) (k : A -> out B) b :
  obind r k = Done b -> exists a, r = Done a /\ k a = Done b.
Proof. destruct r as [a| |]; cbn [obind]; intros H; [exists a; auto|discriminate|discriminate]. Qed.

Create HintDb np.

Ltac np_step :=
  match goal with
  | |- Done _ <> Panic => discriminate
  | |- Fail <> Panic => discriminate
  | |- obind ?r ?k <> Panic => apply obind_np; [try solve [eauto with np] | intros ? ?]
  | |- _ <> Panic => solve [eauto with np]
  | |- (match ?x with _ => _ end) <> Panic => destruct x
  end.
Ltac np := repeat np_step.

(* ---------------------------------------------------------------- primitives *)

Lemma slice_tabs_np l : utf8_valid l = true -> slice_from l (count_tabs l) <> Panic.
Proof. intros Hv. pose proof (text_line_no_panic l) as H. unfold text_line in H. rewrite Hv in H. exact H. Qed.

Lemma from_str_radix_np max s radix : 2 <= radix <= 36 -> from_str_radix max s radix <> Panic.
Proof.
  intros Hr. unfold from_str_radix.
  destruct (N.ltb_spec radix 2); [lia|]. destruct (N.ltb_spec 36 radix); [lia|]. cbn [orb].
  np.
Qed.
Lemma parse_usize_np s : parse_usize s <> Panic.
Proof. apply from_str_radix_np. lia. Qed.
Lemma parse_u16_np s : parse_u16 s <> Panic.
Proof. apply from_str_radix_np. lia. Qed.
Lemma parse_access_np s : parse_access s <> Panic.
Proof. unfold parse_access. np; try apply parse_u16_np; apply from_str_radix_np; lia. Qed.
#[export] Hint Resolve parse_usize_np parse_u16_np parse_access_np : np.

(* the model can express the failure of the radix precondition *)
Example from_str_radix_precondition : from_str_radix u16_max [49] 37 = Panic /\ from_str_radix u16_max [49] 1 = Panic.
Proof. split; reflexivity. Qed.

Lemma unescape_out_np s : unescape_out s <> Panic.
Proof. discriminate. Qed.
#[export] Hint Resolve unescape_out_np : np.

Lemma tiny_line_np l : utf8_valid l = true -> tiny_line l <> Panic.
Proof. intros Hv. unfold tiny_line. apply obind_np; [apply slice_tabs_np; exact Hv|]. intros r _. np. Qed.

Lemma enigma_line_np l : utf8_valid l = true -> enigma_line l <> Panic.
Proof. intros Hv. unfold enigma_line. apply obind_np; [apply slice_tabs_np; exact Hv|]. intros r _. np. Qed.

Lemma line_end_np fs : line_end fs <> Panic.
Proof. unfold line_end. np. Qed.
Lemma name_cell_np v s : name_cell v s <> Panic.
Proof. unfold name_cell. np. Qed.
#[export] Hint Resolve line_end_np name_cell_np : np.
Lemma name_cells_np v l : name_cells v l <> Panic.
Proof. induction l as [|s l IH]; cbn [name_cells]; np. Qed.
#[export] Hint Resolve name_cells_np : np.
Lemma into_names_np n v fs : into_names n v fs <> Panic.
Proof. unfold into_names. np. Qed.
Lemma first_name_np nm : first_name nm <> Panic.
Proof. unfold first_name. np. Qed.
Lemma action_np v fs : action v fs <> Panic.
Proof. unfold action, action_cell. np. Qed.
#[export] Hint Resolve into_names_np first_name_np action_np : np.

Lemma add_comment_np unesc doc fs : (forall s, unesc s <> Panic) -> add_comment unesc doc fs <> Panic.
Proof. intros Hu. unfold add_comment. np. Qed.
Lemma diff_comment_np unesc had fs : (forall s, unesc s <> Panic) -> diff_comment unesc had fs <> Panic.
Proof. intros Hu. unfold diff_comment. np. Qed.

(* ---------------------------------------------------------------- handlers *)

Lemma tiny_handle_np n unesc st cls l : (forall s, unesc s <> Panic) -> tiny_handle n unesc st cls l <> Panic.
Proof.
  intros Hu. pose proof (fun d fs => add_comment_np unesc d fs Hu) as Hc.
  unfold tiny_handle. destruct st as [|fr rest]; [discriminate|]. destruct fr; np.
Qed.

Lemma diff_handle_np unesc st cls l : (forall s, unesc s <> Panic) -> diff_handle unesc st cls l <> Panic.
Proof.
  intros Hu. pose proof (fun d fs => diff_comment_np unesc d fs Hu) as Hc.
  unfold diff_handle. destruct st as [|fr rest]; [discriminate|]. destruct fr; np.
Qed.

Lemma pat_class_np fs : pat_class fs <> Panic.
Proof. unfold pat_class. np. Qed.
Lemma pat_named_np fs : pat_named fs <> Panic.
Proof. unfold pat_named. np. Qed.
#[export] Hint Resolve pat_class_np pat_named_np : np.
Lemma parse_class_np limit par nesting fs : parse_class limit par nesting fs <> Panic.
Proof. unfold parse_class. np. Qed.
#[export] Hint Resolve parse_class_np : np.

Lemma enigma_handle_np limit st cls l : enigma_handle limit st cls l <> Panic.
Proof. unfold enigma_handle. destruct st as [|fr rest]; [discriminate|]. destruct fr; np. Qed.

Lemma tiny_close_np f s : tiny_close f s <> Panic.
Proof. discriminate. Qed.
Lemma diff_close_np f s : diff_close f s <> Panic.
Proof. discriminate. Qed.
Lemma enigma_close_np f s : enigma_close f s <> Panic.
Proof. unfold enigma_close. np. Qed.

(* ---------------------------------------------------------------- the indentation machine *)

Lemma settle_np {F S} (close : F -> S -> out S) :
  (forall f s, close f s <> Panic) -> forall st s i, settle close st s i <> Panic.
Proof.
  intros Hc. induction st as [|f rest IH]; intros s i; cbn [settle]; [discriminate|].
  destruct (i <? length rest)%nat.
  - apply obind_np; [apply Hc|]. intros s' _. apply IH.
  - destruct (length rest <? i)%nat; discriminate.
Qed.

Lemma settle_suffix {F S} (close : F -> S -> out S) : forall st s i st' s',
  settle close st s i = Done (st', s') -> exists pre, st = pre ++ st' /\ st' <> [].
Proof.
  induction st as [|f rest IH]; intros s i st' s'; cbn [settle]; [discriminate|].
  destruct (i <? length rest)%nat.
  - intros H. apply obind_done in H. destruct H as (s1 & _ & H). apply IH in H.
    destruct H as (pre & -> & Hne). exists (f :: pre). split; [reflexivity|exact Hne].
  - destruct (length rest <? i)%nat; [discriminate|]. intros [= <- <-]. exists []. split; [reflexivity|discriminate].
Qed.

Lemma close_all_np {F S} (close : F -> S -> out S) :
  (forall f s, close f s <> Panic) -> forall st s, close_all close st s <> Panic.
Proof.
  intros Hc. induction st as [|f rest IH]; intros s; cbn [close_all]; [discriminate|].
  apply obind_np; [apply Hc|]. intros s' _. apply IH.
Qed.

Definition within (limit : option nat) (n : nat) : Prop := match limit with Some m => (n <= m)%nat | None => True end.

(* [Inv]: an invariant of the frame stack that the handler preserves, that survives the end of
   inner loops, and that keeps the stack within the limit *)
Lemma run_lines_np {F S L} limit (mk : bytes -> out (option L)) ind (close : F -> S -> out S) handle (Inv : list F -> Prop) :
  (forall b, utf8_valid b = true -> mk b <> Panic) ->
  (forall f s, close f s <> Panic) ->
  (forall st s l, handle st s l <> Panic) ->
  (forall st s l st' s', Inv st -> handle st s l = Done (st', s') -> Inv st' /\ within limit (length st')) ->
  (forall pre st, Inv (pre ++ st) -> st <> [] -> Inv st) ->
  forall ls st s, Inv st -> run_lines limit mk ind close handle st s ls <> Panic.
Proof.
  intros Hmk Hcl Hh Hinv Hsuf. induction ls as [|raw ls IH]; intros st s HI; cbn [run_lines].
  - apply close_all_np. exact Hcl.
  - unfold line_of. destruct (utf8_valid raw) eqn:Ev; cbn [obind]; [|discriminate].
    destruct (mk raw) as [ol| |] eqn:Em; cbn [obind]; [|discriminate|exfalso; eapply Hmk; eauto].
    destruct ol as [l|]; [|apply IH; exact HI].
    destruct (settle close st s (ind l)) as [[st1 s1]| |] eqn:Es; cbn [obind];
      [|discriminate|exfalso; eapply (settle_np close Hcl); eauto].
    apply settle_suffix in Es. destruct Es as (pre & -> & Hne).
    assert (HI1 : Inv st1) by (eapply Hsuf; eauto).
    destruct (handle st1 s1 l) as [[st2 s2]| |] eqn:Eh; cbn [obind]; [|discriminate|exfalso; eapply Hh; eauto].
    destruct (Hinv _ _ _ _ _ HI1 Eh) as [HI2 Hw].
    destruct limit as [m|]; cbn [within] in Hw.
    + destruct (Nat.ltb_spec m (length st2)); [lia|]. apply IH. exact HI2.
    + apply IH. exact HI2.
Qed.

(* ---------------------------------------------------------------- tiny v2 and tiny diff *)

Theorem tiny_v2_with_no_panic unesc n input : (forall s, unesc s <> Panic) -> tiny_v2_with unesc n input <> Panic.
Proof.
  intros Hu. unfold tiny_v2_with. destruct (n <? 2)%nat; [discriminate|].
  destruct (raw_lines input) as [|h body]; [discriminate|].
  unfold line_of. destruct (utf8_valid h) eqn:Ev; cbn [obind]; [|discriminate].
  destruct (tiny_line h) as [ohl| |] eqn:Et; cbn [obind]; [|discriminate|exfalso; eapply tiny_line_np; eauto].
  destruct ohl as [hl|]; [|discriminate].
  apply obind_np; [unfold tiny_header; np|]. intros _ _.
  apply obind_np; [|intros; discriminate].
  apply (run_lines_np None tiny_line tl_ind tiny_close (tiny_handle n unesc) (fun _ => True)).
  - apply tiny_line_np.
  - apply tiny_close_np.
  - intros. apply tiny_handle_np. exact Hu.
  - intros. split; exact I.
  - intros. exact I.
  - exact I.
Qed.

Theorem tiny_v2_no_panic n input : tiny_v2_out n input <> Panic.
Proof. apply tiny_v2_with_no_panic. apply unescape_out_np. Qed.

Theorem tiny_diff_with_no_panic unesc input : (forall s, unesc s <> Panic) -> tiny_diff_with unesc input <> Panic.
Proof.
  intros Hu. unfold tiny_diff_with.
  destruct (raw_lines input) as [|h body]; [discriminate|].
  unfold line_of. destruct (utf8_valid h) eqn:Ev; cbn [obind]; [|discriminate].
  destruct (tiny_line h) as [ohl| |] eqn:Et; cbn [obind]; [|discriminate|exfalso; eapply tiny_line_np; eauto].
  destruct ohl as [hl|]; [|discriminate].
  apply obind_np; [unfold diff_header; np|]. intros _ _.
  apply obind_np; [|intros; discriminate].
  apply (run_lines_np None tiny_line tl_ind diff_close (diff_handle unesc) (fun _ => True)).
  - apply tiny_line_np.
  - apply diff_close_np.
  - intros. apply diff_handle_np. exact Hu.
  - intros. split; exact I.
  - intros. exact I.
  - exact I.
Qed.

Theorem tiny_diff_no_panic input : tiny_diff_out input <> Panic.
Proof. apply tiny_diff_with_no_panic. apply unescape_out_np. Qed.

(* the model can express the crash of a slicing unescape: a backslash before a two-byte character
   in a class comment (tiny v2) / in an added class comment (tiny diff) *)
Definition sliced_unescape_witnesses : Prop :=
  utf8_valid [92; 195; 169] = true /\ unescape_sliced_out [92; 195; 169] = Panic
  /\ unescape_out [92; 195; 169] = Done [92; 195; 169]
  /\ unescape_sliced_out [120; 92; 110; 92; 92; 92; 120; 195; 169; 92] = Done [120; 10; 92; 92; 120; 195; 169; 92]
  /\ tiny_v2_with unescape_sliced_out 2
       ([116;105;110;121;9;50;9;48;9;97;9;98;10] ++ [99;9;65;9;66;10] ++ [9;99;9;92;195;169;10]) = Panic
  /\ tiny_v2_out 2
       ([116;105;110;121;9;50;9;48;9;97;9;98;10] ++ [99;9;65;9;66;10] ++ [9;99;9;92;195;169;10]) = Done tt
  /\ tiny_diff_with unescape_sliced_out
       ([116;105;110;121;9;50;9;48;10] ++ [99;9;65;9;88;9;89;10] ++ [9;99;9;9;92;226;130;172;10]) = Panic
  /\ tiny_diff_out
       ([116;105;110;121;9;50;9;48;10] ++ [99;9;65;9;88;9;89;10] ++ [9;99;9;9;92;226;130;172;10]) = Done tt.
Lemma sliced_unescape_witnesses_hold : sliced_unescape_witnesses.
Proof. unfold sliced_unescape_witnesses. repeat split; vm_compute; reflexivity. Qed.

(* ---------------------------------------------------------------- nests *)

Lemma nests_line_np l : nests_line l <> Panic.
Proof. unfold nests_line. np. Qed.
#[export] Hint Resolve nests_line_np : np.

Theorem nests_no_panic input : nests_out input <> Panic.
Proof.
  unfold nests_out. induction (raw_lines input) as [|raw r IH]; cbn [nests_lines]; [discriminate|].
  unfold line_of. destruct (utf8_valid raw); cbn [obind]; [|discriminate].
  apply obind_np; [apply nests_line_np|]. intros _ _. exact IH.
Qed.

(* ---------------------------------------------------------------- Enigma *)

(* the CLASS frames above the root loop: a frame with nesting n sits on n + 1 frames *)
Fixpoint class_chain (st : list eframe) : bool :=
  match st with
  | [ETop] => true
  | EClass n _ _ _ _ :: rest => Nat.eqb (S n) (length rest) && (n <=? max_class_nesting)%nat && class_chain rest
  | _ => false
  end.
Definition enigma_ok (st : list eframe) : bool :=
  match st with
  | EParam :: EMethod _ :: cls => class_chain cls
  | EMethod _ :: cls => class_chain cls
  | EField :: cls => class_chain cls
  | _ => class_chain st
  end.

Lemma class_chain_len st : class_chain st = true -> (length st <= max_class_nesting + 2)%nat.
Proof.
  destruct st as [|f rest]; cbn [class_chain]; [discriminate|].
  destruct f; try discriminate.
  - destruct rest; [cbn; lia|discriminate].
  - intros H. apply andb_true_iff in H. destruct H as [H _]. apply andb_true_iff in H. destruct H as [H1 H2].
    apply Nat.eqb_eq in H1. apply Nat.leb_le in H2. cbn [length]. lia.
Qed.

Lemma class_chain_ok st : class_chain st = true -> enigma_ok st = true.
Proof. destruct st as [|f rest]; [discriminate|]. destruct f; cbn [enigma_ok class_chain]; try discriminate; auto. Qed.

Lemma enigma_ok_len st : enigma_ok st = true -> (length st <= enigma_max_frames)%nat.
Proof.
  unfold enigma_max_frames. destruct st as [|f rest]; [cbn; lia|].
  destruct f; cbn [enigma_ok]; intros H.
  - apply class_chain_len in H. unfold max_class_nesting in H. lia.
  - apply class_chain_len in H. unfold max_class_nesting in H. lia.
  - apply class_chain_len in H. unfold max_class_nesting in H. cbn [length] in *. lia.
  - apply class_chain_len in H. unfold max_class_nesting in H. cbn [length] in *. lia.
  - destruct rest as [|g rest']; [discriminate|]. destruct g; try discriminate.
    apply class_chain_len in H. unfold max_class_nesting in H. cbn [length] in *. lia.
Qed.

Lemma enigma_ok_tail f t : enigma_ok (f :: t) = true -> t <> [] -> enigma_ok t = true.
Proof.
  intros H Hne. destruct f; cbn [enigma_ok] in H.
  - (* ETop *) cbn [class_chain] in H. destruct t; [contradiction|discriminate].
  - (* EClass *) cbn [class_chain] in H. apply andb_true_iff in H. destruct H as [_ H]. apply class_chain_ok. exact H.
  - apply class_chain_ok. exact H.
  - apply class_chain_ok. exact H.
  - destruct t as [|g t']; [contradiction|]. destruct g; try discriminate. cbn [enigma_ok]. exact H.
Qed.

Lemma enigma_ok_suffix pre : forall st, enigma_ok (pre ++ st) = true -> st <> [] -> enigma_ok st = true.
Proof.
  induction pre as [|f pre IH]; intros st H Hne; [exact H|].
  apply IH; [|exact Hne]. apply (enigma_ok_tail f); [exact H|]. destruct pre; [exact Hne|discriminate].
Qed.

Lemma parse_class_done par nesting fs fr :
  parse_class (Some max_class_nesting) par nesting fs = Done fr ->
  exists src dst, fr = EClass nesting src dst [] [] /\ (nesting <= max_class_nesting)%nat.
Proof.
  unfold parse_class. destruct (Nat.ltb_spec max_class_nesting nesting) as [Hlt|Hge]; [discriminate|].
  intros H. apply obind_done in H. destruct H as ([src dst] & _ & H).
  destruct (negb _); [discriminate|]. injection H as <-. eexists _, _. split; [reflexivity|lia].
Qed.

Lemma enigma_handle_inv st cls l st' cls' :
  enigma_ok st = true -> enigma_handle (Some max_class_nesting) st cls l = Done (st', cls') -> enigma_ok st' = true.
Proof.
  unfold enigma_handle. destruct st as [|fr rest]; [discriminate|]. intros HI.
  destruct fr as [|n psrc pdst fds mds| |ps|].
  - (* ETop *)
    cbn [enigma_ok class_chain] in HI. destruct rest; [|discriminate].
    destruct (str_eqb (tl_first l) s_CLASS); [|discriminate].
    intros H. apply obind_done in H. destruct H as (fr & Hp & [= <- <-]).
    apply parse_class_done in Hp. destruct Hp as (src & dst & -> & Hn).
    cbn [enigma_ok class_chain length]. reflexivity.
  - (* EClass *)
    cbn [enigma_ok] in HI.
    destruct (str_eqb (tl_first l) s_CLASS).
    { intros H. apply obind_done in H. destruct H as (fr & Hp & [= <- <-]).
      apply parse_class_done in Hp. destruct Hp as (src & dst & -> & Hn).
      cbn [enigma_ok]. cbn [class_chain] in HI |- *.
      apply andb_true_iff in HI. destruct HI as [H1 H3]. apply andb_true_iff in H1. destruct H1 as [H1 H2].
      apply Nat.eqb_eq in H1.
      rewrite H3, H2. cbn [length]. rewrite <- H1.
      replace (Nat.eqb (S (n + 1)) (S (S n))) with true by (symmetry; apply Nat.eqb_eq; lia).
      replace (n + 1 <=? max_class_nesting)%nat with true by (symmetry; apply Nat.leb_le; exact Hn).
      rewrite Nat.eqb_refl. reflexivity. }
    destruct (str_eqb (tl_first l) s_FIELD).
    { intros H. apply obind_done in H. destruct H as ([[src dst] desc] & _ & H).
      destruct (negb _); [discriminate|]. destruct (has_key2 _ _); [discriminate|]. injection H as <- <-.
      cbn [enigma_ok]. exact HI. }
    destruct (str_eqb (tl_first l) s_METHOD).
    { intros H. apply obind_done in H. destruct H as ([[src dst] desc] & _ & H).
      destruct (negb _); [discriminate|]. destruct (has_key2 _ _); [discriminate|]. injection H as <- <-.
      cbn [enigma_ok]. exact HI. }
    destruct (str_eqb (tl_first l) s_COMMENT); [|discriminate]. intros [= <- <-]. exact HI.
  - (* EField *)
    destruct (str_eqb (tl_first l) s_COMMENT); [|discriminate]. intros [= <- <-]. exact HI.
  - (* EMethod *)
    destruct (str_eqb (tl_first l) s_ARG).
    { destruct (tl_fields l) as [|ri [|dst [|x y]]]; try discriminate.
      intros H. apply obind_done in H. destruct H as (i & _ & H).
      destruct (negb _); [discriminate|]. destruct (mem_N i ps); [discriminate|]. injection H as <- <-.
      cbn [enigma_ok] in HI |- *. exact HI. }
    destruct (str_eqb (tl_first l) s_COMMENT); [|discriminate]. intros [= <- <-]. exact HI.
  - (* EParam *)
    destruct (str_eqb (tl_first l) s_COMMENT); [|discriminate]. intros [= <- <-]. exact HI.
Qed.

(* the machine run of the Enigma reader: never more than 68 frames, never Panic *)
Theorem enigma_no_panic input : enigma_out input <> Panic.
Proof.
  unfold enigma_out, enigma_with. apply obind_np; [|intros; discriminate].
  apply (run_lines_np (Some enigma_max_frames) enigma_line tl_ind enigma_close
           (enigma_handle (Some max_class_nesting)) (fun st => enigma_ok st = true)).
  - apply enigma_line_np.
  - apply enigma_close_np.
  - intros. apply enigma_handle_np.
  - intros st s l st' s' HI Hh. pose proof (enigma_handle_inv _ _ _ _ _ HI Hh) as HI'.
    split; [exact HI'|]. cbn [within]. apply enigma_ok_len. exact HI'.
  - intros pre st H Hne. eapply enigma_ok_suffix; eauto.
  - reflexivity.
Qed.

(* without the nesting limit the frame stack grows with the input *)
Definition enigma_unrepaired_witnesses : Prop :=
  enigma_unrepaired (class_staircase 0 67) = Done tt /\ enigma_unrepaired (class_staircase 0 68) = Panic
  /\ enigma_out (class_staircase 0 65) = Done tt /\ enigma_out (class_staircase 0 66) = Fail
  /\ enigma_out (class_staircase 0 68) = Fail.
Lemma enigma_unrepaired_witnesses_hold : enigma_unrepaired_witnesses.
Proof. unfold enigma_unrepaired_witnesses. repeat split; vm_compute; reflexivity. Qed.

(* ---------------------------------------------------------------- non-vacuity: the fixtures of the harness are accepted *)
Definition fixture_tiny_ok : bytes := [116; 105; 110; 121; 9; 50; 9; 48; 9; 97; 9; 98; 10; 99; 9; 65; 9; 66; 10; 9; 99; 9; 99; 108; 97; 115; 115; 32; 100; 111; 99; 92; 110; 10; 9; 102; 9; 73; 9; 120; 9; 121; 10; 9; 9; 99; 9; 102; 105; 101; 108; 100; 32; 100; 111; 99; 10; 9; 109; 9; 40; 76; 65; 59; 41; 86; 9; 112; 9; 113; 10; 9; 9; 112; 9; 48; 9; 9; 97; 114; 103; 10; 9; 9; 9; 99; 9; 112; 97; 114; 97; 109; 32; 100; 111; 99; 10; 9; 9; 99; 9; 109; 101; 116; 104; 111; 100; 32; 100; 111; 99; 10; 99; 9; 65; 36; 66; 9; 66; 36; 67; 10].
Definition fixture_diff_ok : bytes := [116; 105; 110; 121; 9; 50; 9; 48; 10; 99; 9; 65; 9; 88; 9; 89; 10; 9; 99; 9; 111; 108; 100; 9; 110; 101; 119; 10; 9; 102; 9; 73; 9; 120; 9; 9; 121; 10; 9; 9; 99; 9; 9; 97; 100; 100; 101; 100; 10; 9; 109; 9; 40; 76; 65; 59; 41; 86; 9; 112; 9; 113; 9; 114; 10; 9; 9; 112; 9; 48; 9; 9; 9; 97; 114; 103; 10; 9; 9; 9; 99; 9; 97; 9; 98; 10; 9; 9; 99; 9; 109; 49; 9; 10].
Definition fixture_enigma_ok : bytes := [67; 76; 65; 83; 83; 32; 65; 32; 66; 10; 9; 67; 79; 77; 77; 69; 78; 84; 32; 99; 108; 97; 115; 115; 32; 100; 111; 99; 32; 35; 32; 110; 111; 116; 32; 97; 32; 99; 111; 109; 109; 101; 110; 116; 10; 9; 70; 73; 69; 76; 68; 32; 120; 32; 121; 32; 73; 10; 9; 9; 67; 79; 77; 77; 69; 78; 84; 32; 102; 10; 9; 77; 69; 84; 72; 79; 68; 32; 112; 32; 113; 32; 40; 76; 65; 59; 41; 86; 32; 65; 67; 67; 58; 80; 85; 66; 76; 73; 67; 10; 9; 9; 65; 82; 71; 32; 48; 32; 97; 114; 103; 10; 9; 9; 9; 67; 79; 77; 77; 69; 78; 84; 32; 112; 100; 10; 9; 9; 67; 79; 77; 77; 69; 78; 84; 32; 109; 100; 10; 9; 67; 76; 65; 83; 83; 32; 73; 110; 110; 101; 114; 32; 73; 110; 50; 10; 9; 9; 70; 73; 69; 76; 68; 32; 122; 32; 73; 10; 35; 32; 116; 111; 112; 32; 99; 111; 109; 109; 101; 110; 116; 10; 67; 76; 65; 83; 83; 32; 67; 10].
Definition fixture_nests_ok : bytes := [97; 47; 66; 36; 67; 9; 97; 47; 66; 9; 9; 9; 67; 9; 48; 120; 48; 48; 48; 56; 10; 97; 47; 66; 36; 49; 9; 97; 47; 66; 9; 109; 9; 40; 41; 86; 9; 49; 9; 49; 48; 10; 97; 47; 66; 36; 49; 76; 9; 97; 47; 66; 9; 109; 9; 40; 41; 86; 9; 49; 76; 9; 48; 98; 49; 48; 49; 10].
Definition text_fixtures_accepted : Prop :=
  tiny_v2_out 2 fixture_tiny_ok = Done tt /\ tiny_v2_out 3 fixture_tiny_ok = Fail /\ tiny_v2_out 1 fixture_tiny_ok = Fail
  /\ tiny_diff_out fixture_diff_ok = Done tt /\ enigma_out fixture_enigma_ok = Done tt /\ nests_out fixture_nests_ok = Done tt
  (* ... and each is refused by the other parsers, not crashed on *)
  /\ tiny_diff_out fixture_tiny_ok = Fail /\ enigma_out fixture_tiny_ok = Fail /\ nests_out fixture_enigma_ok = Fail
  /\ tiny_v2_out 2 fixture_nests_ok = Fail.
Lemma text_fixtures_accepted_hold : text_fixtures_accepted.
Proof. unfold text_fixtures_accepted. repeat split; vm_compute; reflexivity. Qed.
