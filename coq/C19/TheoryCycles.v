(* C19 — cyclic universes.  The crate recurses in two places: get_dependencies_tree over the followed
   dependencies, get_merged_pom over parents (a loop) and import-scoped BOMs.  A set of coordinates that cannot be
   left along these edges — in particular a cycle of any length — has no answer in the model, whatever the fuel:
   the model's Err is then "out of fuel", which is why the theorems about answers carry the acyclicity hypothesis.
   (The crate itself recurses without bound; the harness stops it with a download budget.) *)
From FB Require Import C19.Model C19.TheoryPom C19.TheoryPipeline.

(* ---------- dependencies ---------- *)
(* [S] is a trap: whoever is in it and has an effective POM follows a dependency that is in it again *)
Theorem dependency_trap_never_resolves : forall mf fs rs (S : coord -> scope -> Prop),
  (forall c sc, S c sc -> forall r pd, get_merged_pom mf fs rs c = Ok (r, pd) ->
     exists d s', In d (pd_deps pd) /\ transitive sc d = true
                  /\ the_scope_table sc (dd_declared_scope d) = Some s' /\ S (dd_coord d) s') ->
  forall f c sc, S c sc -> get_dependencies_tree mf f fs rs c sc = Err.
Proof.
  intros mf fs rs S H. induction f as [|f IH]; intros c sc Hc; [reflexivity|]. rewrite tree_unfold.
  destruct (get_merged_pom mf fs rs c) as [[r pd]|] eqn:Em; [|reflexivity]. cbn [bind fst snd].
  destruct (H c sc Hc r pd Em) as (d & s' & Hin & Htr & Ht & Hs).
  rewrite (map_res_err _ _ d); [reflexivity|apply filter_In; split; assumption|]. rewrite Ht. exact (IH _ _ Hs).
Qed.

(* ---------- parents ---------- *)
Theorem parent_trap_never_resolves : forall fs rs (P : pom -> Prop),
  (forall p, P p -> exists c, get_parent_coord p = Some c /\ forall r q, try_get_pom_for fs rs c = Ok (r, q) -> P q) ->
  forall f p, P p -> parent_chain f fs rs p = Err.
Proof.
  intros fs rs P H. induction f as [|f IH]; intros p Hp; rewrite parent_chain_unfold; destruct (H p Hp) as (c & -> & Hq); [reflexivity|].
  destruct (try_get_pom_for fs rs c) as [[r q]|] eqn:El; [|reflexivity]. cbn [bind snd].
  rewrite (IH q (Hq r q eq_refl)). reflexivity.
Qed.

(* ---------- imports ---------- *)
Lemma make_dm_own_err rec l x v : In x l -> d_version x = Some v -> d_scope x = Some MImport ->
  rec (mkCoord (d_group x) (d_artifact x) v (dep_classifier x) (dep_type x)) = Err -> make_dm_own rec l = Err.
Proof.
  intros Hin Hv Hs Hr. induction l as [|y l IH]; [destruct Hin|]. cbn [make_dm_own]. destruct Hin as [->|Hin].
  - rewrite Hv, Hs. fold (dep_type x). fold (dep_classifier x). rewrite Hr. reflexivity.
  - specialize (IH Hin). destruct (d_version y) as [vy|]; [|reflexivity]. rewrite IH.
    destruct (d_scope y) as [[s|]|]; try reflexivity.
    match goal with |- (do target <- ?e; _) = _ => destruct e end; reflexivity.
Qed.
Definition imports_into (T : coord -> Prop) (q : pom) : Prop :=
  exists x v, In x (p_dm q) /\ d_version x = Some v /\ d_scope x = Some MImport
              /\ T (mkCoord (d_group x) (d_artifact x) v (dep_classifier x) (dep_type x)).
Lemma merge_parent_err (rec : coord -> res pdone) (T : coord -> Prop) par q : (forall c, T c -> rec c = Err) -> imports_into T q -> merge_parent rec par q = Err.
Proof.
  intros Hrec (x & v & Hin & Hv & Hs & Ht). unfold merge_parent, make_dependency_management.
  rewrite (make_dm_own_err rec (p_dm q) x v Hin Hv Hs (Hrec _ Ht)).
  destruct par as [pp|]; [destruct (negb _); reflexivity|destruct (p_group q); [destruct (p_version q)|]; reflexivity].
Qed.
Lemma merge_stack_err (rec : coord -> res pdone) (T : coord -> Prop) l : (forall c, T c -> rec c = Err) -> Exists (imports_into T) l -> forall par, merge_stack rec par l = Err.
Proof.
  intros Hrec He. induction He as [q l Hq|q l _ IH]; intros par; cbn [merge_stack].
  - rewrite (merge_parent_err rec T par q Hrec Hq). reflexivity.
  - destruct (merge_parent rec par q); [apply IH|reflexivity].
Qed.
(* [T] is a trap: whoever is in it, has a document and a parent chain, imports — itself or one of its ancestors — a member *)
Theorem import_trap_never_resolves : forall fs rs (T : coord -> Prop),
  (forall c, T c -> forall r p f stack, try_get_pom_for fs rs c = Ok (r, p) -> parent_chain f fs rs p = Ok stack ->
     Exists (imports_into T) (p :: stack)) ->
  forall f c, T c -> get_merged_pom f fs rs c = Err.
Proof.
  intros fs rs T H. induction f as [|f IH]; intros c Hc; [reflexivity|]. rewrite get_merged_pom_unfold.
  destruct (try_get_pom_for fs rs c) as [[r p]|] eqn:El; [|reflexivity]. cbn [bind snd fst].
  destruct (parent_chain f fs rs p) as [stack|] eqn:Es; [|reflexivity]. cbn [bind].
  assert (Hrec : forall c', T c' -> (do x <- get_merged_pom f fs rs c'; Ok (snd x)) = Err) by (intros c' Hc'; rewrite (IH c' Hc'); reflexivity).
  specialize (H c Hc r p f stack El Es). apply Exists_cons in H. destruct H as [Hp|Hst].
  - destruct (merge_stack _ None (rev stack)) as [par|]; [|reflexivity]. cbn [bind].
    rewrite (merge_parent_err _ T par p Hrec Hp). reflexivity.
  - rewrite (merge_stack_err _ T (rev stack) Hrec); [reflexivity|].
    apply Exists_exists in Hst. destruct Hst as (q & Hq & Hi). apply Exists_exists. exists q. split; [apply in_rev in Hq; exact Hq|exact Hi].
Qed.

(* ---------- non-vacuity ---------- *)
Definition ex_r : list resolver := [mkResolver [114] [114]].
Definition ex_c (a : N) : coord := mkCoord [103] (ex_s a) [49] None s_jar.
(* a -> b -> a *)
Definition ex_two_cycle : files :=
  [(ex_url 97 49, Ok (ex_pom 97 49 None None [] [ex_dep 98 (Some 49) None None]));
   (ex_url 98 49, Ok (ex_pom 98 49 None None [] [ex_dep 97 (Some 49) None (Some Runtime)]))].
Example two_cycle_example : forall n, get_maven_dependencies_fuel n ex_two_cycle ex_r [(ex_c 97, Compile)] = Err.
Proof.
  intros n. unfold get_maven_dependencies_fuel. cbn [map_res fst snd].
  rewrite (dependency_trap_never_resolves n ex_two_cycle ex_r
             (fun c sc => (c = ex_c 97 /\ (sc = Compile \/ sc = Runtime)) \/ (c = ex_c 98 /\ (sc = Compile \/ sc = Runtime))));
    [reflexivity| |left; split; [reflexivity|left; reflexivity]].
  intros c sc Hc r pd. destruct n as [|[|n]]; try discriminate;
    destruct Hc as [[-> [-> | ->]]|[-> [-> | ->]]]; intros H; vm_compute in H; injection H as <- <-;
      (eexists; eexists; split; [left; reflexivity|]; split; [reflexivity|]; split; [reflexivity|]);
      first [left; split; [reflexivity|]; first [left; reflexivity|right; reflexivity]
            |right; split; [reflexivity|]; first [left; reflexivity|right; reflexivity]].
Qed.
(* a POM that is its own parent *)
Definition ex_self_parent : files := [(ex_url 112 49, Ok (ex_pom 112 49 (Some (mkParent [103] (ex_s 112) [49])) (Some s_pom) [] []))].
Example self_parent_example : forall n, get_maven_dependencies_fuel n ex_self_parent ex_r [(ex_c 112, Compile)] = Err.
Proof.
  intros n. unfold get_maven_dependencies_fuel. cbn [map_res fst snd].
  destruct n as [|n]; [reflexivity|]. rewrite tree_unfold. destruct n as [|n]; [reflexivity|]. rewrite get_merged_pom_unfold.
  change (try_get_pom_for ex_self_parent ex_r (ex_c 112))
    with (Ok (mkResolver [114] [114], ex_pom 112 49 (Some (mkParent [103] (ex_s 112) [49])) (Some s_pom) [] []) : res (resolver * pom)).
  cbn [bind snd fst].
  rewrite (parent_trap_never_resolves ex_self_parent ex_r (fun p => p = ex_pom 112 49 (Some (mkParent [103] (ex_s 112) [49])) (Some s_pom) [] []));
    [reflexivity| |reflexivity].
  intros p ->. eexists. split; [reflexivity|]. intros r q H. vm_compute in H. injection H as _ <-. reflexivity.
Qed.
(* a BOM that imports itself *)
Definition ex_self_import : files := [(ex_url 98 49, Ok (ex_pom 98 49 None (Some s_pom) [ex_dep 98 (Some 49) (Some s_pom) (Some MImport)] []))].
Example self_import_example : forall n, get_maven_dependencies_fuel n ex_self_import ex_r [(mkCoord [103] (ex_s 98) [49] None s_pom, Compile)] = Err.
Proof.
  intros n. unfold get_maven_dependencies_fuel. cbn [map_res fst snd].
  destruct n as [|n]; [reflexivity|]. rewrite tree_unfold.
  rewrite (import_trap_never_resolves ex_self_import ex_r (fun c => c = mkCoord [103] (ex_s 98) [49] None s_pom)); [reflexivity| |reflexivity].
  intros c -> r p f stack Hl Hs. vm_compute in Hl. injection Hl as _ <-.
  apply Exists_cons_hd. eexists. eexists. split; [left; reflexivity|]. split; [reflexivity|]. split; reflexivity.
Qed.
