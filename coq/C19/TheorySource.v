(* C19 — what the translator reads from coord.rs / lib.rs against what the model and the theorems use:
   the collision id is exactly (group, artifact, classifier, type) of the coordinate — not the version,
   and not something coarser such as the file extension —, matches_besides_version compares the same
   four things, and the format strings of the printers are the model's hand-written printers. *)
From FB Require Import C19.Model C19.CoordFmtGen C19.TheoryTypes.

(* ---------- the collision id ---------- *)
(* [dependency_collision_id] is regenerated from the struct literal in the source; this is the property's
   "same group, artifact, classifier, type": two coordinates collide iff they agree on these four fields *)
Theorem collision_id_fields : forall a b,
  dependency_collision_id a = dependency_collision_id b <->
  c_group a = c_group b /\ c_artifact a = c_artifact b /\ c_classifier a = c_classifier b /\ c_type a = c_type b.
Proof.
  intros a b. unfold dependency_collision_id. split.
  - intros [= -> -> -> ->]. auto.
  - intros (-> & -> & -> & ->). reflexivity.
Qed.
(* the version plays no part, everything else does *)
Theorem collision_id_ignores_version_only : forall a b,
  dependency_collision_id a = dependency_collision_id b <-> mkCoord (c_group a) (c_artifact a) (c_version b) (c_classifier a) (c_type a) = b.
Proof.
  intros a b. rewrite collision_id_fields. destruct a as [g1 a1 v1 k1 t1], b as [g2 a2 v2 k2 t2]. cbn. split.
  - intros (-> & -> & -> & ->). reflexivity.
  - intros [= -> -> -> ->]. auto.
Qed.
(* the equality test of the set (derived PartialEq/Eq/Hash, field by field) decides equality of ids *)
Theorem cid_eqb_decides : forall a b : cid, cid_eqb a b = true <-> a = b.
Proof.
  intros [[[g1 a1] k1] t1] [[[g2 a2] k2] t2]. unfold cid_eqb.
  rewrite !andb_true_iff, !str_eqb_eq. split.
  - intros [[[-> ->] Hk] ->]. apply opt_str_eqb_true in Hk. subst. reflexivity.
  - intros [= -> -> -> ->]. repeat split. destruct k2 as [k|]; cbn; [apply str_eqb_eq; reflexivity|reflexivity].
Qed.
(* the key under which make_dependencies looks a dependency up in the dependency management is the same id *)
Theorem matches_is_collision_id : forall c g a k t,
  matches_besides_version c g a k t = true <-> dependency_collision_id c = (g, a, k, t).
Proof.
  intros c g a k t. change (matches_besides_version c g a k t) with (cid_eqb (dependency_collision_id c) (g, a, k, t)).
  apply cid_eqb_decides.
Qed.
(* two types that share the file extension (and the default classifier) are different artifacts for mediation,
   although their files have the same name *)
Theorem types_sharing_an_extension_do_not_collide : forall r g a v,
  dependency_collision_id (mkCoord g a v None s_jar) <> dependency_collision_id (mkCoord g a v None s_ejb)
  /\ make_url r (mkCoord g a v None s_jar) = make_url r (mkCoord g a v None s_ejb).
Proof.
  intros r g a v. split.
  - unfold dependency_collision_id. cbn. intros [= H].
  - unfold make_url. cbn [c_type]. destruct extension_not_injective as (_ & -> & _). reflexivity.
Qed.

(* ---------- the printers' format strings ---------- *)
Theorem print_coord_is_source : forall c, print_coord_src c = print_coord c.
Proof. intros [g a v [k|] t]; reflexivity. Qed.
Theorem make_pom_url_is_source : forall r c, make_pom_url_src r c = make_pom_url r c.
Proof. intros r c. reflexivity. Qed.
Theorem make_url_is_source : forall r c, make_url_src r c = make_url r c.
Proof. intros r [g a v [k|] t]; reflexivity. Qed.
Theorem print_found_is_source : forall d, print_found_src d = print_found d.
Proof. intros d. reflexivity. Qed.
