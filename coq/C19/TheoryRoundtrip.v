(* C19 — "coordinates and resolved dependencies survive printing and re-parsing", for the list the resolver hands
   out: when no string of the universe (the dependency and dependency-management entries of its documents) and
   of the root coordinates contains ':' or " @ ", every resolved dependency prints to a text that parses back to it
   (up to the repository's name, which is not printed).  The coordinates of the list are assembled from those
   strings, the literal `jar` and the default classifiers of the artifact handler table — nothing else. *)
From FB Require Import C19.Model C19.TheoryTypes C19.TheoryCoord C19.TheoryPom C19.TheoryFuel C19.TreeBasics C19.TreeBfs C19.TreeMediation C19.TreeTheorems.

Definition clean (s : str) : bool := free_of cCOLON s && at_free s.
Definition clean_opt (s : option str) : bool := match s with Some k => clean k | None => true end.

Lemma coord_clean_iff g a v k t :
  coord_separator_free (mkCoord g a v k t) = true <->
  clean g = true /\ clean a = true /\ clean v = true /\ clean_opt k = true /\ clean t = true.
Proof.
  unfold coord_separator_free, coord_colon_free, clean. cbn [c_group c_artifact c_version c_classifier c_type].
  destruct k as [k|]; cbn [free_opt at_free_opt clean_opt]; unfold clean; rewrite !andb_true_iff; tauto.
Qed.

Definition dep_clean {Sc} (x : dep Sc) : bool :=
  clean (d_group x) && clean (d_artifact x) && clean_opt (d_version x) && clean_opt (d_type x) && clean_opt (d_classifier x).
Definition pom_clean (p : pom) : bool := forallb dep_clean (p_dm p) && forallb dep_clean (p_deps p).
Definition files_clean (fs : files) : bool := forallb (fun e => match snd e with Ok p => pom_clean p | Err => true end) fs.
Definition ddone_clean (d : ddone) : Prop := coord_separator_free (dd_coord d) = true.
Definition pdone_clean (pd : pdone) : Prop :=
  Forall ddone_clean (pd_dm pd) /\ Forall ddone_clean (pd_deps pd) /\ Forall (fun x => dep_clean x = true) (pd_declared pd).

Lemma dep_clean_iff {Sc} (x : dep Sc) : dep_clean x = true <->
  clean (d_group x) = true /\ clean (d_artifact x) = true /\ clean_opt (d_version x) = true /\ clean_opt (d_type x) = true /\ clean_opt (d_classifier x) = true.
Proof. unfold dep_clean. rewrite !andb_true_iff. tauto. Qed.

(* the default classifiers of the table are clean *)
Lemma type_to_classifier_clean t : clean_opt (type_to_classifier t) = true.
Proof.
  rewrite type_to_classifier_is_maven. unfold maven_default_classifiers. cbn [lookup_str].
  repeat (match goal with |- context [str_eqb t ?l] => destruct (str_eqb t l) end; [reflexivity|]). reflexivity.
Qed.
Lemma dep_key_clean {Sc} (x : dep Sc) : dep_clean x = true -> clean (dep_type x) = true /\ clean_opt (dep_classifier x) = true.
Proof.
  rewrite dep_clean_iff. intros (_ & _ & _ & Ht & Hk). unfold dep_type, dep_classifier. split.
  - destruct (d_type x) as [t|]; [exact Ht|reflexivity].
  - destruct (d_classifier x) as [k|]; [exact Hk|apply type_to_classifier_clean].
Qed.

(* ---------- effective POMs are made of clean strings ---------- *)
Lemma make_dm_own_clean rec l out :
  (forall c pd, rec c = Ok pd -> pdone_clean pd) -> Forall (fun x => dep_clean x = true) l ->
  make_dm_own rec l = Ok out -> Forall ddone_clean out.
Proof.
  intros Hrec Hl. revert out. induction Hl as [|x l Hx _ IH]; intros out; cbn [make_dm_own]; [intros [= <-]; constructor|].
  destruct (d_version x) as [v|] eqn:Ev; [|discriminate].
  assert (Hc : coord_separator_free (mkCoord (d_group x) (d_artifact x) v (dep_classifier x) (dep_type x)) = true).
  { apply coord_clean_iff. destruct (dep_key_clean x Hx) as (Ht & Hk). apply dep_clean_iff in Hx.
    destruct Hx as (Hg & Ha & Hv & _ & _). rewrite Ev in Hv. repeat split; assumption. }
  fold (dep_type x). fold (dep_classifier x).
  destruct (d_scope x) as [[s|]|].
  - destruct (make_dm_own rec l) as [rest|]; [|discriminate]. intros [= <-]. constructor; [exact Hc|apply IH; reflexivity].
  - destruct (rec _) as [target|] eqn:Et; [|discriminate]. cbn [bind].
    destruct (make_dm_own rec l) as [rest|]; [|discriminate]. intros [= <-].
    apply Forall_app. split; [apply (Hrec _ _ Et)|apply IH; reflexivity].
  - destruct (make_dm_own rec l) as [rest|]; [|discriminate]. intros [= <-]. constructor; [exact Hc|apply IH; reflexivity].
Qed.

Lemma managed_In dm k e : managed dm k = Some e -> In e dm.
Proof. unfold managed. intros H. apply find_some in H. apply H. Qed.
Lemma make_dependency_clean dm x d : Forall ddone_clean dm -> dep_clean x = true -> make_dependency dm x = Ok d -> ddone_clean d.
Proof.
  intros Hdm Hx. rewrite managed_fill_in. destruct (dep_key_clean x Hx) as (Ht & Hk). apply dep_clean_iff in Hx.
  destruct Hx as (Hg & Ha & Hv & _ & _).
  destruct (d_version x) as [v|].
  - intros [= <-]. unfold ddone_clean, fill. cbn [dd_coord]. apply coord_clean_iff. repeat split; assumption.
  - destruct (managed dm (dep_key x)) as [e|] eqn:Em; [|discriminate]. intros [= <-].
    unfold ddone_clean, fill. cbn [dd_coord]. apply coord_clean_iff. repeat split; try assumption.
    rewrite Forall_forall in Hdm. specialize (Hdm e (managed_In _ _ _ Em)). unfold ddone_clean in Hdm.
    destruct (dd_coord e) as [g' a' v' k' t']. apply coord_clean_iff in Hdm. cbn [c_version]. tauto.
Qed.
Lemma make_dependencies_clean dm l out : Forall ddone_clean dm -> Forall (fun x => dep_clean x = true) l ->
  map_res (make_dependency dm) l = Ok out -> Forall ddone_clean out.
Proof.
  intros Hdm Hl. revert out. induction Hl as [|x l Hx _ IH]; intros out; cbn [map_res]; [intros [= <-]; constructor|].
  destruct (make_dependency dm x) as [d|] eqn:Ed; [|discriminate]. cbn [bind].
  destruct (map_res _ l) as [rest|]; [|discriminate]. intros [= <-].
  constructor; [exact (make_dependency_clean dm x d Hdm Hx Ed)|apply IH; reflexivity].
Qed.

Lemma merge_parent_clean rec par child m :
  (forall c pd, rec c = Ok pd -> pdone_clean pd) -> (forall pp, par = Some pp -> pdone_clean pp) -> pom_clean child = true ->
  merge_parent rec par child = Ok m -> pdone_clean m.
Proof.
  intros Hrec Hpar Hch Hm. destruct (merge_parent_spec rec par child m Hm) as (_ & _ & _ & (own & Hown & Hdm) & Hdecl & Hdeps).
  unfold pom_clean in Hch. apply andb_true_iff in Hch. destruct Hch as [Hcd Hcp]. rewrite forallb_forall in Hcd, Hcp.
  assert (Hown' : Forall ddone_clean own).
  { apply make_dm_own_spec in Hown. eapply make_dm_own_clean; [exact Hrec| |exact Hown]. apply Forall_forall. exact Hcd. }
  assert (H1 : Forall ddone_clean (pd_dm m)).
  { rewrite Hdm. apply Forall_app. split; [exact Hown'|]. destruct par as [pp|]; [apply (Hpar pp eq_refl)|constructor]. }
  assert (H3 : Forall (fun x => dep_clean x = true) (pd_declared m)).
  { rewrite Hdecl. apply Forall_app. split; [apply Forall_forall; exact Hcp|]. destruct par as [pp|]; [apply (Hpar pp eq_refl)|constructor]. }
  split; [exact H1|split; [exact (make_dependencies_clean _ _ _ H1 H3 Hdeps)|exact H3]].
Qed.
Lemma merge_stack_clean rec l : (forall c pd, rec c = Ok pd -> pdone_clean pd) -> Forall (fun p => pom_clean p = true) l ->
  forall par res, (forall pp, par = Some pp -> pdone_clean pp) -> merge_stack rec par l = Ok res -> forall pp, res = Some pp -> pdone_clean pp.
Proof.
  intros Hrec Hl. induction Hl as [|p l Hp _ IH]; intros par res Hpar; cbn [merge_stack].
  - intros [= <-]. exact Hpar.
  - destruct (merge_parent rec par p) as [m|] eqn:Em; [|discriminate]. cbn [bind]. apply IH.
    intros pp [= <-]. exact (merge_parent_clean rec par p m Hrec Hpar Hp Em).
Qed.

Lemma lookup_clean fs rs c r p : files_clean fs = true -> try_get_pom_for fs rs c = Ok (r, p) -> pom_clean p = true.
Proof.
  intros Hfs Hl. destruct (lookup_found fs rs c r p Hl) as [_ Hin]. unfold files_clean in Hfs. rewrite forallb_forall in Hfs.
  exact (Hfs _ Hin).
Qed.
Lemma parent_chain_clean fs rs : files_clean fs = true -> forall f p stack, parent_chain f fs rs p = Ok stack -> Forall (fun q => pom_clean q = true) stack.
Proof.
  intros Hfs. induction f as [|f IH]; intros p stack; rewrite parent_chain_unfold.
  - destruct (get_parent_coord p); [discriminate|]. intros [= <-]. constructor.
  - destruct (get_parent_coord p) as [c|]; [|intros [= <-]; constructor].
    destruct (try_get_pom_for fs rs c) as [[r q]|] eqn:El; [|discriminate]. cbn [bind snd].
    destruct (parent_chain f fs rs q) as [rest|] eqn:Er; [|discriminate]. intros [= <-].
    constructor; [exact (lookup_clean fs rs c r q Hfs El)|exact (IH q rest Er)].
Qed.

Theorem merged_pom_clean fs rs : files_clean fs = true -> forall f c r pd, get_merged_pom f fs rs c = Ok (r, pd) -> pdone_clean pd.
Proof.
  intros Hfs. induction f as [|f IH]; intros c r pd; [discriminate|]. rewrite get_merged_pom_unfold.
  destruct (try_get_pom_for fs rs c) as [[r0 p]|] eqn:El; [|discriminate]. cbn [bind snd fst].
  destruct (parent_chain f fs rs p) as [stack|] eqn:Es; [|discriminate]. cbn [bind].
  assert (Hrec : forall c' pd', (do x <- get_merged_pom f fs rs c'; Ok (snd x)) = Ok pd' -> pdone_clean pd').
  { intros c' pd'. destruct (get_merged_pom f fs rs c') as [[r' x]|] eqn:E; [|discriminate]. cbn [bind snd]. intros [= <-]. exact (IH c' r' x E). }
  destruct (merge_stack _ None (rev stack)) as [par|] eqn:Em; [|discriminate]. cbn [bind].
  destruct (merge_parent _ par p) as [m|] eqn:Emp; [|discriminate]. intros [= _ <-].
  eapply merge_parent_clean; [exact Hrec| |exact (lookup_clean fs rs c r0 p Hfs El)|exact Emp].
  eapply (merge_stack_clean _ (rev stack) Hrec); [apply Forall_rev, (parent_chain_clean fs rs Hfs f p stack Es)| |exact Em].
  intros pp; discriminate.
Qed.

(* ---------- every node of the dependency tree carries a clean coordinate ---------- *)
Lemma tree_clean fs rs mf : files_clean fs = true -> forall f c sc t,
  coord_separator_free c = true -> get_dependencies_tree mf f fs rs c sc = Ok t ->
  forall x, Sub [t] x -> coord_separator_free (f_coord (data x)) = true.
Proof.
  intros Hfs. induction f as [|f IH]; intros c sc t Hc Ht; [discriminate|].
  destruct (tree_children_spec mf f fs rs c sc t Ht) as (r & pd & Hm & Hd & Hk).
  destruct (merged_pom_clean fs rs Hfs mf c r pd Hm) as (_ & Hdeps & _).
  assert (Hkids : forall x, Sub (children t) x -> coord_separator_free (f_coord (data x)) = true).
  { assert (Hf : Forall ddone_clean (filter (transitive sc) (pd_deps pd))).
    { apply Forall_forall. intros d Hin. apply filter_In in Hin. rewrite Forall_forall in Hdeps. apply Hdeps, Hin. }
    clear Hd Hm Ht Hdeps. induction Hk as [|d k ds ks (s' & _ & Hkk) _ IHk]; intros x Hx.
    - exfalso. induction Hx as [? []|? ? _ IHx _]; exact IHx.
    - apply Forall_cons_iff in Hf. destruct Hf as [Hd Hf].
      assert (Hcase : Sub [k] x \/ Sub ks x).
      { clear - Hx. induction Hx as [x [<-|Hin]|y x _ IHx Hin].
        - left. apply Sub_root. left; reflexivity.
        - right. apply Sub_root. exact Hin.
        - destruct IHx; [left|right]; eapply Sub_child; eauto. }
      destruct Hcase as [Hx'|Hx']; [exact (IH _ _ _ Hd Hkk x Hx')|exact (IHk Hf x Hx')]. }
  intros x Hx. destruct (Sub_cases [t] x Hx) as [[<-|[]]|Hx'].
  - rewrite Hd. exact Hc.
  - apply Hkids. cbn [flat_map] in Hx'. rewrite app_nil_r in Hx'. exact Hx'.
Qed.

(* ---------- the resolved list survives printing and re-parsing ---------- *)
Theorem resolved_list_roundtrip : forall n fs rs roots out,
  files_clean fs = true -> Forall (fun r => coord_separator_free (fst r) = true) roots ->
  get_maven_dependencies_fuel n fs rs roots = Ok out ->
  Forall (fun d => parse_coord (print_coord (f_coord d)) = Ok (f_coord d)
                   /\ parse_found (print_found d)
                      = Ok (mkFound (mkResolver (r_maven (f_resolver d)) (r_maven (f_resolver d))) (f_coord d) (f_scope d))) out.
Proof.
  intros n fs rs roots out Hfs Hroots Hout.
  destruct (resolved_list_spec n fs rs roots out Hout) as (forest & Hf & (_ & _ & HF) & _ & _).
  rewrite Forall_forall. intros d Hd.
  assert (Hn : exists p, node_of forest p d).
  { clear - HF Hd. induction HF as [|p a ps l Hpa _ IH]; [destruct Hd|]. destruct Hd as [<-|Hd]; eauto. }
  destruct Hn as (p & x & Hp & <-).
  assert (H : exists t, In t forest /\ Sub [t] x).
  { clear - Hp. induction Hp as [i t Hi|p t i c Hp IH Hi].
    - exists t. split; [eapply nth_error_In; eauto|apply Sub_root; left; reflexivity].
    - destruct IH as (t0 & Ht0 & Hs). exists t0. split; [exact Ht0|]. eapply Sub_child; [exact Hs|eapply nth_error_In; eauto]. }
  destruct H as (t & Ht & Hs).
  assert (Hr : exists r, In r roots /\ get_dependencies_tree n n fs rs (fst r) (snd r) = Ok t).
  { clear - Hf Ht. induction Hf as [|r t0 rl tl Hrt _ IH]; [destruct Ht|]. destruct Ht as [<-|Ht].
    - exists r. split; [left; reflexivity|exact Hrt].
    - destruct (IH Ht) as (r' & Hin & Hr'). exists r'. split; [right; exact Hin|exact Hr']. }
  destruct Hr as (r & Hrin & Hr). rewrite Forall_forall in Hroots.
  pose proof (tree_clean fs rs n Hfs n (fst r) (snd r) t (Hroots r Hrin) Hr x Hs) as Hclean.
  split; [apply coord_roundtrip; unfold coord_separator_free in Hclean; rewrite !andb_true_iff in Hclean; tauto|].
  apply found_roundtrip. exact Hclean.
Qed.

(* non-vacuity: the example universe and its root are clean *)
Example roundtrip_example :
  files_clean ex_files = true /\ coord_separator_free (mkCoord [103] (ex_s 99) [49] None s_jar) = true.
Proof. split; vm_compute; reflexivity. Qed.
