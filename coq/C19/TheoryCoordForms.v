(* C19 — every text MavenCoord::from_str accepts, what it makes of it, where printing gives the text back and
   where it does not (the only collision: `g:a:v` and `g:a:jar:v`), and the same stability for FoundDependency. *)
From FB Require Import C19.Model C19.TheoryCoord.
From Coq Require Import Lia Arith.PeanoNat.

(* ---------- split(':') and its inverse ---------- *)
Fixpoint join (c : N) (l : list str) : str :=
  match l with
  | [] => []
  | [p] => p
  | p :: l' => p ++ c :: join c l'
  end.
Lemma join_cons c p q l : join c (p :: q :: l) = p ++ c :: join c (q :: l).
Proof. reflexivity. Qed.

Lemma join_split c s : join c (split_on c s) = s.
Proof.
  induction s as [|x s IH]; [reflexivity|]. cbn [split_on].
  destruct (N.eqb_spec x c) as [->|Hx].
  - pose proof (split_on_nonempty c s) as Hne. destruct (split_on c s) as [|q l] eqn:E; [congruence|].
    rewrite join_cons. cbn [app]. rewrite IH. reflexivity.
  - destruct (split_on c s) as [|h t] eqn:E; [exfalso; exact (split_on_nonempty c s E)|].
    destruct t as [|q t].
    + cbn [join] in *. rewrite IH. reflexivity.
    + rewrite join_cons in *. cbn [app]. rewrite IH. reflexivity.
Qed.
Lemma split_join c l : l <> [] -> Forall (fun p => free_of c p = true) l -> split_on c (join c l) = l.
Proof.
  intros Hne H. induction H as [|p l Hp Hl IH]; [congruence|]. destruct l as [|q l].
  - cbn [join]. apply split_on_free. exact Hp.
  - rewrite join_cons, (split_on_sep c p _ Hp), IH; [reflexivity|discriminate].
Qed.

(* ---------- the accepted forms ---------- *)
(* 3, 4 or 5 pieces: group:artifact:version | group:artifact:type:version | group:artifact:type:classifier:version *)
Definition coord_of_pieces (l : list str) : option coord :=
  match l with
  | [g; a; v] => Some (mkCoord g a v None s_jar)
  | [g; a; t; v] => Some (mkCoord g a v None t)
  | [g; a; t; k; v] => Some (mkCoord g a v (Some k) t)
  | _ => None
  end.
Lemma parse_coord_pieces s : parse_coord s = match coord_of_pieces (split_on cCOLON s) with Some c => Ok c | None => Err end.
Proof.
  unfold parse_coord, coord_of_pieces. destruct (split_on cCOLON s) as [|p1 [|p2 [|p3 [|p4 [|p5 [|p6 l]]]]]]; reflexivity.
Qed.

(* a text is accepted iff it consists of 3, 4 or 5 colon-free pieces (empty pieces included) joined by ':' *)
Theorem parse_coord_forms : forall s c,
  parse_coord s = Ok c <->
  exists pieces, Forall (fun p => free_of cCOLON p = true) pieces /\ s = join cCOLON pieces /\ coord_of_pieces pieces = Some c.
Proof.
  intros s c. rewrite parse_coord_pieces. split.
  - destruct (coord_of_pieces (split_on cCOLON s)) as [c'|] eqn:E; [|discriminate]. intros [= <-].
    exists (split_on cCOLON s). split; [apply split_on_pieces_free|split; [symmetry; apply join_split|exact E]].
  - intros (pieces & Hf & -> & Hc). rewrite split_join; [rewrite Hc; reflexivity| |exact Hf].
    intros ->. discriminate.
Qed.
Corollary parse_coord_rejects : forall s, parse_coord s = Err <-> (length (split_on cCOLON s) < 3 \/ 5 < length (split_on cCOLON s))%nat.
Proof.
  intros s. rewrite parse_coord_pieces. unfold coord_of_pieces.
  destruct (split_on cCOLON s) as [|p1 [|p2 [|p3 [|p4 [|p5 [|p6 l]]]]]]; cbn [length]; split; intros H;
    first [reflexivity | discriminate | lia].
Qed.

Lemma parse_coord_colon_free s c : parse_coord s = Ok c -> coord_colon_free c = true.
Proof.
  intros H. apply parse_coord_forms in H. destruct H as (pieces & Hf & _ & Hc).
  assert (Hjar : free_of cCOLON s_jar = true) by reflexivity.
  destruct pieces as [|p1 [|p2 [|p3 [|p4 [|p5 [|p6 l]]]]]]; try discriminate; injection Hc as <-;
    repeat match goal with Hx : Forall _ (_ :: _) |- _ => inversion Hx; clear Hx; subst end;
    unfold coord_colon_free; cbn [c_group c_artifact c_version c_classifier c_type free_opt];
    repeat (apply andb_true_iff; split); assumption.
Qed.

(* ---------- printing what was parsed ---------- *)
(* Display always writes the type: the 4- and 5-piece forms come back verbatim, the 3-piece form gains `jar` *)
Theorem print_of_parse : forall s c, parse_coord s = Ok c ->
  print_coord c = s
  \/ exists g a v, s = join cCOLON [g; a; v] /\ print_coord c = join cCOLON [g; a; s_jar; v].
Proof.
  intros s c H. apply parse_coord_forms in H. destruct H as (pieces & _ & -> & Hc).
  destruct pieces as [|p1 [|p2 [|p3 [|p4 [|p5 [|p6 l]]]]]]; try discriminate; injection Hc as <-.
  - right. exists p1, p2, p3. split; reflexivity.
  - left. reflexivity.
  - left. reflexivity.
Qed.

(* from_str is injective except for exactly this: an omitted type and an explicit `jar` *)
Theorem parse_coord_collisions : forall s1 s2 c, parse_coord s1 = Ok c -> parse_coord s2 = Ok c ->
  s1 = s2
  \/ exists g a v, (s1 = join cCOLON [g; a; v] /\ s2 = join cCOLON [g; a; s_jar; v])
                   \/ (s2 = join cCOLON [g; a; v] /\ s1 = join cCOLON [g; a; s_jar; v]).
Proof.
  intros s1 s2 c H1 H2. apply parse_coord_forms in H1, H2.
  destruct H1 as (l1 & _ & -> & C1), H2 as (l2 & _ & -> & C2).
  destruct l1 as [|p1 [|p2 [|p3 [|p4 [|p5 [|p6 l1]]]]]]; try discriminate; injection C1 as <-;
  destruct l2 as [|q1 [|q2 [|q3 [|q4 [|q5 [|q6 l2]]]]]]; try discriminate; injection C2; intros; subst;
    try (left; reflexivity).
  - right. eexists _, _, _. left. split; reflexivity.
  - right. eexists _, _, _. right. split; reflexivity.
Qed.
Example collision_example :
  parse_coord (join cCOLON [[103]; [97]; [49]]) = parse_coord (join cCOLON [[103]; [97]; s_jar; [49]])
  /\ join cCOLON [[103]; [97]; [49]] <> join cCOLON [[103]; [97]; s_jar; [49]].
Proof. split; [reflexivity|discriminate]. Qed.

(* on coordinates Display is injective as soon as the fields are free of ':' *)
Theorem print_coord_injective : forall c1 c2, coord_colon_free c1 = true -> coord_colon_free c2 = true ->
  print_coord c1 = print_coord c2 -> c1 = c2.
Proof.
  intros c1 c2 H1 H2 E. pose proof (coord_roundtrip c1 H1) as R1. rewrite E, (coord_roundtrip c2 H2) in R1. congruence.
Qed.

(* ---------- FoundDependency ---------- *)
Lemma starts_with_prefix pat a b : starts_with pat a = true -> starts_with pat (a ++ b) = true.
Proof.
  intros H. apply starts_with_app in H. destruct H as (r & ->). apply starts_with_app. exists (r ++ b). rewrite app_assoc. reflexivity.
Qed.
(* split_once(" @ "): the text before the FIRST occurrence, which therefore holds no occurrence *)
Lemma split_once_pat_spec pat s l r : pat <> [] -> split_once_pat pat s = Some (l, r) -> s = l ++ pat ++ r /\ has_pat pat l = false.
Proof.
  intros Hne. revert l r. induction s as [|x s IH]; intros l r.
  - cbn [split_once_pat]. destruct (starts_with pat []) eqn:E; [|discriminate].
    destruct pat; [congruence|discriminate].
  - cbn [split_once_pat]. destruct (starts_with pat (x :: s)) eqn:E.
    + intros [= <- <-]. split.
      * apply starts_with_app in E. destruct E as (r' & E). rewrite E. rewrite skipn_app, skipn_all, Nat.sub_diag. reflexivity.
      * destruct pat; [congruence|reflexivity].
    + destruct (split_once_pat pat s) as [[l' r']|] eqn:Es; [|discriminate]. intros [= <- <-].
      destruct (IH l' r' eq_refl) as (-> & Hl). split; [reflexivity|].
      cbn [has_pat]. rewrite Hl, orb_false_r.
      destruct (starts_with pat (x :: l')) eqn:E2; [|reflexivity].
      apply (starts_with_prefix pat (x :: l') (pat ++ r')) in E2. cbn [app] in E2. congruence.
Qed.
Lemma rsplit_once_spec c s l r : rsplit_once c s = Some (l, r) -> s = l ++ c :: r /\ free_of c r = true.
Proof.
  revert l r. induction s as [|x s IH]; intros l r; cbn [rsplit_once]; [discriminate|].
  destruct (rsplit_once c s) as [[l' r']|] eqn:E.
  - intros [= <- <-]. destruct (IH l' r' eq_refl) as (-> & Hr). split; [reflexivity|exact Hr].
  - destruct (N.eqb_spec x c) as [->|_]; [|discriminate]. intros [= <- <-]. split; [reflexivity|].
    clear IH. induction s as [|y s IH]; [reflexivity|]. cbn [rsplit_once] in E.
    destruct (rsplit_once c s) as [[? ?]|]; [discriminate|]. destruct (N.eqb_spec y c) as [|Hy]; [discriminate|].
    apply free_of_cons. split; [apply N.eqb_neq; congruence|apply IH; reflexivity].
Qed.
Lemma join_at_free l : has_pat s_at (join cCOLON l) = false -> Forall (fun p => at_free p = true) l.
Proof.
  induction l as [|p l IH]; [constructor|]. destruct l as [|q l].
  - cbn [join]. intros H. constructor; [unfold at_free; rewrite H; reflexivity|constructor].
  - rewrite join_cons, has_pat_at_sep. intros H. apply orb_false_iff in H. destruct H as [Hp Hr].
    constructor; [unfold at_free; rewrite Hp; reflexivity|apply IH; exact Hr].
Qed.

(* what try_from accepts, printed and read again, is itself: the parser's image is stable (the repository's name
   is already the url there) *)
Theorem found_parse_print_parse : forall s d, parse_found s = Ok d -> parse_found (print_found d) = Ok d.
Proof.
  intros s d. unfold parse_found at 1.
  destruct (split_once_pat s_at s) as [[lhs url]|] eqn:Es; [|discriminate].
  destruct (rsplit_once cCOLON lhs) as [[cs ss]|] eqn:Er; [|discriminate].
  destruct (parse_coord cs) as [c|] eqn:Ec; [|discriminate]. cbn [bind].
  destruct (parse_scope ss) as [sc|] eqn:Esc; [|discriminate]. cbn [bind]. intros [= <-].
  rewrite found_roundtrip; [reflexivity|]. cbn [f_coord].
  destruct (split_once_pat_spec s_at s lhs url ltac:(discriminate) Es) as (_ & Hl).
  destruct (rsplit_once_spec cCOLON lhs cs ss Er) as (-> & _).
  rewrite has_pat_at_sep in Hl. apply orb_false_iff in Hl. destruct Hl as [Hcs _].
  pose proof (parse_coord_colon_free cs c Ec) as Hcolon.
  apply parse_coord_forms in Ec. destruct Ec as (pieces & _ & -> & Hc).
  apply join_at_free in Hcs.
  unfold coord_separator_free. rewrite Hcolon. cbn [andb].
  destruct pieces as [|p1 [|p2 [|p3 [|p4 [|p5 [|p6 l]]]]]]; try discriminate; injection Hc as <-;
    repeat match goal with Hx : Forall _ (_ :: _) |- _ => inversion Hx; clear Hx; subst end;
    cbn [c_group c_artifact c_version c_classifier c_type at_free_opt];
    repeat (apply andb_true_iff; split); try assumption; reflexivity.
Qed.
