(* C19 — executable model of maven_dependency_resolver: coord.rs (MavenCoord, Types,
   to_snapshot_version, make_pom_url), resolver.rs (try_resolvers / try_get_pom_for),
   maven_pom.rs (the POM as deserialised; XML parsing itself is outside the model),
   maven_pom_done.rs (get_merged_pom, merge_parent, make_dependency_management,
   declared_dependencies, make_dependencies) and lib.rs (DependencyScope, FoundDependency,
   get_dependencies_tree, clean_up_dependencies, get_maven_dependencies).
   Definitions only.  The scope enum, its names and the scope table come from ScopeGen.v; the
   coordinate record, the collision id (its fields, how it is built and compared),
   matches_besides_version and the arms of the Types tables come from CoordGen.v; the translators
   regenerate both from lib.rs / coord.rs on every check.  The printers below are hand-written;
   CoordFmtGen.v holds what the translator makes of the format strings, TheorySource.v the proofs
   that the two agree. *)
From FB Require Export C19.Tree C19.ScopeGen C19.CoordGen Base.Run.

(* ---------- literals ---------- *)
Definition s_jar : str := [106;97;114].                                 (* jar *)
Definition s_pom : str := [112;111;109].                                (* pom *)
Definition s_4_0_0 : str := [52;46;48;46;48].                           (* 4.0.0 *)
Definition s_dot_pom : str := [46;112;111;109].                         (* .pom *)
Definition s_snapshot : str := [45;83;78;65;80;83;72;79;84].            (* -SNAPSHOT *)
Definition s_at : str := [32;64;32].                                    (* " @ " *)
Definition s_test_jar : str := [116;101;115;116;45;106;97;114].         (* test-jar *)
Definition s_tests : str := [116;101;115;116;115].                      (* tests *)
Definition s_ejb_client : str := [101;106;98;45;99;108;105;101;110;116]. (* ejb-client *)
Definition s_client : str := [99;108;105;101;110;116].                  (* client *)
Definition s_java_source : str := [106;97;118;97;45;115;111;117;114;99;101]. (* java-source *)
Definition s_sources : str := [115;111;117;114;99;101;115].             (* sources *)
Definition s_javadoc : str := [106;97;118;97;100;111;99].               (* javadoc *)
Definition cCOLON : N := 58.
Definition cMINUS : N := 45.

(* ---------- string helpers (Rust str methods) ---------- *)
(* str::split(c): always at least one piece *)
Fixpoint split_on (c : N) (s : str) : list str :=
  match s with
  | [] => [[]]
  | x :: s' =>
      if N.eqb x c then [] :: split_on c s'
      else match split_on c s' with
           | h :: t => (x :: h) :: t
           | [] => [[x]]
           end
  end.
(* str::split_once(char): first occurrence *)
Fixpoint split_once_char (c : N) (s : str) : option (str * str) :=
  match s with
  | [] => None
  | x :: s' =>
      if N.eqb x c then Some ([], s')
      else match split_once_char c s' with
           | Some (l, r) => Some (x :: l, r)
           | None => None
           end
  end.
(* str::rsplit_once(char): last occurrence *)
Fixpoint rsplit_once (c : N) (s : str) : option (str * str) :=
  match s with
  | [] => None
  | x :: s' =>
      match rsplit_once c s' with
      | Some (l, r) => Some (x :: l, r)
      | None => if N.eqb x c then Some ([], s') else None
      end
  end.
(* str::split_once(&str): first occurrence of a non-empty pattern *)
Fixpoint split_once_pat (pat s : str) : option (str * str) :=
  if starts_with pat s then Some ([], skipn (length pat) s)
  else match s with
       | [] => None
       | x :: s' =>
           match split_once_pat pat s' with
           | Some (l, r) => Some (x :: l, r)
           | None => None
           end
       end.
Definition replace_char (a b : N) (s : str) : str := map (fun x => if N.eqb x a then b else x) s.
Definition ends_with_char (c : N) (s : str) : bool :=
  match rev s with x :: _ => N.eqb x c | [] => false end.
Definition is_ascii_digit (x : N) : bool := N.leb 48 x && N.leb x 57.
Definition is_nil {A} (l : list A) : bool := match l with [] => true | _ => false end.

(* ---------- DependencyScope: Display / FromStr (tables from ScopeGen.v) ---------- *)
Definition print_scope (s : scope) : str := scope_to_str s.
Fixpoint lookup_str {B} (k : str) (l : list (str * B)) : option B :=
  match l with
  | [] => None
  | (k', v) :: l' => if str_eqb k k' then Some v else lookup_str k l'
  end.
Definition parse_scope (s : str) : res scope :=
  match lookup_str s scope_names with Some x => Ok x | None => Err end.

(* ---------- MavenCoord (Record coord := mkCoord { c_group; c_artifact; c_version; c_classifier; c_type } from CoordGen.v) ---------- *)

(* Display: "{group}:{artifact}:{type_}{classifier_colon}{classifier}:{version}" *)
Definition print_coord (c : coord) : str :=
  c_group c ++ [cCOLON] ++ c_artifact c ++ [cCOLON] ++ c_type c
  ++ (match c_classifier c with Some k => cCOLON :: k | None => [] end)
  ++ [cCOLON] ++ c_version c.

(* FromStr: group:artifact[:type[:classifier]]:version *)
Definition parse_coord (s : str) : res coord :=
  match split_on cCOLON s with
  | [g; a; v] => Ok (mkCoord g a v None s_jar)
  | [g; a; t; v] => Ok (mkCoord g a v None t)
  | [g; a; t; k; v] => Ok (mkCoord g a v (Some k) t)
  | _ => Err
  end.

(* to_snapshot_version: <anything>-<8 digits>.<6 digits>-<digits> becomes <anything>-SNAPSHOT; step by step as the Rust code does it *)
Definition to_snapshot_version (version : str) : str :=
  match rsplit_once cMINUS version with
  | Some (before_last_hyphen, after_last_hyphen) =>
      if negb (is_nil after_last_hyphen) && forallb is_ascii_digit after_last_hyphen then
        match rsplit_once cMINUS before_last_hyphen with
        | Some (before_prev_hyphen, between_hyphens) =>
            match split_once_char cDOT between_hyphens with
            | Some (date, time) =>
                if Nat.eqb (length date) 8 && forallb is_ascii_digit date
                   && Nat.eqb (length time) 6 && forallb is_ascii_digit time
                then before_prev_hyphen ++ s_snapshot
                else version
            | None => version
            end
        | None => version
        end
      else version
  | None => version
  end.

(* ---------- Resolver ---------- *)
Record resolver := mkResolver { r_name : str; r_maven : str }.

(* "{maven}{maven_slash}{group}/{artifact}/{base_version}/{artifact}-{version}.pom" *)
Definition make_pom_url (r : resolver) (c : coord) : str :=
  r_maven r ++ (if ends_with_char cSLASH (r_maven r) then [] else [cSLASH])
  ++ replace_char cDOT cSLASH (c_group c) ++ [cSLASH] ++ c_artifact c ++ [cSLASH]
  ++ to_snapshot_version (c_version c) ++ [cSLASH] ++ c_artifact c ++ [cMINUS] ++ c_version c ++ s_dot_pom.

(* ---------- Types (artifact handler tables; the arms are in CoordGen.v) ---------- *)
(* a Rust `match s { "a" | "b" => r1, "c" => r2, .. }` over string literals: the first arm one of whose patterns is s *)
Fixpoint eval_arms {B} (arms : list (list str * B)) (s : str) : option B :=
  match arms with
  | [] => None
  | (pats, r) :: arms' => if existsb (str_eqb s) pats then Some r else eval_arms arms' s
  end.
(* Option<&str> tables: the catch-all arm gives None *)
Definition type_to_classifier (t : str) : option str :=
  match eval_arms type_to_classifier_arms t with Some r => r | None => None end.
(* &str tables: an arm gives a literal or the matched string itself, the catch-all arm its argument *)
Definition eval_str_arms (arms : list (list str * option str)) (s : str) : str :=
  match eval_arms arms s with Some (Some lit) => lit | _ => s end.
Definition type_to_extension (t : str) : str := eval_str_arms type_to_extension_arms t.
Definition packaging_to_type (packaging : str) : str := eval_str_arms packaging_to_type_arms packaging.
Arguments packaging_to_type : simpl never.
Arguments type_to_classifier : simpl never.
Arguments type_to_extension : simpl never.

(* "{maven}{maven_slash}{group}/{artifact}/{base_version}/{artifact}-{version}{classifier_minus}{classifier}.{extension}" *)
Definition make_url (r : resolver) (c : coord) : str :=
  r_maven r ++ (if ends_with_char cSLASH (r_maven r) then [] else [cSLASH])
  ++ replace_char cDOT cSLASH (c_group c) ++ [cSLASH] ++ c_artifact c ++ [cSLASH]
  ++ to_snapshot_version (c_version c) ++ [cSLASH] ++ c_artifact c ++ [cMINUS] ++ c_version c
  ++ (match c_classifier c with Some k => cMINUS :: k | None => [] end) ++ [cDOT] ++ type_to_extension (c_type c).

(* MavenCoord::from_group_artifact_version *)
Definition from_group_artifact_version (g a v : str) : coord := mkCoord g a v None s_jar.

(* ---------- the POM as deserialised (maven_pom.rs) ---------- *)
Inductive mscope := MScope (s : scope) | MImport.
Definition into_scope (m : mscope) : option scope := match m with MScope s => Some s | MImport => None end.

Record dep (Sc : Type) := mkDep {
  d_group : str; d_artifact : str; d_version : option str; d_type : option str;
  d_classifier : option str; d_scope : option Sc; d_optional : option bool }.
Arguments mkDep {Sc}. Arguments d_group {Sc}. Arguments d_artifact {Sc}. Arguments d_version {Sc}.
Arguments d_type {Sc}. Arguments d_classifier {Sc}. Arguments d_scope {Sc}. Arguments d_optional {Sc}.

Record parent_ref := mkParent { pr_group : str; pr_artifact : str; pr_version : str }.

(* Option<DependencyManagement>, Option<Dependencies> and an absent list all behave like the empty list *)
Record pom := mkPom {
  p_model_version : str; p_parent : option parent_ref; p_group : option str; p_artifact : str;
  p_version : option str; p_packaging : option str;
  p_dm : list (dep mscope); p_deps : list (dep scope) }.

Definition get_parent_coord (p : pom) : option coord :=
  match p_parent p with
  | Some pr => Some (mkCoord (pr_group pr) (pr_artifact pr) (pr_version pr) None s_pom)
  | None => None
  end.

(* ---------- the Downloader: a finite map from URLs to POMs; [Err] is a document that does not
   deserialise (or any other download failure) ---------- *)
Definition files := list (str * res pom).
Definition download (fs : files) (url : str) : res (option pom) :=
  match lookup_str url fs with
  | None => Ok None
  | Some (Ok p) => Ok (Some p)
  | Some Err => Err
  end.

(* try_resolvers + the model_version test of try_get_pom_for *)
Fixpoint try_get_pom_for (fs : files) (rs : list resolver) (c : coord) : res (resolver * pom) :=
  match rs with
  | [] => Err
  | r :: rs' =>
      match download fs (make_pom_url r c) with
      | Err => Err
      | Ok (Some p) => if str_eqb (p_model_version p) s_4_0_0 then Ok (r, p) else Err
      | Ok None => try_get_pom_for fs rs' c
      end
  end.

(* ---------- maven_pom_done.rs ---------- *)
Record ddone := mkDDone { dd_coord : coord; dd_scope : option scope; dd_optional : option bool }.
Record pdone := mkPDone {
  pd_coord : coord; pd_dm : list ddone; pd_deps : list ddone; pd_declared : list (dep scope) }.

Definition or_else {A} (a b : option A) : option A := match a with Some _ => a | None => b end.
Definition unwrap_or {A} (a : option A) (d : A) : A := match a with Some x => x | None => d end.

(* make_dependency_management: own entries in order; an import entry is replaced, in place, by the
   dependency management of the effective POM it names ([rec]); the parent's entries are appended *)
Fixpoint make_dm_own (rec : coord -> res pdone) (l : list (dep mscope)) : res (list ddone) :=
  match l with
  | [] => Ok []
  | x :: l' =>
      match d_version x with
      | None => Err
      | Some version =>
          let type_ := unwrap_or (d_type x) s_jar in
          let classifier := or_else (d_classifier x) (type_to_classifier type_) in
          let c := mkCoord (d_group x) (d_artifact x) version classifier type_ in
          match d_scope x with
          | Some MImport =>
              do target <- rec c;
              do rest <- make_dm_own rec l';
              Ok (pd_dm target ++ rest)
          | sc =>
              do rest <- make_dm_own rec l';
              Ok (mkDDone c (match sc with Some m => into_scope m | None => None end) (d_optional x) :: rest)
          end
      end
  end.
Definition make_dependency_management (rec : coord -> res pdone) (child : list (dep mscope)) (parent : option (list ddone))
  : res (list ddone) :=
  do own <- make_dm_own rec child;
  Ok (own ++ unwrap_or parent []).

Definition declared_dependencies (child : list (dep scope)) (parent : option (list (dep scope))) : list (dep scope) :=
  child ++ unwrap_or parent [].

(* one declared dependency completed from the first matching managed entry *)
Definition make_dependency (dm : list ddone) (x : dep scope) : res ddone :=
  let type_ := unwrap_or (d_type x) s_jar in
  let classifier := or_else (d_classifier x) (type_to_classifier type_) in
  match find (fun i => matches_besides_version (dd_coord i) (d_group x) (d_artifact x) classifier type_) dm with
  | Some result =>
      let version := unwrap_or (d_version x) (c_version (dd_coord result)) in
      Ok (mkDDone (mkCoord (d_group x) (d_artifact x) version classifier type_)
                  (or_else (d_scope x) (dd_scope result)) (or_else (d_optional x) (dd_optional result)))
  | None =>
      match d_version x with
      | Some version => Ok (mkDDone (mkCoord (d_group x) (d_artifact x) version classifier type_) (d_scope x) (d_optional x))
      | None => Err
      end
  end.
Fixpoint map_res {A B} (f : A -> res B) (l : list A) : res (list B) :=
  match l with
  | [] => Ok []
  | x :: l' => do y <- f x; do r <- map_res f l'; Ok (y :: r)
  end.
Definition make_dependencies (dm : list ddone) (declared : list (dep scope)) : res (list ddone) :=
  map_res (make_dependency dm) declared.

Definition merge_parent (rec : coord -> res pdone) (parent : option pdone) (child : pom) : res pdone :=
  match parent with
  | Some par =>
      if negb (str_eqb (c_type (pd_coord par)) s_pom) then Err else
      let c := mkCoord (unwrap_or (p_group child) (c_group (pd_coord par))) (p_artifact child)
                       (unwrap_or (p_version child) (c_version (pd_coord par))) None
                       (packaging_to_type (unwrap_or (p_packaging child) s_jar)) in
      do dm <- make_dependency_management rec (p_dm child) (Some (pd_dm par));
      let declared := declared_dependencies (p_deps child) (Some (pd_declared par)) in
      do deps <- make_dependencies dm declared;
      Ok (mkPDone c dm deps declared)
  | None =>
      match p_group child, p_version child with
      | Some g, Some v =>
          let c := mkCoord g (p_artifact child) v None (packaging_to_type (unwrap_or (p_packaging child) s_jar)) in
          do dm <- make_dependency_management rec (p_dm child) None;
          let declared := declared_dependencies (p_deps child) None in
          do deps <- make_dependencies dm declared;
          Ok (mkPDone c dm deps declared)
      | _, _ => Err
      end
  end.

(* the `while let Some(coord) = to_get.take()` loop: the stack of parents, nearest first *)
Fixpoint parent_chain (fuel : nat) (fs : files) (rs : list resolver) (p : pom) : res (list pom) :=
  match get_parent_coord p with
  | None => Ok []
  | Some c =>
      match fuel with
      | O => Err
      | S f =>
          do rp <- try_get_pom_for fs rs c;
          do rest <- parent_chain f fs rs (snd rp);
          Ok (snd rp :: rest)
      end
  end.

(* `for pom in poms_stack.into_iter().rev() { parent = Some(merge_parent(parent, pom)?) }` *)
Fixpoint merge_stack (rec : coord -> res pdone) (parent : option pdone) (top_down : list pom) : res (option pdone) :=
  match top_down with
  | [] => Ok parent
  | p :: l => do m <- merge_parent rec parent p; merge_stack rec (Some m) l
  end.

Fixpoint get_merged_pom (fuel : nat) (fs : files) (rs : list resolver) (c : coord) : res (resolver * pdone) :=
  match fuel with
  | O => Err
  | S f =>
      let rec := fun c' => do x <- get_merged_pom f fs rs c'; Ok (snd x) in
      do rp <- try_get_pom_for fs rs c;
      do stack <- parent_chain f fs rs (snd rp);
      do parent <- merge_stack rec None (rev stack);
      do merged <- merge_parent rec parent (snd rp);
      Ok (fst rp, merged)
  end.

(* ---------- lib.rs ---------- *)
Record found := mkFound { f_resolver : resolver; f_coord : coord; f_scope : scope }.

(* Display: "{coord}:{scope} @ {url}" *)
Definition print_found (d : found) : str :=
  print_coord (f_coord d) ++ [cCOLON] ++ print_scope (f_scope d) ++ s_at ++ r_maven (f_resolver d).
(* TryFrom<&str> *)
Definition parse_found (s : str) : res found :=
  match split_once_pat s_at s with
  | None => Err
  | Some (lhs, url) =>
      match rsplit_once cCOLON lhs with
      | None => Err
      | Some (cs, ss) =>
          do c <- parse_coord cs;
          do sc <- parse_scope ss;
          Ok (mkFound (mkResolver url url) c sc)
      end
  end.

(* get_dependencies_tree; [mfuel] bounds the nesting inside get_merged_pom, [fuel] the depth of the tree *)
Fixpoint get_dependencies_tree (mfuel fuel : nat) (fs : files) (rs : list resolver) (c : coord) (sc : scope)
  : res (tree found) :=
  match fuel with
  | O => Err
  | S f =>
      do rp <- get_merged_pom mfuel fs rs c;
      do kids <-
        (fix go (ds : list ddone) : res (list (tree found)) :=
           match ds with
           | [] => Ok []
           | d :: ds' =>
               let is_optional := unwrap_or (dd_optional d) optional_default in
               let dependency_scope := unwrap_or (dd_scope d) dependency_scope_default in
               if is_optional then go ds'
               else match the_scope_table sc dependency_scope with
                    | None => go ds'
                    | Some scope_after_table =>
                        do t <- get_dependencies_tree mfuel f fs rs (dd_coord d) scope_after_table;
                        do rest <- go ds';
                        Ok (t :: rest)
                    end
           end) (pd_deps (snd rp));
      Ok (Node (mkFound (fst rp) c sc) kids)
  end.

Definition clean_up_dependencies (F : list (tree found)) : list (tree found) :=
  clean_up cid_eqb (fun d => dependency_collision_id (f_coord d)) F.

Definition get_maven_dependencies_fuel (fuel : nat) (fs : files) (rs : list resolver) (roots : list (coord * scope))
  : res (list found) :=
  do forest <- map_res (fun r => get_dependencies_tree fuel fuel fs rs (fst r) (snd r)) roots;
  Ok (breadth_first (clean_up_dependencies forest)).

(* every nested call (dependency, parent, import) moves to another POM of the universe, so in an
   acyclic universe the nesting depth is at most the number of files *)
Definition get_maven_dependencies (fs : files) (rs : list resolver) (roots : list (coord * scope)) : res (list found) :=
  get_maven_dependencies_fuel (S (length fs)) fs rs roots.
