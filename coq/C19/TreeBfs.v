(* C19 — the queue processes a forest level by level; labelled forests; the breadth-first list
   of a path-labelled forest is strictly sorted by (depth, declaration) and lists every node. *)
From FB Require Import C19.Tree C19.TreeBasics.
From Coq Require Import Sorting.Sorted Arith.PeanoNat Arith.Wf_nat Lia.
Local Open Scope nat_scope.

(* the queue iteration, listing subtrees instead of their data *)
Fixpoint bfs_trees {A} (fuel : nat) (q : list (tree A)) : list (tree A) :=
  match fuel, q with
  | S f, t :: q' => t :: bfs_trees f (q' ++ children t)
  | _, _ => []
  end.

Lemma bfs_q_trees {A} fuel (q : list (tree A)) : bfs_q fuel q = map data (bfs_trees fuel q).
Proof.
  revert q; induction fuel as [|f IH]; intros [|[a cs] q]; try reflexivity.
  cbn [bfs_q bfs_trees map data children]. rewrite IH. reflexivity.
Qed.

(* with [cur] at the front of the queue, the queue first yields [cur] and has then appended
   the children of [cur], in order, behind what was already waiting *)
Lemma bfs_trees_level {A} (cur nxt : list (tree A)) fuel :
  (fsize (cur ++ nxt) <= fuel)%nat ->
  bfs_trees fuel (cur ++ nxt) = cur ++ bfs_trees (fuel - length cur) (nxt ++ flat_map children cur).
Proof.
  revert nxt fuel; induction cur as [|t cur IH]; intros nxt fuel Hf.
  - cbn [app flat_map length]. rewrite Nat.sub_0_r, app_nil_r. reflexivity.
  - rewrite <- app_comm_cons in *. rewrite fsize_cons in Hf. pose proof (tsize_pos t) as Hp.
    destruct fuel as [|f]; [lia|].
    cbn [bfs_trees length flat_map]. rewrite <- app_assoc. rewrite IH.
    + rewrite Nat.sub_succ, <- !app_assoc. reflexivity.
    + rewrite !fsize_app in *. rewrite tsize_children in Hf. lia.
Qed.

Lemma bfs_trees_step {A} (G : list (tree A)) fuel :
  (fsize G <= fuel)%nat -> bfs_trees fuel G = G ++ bfs_trees (fuel - length G) (flat_map children G).
Proof. intros H. pose proof (bfs_trees_level G [] fuel) as L. rewrite app_nil_r in L. exact (L H). Qed.

Lemma fsize_next {A} (G : list (tree A)) fuel : (fsize G <= fuel)%nat -> (fsize (flat_map children G) <= fuel - length G)%nat.
Proof. rewrite (fsize_flat_children G). lia. Qed.

(* an induction scheme: a property of (fuel, G) that follows from the property one level down *)
Lemma level_ind {A} (P : nat -> list (tree A) -> Prop) :
  (forall fuel, P fuel []) ->
  (forall fuel G, G <> [] -> (fsize G <= fuel)%nat -> P (fuel - length G)%nat (flat_map children G) -> P fuel G) ->
  forall fuel G, (fsize G <= fuel)%nat -> P fuel G.
Proof.
  intros Hnil Hstep fuel. induction fuel as [fuel IH] using lt_wf_ind. intros G Hf.
  destruct G as [|t G]; [apply Hnil|].
  apply Hstep; [discriminate|exact Hf|].
  apply IH; [cbn [length]; pose proof (fsize_length (t :: G)); cbn [length] in *; lia|apply fsize_next; exact Hf].
Qed.

(* ---------- subtrees of a forest ---------- *)
Inductive Sub {A} (G : list (tree A)) : tree A -> Prop :=
| Sub_root x : In x G -> Sub G x
| Sub_child y x : Sub G y -> In x (children y) -> Sub G x.

Lemma Sub_next {A} (G : list (tree A)) x : Sub (flat_map children G) x -> Sub G x.
Proof.
  induction 1 as [x Hin|y x _ IH Hin].
  - apply in_flat_map in Hin. destruct Hin as (y & Hy & Hx). eapply Sub_child; [apply Sub_root; exact Hy|exact Hx].
  - eapply Sub_child; eauto.
Qed.
Lemma Sub_cases {A} (G : list (tree A)) x : Sub G x -> In x G \/ Sub (flat_map children G) x.
Proof.
  induction 1 as [x Hin|y x _ IH Hin]; [left; exact Hin|right].
  destruct IH as [Hy|Hy].
  - apply Sub_root. apply in_flat_map. exists y. split; assumption.
  - eapply Sub_child; eauto.
Qed.

Lemma bfs_trees_complete {A} fuel (G : list (tree A)) : (fsize G <= fuel)%nat -> forall x, In x (bfs_trees fuel G) <-> Sub G x.
Proof.
  revert fuel G. apply (level_ind (fun fuel G => forall x, In x (bfs_trees fuel G) <-> Sub G x)).
  - intros fuel x. destruct fuel; cbn; split; try tauto; intros H; exfalso;
      (induction H as [? []|? ? _ IH _]; exact IH).
  - intros fuel G _ Hf IH x. rewrite (bfs_trees_step G fuel Hf), in_app_iff, IH. split.
    + intros [H|H]; [apply Sub_root; exact H|apply Sub_next; exact H].
    + apply Sub_cases.
Qed.

(* ---------- labelled forests ---------- *)
Definition lab_lt {A} (c d : tree (path * A)) : Prop := lex_lt (label c) (label d).
Definition lab_before {A} (c d : tree (path * A)) : Prop := before (label c) (label d).

(* the children of a node labelled p are labelled p ++ [i] with increasing i, recursively *)
Definition kids_of {A} (p : path) (cs : list (tree (path * A))) : Prop :=
  Forall (fun c => exists i, label c = p ++ [i]) cs /\ StronglySorted lab_lt cs.
Fixpoint wl {A} (t : tree (path * A)) : Prop :=
  match t with
  | Node d cs => kids_of (fst d) cs /\ (fix all (l : list (tree (path * A))) : Prop := match l with [] => True | c :: l' => wl c /\ all l' end) cs
  end.
Lemma wl_node {A} (d : path * A) cs : wl (Node d cs) <-> kids_of (fst d) cs /\ Forall wl cs.
Proof.
  cbn [wl]. assert (H : forall l, (fix all (l : list (tree (path * A))) : Prop := match l with [] => True | c :: l' => wl c /\ all l' end) l <-> Forall wl l).
  { induction l as [|c l IH]; [split; constructor|]. rewrite IH. split; [intros [? ?]; constructor; assumption|intros H; inversion H; auto]. }
  rewrite H. tauto.
Qed.
Lemma wl_children {A} (t : tree (path * A)) : wl t -> kids_of (label t) (children t) /\ Forall wl (children t).
Proof. destruct t as [d cs]. rewrite wl_node. tauto. Qed.

(* a level: well-labelled trees of one depth, in declaration order *)
Definition lvl {A} (d : nat) (G : list (tree (path * A))) : Prop :=
  Forall wl G /\ Forall (fun t => length (label t) = d) G /\ StronglySorted lab_lt G.

Lemma lvl_nil {A} d : @lvl A d [].
Proof. repeat split; constructor. Qed.
Lemma lvl_subl {A} d (r l : list (tree (path * A))) : subl r l -> lvl d l -> lvl d r.
Proof. intros Hs (H1 & H2 & H3). repeat split; eauto using subl_Forall, subl_SS. Qed.

Lemma lvl_next {A} d (G : list (tree (path * A))) : lvl d G -> lvl (S d) (flat_map children G).
Proof.
  intros (Hwl & Hlen & Hss). repeat split.
  - rewrite Forall_forall in *. intros c Hc. apply in_flat_map in Hc. destruct Hc as (t & Ht & Hc).
    destruct (wl_children t (Hwl t Ht)) as [_ Hk]. rewrite Forall_forall in Hk. auto.
  - rewrite Forall_forall in *. intros c Hc. apply in_flat_map in Hc. destruct Hc as (t & Ht & Hc).
    destruct (wl_children t (Hwl t Ht)) as [[Hk _] _]. rewrite Forall_forall in Hk.
    destruct (Hk c Hc) as [i ->]. rewrite app_length, (Hlen t Ht). cbn. lia.
  - induction G as [|t G IH]; [constructor|].
    apply Forall_cons_iff in Hwl. destruct Hwl as [Hwt HwG]. apply Forall_cons_iff in Hlen. destruct Hlen as [Hlt HlG].
    apply StronglySorted_inv in Hss. destruct Hss as [HsG Hall].
    cbn [flat_map]. apply SS_app. split; [|split].
    + destruct (wl_children t Hwt) as [[_ Hk] _]. exact Hk.
    + apply IH; assumption.
    + intros c c' Hc Hc'. apply in_flat_map in Hc'. destruct Hc' as (t' & Ht' & Hc').
      rewrite Forall_forall in Hall, HwG, HlG.
      destruct (wl_children t Hwt) as [[Hk _] _]. destruct (wl_children t' (HwG t' Ht')) as [[Hk' _] _].
      rewrite Forall_forall in Hk, Hk'. destruct (Hk c Hc) as [i Hi]. destruct (Hk' c' Hc') as [j Hj].
      unfold lab_lt. rewrite Hi, Hj. apply lex_lt_snoc; [rewrite Hlt, (HlG t' Ht'); reflexivity|].
      left. exact (Hall t' Ht').
Qed.

(* the breadth-first list of a level is strictly sorted by (depth, declaration) *)
Lemma bfs_trees_sorted {A} fuel (G : list (tree (path * A))) : (fsize G <= fuel)%nat ->
  forall d, lvl d G ->
  StronglySorted lab_before (bfs_trees fuel G) /\ Forall (fun t => (d <= length (label t))%nat) (bfs_trees fuel G).
Proof.
  revert fuel G.
  apply (level_ind (fun fuel G => forall d, lvl d G ->
    StronglySorted lab_before (bfs_trees fuel G) /\ Forall (fun t => (d <= length (label t))%nat) (bfs_trees fuel G))).
  - intros fuel d _. destruct fuel; cbn; split; constructor.
  - intros fuel G _ Hf IH d Hl. rewrite (bfs_trees_step G fuel Hf).
    destruct (IH (S d) (lvl_next d G Hl)) as [IH1 IH2]. destruct Hl as (_ & Hlen & Hss).
    rewrite Forall_forall in Hlen, IH2. split.
    + apply SS_app. split; [|split; [exact IH1|]].
      * clear - Hlen Hss. induction Hss as [|a l HS IHs Hall]; constructor.
        -- apply IHs. intros x Hx. apply Hlen. right; exact Hx.
        -- rewrite Forall_forall in *. intros y Hy. right. split; [|exact (Hall y Hy)].
           rewrite (Hlen a (or_introl eq_refl)), (Hlen y (or_intror Hy)). reflexivity.
      * intros x y Hx Hy. left. rewrite (Hlen x Hx). specialize (IH2 y Hy). cbn beta in IH2. lia.
    + rewrite Forall_app. split; rewrite Forall_forall; intros x Hx; [rewrite (Hlen x Hx); lia|].
      specialize (IH2 x Hx). cbn beta in IH2. lia.
Qed.

(* ---------- annotate ---------- *)
Lemma annot_node {A} p (a : A) cs : annot p (Node a cs) = Node (p, a) (annot_list p 0 cs).
Proof. reflexivity. Qed.
Lemma annot_list_cons {A} p i (c : tree A) l : annot_list p i (c :: l) = annot (p ++ [i]) c :: annot_list p (S i) l.
Proof. reflexivity. Qed.
Lemma label_annot {A} p (t : tree A) : label (annot p t) = p.
Proof. destruct t. reflexivity. Qed.
Lemma data_annot {A} p (t : tree A) : data (annot p t) = (p, data t).
Proof. destruct t. reflexivity. Qed.
Lemma children_annot {A} p (t : tree A) : children (annot p t) = annot_list p 0 (children t).
Proof. destruct t. reflexivity. Qed.

Lemma annot_list_in {A} p i (l : list (tree A)) x :
  In x (annot_list p i l) <-> exists k t, nth_error l k = Some t /\ x = annot (p ++ [i + k]) t.
Proof.
  revert i; induction l as [|c l IH]; intros i.
  - cbn. split; [tauto|intros (k & t & H & _); destruct k; discriminate].
  - rewrite annot_list_cons. cbn [In]. rewrite IH. split.
    + intros [<-|(k & t & Hk & ->)].
      * exists 0, c. rewrite Nat.add_0_r. auto.
      * exists (S k), t. rewrite Nat.add_succ_r. auto.
    + intros ([|k] & t & Hk & ->).
      * injection Hk as <-. rewrite Nat.add_0_r. left; reflexivity.
      * right. exists k, t. rewrite Nat.add_succ_r. auto.
Qed.

Lemma kids_of_annot_list {A} p i (l : list (tree A)) :
  Forall (fun c => exists k, label c = p ++ [k] /\ (i <= k)%nat) (annot_list p i l) /\ StronglySorted lab_lt (annot_list p i l).
Proof.
  revert i; induction l as [|c l IH]; intros i; [split; constructor|].
  rewrite annot_list_cons. destruct (IH (S i)) as [IH1 IH2]. split.
  - constructor; [exists i; rewrite label_annot; auto|].
    rewrite Forall_forall in *. intros x Hx. destruct (IH1 x Hx) as (k & Hk & Hle). exists k. split; [exact Hk|lia].
  - constructor; [exact IH2|]. rewrite Forall_forall in *. intros x Hx. destruct (IH1 x Hx) as (k & Hk & Hle).
    unfold lab_lt. rewrite label_annot, Hk. apply lex_lt_snoc; [reflexivity|]. right. split; [reflexivity|lia].
Qed.

Lemma wl_annot {A} (t : tree A) : forall p, wl (annot p t).
Proof.
  induction t as [a cs IH] using tree_ind2. intros p. rewrite annot_node, wl_node. cbn [fst]. split.
  - destruct (kids_of_annot_list p 0 cs) as [H1 H2]. split; [|exact H2].
    rewrite Forall_forall in *. intros x Hx. destruct (H1 x Hx) as (k & Hk & _). eauto.
  - rewrite Forall_forall in *. intros x Hx. apply annot_list_in in Hx. destruct Hx as (k & t & Hk & ->).
    apply IH. eapply nth_error_In; eauto.
Qed.

Lemma lvl_annotate {A} (F : list (tree A)) : lvl 1 (annotate F).
Proof.
  unfold annotate. destruct (kids_of_annot_list [] 0 F) as [H1 H2]. repeat split; [| |exact H2].
  - rewrite Forall_forall. intros x Hx. apply annot_list_in in Hx. destruct Hx as (k & t & _ & ->). apply wl_annot.
  - rewrite Forall_forall in *. intros x Hx. destruct (H1 x Hx) as (k & -> & _). reflexivity.
Qed.

Lemma fsize_annot {A} (t : tree A) : forall p, tsize (annot p t) = tsize t.
Proof.
  induction t as [a cs IH] using tree_ind2. intros p. rewrite annot_node, !tsize_node. f_equal.
  generalize 0%nat. induction cs as [|c cs IHcs]; intros i; [reflexivity|].
  inversion IH as [|? ? Hc Hcs]; subst. rewrite annot_list_cons, !fsize_cons, Hc, IHcs; auto.
Qed.
Lemma fsize_annotate {A} (F : list (tree A)) : fsize (annotate F) = fsize F.
Proof.
  unfold annotate. generalize (@nil nat) 0%nat. induction F as [|c F IH]; intros p i; [reflexivity|].
  rewrite annot_list_cons, !fsize_cons, fsize_annot, IH. reflexivity.
Qed.

(* tmap commutes with the queue *)
Lemma bfs_q_tmap {A B} (g : A -> B) fuel (q : list (tree A)) : bfs_q fuel (map (tmap g) q) = map g (bfs_q fuel q).
Proof.
  revert q; induction fuel as [|f IH]; intros [|[a cs] q]; try reflexivity.
  cbn [map tmap bfs_q]. rewrite <- map_app, IH. reflexivity.
Qed.
Lemma tsize_tmap {A B} (g : A -> B) (t : tree A) : tsize (tmap g t) = tsize t.
Proof.
  induction t as [a cs IH] using tree_ind2. cbn [tmap]. rewrite !tsize_node. f_equal.
  induction IH as [|c cs Hc _ IHcs]; [reflexivity|]. cbn [map]. rewrite !fsize_cons, Hc, IHcs. reflexivity.
Qed.
Lemma fsize_tmap {A B} (g : A -> B) (l : list (tree A)) : fsize (map (tmap g) l) = fsize l.
Proof. induction l as [|c l IH]; [reflexivity|]. cbn [map]. rewrite !fsize_cons, tsize_tmap, IH. reflexivity. Qed.
