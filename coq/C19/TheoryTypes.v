(* C19 — the artifact handler tables of coord.rs (`impl Types`), whose arms CoordGen.v holds as
   regenerated from the source: packaging_to_type is the identity, type_to_classifier and
   type_to_extension are the columns "classifier" and "extension" of Maven's default artifact
   handlers table (plus the bundle plugin's type), for ALL strings. *)
From FB Require Import C19.Model.

Definition str_eq_dec : forall a b : str, {a = b} + {a <> b} := list_eq_dec N.eq_dec.

Lemma existsb_str_eqb_In s l : existsb (str_eqb s) l = true <-> In s l.
Proof.
  rewrite existsb_exists. split.
  - intros (x & Hx & E). apply str_eqb_eq in E. subst x. exact Hx.
  - intros H. exists s. split; [exact H|apply str_eqb_eq; reflexivity].
Qed.

(* a string that is no pattern of any arm falls through to the catch-all arm *)
Lemma eval_arms_notin {B} (arms : list (list str * B)) t : ~ In t (flat_map fst arms) -> eval_arms arms t = None.
Proof.
  induction arms as [|[pats r] arms IH]; intros H; [reflexivity|]. cbn [eval_arms]. cbn [flat_map fst] in H.
  destruct (existsb (str_eqb t) pats) eqn:E.
  - exfalso. apply H, in_or_app. left. apply existsb_str_eqb_In. exact E.
  - apply IH. intros Hin. apply H, in_or_app. right. exact Hin.
Qed.
Lemma lookup_str_notin {B} k (l : list (str * B)) : ~ In k (map fst l) -> lookup_str k l = None.
Proof.
  induction l as [|[k' v] l IH]; intros H; [reflexivity|]. cbn [lookup_str]. cbn [map fst] in H.
  destruct (str_eqb_spec k k') as [->|_]; [exfalso; apply H; left; reflexivity|].
  apply IH. intros Hin. apply H. right. exact Hin.
Qed.

(* two functions on strings that agree on a finite list and are both "default" outside it agree everywhere *)
Lemma finite_support {B} (f g : str -> B) (L : list str) :
  (forall s, In s L -> f s = g s) -> (forall s, ~ In s L -> f s = g s) -> forall s, f s = g s.
Proof. intros Hin Hout s. destruct (in_dec str_eq_dec s L); auto. Qed.

(* ---------- packaging_to_type: every arm that can be reached returns the packaging itself ---------- *)
Lemma eval_str_arms_id arms :
  forallb (fun q => str_eqb (eval_str_arms arms q) q) (flat_map fst arms) = true -> forall s, eval_str_arms arms s = s.
Proof.
  intros H. apply (finite_support (eval_str_arms arms) (fun s => s) (flat_map fst arms)).
  - rewrite forallb_forall in H. intros s Hs. apply str_eqb_eq, H, Hs.
  - intros s Hs. unfold eval_str_arms. rewrite (eval_arms_notin arms s Hs). reflexivity.
Qed.
Theorem packaging_to_type_identity : forall p, packaging_to_type p = p.
Proof. apply eval_str_arms_id. vm_compute. reflexivity. Qed.

(* ---------- type_to_classifier: the "classifier" column ---------- *)
(* https://maven.apache.org/ref/3.9.8/maven-core/artifact-handlers.html: the types with a non-empty classifier *)
Definition maven_default_classifiers : list (str * str) :=
  [(s_test_jar, s_tests); (s_ejb_client, s_client); (s_java_source, s_sources); (s_javadoc, s_javadoc)].
Definition opt_str_eqb (a b : option str) : bool := opt_eqb str_eqb a b.
Lemma opt_str_eqb_true a b : opt_str_eqb a b = true -> a = b.
Proof.
  destruct a as [a|], b as [b|]; cbn; try congruence. intros H. apply str_eqb_eq in H. congruence.
Qed.
Theorem type_to_classifier_is_maven : forall t, type_to_classifier t = lookup_str t maven_default_classifiers.
Proof.
  apply (finite_support _ _ (flat_map fst type_to_classifier_arms ++ map fst maven_default_classifiers)).
  - assert (H : forallb (fun s => opt_str_eqb (type_to_classifier s) (lookup_str s maven_default_classifiers))
                        (flat_map fst type_to_classifier_arms ++ map fst maven_default_classifiers) = true) by (vm_compute; reflexivity).
    rewrite forallb_forall in H. intros s Hs. apply opt_str_eqb_true, H, Hs.
  - intros s Hs. unfold type_to_classifier. rewrite eval_arms_notin, lookup_str_notin; [reflexivity| |];
      intros Hin; apply Hs, in_or_app; [right|left]; exact Hin.
Qed.

(* ---------- type_to_extension: the "extension" column ---------- *)
Definition s_maven_plugin : str := [109;97;118;101;110;45;112;108;117;103;105;110].  (* maven-plugin *)
Definition s_ejb : str := [101;106;98].                                            (* ejb *)
Definition s_bundle : str := [98;117;110;100;108;101].                              (* bundle *)
(* the types whose extension is not the type's own name: all of them are packed as .jar *)
Definition maven_jar_extension_types : list str :=
  [s_test_jar; s_maven_plugin; s_ejb; s_ejb_client; s_java_source; s_javadoc; s_bundle].
Definition maven_extension (t : str) : str := if existsb (str_eqb t) maven_jar_extension_types then s_jar else t.
Theorem type_to_extension_is_maven : forall t, type_to_extension t = maven_extension t.
Proof.
  apply (finite_support _ _ (flat_map fst type_to_extension_arms ++ maven_jar_extension_types)).
  - assert (H : forallb (fun s => str_eqb (type_to_extension s) (maven_extension s))
                        (flat_map fst type_to_extension_arms ++ maven_jar_extension_types) = true) by (vm_compute; reflexivity).
    rewrite forallb_forall in H. intros s Hs. apply str_eqb_eq, H, Hs.
  - intros s Hs. unfold type_to_extension, eval_str_arms, maven_extension. rewrite eval_arms_notin.
    + destruct (existsb (str_eqb s) maven_jar_extension_types) eqn:E; [|reflexivity].
      exfalso. apply Hs, in_or_app. right. apply existsb_str_eqb_In. exact E.
    + intros Hin. apply Hs, in_or_app. left. exact Hin.
Qed.

(* several types share one extension: an id built from the extension would merge what Maven keeps apart *)
Theorem extension_not_injective :
  s_jar <> s_ejb /\ type_to_extension s_jar = type_to_extension s_ejb
  /\ type_to_classifier s_jar = type_to_classifier s_ejb.
Proof. split; [discriminate|split; vm_compute; reflexivity]. Qed.
