(* C19 — the decidable acyclicity check on a POM universe (definitions only; the theorem that it
   makes the fuel irrelevant is in TheoryFuel.v, the harness emits the ranks of generated universes) *)
From FB Require Export C19.Model.
From Coq Require Import Arith.PeanoNat.
Local Open Scope nat_scope.

(* every URL under which a POM of (group, artifact) can be asked from a repository starts with this *)
Definition url_prefix (r : resolver) (g a : str) : str :=
  r_maven r ++ (if ends_with_char cSLASH (r_maven r) then [] else [cSLASH])
  ++ replace_char cDOT cSLASH g ++ [cSLASH] ++ a ++ [cSLASH].

Definition rank_of (ranks : list (str * nat)) (u : str) : nat :=
  match lookup_str u ranks with Some k => k | None => O end.

(* the (group, artifact) pairs a POM refers to: parent, managed entries (imports among them), dependencies *)
Definition pom_refs (p : pom) : list (str * str) :=
  (match p_parent p with Some pr => [(pr_group pr, pr_artifact pr)] | None => [] end)
  ++ map (fun x => (d_group x, d_artifact x)) (p_dm p)
  ++ map (fun x => (d_group x, d_artifact x)) (p_deps p).

(* [ranks] numbers the documents so that every document that could be served for something a POM
   refers to has a smaller number than the POM's own document; numbers stay below the number of documents *)
Definition acyclic_check (fs : files) (rs : list resolver) (ranks : list (str * nat)) : bool :=
  forallb (fun e =>
    match snd e with
    | Ok p =>
        forallb (fun ga =>
          forallb (fun r =>
            forallb (fun e' =>
              if starts_with (url_prefix r (fst ga) (snd ga)) (fst e')
              then Nat.ltb (rank_of ranks (fst e')) (rank_of ranks (fst e)) else true) fs) rs) (pom_refs p)
    | Err => true
    end) fs
  && forallb (fun e => Nat.ltb (rank_of ranks (fst e)) (length fs)) fs.

