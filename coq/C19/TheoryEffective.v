(* C19 — the effective POM without fuel.  In a universe that passes the acyclicity check,
   E := get_merged_pom (S (length fs)) is THE function satisfying the equation of effective POMs:
     E c = the document of c (first repository serving it), inherited along its chain of parents,
           every import-scoped BOM replaced in place by the dependency management E gives for it
   — it satisfies the equation, and every function satisfying it is equal to E. *)
From FB Require Import C19.Model C19.Acyclic C19.TheoryPom C19.TheoryFuel.
From Coq Require Import Arith.PeanoNat Lia.
Local Open Scope nat_scope.

(* one unfolding of "effective POM" over a candidate function X *)
Definition effective_step (fs : files) (rs : list resolver) (X : coord -> res (resolver * pdone)) (c : coord) : res (resolver * pdone) :=
  do rp <- try_get_pom_for fs rs c;
  do stack <- parent_chain (S (length fs)) fs rs (snd rp);
  do e <- effective_chain (fun c' => do x <- X c'; Ok (snd x)) (snd rp :: stack);
  match e with Some m => Ok (fst rp, m) | None => Err end.

Theorem effective_pom_fixpoint : forall fs rs ranks, acyclic_check fs rs ranks = true ->
  forall c, get_merged_pom (S (length fs)) fs rs c = effective_step fs rs (get_merged_pom (S (length fs)) fs rs) c.
Proof.
  intros fs rs ranks Hc c. pose proof (checked_bound fs rs ranks c Hc) as Hb.
  rewrite (get_merged_pom_fuel fs rs ranks Hc (S (length fs)) c) with (f2 := S (S (length fs))) at 1; try lia.
  rewrite merged_pom_is_inheritance. reflexivity.
Qed.

Lemma effective_chain_agree fs rs ranks n r1 r2 p stack :
  agree_below fs rs ranks n r1 r2 -> refs_below fs rs ranks n p -> Forall (refs_below fs rs ranks n) stack ->
  effective_chain r1 (p :: stack) = effective_chain r2 (p :: stack).
Proof.
  intros Ha Hp Hs. cbn [effective_chain]. rewrite <- !merge_stack_effective.
  rewrite (merge_stack_agree fs rs ranks n r1 r2 (rev stack) Ha (Forall_rev Hs) None).
  destruct (merge_stack r2 None (rev stack)) as [par|]; [|reflexivity]. cbn [bind].
  rewrite (merge_parent_agree fs rs ranks n r1 r2 par p Ha Hp). reflexivity.
Qed.

Theorem effective_pom_unique : forall fs rs ranks (X : coord -> res (resolver * pdone)),
  acyclic_check fs rs ranks = true ->
  (forall c, X c = effective_step fs rs X c) ->
  forall c, X c = get_merged_pom (S (length fs)) fs rs c.
Proof.
  intros fs rs ranks X Hc HX.
  assert (G : forall n c, msr fs rs ranks c < n -> X c = get_merged_pom (S (length fs)) fs rs c).
  { induction n as [|n IH]; intros c Hm; [lia|].
    rewrite (HX c), (effective_pom_fixpoint fs rs ranks Hc c). unfold effective_step.
    destruct (try_get_pom_for fs rs c) as [[r p]|] eqn:El; [|reflexivity]. cbn [bind snd fst].
    destruct (parent_chain (S (length fs)) fs rs p) as [stack|] eqn:Es; [|reflexivity]. cbn [bind].
    pose proof (checked_refs fs rs ranks c r p Hc El) as Hp.
    pose proof (parent_chain_refs fs rs ranks Hc _ _ p stack Hp Es) as Hs.
    rewrite (effective_chain_agree fs rs ranks (msr fs rs ranks c)
               (fun c' => do x <- X c'; Ok (snd x))
               (fun c' => do x <- get_merged_pom (S (length fs)) fs rs c'; Ok (snd x)) p stack); [reflexivity| |exact Hp|exact Hs].
    intros c' Hc'. rewrite (IH c'); [reflexivity|lia]. }
  intros c. apply (G (S (length fs))). pose proof (checked_bound fs rs ranks c Hc). lia.
Qed.
