(* C19 — effective POMs as an inductively defined relation: no fuel, no acyclicity hypothesis.

     eff_pom fs rs c r m    "m is the effective POM of c, its own document served by repository r"

   is the least relation closed under the rules of Maven's documentation as the crate implements them:
   the document of c comes from the first repository serving it; its chain of parents is followed to the
   end; along the chain, from the top down, every POM inherits group and version, its dependency
   management is its own entries in order — an import-scoped entry replaced, in place, by the management of
   the EFFECTIVE POM of the BOM it names (the relation itself) — followed by the parent's; its declared
   dependencies are its own followed by the inherited ones, each completed from that management.

   Theorems: the model's get_merged_pom computes exactly this relation (some fuel gives Ok (r, m) iff
   eff_pom c r m, for EVERY universe); the relation is functional; in a universe passing acyclic_check it is
   the graph of get_merged_pom (S (length fs)); a coordinate inside an import trap has no effective POM. *)
From FB Require Import C19.Model C19.Acyclic C19.TheoryTypes C19.TheoryPom C19.TheoryFuel C19.TheoryEffective C19.TheoryCycles.
From Coq Require Import Arith.PeanoNat Lia.
Local Open Scope nat_scope.

(* the chain of parents: nearest first, up to a POM without <parent> *)
Inductive parents (fs : files) (rs : list resolver) : pom -> list pom -> Prop :=
| parents_none p : get_parent_coord p = None -> parents fs rs p []
| parents_some p c r q rest : get_parent_coord p = Some c -> try_get_pom_for fs rs c = Ok (r, q) ->
    parents fs rs q rest -> parents fs rs p (q :: rest).

Definition parent_dm (par : option pdone) : list ddone := match par with Some x => pd_dm x | None => [] end.
Definition parent_declared (par : option pdone) : list (dep scope) := match par with Some x => pd_declared x | None => [] end.

(* the coordinate of the merged POM: group and version inherited, the parent must be pom-packaged; without a parent both
   must be present *)
Definition merged_coord (par : option pdone) (child : pom) : option coord :=
  match par with
  | Some x =>
      if str_eqb (c_type (pd_coord x)) s_pom
      then Some (mkCoord (unwrap_or (p_group child) (c_group (pd_coord x))) (p_artifact child)
                         (unwrap_or (p_version child) (c_version (pd_coord x))) None (unwrap_or (p_packaging child) s_jar))
      else None
  | None =>
      match p_group child, p_version child with
      | Some g, Some v => Some (mkCoord g (p_artifact child) v None (unwrap_or (p_packaging child) s_jar))
      | _, _ => None
      end
  end.

Inductive eff_pom (fs : files) (rs : list resolver) : coord -> resolver -> pdone -> Prop :=
| eff_pom_intro c r p stack m :
    try_get_pom_for fs rs c = Ok (r, p) -> parents fs rs p stack ->
    eff_chain fs rs (p :: stack) (Some m) -> eff_pom fs rs c r m
(* a POM followed by its ancestors: the effective POM of the first, None for the empty chain *)
with eff_chain (fs : files) (rs : list resolver) : list pom -> option pdone -> Prop :=
| eff_chain_nil : eff_chain fs rs [] None
| eff_chain_cons p ancestors par m :
    eff_chain fs rs ancestors par -> eff_merge fs rs par p m -> eff_chain fs rs (p :: ancestors) (Some m)
(* one inheritance step *)
with eff_merge (fs : files) (rs : list resolver) : option pdone -> pom -> pdone -> Prop :=
| eff_merge_intro par child c own deps :
    merged_coord par child = Some c ->
    eff_dm fs rs (p_dm child) own ->
    map_res (make_dependency (own ++ parent_dm par)) (p_deps child ++ parent_declared par) = Ok deps ->
    eff_merge fs rs par child (mkPDone c (own ++ parent_dm par) deps (p_deps child ++ parent_declared par))
(* the own dependency management, imports expanded in place *)
with eff_dm (fs : files) (rs : list resolver) : list (dep mscope) -> list ddone -> Prop :=
| eff_dm_nil : eff_dm fs rs [] []
| eff_dm_entry x v rest out : d_version x = Some v -> d_scope x <> Some MImport -> eff_dm fs rs rest out ->
    eff_dm fs rs (x :: rest)
      (mkDDone (dm_coord x v) (match d_scope x with Some m => into_scope m | None => None end) (d_optional x) :: out)
| eff_dm_import x v r target rest out : d_version x = Some v -> d_scope x = Some MImport ->
    eff_pom fs rs (dm_coord x v) r target -> eff_dm fs rs rest out ->
    eff_dm fs rs (x :: rest) (pd_dm target ++ out).

Scheme eff_pom_mut := Minimality for eff_pom Sort Prop
  with eff_chain_mut := Minimality for eff_chain Sort Prop
  with eff_merge_mut := Minimality for eff_merge Sort Prop
  with eff_dm_mut := Minimality for eff_dm Sort Prop.
Combined Scheme eff_mutind from eff_pom_mut, eff_chain_mut, eff_merge_mut, eff_dm_mut.

(* ------------------------------------------------------------------ *)
(* the model's steps over a function [rec] for the imports, against the rules *)

Definition rec_f (f : nat) (fs : files) (rs : list resolver) : coord -> res pdone :=
  fun c' => do x <- get_merged_pom f fs rs c'; Ok (snd x).

(* every Ok answer of [rec] is an effective POM *)
Definition justified (fs : files) (rs : list resolver) (rec : coord -> res pdone) : Prop :=
  forall c t, rec c = Ok t -> exists r, eff_pom fs rs c r t.

Lemma dm_expands_eff fs rs rec l out : justified fs rs rec -> dm_expands rec l out -> eff_dm fs rs l out.
Proof.
  intros Hj H. induction H as [|x v rest out Hv Hs _ IH|x v target rest out Hv Hs Ht _ IH].
  - constructor.
  - apply eff_dm_entry; assumption.
  - destruct (Hj _ _ Ht) as (r & Hr). apply (eff_dm_import fs rs x v r target rest out Hv Hs Hr IH).
Qed.

Lemma merge_parent_unfold rec par child :
  merge_parent rec par child =
  match merged_coord par child with
  | None => Err
  | Some c =>
      do own <- make_dm_own rec (p_dm child);
      do deps <- map_res (make_dependency (own ++ parent_dm par)) (p_deps child ++ parent_declared par);
      Ok (mkPDone c (own ++ parent_dm par) deps (p_deps child ++ parent_declared par))
  end.
Proof.
  unfold merge_parent, merged_coord, make_dependency_management, declared_dependencies, make_dependencies, parent_dm, parent_declared.
  rewrite !packaging_to_type_identity. destruct par as [x|].
  - destruct (str_eqb (c_type (pd_coord x)) s_pom); cbn [negb]; [|reflexivity].
    destruct (make_dm_own rec (p_dm child)) as [own|]; [|reflexivity]. cbn [bind unwrap_or]. reflexivity.
  - destruct (p_group child) as [g|]; [|reflexivity]. destruct (p_version child) as [v|]; [|reflexivity].
    destruct (make_dm_own rec (p_dm child)) as [own|]; [|reflexivity]. cbn [bind unwrap_or]. reflexivity.
Qed.

Lemma merge_parent_eff fs rs rec par child m :
  justified fs rs rec -> merge_parent rec par child = Ok m -> eff_merge fs rs par child m.
Proof.
  intros Hj. rewrite merge_parent_unfold. destruct (merged_coord par child) as [c|] eqn:Ec; [|discriminate].
  destruct (make_dm_own rec (p_dm child)) as [own|] eqn:Eo; [|discriminate]. cbn [bind].
  destruct (map_res _ _) as [deps|] eqn:Ed; [|discriminate]. cbn [bind]. intros [= <-].
  apply eff_merge_intro; [exact Ec| |exact Ed].
  apply (dm_expands_eff fs rs rec _ _ Hj). apply make_dm_own_spec. exact Eo.
Qed.

Lemma effective_chain_eff fs rs rec l e :
  justified fs rs rec -> effective_chain rec l = Ok e -> eff_chain fs rs l e.
Proof.
  intros Hj. revert e; induction l as [|p l IH]; intros e; cbn [effective_chain].
  - intros [= <-]. constructor.
  - destruct (effective_chain rec l) as [par|]; [|discriminate]. cbn [bind].
    destruct (merge_parent rec par p) as [m|] eqn:Em; [|discriminate]. cbn [bind]. intros [= <-].
    apply (eff_chain_cons fs rs p l par m); [apply IH; reflexivity|]. apply (merge_parent_eff fs rs rec par p m Hj Em).
Qed.

Lemma parent_chain_parents fs rs : forall f p stack, parent_chain f fs rs p = Ok stack -> parents fs rs p stack.
Proof.
  induction f as [|f IH]; intros p stack; rewrite parent_chain_unfold.
  - destruct (get_parent_coord p) eqn:E; [discriminate|]. intros [= <-]. apply parents_none. exact E.
  - destruct (get_parent_coord p) as [c|] eqn:E; [|intros [= <-]; apply parents_none; exact E].
    destruct (try_get_pom_for fs rs c) as [[r q]|] eqn:El; [|discriminate]. cbn [bind snd].
    destruct (parent_chain f fs rs q) as [rest|] eqn:Er; [|discriminate]. cbn [bind]. intros [= <-].
    apply (parents_some fs rs p c r q rest E El). apply IH. exact Er.
Qed.

(* soundness: whatever the model computes, with whatever fuel, is an effective POM *)
Theorem merged_pom_is_eff : forall fs rs f c r m, get_merged_pom f fs rs c = Ok (r, m) -> eff_pom fs rs c r m.
Proof.
  intros fs rs. induction f as [|f IH]; intros c r m; [discriminate|].
  rewrite merged_pom_is_inheritance.
  destruct (try_get_pom_for fs rs c) as [[r0 p]|] eqn:El; [|discriminate]. cbn [bind snd fst].
  destruct (parent_chain f fs rs p) as [stack|] eqn:Es; [|discriminate]. cbn [bind].
  destruct (effective_chain _ (p :: stack)) as [[m0|]|] eqn:Ee; try discriminate. cbn [bind]. intros [= <- <-].
  apply (eff_pom_intro fs rs c r0 p stack m0 El); [apply (parent_chain_parents fs rs f); exact Es|].
  refine (effective_chain_eff fs rs _ _ _ _ Ee).
  intros c' t H. cbn beta in H.
  destruct (get_merged_pom f fs rs c') as [[r' t']|] eqn:E; [|discriminate]. cbn [bind snd] in H.
  injection H as <-. exists r'. apply IH. exact E.
Qed.

(* ------------------------------------------------------------------ *)
(* completeness: every effective POM is computed with enough fuel *)

Lemma get_merged_pom_mono fs rs : forall f f' c, f <= f' -> res_le (get_merged_pom f fs rs c) (get_merged_pom f' fs rs c).
Proof.
  intros f f' c H. induction H as [|f' _ IH]; [apply res_le_refl|].
  intros v Hv. apply get_merged_pom_le. apply IH. exact Hv.
Qed.
Lemma parent_chain_mono fs rs : forall f f' p, f <= f' -> res_le (parent_chain f fs rs p) (parent_chain f' fs rs p).
Proof.
  intros f f' p H. induction H as [|f' _ IH]; [apply res_le_refl|].
  intros v Hv. apply parent_chain_le. apply IH. exact Hv.
Qed.
Lemma rec_f_mono fs rs f f' : f <= f' -> rec_le (rec_f f fs rs) (rec_f f' fs rs).
Proof.
  intros H c. unfold rec_f. apply bind_le; [apply get_merged_pom_mono; exact H|intros; apply res_le_refl].
Qed.
Lemma effective_chain_le r1 r2 l : rec_le r1 r2 -> res_le (effective_chain r1 l) (effective_chain r2 l).
Proof. intros H. rewrite <- !merge_stack_effective. apply merge_stack_le. exact H. Qed.

Lemma parents_chain fs rs p stack : parents fs rs p stack -> exists f, parent_chain f fs rs p = Ok stack.
Proof.
  induction 1 as [p E|p c r q rest E El _ (f & IH)].
  - exists 0. rewrite parent_chain_unfold, E. reflexivity.
  - exists (S f). rewrite parent_chain_unfold, E, El. cbn [bind snd]. rewrite IH. reflexivity.
Qed.

Theorem eff_is_computed fs rs :
  (forall c r m, eff_pom fs rs c r m -> exists f, get_merged_pom f fs rs c = Ok (r, m)) /\
  (forall l e, eff_chain fs rs l e -> exists f, effective_chain (rec_f f fs rs) l = Ok e) /\
  (forall par p m, eff_merge fs rs par p m -> exists f, merge_parent (rec_f f fs rs) par p = Ok m) /\
  (forall l out, eff_dm fs rs l out -> exists f, make_dm_own (rec_f f fs rs) l = Ok out).
Proof.
  apply (eff_mutind fs rs
    (fun c r m => exists f, get_merged_pom f fs rs c = Ok (r, m))
    (fun l e => exists f, effective_chain (rec_f f fs rs) l = Ok e)
    (fun par p m => exists f, merge_parent (rec_f f fs rs) par p = Ok m)
    (fun l out => exists f, make_dm_own (rec_f f fs rs) l = Ok out)).
  - (* eff_pom_intro *)
    intros c r p stack m El Hp _ (f2 & Hc). destruct (parents_chain fs rs p stack Hp) as (f1 & Hs).
    exists (S (Nat.max f1 f2)). rewrite merged_pom_is_inheritance, El. cbn [bind snd fst].
    rewrite (parent_chain_mono fs rs f1 (Nat.max f1 f2) p (Nat.le_max_l _ _) _ Hs). cbn [bind].
    fold (rec_f (Nat.max f1 f2) fs rs).
    rewrite (effective_chain_le _ _ _ (rec_f_mono fs rs f2 (Nat.max f1 f2) (Nat.le_max_r _ _)) _ Hc). reflexivity.
  - exists 0. reflexivity.
  - (* eff_chain_cons *)
    intros p ancestors par m _ (f1 & H1) _ (f2 & H2). exists (Nat.max f1 f2). cbn [effective_chain].
    rewrite (effective_chain_le _ _ _ (rec_f_mono fs rs f1 (Nat.max f1 f2) (Nat.le_max_l _ _)) _ H1). cbn [bind].
    rewrite (merge_parent_le _ _ _ _ (rec_f_mono fs rs f2 (Nat.max f1 f2) (Nat.le_max_r _ _)) _ H2). reflexivity.
  - (* eff_merge_intro *)
    intros par child c own deps Ec _ (f & Ho) Ed. exists f. rewrite merge_parent_unfold, Ec, Ho. cbn [bind]. rewrite Ed. reflexivity.
  - exists 0. reflexivity.
  - (* eff_dm_entry *)
    intros x v rest out Hv Hs _ (f & IH). exists f. apply make_dm_own_spec. apply dme_entry; [exact Hv|exact Hs|].
    apply make_dm_own_spec. exact IH.
  - (* eff_dm_import *)
    intros x v r target rest out Hv Hs _ (f1 & H1) _ (f2 & H2). exists (Nat.max f1 f2). apply make_dm_own_spec.
    apply (dme_import _ x v target rest out Hv Hs).
    + unfold rec_f. rewrite (get_merged_pom_mono fs rs f1 (Nat.max f1 f2) _ (Nat.le_max_l _ _) _ H1). reflexivity.
    + apply make_dm_own_spec. apply (make_dm_own_le _ _ _ (rec_f_mono fs rs f2 (Nat.max f1 f2) (Nat.le_max_r _ _)) _ H2).
Qed.

(* the model computes exactly the relation, in every universe *)
Theorem eff_pom_iff_computed fs rs c r m : eff_pom fs rs c r m <-> exists f, get_merged_pom f fs rs c = Ok (r, m).
Proof.
  split; [apply (proj1 (eff_is_computed fs rs))|]. intros (f & H). apply (merged_pom_is_eff fs rs f). exact H.
Qed.

(* at most one effective POM per coordinate *)
Theorem eff_pom_functional fs rs c r1 m1 r2 m2 : eff_pom fs rs c r1 m1 -> eff_pom fs rs c r2 m2 -> r1 = r2 /\ m1 = m2.
Proof.
  intros H1 H2. apply eff_pom_iff_computed in H1 as (f1 & H1). apply eff_pom_iff_computed in H2 as (f2 & H2).
  apply (get_merged_pom_mono fs rs f1 (Nat.max f1 f2) c (Nat.le_max_l _ _)) in H1.
  apply (get_merged_pom_mono fs rs f2 (Nat.max f1 f2) c (Nat.le_max_r _ _)) in H2.
  rewrite H1 in H2. injection H2 as -> ->. split; reflexivity.
Qed.

(* in a universe passing the acyclicity check the relation is the graph of the model's function at the canonical fuel *)
Theorem eff_pom_acyclic fs rs ranks : acyclic_check fs rs ranks = true ->
  forall c r m, eff_pom fs rs c r m <-> get_merged_pom (S (length fs)) fs rs c = Ok (r, m).
Proof.
  intros Hc c r m. split; [|apply merged_pom_is_eff].
  intros H. apply eff_pom_iff_computed in H as (f & H).
  pose proof (checked_bound fs rs ranks c Hc) as Hb.
  apply (get_merged_pom_mono fs rs f (Nat.max f (S (length fs))) c (Nat.le_max_l _ _)) in H.
  rewrite <- H. apply (get_merged_pom_fuel fs rs ranks Hc (S (length fs)) c); lia.
Qed.

(* ... and every coordinate that has a document, a complete parent chain and completable entries has one: totality is
   exactly "the model does not answer Err" *)
Theorem eff_pom_exists_iff fs rs ranks : acyclic_check fs rs ranks = true ->
  forall c, (exists r m, eff_pom fs rs c r m) <-> get_merged_pom (S (length fs)) fs rs c <> Err.
Proof.
  intros Hc c. split.
  - intros (r & m & H). apply (eff_pom_acyclic fs rs ranks Hc) in H. rewrite H. discriminate.
  - intros H. destruct (get_merged_pom (S (length fs)) fs rs c) as [[r m]|] eqn:E; [|congruence].
    exists r, m. apply (eff_pom_acyclic fs rs ranks Hc). exact E.
Qed.

(* on an import cycle (any set of coordinates that cannot be left along imports) nothing has an effective POM *)
Theorem eff_pom_none_in_import_trap fs rs (T : coord -> Prop) :
  (forall c, T c -> forall r p f stack, try_get_pom_for fs rs c = Ok (r, p) -> parent_chain f fs rs p = Ok stack ->
     Exists (imports_into T) (p :: stack)) ->
  forall c r m, T c -> ~ eff_pom fs rs c r m.
Proof.
  intros Htrap c r m Hc H. apply eff_pom_iff_computed in H as (f & H).
  rewrite (import_trap_never_resolves fs rs T Htrap f c Hc) in H. discriminate.
Qed.

(* a POM whose chain of parents does not end (a parent cycle) has no effective POM either *)
Theorem eff_pom_none_in_parent_trap fs rs (P : pom -> Prop) :
  (forall p, P p -> exists c, get_parent_coord p = Some c /\ forall r q, try_get_pom_for fs rs c = Ok (r, q) -> P q) ->
  forall c r p m, try_get_pom_for fs rs c = Ok (r, p) -> P p -> forall r', ~ eff_pom fs rs c r' m.
Proof.
  intros Htrap c r p m El Hp r' H. inversion H as [c0 r0 p0 stack m0 El' Hpar _]; subst.
  rewrite El in El'. injection El' as <- <-.
  destruct (parents_chain fs rs p stack Hpar) as (f & Hf).
  rewrite (parent_trap_never_resolves fs rs P Htrap f p Hp) in Hf. discriminate.
Qed.

(* ------------------------------------------------------------------ *)
(* the rules read off the relation: the first managed entry for a key comes from the child's own entries before an
   imported BOM's (in declaration order), from an earlier import before a later one, from the child before the parent *)
Theorem eff_merge_management fs rs par child m :
  eff_merge fs rs par child m ->
  exists own, eff_dm fs rs (p_dm child) own /\ pd_dm m = own ++ parent_dm par /\
    pd_declared m = p_deps child ++ parent_declared par /\
    map_res (make_dependency (pd_dm m)) (pd_declared m) = Ok (pd_deps m) /\
    forall k, managed (pd_dm m) k = match managed own k with Some e => Some e | None => managed (parent_dm par) k end.
Proof.
  intros H. inversion H as [par' child' c own deps Ec Ho Ed]; subst. exists own. cbn [pd_dm pd_declared pd_deps].
  repeat split; auto. intros k. apply managed_child_first.
Qed.

Theorem eff_dm_order fs rs x rest out k :
  eff_dm fs rs (x :: rest) out ->
  exists first others, out = first ++ others /\ eff_dm fs rs rest others /\
    managed out k = match managed first k with Some e => Some e | None => managed others k end /\
    (d_scope x <> Some MImport -> exists v, d_version x = Some v /\
       first = [mkDDone (dm_coord x v) (match d_scope x with Some m => into_scope m | None => None end) (d_optional x)]) /\
    (d_scope x = Some MImport -> exists v r target, d_version x = Some v /\ eff_pom fs rs (dm_coord x v) r target /\ first = pd_dm target).
Proof.
  intros H. inversion H as [|x' v rest' out' Hv Hs Hr|x' v r target rest' out' Hv Hs Ht Hr]; subst.
  - eexists [_], out'. split; [reflexivity|]. split; [exact Hr|]. split; [apply (managed_child_first [_] out' k)|]. split.
    + intros _. exists v. split; [exact Hv|reflexivity].
    + intros Hi. congruence.
  - exists (pd_dm target), out'. split; [reflexivity|]. split; [exact Hr|]. split; [apply managed_child_first|]. split.
    + intros Hn. congruence.
    + intros _. exists v, r, target. repeat split; assumption.
Qed.

(* non-vacuity: the example universe's root has the effective POM the model computes *)
Example eff_pom_example :
  exists r m, eff_pom ex_files [mkResolver [114%N] [114%N]] (mkCoord [103%N] (ex_s 99) [49%N] None s_jar) r m /\ pd_deps m <> [].
Proof.
  destruct (get_merged_pom (S (length ex_files)) ex_files [mkResolver [114%N] [114%N]] (mkCoord [103%N] (ex_s 99) [49%N] None s_jar)) as [[r m]|] eqn:E.
  - exists r, m. split; [apply (merged_pom_is_eff _ _ _ _ _ _ E)|].
    vm_compute in E. injection E as <- <-. discriminate.
  - vm_compute in E. discriminate.
Qed.
