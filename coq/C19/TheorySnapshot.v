(* C19 — coord.rs to_snapshot_version (MavenCoord::base_version), the directory part of every URL the
   resolver asks a repository for: a version of the form  <b>-<8 digits>.<6 digits>-<1 or more digits>
   (the pattern of the code's comment: anything, hyphen, 8 digits, a literal dot, 6 digits, hyphen, digits) lives in the directory
   <b>-SNAPSHOT; every other version is its own directory.  Proved for all strings, both directions. *)
From FB Require Import C19.Model C19.TheoryCoord C19.TheoryCoordForms.
From Coq Require Import Lia Arith.PeanoNat.

Notation digits s := (forallb is_ascii_digit s).

(* v = b-d.t-n with d of 8 digits, t of 6 digits, n of at least one digit *)
Definition snapshot_form (v b : str) : Prop :=
  exists d t n, v = b ++ cMINUS :: d ++ cDOT :: t ++ cMINUS :: n
    /\ length d = 8%nat /\ digits d = true /\ length t = 6%nat /\ digits t = true /\ n <> [] /\ digits n = true.

Lemma digits_free c s : (c < 48)%N -> digits s = true -> free_of c s = true.
Proof.
  intros Hc. induction s as [|x s IH]; [reflexivity|]. cbn [forallb]. rewrite andb_true_iff. intros [Hx Hs].
  apply free_of_cons. split; [|exact (IH Hs)].
  unfold is_ascii_digit in Hx. apply andb_true_iff in Hx. destruct Hx as [Hlo _]. apply N.leb_le in Hlo.
  apply N.eqb_neq. lia.
Qed.

Lemma split_once_char_first c a b : free_of c a = true -> split_once_char c (a ++ c :: b) = Some (a, b).
Proof.
  induction a as [|x a IH]; cbn [app split_once_char]; intros Ha.
  - rewrite N.eqb_refl. reflexivity.
  - apply free_of_cons in Ha. destruct Ha as [Hx Ha]. rewrite N.eqb_sym, Hx, (IH Ha). reflexivity.
Qed.

Lemma split_once_char_spec c s : forall l r, split_once_char c s = Some (l, r) -> s = l ++ c :: r.
Proof.
  induction s as [|x s IH]; intros l r; cbn [split_once_char]; [discriminate|].
  destruct (N.eqb_spec x c) as [->|Hx].
  - intros H. injection H as <- <-. reflexivity.
  - destruct (split_once_char c s) as [[l' r']|]; [|discriminate]. intros H. injection H as <- <-.
    cbn [app]. f_equal. apply IH. reflexivity.
Qed.

Lemma is_nil_false {A} (l : list A) : l <> [] -> is_nil l = false.
Proof. destruct l; [congruence|reflexivity]. Qed.

Lemma snapshot_forward v b : snapshot_form v b -> to_snapshot_version v = b ++ s_snapshot.
Proof.
  intros (d & t & n & -> & Hd & Dd & Ht & Dt & Hn & Dn).
  assert (Fn : free_of cMINUS n = true) by (apply digits_free; [unfold cMINUS; lia|exact Dn]).
  assert (Fd : free_of cMINUS d = true) by (apply digits_free; [unfold cMINUS; lia|exact Dd]).
  assert (Ft : free_of cMINUS t = true) by (apply digits_free; [unfold cMINUS; lia|exact Dt]).
  assert (Gd : free_of cDOT d = true) by (apply digits_free; [unfold cDOT; lia|exact Dd]).
  unfold to_snapshot_version.
  replace (b ++ cMINUS :: d ++ cDOT :: t ++ cMINUS :: n) with ((b ++ cMINUS :: d ++ cDOT :: t) ++ cMINUS :: n)
    by (rewrite <- app_assoc; cbn [app]; rewrite <- app_assoc; reflexivity).
  rewrite (rsplit_once_last cMINUS _ n Fn). rewrite (is_nil_false n Hn), Dn. cbn [negb andb].
  rewrite (rsplit_once_last cMINUS b (d ++ cDOT :: t)).
  2:{ apply free_of_app. split; [exact Fd|]. apply free_of_cons. split; [reflexivity|exact Ft]. }
  rewrite (split_once_char_first cDOT d t Gd). rewrite Hd, Dd, Ht, Dt. reflexivity.
Qed.

(* the function either leaves the version alone or found the form *)
Lemma snapshot_cases v : to_snapshot_version v = v \/ exists b, snapshot_form v b /\ to_snapshot_version v = b ++ s_snapshot.
Proof.
  unfold to_snapshot_version.
  destruct (rsplit_once cMINUS v) as [[bl al]|] eqn:E1; [|left; reflexivity].
  destruct (negb (is_nil al) && digits al) eqn:E2; [|left; reflexivity].
  destruct (rsplit_once cMINUS bl) as [[bp bh]|] eqn:E3; [|left; reflexivity].
  destruct (split_once_char cDOT bh) as [[d t]|] eqn:E4; [|left; reflexivity].
  destruct (Nat.eqb (length d) 8%nat && digits d && Nat.eqb (length t) 6%nat && digits t) eqn:E5; [|left; reflexivity].
  right. exists bp. split; [|reflexivity].
  apply rsplit_once_spec in E1. destruct E1 as [-> _]. apply rsplit_once_spec in E3. destruct E3 as [-> _].
  apply split_once_char_spec in E4. subst bh.
  apply andb_true_iff in E2. destruct E2 as [Hn Dn].
  apply andb_true_iff in E5. destruct E5 as [E5 Dt]. apply andb_true_iff in E5. destruct E5 as [E5 Ht].
  apply andb_true_iff in E5. destruct E5 as [Hd Dd]. apply Nat.eqb_eq in Hd. apply Nat.eqb_eq in Ht.
  exists d, t, al. split.
  { rewrite <- app_assoc. cbn [app]. rewrite <- app_assoc. reflexivity. }
  repeat split; try assumption. intros ->. discriminate Hn.
Qed.

(* a version of the form is never left alone: its directory ends in -SNAPSHOT, the version in a digit *)
Lemma snapshot_form_moves v b : snapshot_form v b -> to_snapshot_version v <> v.
Proof.
  intros Hf. rewrite (snapshot_forward v b Hf). destruct Hf as (d & t & n & -> & Hd & Dd & _).
  intros H. apply app_inv_head in H. unfold s_snapshot in H. injection H as H.
  destruct d as [|x d]; [discriminate|]. cbn [app] in H. injection H as <- _.
  cbn in Dd. discriminate.
Qed.

Theorem snapshot_version_spec : forall v,
  (forall b, snapshot_form v b -> to_snapshot_version v = b ++ s_snapshot)
  /\ ((forall b, ~ snapshot_form v b) -> to_snapshot_version v = v)
  /\ (to_snapshot_version v = v -> forall b, ~ snapshot_form v b)
  /\ (forall b1 b2, snapshot_form v b1 -> snapshot_form v b2 -> b1 = b2).
Proof.
  intros v. split; [exact (snapshot_forward v)|]. split; [|split].
  - intros Hno. destruct (snapshot_cases v) as [H|(b & Hf & _)]; [exact H|]. destruct (Hno b Hf).
  - intros Hv b Hf. exact (snapshot_form_moves v b Hf Hv).
  - intros b1 b2 H1 H2. apply snapshot_forward in H1. apply snapshot_forward in H2. rewrite H1 in H2.
    apply app_inv_tail in H2. exact H2.
Qed.

Theorem snapshot_version_idempotent : forall v, to_snapshot_version (to_snapshot_version v) = to_snapshot_version v.
Proof.
  intros v. destruct (snapshot_cases v) as [H|(b & _ & H)]; rewrite H; [exact H|].
  unfold to_snapshot_version at 1. unfold s_snapshot. fold cMINUS.
  rewrite (rsplit_once_last cMINUS b [83;78;65;80;83;72;79;84]%N) by reflexivity.
  reflexivity.
Qed.

(* the URL of a POM: the repository, the group as a path, the artifact, the directory of the version
   (the -SNAPSHOT directory for a time-stamped version), <artifact>-<version>.pom; classifier and type
   play no part, so every (classifier, type) variant of one artifact version is described by one POM *)
Theorem pom_url_layout : forall r g a v k t,
  let dir := r_maven r ++ (if ends_with_char cSLASH (r_maven r) then [] else [cSLASH])
             ++ replace_char cDOT cSLASH g ++ [cSLASH] ++ a ++ [cSLASH] in
  let file := [cSLASH] ++ a ++ [cMINUS] ++ v ++ s_dot_pom in
  (forall b, snapshot_form v b -> make_pom_url r (mkCoord g a v k t) = dir ++ (b ++ s_snapshot) ++ file)
  /\ ((forall b, ~ snapshot_form v b) -> make_pom_url r (mkCoord g a v k t) = dir ++ v ++ file)
  /\ make_pom_url r (mkCoord g a v k t) = make_pom_url r (mkCoord g a v None s_pom).
Proof.
  intros r g a v k t dir file. unfold dir, file, make_pom_url. cbn [c_group c_artifact c_version].
  destruct (snapshot_version_spec v) as (Hf & Hn & _).
  split; [|split].
  - intros b Hb. rewrite (Hf b Hb). rewrite <- !app_assoc. reflexivity.
  - intros Hno. rewrite (Hn Hno). rewrite <- !app_assoc. reflexivity.
  - reflexivity.
Qed.

(* non-vacuity: the time-stamped version of coord.rs's unit test, and two near misses *)
Definition ex_ts_version : str := [49;46;53;45;50;48;50;51;48;55;49;51;46;48;50;53;54;49;57;45;51]%N.  (* 1.5-20230713.025619-3 *)
Theorem snapshot_examples :
  snapshot_form ex_ts_version [49;46;53]%N
  /\ to_snapshot_version ex_ts_version = [49;46;53]%N ++ s_snapshot
  /\ to_snapshot_version [49;46;48;45;50;48;50;51;48;55;49;51;46;48;50;53;54;49;45;51]%N
     = [49;46;48;45;50;48;50;51;48;55;49;51;46;48;50;53;54;49;45;51]%N              (* 1.0-20230713.02561-3: five digits *)
  /\ (forall b, ~ snapshot_form [49;46;48;45;50;48;50;51;48;55;49;51;46;48;50;53;54;49;57;45]%N b) (* 1.0-20230713.025619-: no build number *)
  /\ to_snapshot_version [45;50;48;50;51;48;55;49;51;46;48;50;53;54;49;57;45;49]%N = s_snapshot.  (* -20230713.025619-1: empty prefix *)
Proof.
  split; [|split; [|split; [|split]]].
  - exists [50;48;50;51;48;55;49;51]%N, [48;50;53;54;49;57]%N, [51]%N. repeat split; try reflexivity. discriminate.
  - vm_compute. reflexivity.
  - vm_compute. reflexivity.
  - apply snapshot_version_spec. vm_compute. reflexivity.
  - vm_compute. reflexivity.
Qed.
