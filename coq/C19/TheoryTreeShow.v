(* C19 — the tree printer of tree.rs (Display / Debug of Tree, FormattedTree): one line per node. *)
From FB Require Import C19.Tree C19.TreeBasics.
From Coq Require Import Lia.

Definition newlines (s : str) : nat := count_occ N.eq_dec s 10%N.
Lemma newlines_app a b : newlines (a ++ b) = (newlines a + newlines b)%nat.
Proof. apply count_occ_app. Qed.

Definition palette_one_line (pal : palette) : Prop :=
  newlines (middle_item pal) = O /\ newlines (middle_skip pal) = O /\ newlines (last_item pal) = O /\ newlines (last_skip pal) = O.

Lemma skips_no_newline pal (path : list bool) : palette_one_line pal ->
  newlines (flat_map (fun l : bool => if l then last_skip pal else middle_skip pal) path) = O.
Proof.
  intros (_ & Hm & _ & Hl). induction path as [|b path IH]; [reflexivity|]. cbn [flat_map]. rewrite newlines_app, IH.
  destruct b; lia.
Qed.

Lemma show_sub_lines {A} (show : A -> str) pal : (forall a, newlines (show a) = O) -> palette_one_line pal ->
  forall t path last, newlines (show_sub show pal path last t) = tsize t.
Proof.
  intros Hshow Hpal t. induction t as [a cs IH] using tree_ind2. intros path last. cbn [show_sub].
  rewrite !newlines_app, (skips_no_newline pal path Hpal), Hshow, tsize_node.
  assert (Hitem : forall b : bool, newlines (if b then last_item pal else middle_item pal) = O) by (destruct Hpal as (H1 & _ & H3 & _); intros []; assumption).
  transitivity (S (newlines (show_kids_with (show_sub show pal) (path ++ [last]) cs))).
  { destruct last; [destruct Hpal as (_ & _ & -> & _)|destruct Hpal as (-> & _)]; reflexivity. }
  clear Hitem. f_equal.
  generalize (path ++ [last]) as p. intros p. induction IH as [|c cs Hc _ IHcs]; [reflexivity|].
  cbn [show_kids_with]. rewrite newlines_app, Hc, fsize_cons. f_equal. exact IHcs.
Qed.

(* the printed tree has exactly as many lines as the tree has nodes, whatever the data print to (on one line each) *)
Theorem show_tree_lines : forall (A : Type) (show : A -> str) pal t,
  (forall a, newlines (show a) = O) -> palette_one_line pal -> newlines (show_tree show pal t) = tsize t.
Proof.
  intros A show pal [a cs] Hshow Hpal. cbn [show_tree]. rewrite !newlines_app, Hshow, tsize_node.
  cbn [newlines count_occ]. destruct (N.eq_dec 10 10) as [_|Hn]; [|congruence]. cbn [plus]. f_equal.
  induction cs as [|c cs IH]; [reflexivity|]. cbn [show_kids_with]. rewrite newlines_app, fsize_cons, IH.
  rewrite (show_sub_lines show pal Hshow Hpal). reflexivity.
Qed.
Example palettes_one_line : palette_one_line palette_ascii /\ palette_one_line palette_graph.
Proof. repeat split; reflexivity. Qed.
