(* C19 — the forest breadth_first_retain leaves is the sub-forest of the retained paths, and its
   breadth-first list is the retained nodes in (depth, declaration) order. *)
From FB Require Import C19.Tree C19.TreeBasics C19.TreeBfs C19.TreeRetain C19.TreeSpec C19.TreeMediation.
From Coq Require Import Sorting.Sorted Arith.PeanoNat Arith.Wf_nat Lia.
Local Open Scope nat_scope.

(* ---------- the sub-forest of an unlabelled forest selected by a set of paths ---------- *)
Definition subforest_l_with {A} (sub_t : path -> tree A -> tree A) (keep : path -> bool) (p : path) :=
  fix go (i : nat) (l : list (tree A)) : list (tree A) :=
    match l with
    | [] => []
    | c :: l' => if keep (p ++ [i]) then sub_t (p ++ [i]) c :: go (S i) l' else go (S i) l'
    end.
Fixpoint subforest_t {A} (keep : path -> bool) (p : path) (t : tree A) : tree A :=
  match t with Node a cs => Node a (subforest_l_with (subforest_t keep) keep p 0 cs) end.
Definition subforest_l {A} (keep : path -> bool) (p : path) (i : nat) (l : list (tree A)) :=
  subforest_l_with (@subforest_t A keep) keep p i l.
(* root i survives iff keep [i]; its child j iff keep [i; j]; ... (a node below a dropped node is dropped) *)
Definition subforest {A} (keep : path -> bool) (F : list (tree A)) : list (tree A) := subforest_l keep [] 0 F.

Lemma restrict_annot {A} (keep : path -> bool) (t : tree A) : forall p,
  tmap snd (restrict_t keep (annot p t)) = subforest_t keep p t.
Proof.
  induction t as [a cs IH] using tree_ind2. intros p. rewrite annot_node. cbn [restrict_t tmap subforest_t snd]. f_equal.
  change (map (tmap snd) (restrict_l keep (annot_list p 0 cs)) = subforest_l keep p 0 cs).
  generalize 0. induction IH as [|c cs Hc _ IHcs]; intros i; [reflexivity|].
  rewrite annot_list_cons. unfold restrict_l, subforest_l. cbn [restrict_l_with subforest_l_with].
  rewrite label_annot. destruct (keep (p ++ [i])); [cbn [map]; f_equal; [apply Hc|apply IHcs]|apply IHcs].
Qed.
Lemma restrict_annot_list {A} (keep : path -> bool) p (l : list (tree A)) : forall i,
  map (tmap snd) (restrict_l keep (annot_list p i l)) = subforest_l keep p i l.
Proof.
  induction l as [|c l IH]; intros i; [reflexivity|].
  rewrite annot_list_cons. unfold restrict_l, subforest_l. cbn [restrict_l_with subforest_l_with].
  rewrite label_annot. destruct (keep (p ++ [i])); [cbn [map]; f_equal; [apply restrict_annot|apply IH]|apply IH].
Qed.

Lemma breadth_first_retain_subforest {St A} (f : St -> A -> bool * St) s (F : list (tree A)) :
  breadth_first_retain f s F = subforest (fun p => mem_path p (kept_paths f s F)) F.
Proof. unfold breadth_first_retain, subforest, annotate. apply restrict_annot_list. Qed.

(* ---------- nodes of a restricted labelled forest ---------- *)
Inductive SubK {A} (keep : path -> bool) (G : list (tree (path * A))) : tree (path * A) -> Prop :=
| SubK_root x : In x G -> keep (label x) = true -> SubK keep G x
| SubK_child y x : SubK keep G y -> In x (children y) -> keep (label x) = true -> SubK keep G x.

Lemma restrict_l_in {A} keep (l : list (tree (path * A))) x' :
  In x' (restrict_l keep l) <-> exists x, In x l /\ keep (label x) = true /\ x' = restrict_t keep x.
Proof.
  unfold restrict_l. induction l as [|c l IH]; cbn [restrict_l_with].
  - split; [intros []|intros (x & [] & _)].
  - destruct (keep (label c)) eqn:E; cbn [In]; rewrite IH; split.
    + intros [<-|(x & H1 & H2 & H3)]; [exists c; auto|exists x; auto].
    + intros (x & [<-|H1] & H2 & H3); [left; auto|right; exists x; auto].
    + intros (x & H1 & H2 & H3). exists x; auto.
    + intros (x & [<-|H1] & H2 & H3); [congruence|exists x; auto].
Qed.
Lemma children_restrict {A} keep (x : tree (path * A)) : children (restrict_t keep x) = restrict_l keep (children x).
Proof. destruct x. reflexivity. Qed.
Lemma data_restrict {A} keep (x : tree (path * A)) : data (restrict_t keep x) = data x.
Proof. destruct x. reflexivity. Qed.
Lemma label_restrict {A} keep (x : tree (path * A)) : label (restrict_t keep x) = label x.
Proof. unfold label. rewrite data_restrict. reflexivity. Qed.

Lemma Sub_restrict {A} keep (G : list (tree (path * A))) x' :
  Sub (restrict_l keep G) x' <-> exists x, SubK keep G x /\ x' = restrict_t keep x.
Proof.
  split.
  - induction 1 as [x' Hin|y' x' _ IH Hin].
    + apply restrict_l_in in Hin. destruct Hin as (x & H1 & H2 & ->). exists x. split; [constructor; assumption|reflexivity].
    + destruct IH as (y & Hy & ->). rewrite children_restrict in Hin. apply restrict_l_in in Hin.
      destruct Hin as (x & H1 & H2 & ->). exists x. split; [econstructor 2; eauto|reflexivity].
  - intros (x & Hx & ->). induction Hx as [x Hin Hk|y x _ IH Hin Hk].
    + apply Sub_root. apply restrict_l_in. exists x. auto.
    + eapply Sub_child; [exact IH|]. rewrite children_restrict. apply restrict_l_in. exists x. auto.
Qed.

Lemma restrict_l_sorted {A} keep (l : list (tree (path * A))) : StronglySorted lab_lt l -> StronglySorted lab_lt (restrict_l keep l).
Proof.
  unfold restrict_l. induction 1 as [|c l HS IH Hall]; cbn [restrict_l_with]; [constructor|].
  destruct (keep (label c)); [|exact IH]. constructor; [exact IH|].
  rewrite Forall_forall in *. intros x' Hx'. apply (restrict_l_in keep l x') in Hx'. destruct Hx' as (x & Hx & _ & ->).
  unfold lab_lt. rewrite !label_restrict. exact (Hall x Hx).
Qed.
Lemma wl_restrict {A} keep (x : tree (path * A)) : wl x -> wl (restrict_t keep x).
Proof.
  induction x as [d cs IH] using tree_ind2. rewrite wl_node. intros [[Hk Hs] Hw].
  cbn [restrict_t]. change (restrict_l_with (restrict_t keep) keep cs) with (restrict_l keep cs).
  rewrite wl_node. rewrite Forall_forall in IH, Hk, Hw. split; [split|].
  - rewrite Forall_forall. intros x' Hx'. apply restrict_l_in in Hx'. destruct Hx' as (x & Hx & _ & ->).
    rewrite label_restrict. auto.
  - apply restrict_l_sorted, Hs.
  - rewrite Forall_forall. intros x' Hx'. apply restrict_l_in in Hx'. destruct Hx' as (x & Hx & _ & ->). auto.
Qed.
Lemma lvl_restrict {A} keep d (G : list (tree (path * A))) : lvl d G -> lvl d (restrict_l keep G).
Proof.
  intros (H1 & H2 & H3). rewrite Forall_forall in *. repeat split.
  - rewrite Forall_forall. intros x' Hx'. apply restrict_l_in in Hx'. destruct Hx' as (x & Hx & _ & ->). apply wl_restrict; auto.
  - rewrite Forall_forall. intros x' Hx'. apply restrict_l_in in Hx'. destruct Hx' as (x & Hx & _ & ->). rewrite label_restrict; auto.
  - apply restrict_l_sorted, H3.
Qed.

(* ---------- the retained nodes are exactly the nodes of the restricted forest ---------- *)
Lemma SubK_keptn {St A} (f : St -> A -> bool * St) s (F : list (tree A)) x :
  SubK (fun p => mem_path p (kept_paths f s F)) (annotate F) x <-> keptn f s F x.
Proof.
  split.
  - intros H. assert (Hn : nodes F x /\ In (label x) (kept_paths f s F)).
    { induction H as [x Hin Hk|y x Hy IH Hin Hk]; (split; [|apply mem_path_In; exact Hk]).
      - apply Sub_root; exact Hin.
      - eapply Sub_child; [exact (proj1 IH)|exact Hin]. }
    destruct Hn as [Hn Hk]. apply keptn_label; assumption.
  - remember (length (label x)) as n eqn:En. revert x En. induction n as [n IH] using lt_wf_ind. intros x En Hx.
    pose proof (keptn_cand f s F x Hx) as Hc. pose proof (cand_nodes f s F x Hc) as Hn.
    assert (Hk : mem_path (label x) (kept_paths f s F) = true) by (apply mem_path_In, keptn_label; assumption).
    destruct (run_facts f s F) as (_ & _ & _ & _ & _ & F6).
    destruct (F6 x Hc) as [Hr|(y & Hy & Hxy)]; [constructor; assumption|].
    assert (Hny : nodes F y) by (apply (cand_nodes f s F), keptn_cand, Hy).
    destruct (child_label y x (nodes_wl F y Hny) Hxy) as [i Hi].
    apply SubK_child with (y := y); [|exact Hxy|exact Hk].
    apply (IH (length (label y))); [rewrite En, Hi, app_length; cbn; lia|reflexivity|exact Hy].
Qed.

Lemma subl_NoDup {A} (r l : list A) : subl r l -> NoDup l -> NoDup r.
Proof.
  induction 1 as [|x r l Hs IH|x r l Hs IH]; intros Hnd; [constructor| |].
  - inversion Hnd; subst. constructor; [|auto]. intros H; eauto using subl_in.
  - inversion Hnd; subst; auto.
Qed.
Lemma kept_subl_calls {St A} (f : St -> A -> bool * St) s (F : list (tree A)) :
  subl (kept_of (run_of f s F)) (calls_of (run_of f s F)).
Proof. rewrite <- run_retain_vec. apply retain_vec_subl. Qed.

Definition data_before {A} (d e : path * A) : Prop := before (fst d) (fst e).

(* the breadth-first list of the result: the data of the retained nodes, in the order of the calls *)
Theorem bfs_of_retain {St A} (f : St -> A -> bool * St) s (F : list (tree A)) :
  breadth_first (breadth_first_retain f s F) = map (fun x => snd (data x)) (kept_of (run_of f s F)).
Proof.
  unfold breadth_first, breadth_first_retain.
  set (keep := fun p => mem_path p (kept_paths f s F)). set (G1 := restrict_l keep (annotate F)).
  rewrite fsize_tmap, bfs_q_tmap, bfs_q_trees, <- (map_map data snd). f_equal.
  assert (Hl : lvl 1 G1) by (apply lvl_restrict, lvl_annotate).
  destruct (bfs_trees_sorted (fsize G1) G1 (le_n _) 1 Hl) as [HS1 _].
  pose proof (bfs_trees_complete (fsize G1) G1 (le_n _)) as Hin1.
  destruct (run_facts f s F) as (HS & _).
  pose proof (subl_SS _ _ _ (kept_subl_calls f s F) HS) as HS2.
  apply (SS_unique data_before).
  - intros a. apply before_irrefl.
  - intros a b. apply before_asym.
  - apply (SS_map data_before data). exact HS1.
  - apply (SS_map data_before data). exact HS2.
  - intros d. rewrite !in_map_iff. split.
    + intros (x' & <- & Hx'). apply Hin1, Sub_restrict in Hx'. destruct Hx' as (x & Hx & ->).
      exists x. split; [symmetry; apply data_restrict|apply SubK_keptn in Hx; exact Hx].
    + intros (x & <- & Hx). exists (restrict_t keep x). split; [apply data_restrict|].
      apply Hin1, Sub_restrict. exists x. split; [apply SubK_keptn; exact Hx|reflexivity].
Qed.

(* in terms of paths: the output lists, element by element, the data at the retained paths, and the
   retained paths are listed in strictly increasing (depth, declaration) order *)
Theorem bfs_order {St A} (f : St -> A -> bool * St) s (F : list (tree A)) :
  StronglySorted before (kept_paths f s F) /\
  Forall2 (fun p a => node_of F p a) (kept_paths f s F) (breadth_first (breadth_first_retain f s F)).
Proof.
  rewrite bfs_of_retain, kept_paths_run. destruct (run_facts f s F) as (HS & Hn & Hkc & _). split.
  - apply (SS_map before label). exact (subl_SS _ _ _ (kept_subl_calls f s F) HS).
  - assert (H : forall x, In x (kept_of (run_of f s F)) -> nodes F x) by (intros; apply Hn, Hkc; assumption).
    clear Hkc. induction (kept_of (run_of f s F)) as [|x l IH]; cbn [map]; constructor.
    + apply nodes_node_of, H. left; reflexivity.
    + apply IH. intros; apply H; right; assumption.
Qed.

(* first-seen predicate: no two elements of the output share a key *)
Theorem bfs_nodup {St A K} (cid : A -> K) (f : St -> A -> bool * St) I s0 (F : list (tree A)) :
  first_seen_on (fun a => exists p, node_of F p a) cid f I -> I [] s0 ->
  NoDup (map cid (breadth_first (breadth_first_retain f s0 F))).
Proof.
  intros Hf HI.
  assert (Hf' : first_seen_on (fun a => exists x, nodes F x /\ snd (data x) = a) cid f I).
  { eapply first_seen_on_weaken; [|exact Hf]. intros a (x & Hx & <-). exists (label x). apply nodes_node_of, Hx. }
  rewrite bfs_of_retain, map_map.
  destruct (run_facts f s0 F) as (HS & _).
  assert (Hnd : NoDup (kept_of (run_of f s0 F))).
  { eapply subl_NoDup; [apply kept_subl_calls|]. eapply SS_NoDup; [exact HS|intros a; apply before_irrefl]. }
  assert (Hinj : forall x y, keptn f s0 F x -> keptn f s0 F y -> cid (snd (data x)) = cid (snd (data y)) -> x = y).
  { intros x y Hx Hy E.
    pose proof (keptn_cand f s0 F x Hx) as Hcx. pose proof (keptn_cand f s0 F y Hy) as Hcy.
    destruct (before_total (label x) (label y)) as [Hb|[Hb|Hb]].
    - exfalso. apply (proj1 (keptn_iff cid f I s0 F Hf' HI y Hcy) Hy). exists x. auto.
    - eapply nodes_label_inj; eauto using cand_nodes.
    - exfalso. apply (proj1 (keptn_iff cid f I s0 F Hf' HI x Hcx) Hx). exists y. auto. }
  unfold keptn in Hinj. revert Hnd Hinj. generalize (kept_of (run_of f s0 F)). intros l Hnd Hinj.
  induction Hnd as [|x l Hx Hnd IH]; cbn [map]; constructor.
  - intros Hin. apply in_map_iff in Hin. destruct Hin as (y & E & Hy).
    apply Hx. rewrite (Hinj x y); [exact Hy|left; reflexivity|right; exact Hy|symmetry; exact E].
  - apply IH. intros a b Ha Hb. apply Hinj; right; assumption.
Qed.
