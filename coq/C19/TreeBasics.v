(* C19 — trees: induction principle, sizes, sublists, sorted lists, the (depth, declaration)
   order on paths.  No model-specific content. *)
From FB Require Import C19.Tree.
From Coq Require Import Sorting.Sorted Arith.PeanoNat Lia.

(* ---------- induction over trees ---------- *)
Fixpoint tree_ind2 {A} (P : tree A -> Prop) (H : forall a cs, Forall P cs -> P (Node a cs)) (t : tree A) : P t :=
  match t with
  | Node a cs =>
      H a cs ((fix go (l : list (tree A)) : Forall P l :=
                 match l with
                 | [] => Forall_nil P
                 | c :: l' => Forall_cons c (tree_ind2 P H c) (go l')
                 end) cs)
  end.

(* ---------- sizes ---------- *)
Lemma tsize_node {A} (a : A) cs : tsize (Node a cs) = S (fsize cs).
Proof. reflexivity. Qed.
Lemma fsize_cons {A} (t : tree A) l : fsize (t :: l) = (tsize t + fsize l)%nat.
Proof. reflexivity. Qed.
Lemma fsize_app {A} (l1 l2 : list (tree A)) : fsize (l1 ++ l2) = (fsize l1 + fsize l2)%nat.
Proof. induction l1 as [|t l1 IH]; [reflexivity|]. rewrite <- app_comm_cons, !fsize_cons, IH. lia. Qed.
Lemma tsize_pos {A} (t : tree A) : (1 <= tsize t)%nat.
Proof. destruct t. rewrite tsize_node. lia. Qed.
Lemma tsize_children {A} (t : tree A) : tsize t = S (fsize (children t)).
Proof. destruct t. reflexivity. Qed.
Lemma fsize_flat_children {A} (l : list (tree A)) : (fsize l = length l + fsize (flat_map children l))%nat.
Proof.
  induction l as [|t l IH]; [reflexivity|].
  cbn [flat_map length]. rewrite fsize_cons, fsize_app, tsize_children, IH. lia.
Qed.
Lemma fsize_length {A} (l : list (tree A)) : (length l <= fsize l)%nat.
Proof. rewrite (fsize_flat_children l). lia. Qed.

(* ---------- sublists (what Vec::retain leaves) ---------- *)
Inductive subl {A} : list A -> list A -> Prop :=
| subl_nil : subl [] []
| subl_keep x r l : subl r l -> subl (x :: r) (x :: l)
| subl_drop x r l : subl r l -> subl r (x :: l).

Lemma subl_in {A} (r l : list A) x : subl r l -> In x r -> In x l.
Proof. induction 1; cbn; intuition. Qed.
Lemma subl_Forall {A} (P : A -> Prop) r l : subl r l -> Forall P l -> Forall P r.
Proof. intros Hs Hl. rewrite Forall_forall in *. intros x Hx. eauto using subl_in. Qed.
Lemma subl_fsize {A} (r l : list (tree A)) : subl r l -> (fsize r <= fsize l)%nat.
Proof. induction 1; rewrite ?fsize_cons; cbn; lia. Qed.
Lemma subl_SS {A} (R : A -> A -> Prop) r l : subl r l -> StronglySorted R l -> StronglySorted R r.
Proof.
  induction 1 as [|x r l Hs IH|x r l Hs IH]; intros HS; [constructor| |].
  - inversion HS as [|? ? HS' Hall]; subst. constructor; [auto|]. eapply subl_Forall; eauto.
  - inversion HS; subst; auto.
Qed.
Lemma subl_refl {A} (l : list A) : subl l l.
Proof. induction l; constructor; auto. Qed.

(* ---------- strongly sorted lists ---------- *)
Lemma SS_app {A} (R : A -> A -> Prop) l1 l2 :
  StronglySorted R (l1 ++ l2) <->
  StronglySorted R l1 /\ StronglySorted R l2 /\ (forall x y, In x l1 -> In y l2 -> R x y).
Proof.
  induction l1 as [|a l1 IH]; cbn [app].
  - split; [intros H; repeat split; [constructor|exact H|intros ? ? []]|tauto].
  - split.
    + intros H. inversion H as [|? ? HS Hall]; subst. apply IH in HS. destruct HS as (H1 & H2 & H3).
      rewrite Forall_app in Hall. destruct Hall as [Ha1 Ha2]. rewrite Forall_forall in Ha2.
      repeat split; [constructor; assumption|assumption|].
      intros x y [<-|Hx] Hy; auto.
    + intros (H1 & H2 & H3). inversion H1 as [|? ? HS Hall]; subst.
      constructor.
      * apply IH. repeat split; auto. intros; apply H3; [right|]; assumption.
      * rewrite Forall_app. split; [assumption|]. rewrite Forall_forall. intros y Hy. apply H3; [left; reflexivity|assumption].
Qed.

(* members of a list sorted by an irreflexive relation are determined by any key the relation separates *)
Lemma SS_inj {A B} (R : A -> A -> Prop) (key : A -> B) l :
  StronglySorted R l -> (forall x y, R x y -> key x <> key y) ->
  forall x y, In x l -> In y l -> key x = key y -> x = y.
Proof.
  intros HS Hsep. induction HS as [|a l HS IH Hall]; intros x y Hx Hy E; [destruct Hx|].
  rewrite Forall_forall in Hall.
  destruct Hx as [<-|Hx], Hy as [<-|Hy]; auto.
  - exfalso. exact (Hsep _ _ (Hall _ Hy) E).
  - exfalso. exact (Hsep _ _ (Hall _ Hx) (eq_sym E)).
Qed.

Lemma SS_NoDup {A} (R : A -> A -> Prop) l : StronglySorted R l -> (forall x, ~ R x x) -> NoDup l.
Proof.
  intros HS Hirr. induction HS as [|a l HS IH Hall]; constructor; [|assumption].
  rewrite Forall_forall in Hall. intros Hin. exact (Hirr _ (Hall _ Hin)).
Qed.

(* in a sorted list, what precedes an element in the order precedes it in the list *)
Lemma SS_split_before {A} (R : A -> A -> Prop) l1 x l2 y :
  StronglySorted R (l1 ++ x :: l2) -> (forall a, ~ R a a) -> (forall a b, R a b -> R b a -> False) ->
  In y (l1 ++ x :: l2) -> R y x -> In y l1.
Proof.
  intros HS Hirr Hasym Hin Hyx.
  apply SS_app in HS. destruct HS as (_ & H2 & _).
  inversion H2 as [|? ? _ Hall]; subst. rewrite Forall_forall in Hall.
  apply in_app_or in Hin. destruct Hin as [Hin|[<-|Hin]]; [assumption| |].
  - exfalso. exact (Hirr _ Hyx).
  - exfalso. exact (Hasym _ _ Hyx (Hall _ Hin)).
Qed.

Lemma SS_map {A B} (R : B -> B -> Prop) (g : A -> B) l :
  StronglySorted (fun x y => R (g x) (g y)) l <-> StronglySorted R (map g l).
Proof.
  induction l as [|a l IH]; cbn [map]; [split; constructor|].
  split; intros H; inversion H as [|? ? HS Hall]; subst; constructor; try (apply IH; assumption).
  - rewrite Forall_map. exact Hall.
  - rewrite Forall_map in Hall. exact Hall.
Qed.

(* two lists sorted by a strict order with the same members are equal *)
Lemma SS_unique {A} (R : A -> A -> Prop) l1 l2 :
  (forall a, ~ R a a) -> (forall a b, R a b -> R b a -> False) ->
  StronglySorted R l1 -> StronglySorted R l2 -> (forall x, In x l1 <-> In x l2) -> l1 = l2.
Proof.
  intros Hirr Hasym. revert l2. induction l1 as [|a l1 IH]; intros l2 H1 H2 Hmem.
  - destruct l2 as [|b l2]; [reflexivity|]. exfalso. apply (Hmem b). left; reflexivity.
  - destruct l2 as [|b l2]; [exfalso; apply (Hmem a); left; reflexivity|].
    inversion H1 as [|? ? HS1 Hall1]; subst. inversion H2 as [|? ? HS2 Hall2]; subst.
    rewrite Forall_forall in Hall1, Hall2.
    assert (a = b).
    { destruct (proj1 (Hmem a) (or_introl eq_refl)) as [E|Hin]; [auto|].
      destruct (proj2 (Hmem b) (or_introl eq_refl)) as [E|Hin']; [auto|].
      exfalso. exact (Hasym _ _ (Hall1 _ Hin') (Hall2 _ Hin)). }
    subst b. f_equal. apply IH; auto.
    intros x. split; intros Hx.
    + destruct (proj1 (Hmem x) (or_intror Hx)) as [<-|?]; [|assumption]. exfalso. exact (Hirr _ (Hall1 _ Hx)).
    + destruct (proj2 (Hmem x) (or_intror Hx)) as [<-|?]; [|assumption]. exfalso. exact (Hirr _ (Hall2 _ Hx)).
Qed.

(* ---------- the order on paths: depth first, then declaration (lexicographic) ---------- *)
Fixpoint lex_lt (p q : list nat) : Prop :=
  match p, q with
  | x :: p', y :: q' => (x < y)%nat \/ (x = y /\ lex_lt p' q')
  | _, _ => False
  end.
Definition before (p q : path) : Prop := (length p < length q)%nat \/ (length p = length q /\ lex_lt p q).

Lemma lex_lt_irrefl p : ~ lex_lt p p.
Proof. induction p as [|x p IH]; cbn; [tauto|]. intros [H|[_ H]]; [lia|auto]. Qed.
Lemma lex_lt_trans p q r : lex_lt p q -> lex_lt q r -> lex_lt p r.
Proof.
  revert q r; induction p as [|x p IH]; intros [|y q] [|z r]; cbn; try tauto.
  intros [H1|[-> H1]] [H2|[-> H2]]; [left; lia|left; lia|left; lia|right; split; eauto].
Qed.
Lemma lex_lt_asym p q : lex_lt p q -> lex_lt q p -> False.
Proof. intros H1 H2. exact (lex_lt_irrefl _ (lex_lt_trans _ _ _ H1 H2)). Qed.
Lemma lex_lt_snoc p q i j : length p = length q ->
  (lex_lt (p ++ [i]) (q ++ [j]) <-> lex_lt p q \/ (p = q /\ (i < j)%nat)).
Proof.
  revert q; induction p as [|x p IH]; intros [|y q] Hlen; try discriminate; cbn [app lex_lt].
  - split; [intros [H|[_ []]]; right; auto|intros [[]|[_ H]]; left; exact H].
  - injection Hlen as Hlen. rewrite (IH q Hlen). split.
    + intros [H|[-> [H|[-> H]]]]; [left; left; exact H|left; right; auto|right; auto].
    + intros [[H|[-> H]]|[[= -> ->] H]]; [left; exact H|right; split; auto|right; split; auto].
Qed.
Lemma lex_lt_total p q : length p = length q -> lex_lt p q \/ p = q \/ lex_lt q p.
Proof.
  revert q; induction p as [|x p IH]; intros [|y q] Hlen; try discriminate; [auto|].
  injection Hlen as Hlen. cbn [lex_lt].
  destruct (Nat.lt_trichotomy x y) as [H|[->|H]]; [left; left; exact H| |right; right; left; exact H].
  destruct (IH q Hlen) as [H|[->|H]]; [left; right; auto|right; left; reflexivity|right; right; right; auto].
Qed.

Lemma before_irrefl p : ~ before p p.
Proof. intros [H|[_ H]]; [lia|exact (lex_lt_irrefl _ H)]. Qed.
Lemma before_trans p q r : before p q -> before q r -> before p r.
Proof.
  intros [H1|[E1 H1]] [H2|[E2 H2]]; [left; lia|left; lia|left; lia|right; split; [congruence|eauto using lex_lt_trans]].
Qed.
Lemma before_asym p q : before p q -> before q p -> False.
Proof. intros H1 H2. exact (before_irrefl _ (before_trans _ _ _ H1 H2)). Qed.
Lemma before_total p q : before p q \/ p = q \/ before q p.
Proof.
  destruct (Nat.lt_trichotomy (length p) (length q)) as [H|[H|H]]; [left; left; exact H| |right; right; left; exact H].
  destruct (lex_lt_total p q H) as [H1|[H1|H1]]; [left; right; auto|auto|right; right; right; auto].
Qed.
Lemma before_neq p q : before p q -> p <> q.
Proof. intros H ->. exact (before_irrefl _ H). Qed.

Lemma removelast_snoc {A} (l : list A) a : removelast (l ++ [a]) = l.
Proof. rewrite removelast_app by discriminate. cbn. apply app_nil_r. Qed.

Lemma path_eqb_eq p q : path_eqb p q = true <-> p = q.
Proof.
  unfold path_eqb. revert q; induction p as [|x p IH]; intros [|y q]; try (split; congruence).
  rewrite andb_true_iff, Nat.eqb_eq, IH. split; [intros [-> ->]; reflexivity|intros [= -> ->]; auto].
Qed.
Lemma mem_path_In p l : mem_path p l = true <-> In p l.
Proof.
  unfold mem_path. rewrite existsb_exists. split.
  - intros (q & Hq & E). apply path_eqb_eq in E. subst. exact Hq.
  - intros H. exists p. split; [exact H|apply path_eqb_eq; reflexivity].
Qed.
