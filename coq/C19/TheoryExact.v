(* C19 — the round-trip hypotheses are exact: a coordinate (a resolved dependency) survives printing and
   re-parsing IF AND ONLY IF no field contains ':' (':' or " @ ").  The `if` halves are coord_roundtrip and
   found_roundtrip; the `only if` halves say that the parsers never produce a field holding a separator. *)
From FB Require Import C19.Model C19.TheoryCoord C19.TheoryCoordForms.

(* whatever FoundDependency::try_from accepts has separator-free coordinate fields *)
Lemma parse_found_separator_free s d : parse_found s = Ok d -> coord_separator_free (f_coord d) = true.
Proof.
  unfold parse_found.
  destruct (split_once_pat s_at s) as [[lhs url]|] eqn:Es; [|discriminate].
  destruct (rsplit_once cCOLON lhs) as [[cs ss]|] eqn:Er; [|discriminate].
  destruct (parse_coord cs) as [c|] eqn:Ec; [|discriminate]. cbn [bind].
  destruct (parse_scope ss) as [sc|] eqn:Esc; [|discriminate]. cbn [bind]. intros [= <-]. cbn [f_coord].
  destruct (split_once_pat_spec s_at s lhs url ltac:(discriminate) Es) as (_ & Hl).
  destruct (rsplit_once_spec cCOLON lhs cs ss Er) as (-> & _).
  rewrite has_pat_at_sep in Hl. apply orb_false_iff in Hl. destruct Hl as [Hcs _].
  pose proof (parse_coord_colon_free cs c Ec) as Hcolon.
  apply parse_coord_forms in Ec. destruct Ec as (pieces & _ & -> & Hc).
  apply join_at_free in Hcs.
  unfold coord_separator_free. rewrite Hcolon. cbn [andb].
  destruct pieces as [|p1 [|p2 [|p3 [|p4 [|p5 [|p6 l]]]]]]; try discriminate; injection Hc as <-;
    repeat match goal with Hx : Forall _ (_ :: _) |- _ => inversion Hx; clear Hx; subst end;
    cbn [c_group c_artifact c_version c_classifier c_type at_free_opt];
    repeat (apply andb_true_iff; split); try assumption; reflexivity.
Qed.

Theorem coord_roundtrip_iff : forall c, parse_coord (print_coord c) = Ok c <-> coord_colon_free c = true.
Proof. intros c. split; [apply parse_coord_colon_free|apply coord_roundtrip]. Qed.

Theorem found_roundtrip_iff : forall d,
  parse_found (print_found d) = Ok (mkFound (mkResolver (r_maven (f_resolver d)) (r_maven (f_resolver d))) (f_coord d) (f_scope d))
  <-> coord_separator_free (f_coord d) = true.
Proof.
  intros d. split; [|apply found_roundtrip].
  intros H. apply parse_found_separator_free in H. exact H.
Qed.

(* a resolved list, of any universe: exactly its separator-free entries survive *)
Theorem resolved_entries_roundtrip_iff : forall n fs rs roots out,
  get_maven_dependencies_fuel n fs rs roots = Ok out ->
  Forall (fun d => parse_found (print_found d)
                   = Ok (mkFound (mkResolver (r_maven (f_resolver d)) (r_maven (f_resolver d))) (f_coord d) (f_scope d))
                   <-> coord_separator_free (f_coord d) = true) out.
Proof. intros n fs rs roots out _. apply Forall_forall. intros d _. apply found_roundtrip_iff. Qed.
