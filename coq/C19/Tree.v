(* C19 — executable model of maven_dependency_resolver/src/tree.rs and of
   lib.rs clean_up_dependencies.  Definitions only; the proofs are in TreeTheory*.v.

     Tree<T> { data, children: Vec<Tree<T>> }            tree
     BreathFirstIntoIter / BreathFirstIter (VecDeque)     bfs_q, breadth_first
     Forest::breadth_first_retain (FnMut predicate)       retain_vec, retain_q, kept_paths,
                                                          breadth_first_retain
     clean_up_dependencies (HashSet::remove predicate)    clean_up
     FormattedTree::fmt_both, Palette (Display / Debug)   show_tree, palette_ascii, palette_graph

   The Rust code mutates the forest in place through a queue of `&mut Tree`.  The model keeps the
   forest immutable: every node is labelled with its path (index of the root, index of the child,
   ...), the queue holds labelled subtrees of the ORIGINAL forest, `Vec::retain` on the children
   of the popped node becomes [retain_vec] (which threads the predicate's state exactly in the
   order `retain` calls it), the retained children are appended to the queue, and the labels
   of everything that was ever retained are collected.  The mutated forest is then the original
   one restricted to the collected labels ([restrict_l]): a node that is never popped sits below
   a removed node and disappears with it. *)
From FB Require Export Base.Str.

Inductive tree (A : Type) : Type := Node (a : A) (cs : list (tree A)).
Arguments Node {A} a cs.

Definition data {A} (t : tree A) : A := match t with Node a _ => a end.
Definition children {A} (t : tree A) : list (tree A) := match t with Node _ cs => cs end.

Fixpoint tsize {A} (t : tree A) : nat :=
  match t with Node _ cs => S (fold_right (fun c n => tsize c + n)%nat O cs) end.
Definition fsize {A} (l : list (tree A)) : nat := fold_right (fun c n => tsize c + n)%nat O l.

Fixpoint tmap {A B} (g : A -> B) (t : tree A) : tree B :=
  match t with Node a cs => Node (g a) (map (tmap g) cs) end.

(* ---- breadth-first iteration: `queue.pop_front().map(|t| { queue.extend(t.children); t.data })` ---- *)
Fixpoint bfs_q {A} (fuel : nat) (q : list (tree A)) : list A :=
  match fuel, q with
  | S f, Node a cs :: q' => a :: bfs_q f (q' ++ cs)
  | _, _ => []
  end.
(* every pop consumes one node, so the number of nodes is exactly enough fuel *)
Definition breadth_first {A} (F : list (tree A)) : list A := bfs_q (fsize F) F.

(* ---- paths ---- *)
Definition path := list nat.
Definition path_eqb (p q : path) : bool :=
  (fix go (p q : list nat) : bool :=
     match p, q with
     | [], [] => true
     | x :: p', y :: q' => Nat.eqb x y && go p' q'
     | _, _ => false
     end) p q.
Definition mem_path (p : path) (l : list path) : bool := existsb (path_eqb p) l.

Definition annot_list_with {A} (annot : path -> tree A -> tree (path * A)) (p : path) :=
  fix go (i : nat) (l : list (tree A)) : list (tree (path * A)) :=
    match l with
    | [] => []
    | c :: l' => annot (p ++ [i]) c :: go (S i) l'
    end.
Fixpoint annot {A} (p : path) (t : tree A) : tree (path * A) :=
  match t with Node a cs => Node (p, a) (annot_list_with annot p O cs) end.
Definition annot_list {A} (p : path) (i : nat) (l : list (tree A)) := annot_list_with (@annot A) p i l.
(* the forest with every node labelled by its path: root number i is [i], its child number j is [i; j], ... *)
Definition annotate {A} (F : list (tree A)) : list (tree (path * A)) := annot_list [] O F.

Definition label {A} (t : tree (path * A)) : path := fst (data t).

(* ---- Vec::retain with a stateful predicate (FnMut): called once per element, in order ---- *)
Fixpoint retain_vec {S A} (f : S -> A -> bool * S) (s : S) (l : list (tree (path * A)))
  : S * list (tree (path * A)) :=
  match l with
  | [] => (s, [])
  | t :: l' =>
      let '(b, s1) := f s (snd (data t)) in
      let '(s2, r) := retain_vec f s1 l' in
      (s2, if b then t :: r else r)
  end.

(* the loop `while let Some(t) = queue.pop_front() { t.children.retain(f); queue.extend(t.children.iter_mut()) }`;
   returns the labels of the children retained from now on *)
Fixpoint retain_q {S A} (fuel : nat) (f : S -> A -> bool * S) (s : S) (q : list (tree (path * A))) : list path :=
  match fuel, q with
  | S fu, t :: q' =>
      let '(s1, kept) := retain_vec f s (children t) in
      map label kept ++ retain_q fu f s1 (q' ++ kept)
  | _, _ => []
  end.

(* `forest.retain(f)` on the roots, then the loop *)
Definition kept_paths {S A} (f : S -> A -> bool * S) (s : S) (F : list (tree A)) : list path :=
  let '(s1, kept) := retain_vec f s (annotate F) in
  map label kept ++ retain_q (fsize F) f s1 kept.

(* the sub-forest of the nodes whose label, and the labels of all their ancestors, satisfy [keep] *)
Definition restrict_l_with {A} (restrict_t : tree (path * A) -> tree (path * A)) (keep : path -> bool) :=
  fix go (l : list (tree (path * A))) : list (tree (path * A)) :=
    match l with
    | [] => []
    | c :: l' => if keep (label c) then restrict_t c :: go l' else go l'
    end.
Fixpoint restrict_t {A} (keep : path -> bool) (t : tree (path * A)) : tree (path * A) :=
  match t with Node d cs => Node d (restrict_l_with (restrict_t keep) keep cs) end.
Definition restrict_l {A} (keep : path -> bool) (l : list (tree (path * A))) := restrict_l_with (@restrict_t A keep) keep l.

Definition breadth_first_retain {S A} (f : S -> A -> bool * S) (s : S) (F : list (tree A)) : list (tree A) :=
  let K := kept_paths f s F in
  map (tmap snd) (restrict_l (fun p => mem_path p K) (annotate F)).

(* ---- clean_up_dependencies ----
   `set` = the collision ids of all nodes (a HashSet: modelled as a list, duplicates harmless);
   the predicate is `set.remove(&id)`: true iff the id was still there, and then it is gone. *)
Definition set_remove {K} (keq : K -> K -> bool) (k : K) (s : list K) : bool * list K :=
  (existsb (keq k) s, filter (fun x => negb (keq k x)) s).

Definition clean_up {A K} (keq : K -> K -> bool) (cid : A -> K) (F : list (tree A)) : list (tree A) :=
  let set := map cid (flat_map (fun t => breadth_first [t]) F) in
  breadth_first_retain (fun s a => set_remove keq (cid a) s) set F.

(* ---- Display / Debug for Tree and FormattedTree (fmt_both): the root's line, then the nodes depth first in
   declaration order (the queue is filled from the front with the children reversed), each on a line of its own:
   for every ancestor below the root a skip (blank under a last child, a bar otherwise), then the item mark
   (corner for a last child, tee otherwise), then the data ---- *)
Record palette := mkPalette { middle_item : str; middle_skip : str; last_item : str; last_skip : str }.
Definition palette_ascii : palette := mkPalette [43;45;32] [124;32;32] [92;45;32] [32;32;32].        (* "+- " "|  " "\- " "   " *)
Definition palette_graph : palette :=
  mkPalette [9500;9472;9472;32] [9474;32;32;32] [9492;9472;9472;32] [32;32;32;32].                  (* "├── " "│   " "└── " "    " *)

Definition show_kids_with {A} (show_sub : list bool -> bool -> tree A -> str) (is_last_path : list bool) :=
  fix go (cs : list (tree A)) : str :=
    match cs with
    | [] => []
    | c :: cs' => show_sub is_last_path (match cs' with [] => true | _ => false end) c ++ go cs'
    end.
Fixpoint show_sub {A} (show : A -> str) (pal : palette) (is_last_path : list bool) (last : bool) (t : tree A) : str :=
  match t with
  | Node a cs =>
      flat_map (fun l : bool => if l then last_skip pal else middle_skip pal) is_last_path
      ++ (if last then last_item pal else middle_item pal) ++ show a ++ [10]
      ++ show_kids_with (show_sub show pal) (is_last_path ++ [last]) cs
  end.
Definition show_tree {A} (show : A -> str) (pal : palette) (t : tree A) : str :=
  match t with Node a cs => show a ++ [10] ++ show_kids_with (show_sub show pal) [] cs end.
