(* C19 — the theorems about clean_up (clean_up_dependencies over an arbitrary key) and about
   breadth_first, in the form Props/C19.v pins. *)
From FB Require Import C19.Tree C19.TreeBasics C19.TreeBfs C19.TreeRetain C19.TreeSpec C19.TreeMediation C19.TreeOrder.
From Coq Require Import Sorting.Sorted Arith.PeanoNat Arith.Wf_nat Lia.
Local Open Scope nat_scope.

(* the predicate clean_up drives breadth_first_retain with, and its initial state *)
Definition remove_pred {A K} (keq : K -> K -> bool) (cid : A -> K) (s : list K) (a : A) : bool * list K := set_remove keq (cid a) s.
Definition all_ids {A K} (cid : A -> K) (F : list (tree A)) : list K := map cid (flat_map (fun t => breadth_first [t]) F).
(* the paths of the nodes clean_up retains *)
Definition clean_up_kept {A K} (keq : K -> K -> bool) (cid : A -> K) (F : list (tree A)) : list path :=
  kept_paths (remove_pred keq cid) (all_ids cid F) F.

Lemma clean_up_unfold {A K} (keq : K -> K -> bool) (cid : A -> K) (F : list (tree A)) :
  clean_up keq cid F = breadth_first_retain (remove_pred keq cid) (all_ids cid F) F.
Proof. reflexivity. Qed.

Lemma node_in_all_ids {A K} (cid : A -> K) (F : list (tree A)) p a : node_of F p a -> In (cid a) (all_ids cid F).
Proof.
  intros (c & Hp & <-). unfold all_ids. apply in_map.
  assert (H : exists t, In t F /\ Sub [t] c).
  { induction Hp as [i t Hi|p t i c Hp IH Hi].
    - exists t. split; [eapply nth_error_In; eauto|apply Sub_root; left; reflexivity].
    - destruct IH as (t0 & Ht0 & Hs). exists t0. split; [exact Ht0|]. eapply Sub_child; [exact Hs|eapply nth_error_In; eauto]. }
  destruct H as (t & Ht & Hs). apply in_flat_map. exists t. split; [exact Ht|].
  unfold breadth_first. rewrite bfs_q_trees. apply in_map. apply bfs_trees_complete; [apply le_n|exact Hs].
Qed.

Definition remove_inv {K} (keq : K -> K -> bool) (all : list K) (seen : list K) (s : list K) : Prop :=
  forall k, existsb (keq k) s = true <-> (In k all /\ ~ In k seen).

Lemma remove_pred_first_seen {A K} (keq : K -> K -> bool) (cid : A -> K) (F : list (tree A)) :
  (forall a b, keq a b = true <-> a = b) ->
  first_seen_on (fun a => exists p, node_of F p a) cid (remove_pred keq cid) (remove_inv keq (all_ids cid F))
  /\ remove_inv keq (all_ids cid F) [] (all_ids cid F).
Proof.
  intros Hkeq. split.
  - intros seen s a (p & Hn) HI. unfold remove_pred, set_remove. cbn [fst snd].
    pose proof (node_in_all_ids cid F p a Hn) as Hall. split.
    + rewrite (HI (cid a)). tauto.
    + intros k. rewrite existsb_exists. split.
      * intros (x & Hx & Ek). apply Hkeq in Ek. subst x. apply filter_In in Hx. destruct Hx as [Hx Hne].
        assert (Hk : existsb (keq k) s = true) by (apply existsb_exists; exists k; split; [exact Hx|apply Hkeq; reflexivity]).
        apply HI in Hk. destruct Hk as [H1 H2]. split; [exact H1|]. intros [E|Hin]; [|auto].
        subst k. rewrite (proj2 (Hkeq (cid a) (cid a)) eq_refl) in Hne. discriminate.
      * intros [H1 H2]. assert (Hk : existsb (keq k) s = true) by (apply HI; split; [exact H1|intros H; apply H2; right; exact H]).
        apply existsb_exists in Hk. destruct Hk as (x & Hx & Ek). apply Hkeq in Ek. subst x.
        exists k. split; [|apply Hkeq; reflexivity]. apply filter_In. split; [exact Hx|].
        destruct (keq (cid a) k) eqn:E; [|reflexivity]. apply Hkeq in E. exfalso. apply H2. left. exact E.
  - intros k. rewrite existsb_exists. split.
    + intros (x & Hx & Ek). apply Hkeq in Ek. subst x. split; [exact Hx|intros []].
    + intros [H _]. exists k. split; [exact H|apply Hkeq; reflexivity].
Qed.

(* 1. mediation_spec *)
Theorem mediation_spec {A K} (keq : K -> K -> bool) (cid : A -> K) (F : list (tree A)) :
  (forall a b, keq a b = true <-> a = b) ->
  let R := fun p => In p (clean_up_kept keq cid F) in
  is_mediation F cid R
  /\ (forall R', is_mediation F cid R' -> forall p, R' p <-> R p)
  /\ clean_up keq cid F = subforest (fun p => mem_path p (clean_up_kept keq cid F)) F.
Proof.
  intros Hkeq R. destruct (remove_pred_first_seen keq cid F Hkeq) as [Hf HI].
  assert (HR : is_mediation F cid R) by (apply (retain_first_seen_mediation cid _ _ _ F Hf HI)).
  split; [exact HR|split].
  - intros R' HR' p. apply (mediation_unique F cid R' R HR' HR).
  - rewrite clean_up_unfold. apply breadth_first_retain_subforest.
Qed.

(* 2. the list handed out is in breadth-first order and has no duplicates *)
Theorem clean_up_bfs_order {A K} (keq : K -> K -> bool) (cid : A -> K) (F : list (tree A)) :
  StronglySorted before (clean_up_kept keq cid F)
  /\ Forall2 (fun p a => node_of F p a) (clean_up_kept keq cid F) (breadth_first (clean_up keq cid F)).
Proof. rewrite clean_up_unfold. apply bfs_order. Qed.

Theorem clean_up_bfs_nodup {A K} (keq : K -> K -> bool) (cid : A -> K) (F : list (tree A)) :
  (forall a b, keq a b = true <-> a = b) -> NoDup (map cid (breadth_first (clean_up keq cid F))).
Proof.
  intros Hkeq. destruct (remove_pred_first_seen keq cid F Hkeq) as [Hf HI].
  rewrite clean_up_unfold. exact (bfs_nodup cid _ _ _ F Hf HI).
Qed.

(* breadth_first of any forest: every node exactly once, in (depth, declaration) order *)
Lemma tmap_snd_annot {A} (t : tree A) : forall p, tmap snd (annot p t) = t.
Proof.
  induction t as [a cs IH] using tree_ind2. intros p. rewrite annot_node. cbn [tmap snd]. f_equal.
  generalize 0. induction IH as [|c cs Hc _ IHcs]; intros i; [reflexivity|].
  rewrite annot_list_cons. cbn [map]. rewrite Hc, IHcs. reflexivity.
Qed.
Lemma tmap_snd_annotate {A} (F : list (tree A)) : map (tmap snd) (annotate F) = F.
Proof.
  unfold annotate. generalize (@nil nat) 0. induction F as [|c F IH]; intros p i; [reflexivity|].
  rewrite annot_list_cons. cbn [map]. rewrite tmap_snd_annot, IH. reflexivity.
Qed.

Theorem breadth_first_order {A} (F : list (tree A)) :
  exists l : list path,
    StronglySorted before l
    /\ (forall p, In p l <-> exists a, node_of F p a)
    /\ Forall2 (fun p a => node_of F p a) l (breadth_first F).
Proof.
  destruct (nodes_sorted F) as (HS & Hin & _).
  exists (map label (bfs_trees (fsize F) (annotate F))). split; [apply (SS_map before label); exact HS|split].
  - intros p. rewrite in_map_iff. split.
    + intros (x & <- & Hx). exists (snd (data x)). apply nodes_node_of, Hin, Hx.
    + intros (a & Hn). apply node_of_nodes in Hn. destruct Hn as (x & Hx & E). exists x.
      split; [unfold label; rewrite E; reflexivity|apply Hin, Hx].
  - unfold breadth_first.
    replace (bfs_q (fsize F) F) with (bfs_q (fsize F) (map (tmap snd) (annotate F))) by (rewrite tmap_snd_annotate; reflexivity).
    rewrite bfs_q_tmap, bfs_q_trees.
    assert (H : forall x, In x (bfs_trees (fsize F) (annotate F)) -> nodes F x) by (intros; apply Hin; assumption).
    clear HS Hin. induction (bfs_trees (fsize F) (annotate F)) as [|x l IH]; cbn [map]; constructor.
    + apply nodes_node_of, H. left; reflexivity.
    + apply IH. intros; apply H; right; assumption.
Qed.

(* ---------- non-vacuity: the examples of the Maven documentation (artifact, version) ---------- *)
Definition ex_cid (d : N * N) : N := fst d.
Definition ex_B := 66%N. Definition ex_C := 67%N. Definition ex_D := 68%N. Definition ex_E := 69%N.
(* A -> B -> C -> D 2.0 and A -> E -> D 1.0: D 1.0 is used, D 2.0 disappears *)
Example mediation_example :
  clean_up N.eqb ex_cid [Node (ex_B, 1%N) [Node (ex_C, 1%N) [Node (ex_D, 20%N) []]]; Node (ex_E, 1%N) [Node (ex_D, 10%N) []]]
  = [Node (ex_B, 1%N) [Node (ex_C, 1%N) []]; Node (ex_E, 1%N) [Node (ex_D, 10%N) []]].
Proof. vm_compute. reflexivity. Qed.
(* a rival's subtree does not take part: X under the losing D 2.0 does not beat the X below E *)
Example rivals_subtree_discarded :
  breadth_first (clean_up N.eqb ex_cid
    [Node (ex_B, 1%N) [Node (ex_D, 20%N) [Node (88%N, 1%N) []]]; Node (ex_D, 10%N) []; Node (ex_E, 1%N) [Node (ex_C, 1%N) [Node (88%N, 2%N) []]]])
  = [(ex_B, 1%N); (ex_D, 10%N); (ex_E, 1%N); (ex_C, 1%N); (88%N, 2%N)].
Proof. vm_compute. reflexivity. Qed.
Example mediation_example_paths :
  clean_up_kept N.eqb ex_cid [Node (ex_B, 1%N) [Node (ex_C, 1%N) [Node (ex_D, 20%N) []]]; Node (ex_E, 1%N) [Node (ex_D, 10%N) []]]
  = [[0]; [1]; [0; 0]; [1; 0]].
Proof. vm_compute. reflexivity. Qed.
