(* C19 — the cut happens BEFORE resolution: the converse of tree_children_spec.  Whether the dependencies that
   are cut (optional, or a scope the table has no entry for) could be resolved plays no part in the answer. *)
From FB Require Import C19.Model C19.TheoryPom.

Lemma map_res_of_Forall2 {A B} (g : A -> res B) l out : Forall2 (fun a b => g a = Ok b) l out -> map_res g l = Ok out.
Proof.
  induction 1 as [|a b l out Ha _ IH]; [reflexivity|]. cbn [map_res]. rewrite Ha. cbn [bind]. rewrite IH. reflexivity.
Qed.

(* if the effective POM of a node exists and every dependency that is NOT cut resolves (with the scope the table
   composes), the node resolves — to exactly these children, in declaration order; nothing is asked of the others *)
Theorem tree_children_complete : forall mf f fs rs c sc r pd kids,
  get_merged_pom mf fs rs c = Ok (r, pd) ->
  Forall2 (fun d k => exists s', the_scope_table sc (dd_declared_scope d) = Some s'
                                 /\ get_dependencies_tree mf f fs rs (dd_coord d) s' = Ok k)
          (filter (transitive sc) (pd_deps pd)) kids ->
  get_dependencies_tree mf (S f) fs rs c sc = Ok (Node (mkFound r c sc) kids).
Proof.
  intros mf f fs rs c sc r pd kids Hm Hk. rewrite tree_unfold, Hm. cbn [bind fst snd].
  rewrite (map_res_of_Forall2 _ _ kids); [reflexivity|].
  induction Hk as [|d k ds ks (s' & Et & Ek) _ IH]; constructor; [|exact IH].
  rewrite Et. exact Ek.
Qed.

(* hence two universes (file maps) that agree on the effective POM of a node and on the subtrees of its followed
   dependencies give the same tree, whatever they hold behind the cut edges *)
Corollary cut_edges_irrelevant : forall mf f fs fs' rs c sc t,
  get_dependencies_tree mf (S f) fs rs c sc = Ok t ->
  get_merged_pom mf fs' rs c = get_merged_pom mf fs rs c ->
  (forall d s', In d (pd_deps (match get_merged_pom mf fs rs c with Ok rp => snd rp | Err => mkPDone c [] [] [] end)) ->
                transitive sc d = true ->
                get_dependencies_tree mf f fs' rs (dd_coord d) s' = get_dependencies_tree mf f fs rs (dd_coord d) s') ->
  get_dependencies_tree mf (S f) fs' rs c sc = Ok t.
Proof.
  intros mf f fs fs' rs c sc t Ht Hm Hsame.
  destruct (tree_children_spec mf f fs rs c sc t Ht) as (r & pd & Hp & Hd & Hk).
  rewrite Hp in Hsame. cbn [snd] in Hsame.
  destruct t as [x kids]. cbn [data children] in Hd, Hk. subst x.
  apply tree_children_complete with (pd := pd); [rewrite Hm; exact Hp|].
  assert (Hin : forall d, In d (filter (transitive sc) (pd_deps pd)) -> In d (pd_deps pd) /\ transitive sc d = true)
    by (intros d Hd; apply filter_In in Hd; exact Hd).
  clear Ht. set (l := filter (transitive sc) (pd_deps pd)) in *. clearbody l.
  revert Hin. induction Hk as [|d k ds ks (s' & Et & Ek) _ IH]; intros Hin; constructor.
  - exists s'. split; [exact Et|]. destruct (Hin d (or_introl eq_refl)) as (Hi & Htr). rewrite (Hsame d s' Hi Htr). exact Ek.
  - apply IH. intros d' Hd'. apply Hin. right. exact Hd'.
Qed.
