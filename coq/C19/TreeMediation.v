(* C19 — the declarative statement: paths into the (unlabelled) forest, the mediation
   specification, its uniqueness, and that breadth_first_retain with a first-seen predicate
   satisfies it. *)
From FB Require Import C19.Tree C19.TreeBasics C19.TreeBfs C19.TreeRetain C19.TreeSpec.
From Coq Require Import Sorting.Sorted Arith.PeanoNat Arith.Wf_nat Lia.
Local Open Scope nat_scope.

(* [at_path F p t]: following the child indices p from the roots of F leads to the subtree t *)
Inductive at_path {A} (F : list (tree A)) : path -> tree A -> Prop :=
| at_root i t : nth_error F i = Some t -> at_path F [i] t
| at_child p t i c : at_path F p t -> nth_error (children t) i = Some c -> at_path F (p ++ [i]) c.
Definition node_of {A} (F : list (tree A)) (p : path) (a : A) : Prop := exists t, at_path F p t /\ data t = a.

Definition proper_prefix (q p : path) : Prop := exists r, r <> [] /\ p = q ++ r.
(* all ancestors of the node at p are in R *)
Definition ancestors_in (R : path -> Prop) (p : path) : Prop := forall q, q <> [] -> proper_prefix q p -> R q.

(* R is a mediation of F: a set of nodes closed under ancestors in which a node whose ancestors
   are all in R is in R iff no node with the same key whose ancestors are all in R precedes it
   in (depth, declaration) order *)
Definition is_mediation {A K} (F : list (tree A)) (cid : A -> K) (R : path -> Prop) : Prop :=
  (forall p, R p -> exists a, node_of F p a) /\
  (forall p, R p -> ancestors_in R p) /\
  (forall p a, node_of F p a -> ancestors_in R p ->
     (R p <-> ~ exists q b, node_of F q b /\ ancestors_in R q /\ cid b = cid a /\ before q p)).

(* ---------- labelled nodes and paths ---------- *)
Lemma nodes_at_path {A} (F : list (tree A)) x : nodes F x <-> exists p t, at_path F p t /\ x = annot p t.
Proof.
  unfold nodes. split.
  - induction 1 as [x Hin|y x _ IH Hin].
    + unfold annotate in Hin. apply annot_list_in in Hin. destruct Hin as (k & t & Hk & ->).
      exists [k], t. split; [constructor; exact Hk|reflexivity].
    + destruct IH as (p & t & Hp & ->). rewrite children_annot in Hin. apply annot_list_in in Hin.
      destruct Hin as (k & c & Hk & ->). exists (p ++ [k]), c. split; [econstructor; eauto|reflexivity].
  - intros (p & t & Hp & ->). induction Hp as [i t Hi|p t i c Hp IH Hi].
    + apply Sub_root. unfold annotate. apply annot_list_in. exists i, t. auto.
    + eapply Sub_child; [exact IH|]. rewrite children_annot. apply annot_list_in. exists i, c. auto.
Qed.
Lemma node_of_nodes {A} (F : list (tree A)) p a : node_of F p a <-> exists x, nodes F x /\ data x = (p, a).
Proof.
  split.
  - intros (t & Hp & <-). exists (annot p t). split; [apply nodes_at_path; eauto|apply data_annot].
  - intros (x & Hx & E). apply nodes_at_path in Hx. destruct Hx as (p' & t & Hp & ->).
    rewrite data_annot in E. injection E as -> <-. exists t. auto.
Qed.
Lemma nodes_node_of {A} (F : list (tree A)) x : nodes F x -> node_of F (label x) (snd (data x)).
Proof. intros Hx. apply node_of_nodes. exists x. split; [exact Hx|]. unfold label. destruct (data x); reflexivity. Qed.

(* ---------- prefixes ---------- *)
Lemma prefix_removelast (p q r : path) : p = q ++ r -> r <> [] -> q = removelast p \/ proper_prefix q (removelast p).
Proof.
  intros -> Hr. destruct (exists_last Hr) as (r' & a & ->). rewrite app_assoc, removelast_snoc.
  destruct r' as [|b r']; [left; rewrite app_nil_r; reflexivity|right; exists (b :: r'); split; [discriminate|reflexivity]].
Qed.
Lemma proper_prefix_before q p : proper_prefix q p -> before q p.
Proof. intros (r & Hr & ->). left. rewrite app_length. destruct r; [congruence|cbn; lia]. Qed.

Lemma parent_closed_ancestors (R : path -> Prop) :
  (forall p, R p -> length p = 1 \/ R (removelast p)) -> forall p, R p -> ancestors_in R p.
Proof.
  intros Hc p. remember (length p) as n eqn:En. revert p En.
  induction n as [n IH] using lt_wf_ind. intros p En Hp q Hq (r & Hr & E).
  destruct (Hc p Hp) as [H1|Hpar].
  - subst p. rewrite app_length in H1. destruct q; [congruence|]. destruct r; [congruence|]. cbn in H1. lia.
  - destruct (prefix_removelast p q r E Hr) as [->|Hpp]; [exact Hpar|].
    apply (IH (length (removelast p))) with (p := removelast p); auto.
    + subst n. subst p. destruct (exists_last Hr) as (r' & a & ->). rewrite app_assoc, removelast_snoc, !app_length. cbn. lia.
Qed.

Lemma ancestors_iff (R : path -> Prop) p :
  (forall p, R p -> ancestors_in R p) -> p <> [] ->
  (ancestors_in R p <-> length p = 1 \/ R (removelast p)).
Proof.
  intros Hc Hp. split.
  - intros Ha. destruct (exists_last Hp) as (p' & a & ->). rewrite removelast_snoc.
    destruct p' as [|b p']; [left; reflexivity|right]. apply Ha; [discriminate|]. exists [a]. split; [discriminate|reflexivity].
  - intros [H1|Hpar] q Hq (r & Hr & E).
    + subst p. rewrite app_length in H1. destruct q; [congruence|]. destruct r; [congruence|]. cbn in H1. lia.
    + destruct (prefix_removelast p q r E Hr) as [->|Hpp]; [exact Hpar|]. exact (Hc _ Hpar q Hq Hpp).
Qed.

Lemma node_prefix_closed {A} (F : list (tree A)) p a q :
  node_of F p a -> q <> [] -> proper_prefix q p -> exists b, node_of F q b.
Proof.
  intros (t & Hp & _). revert q. clear a. induction Hp as [i t Hi|p t i c Hp IH Hi]; intros q Hq (r & Hr & E).
  - destruct q; [congruence|]. destruct r; [congruence|]. destruct q; destruct r; discriminate.
  - destruct (prefix_removelast _ q r E Hr) as [->|Hpp]; rewrite removelast_snoc in *.
    + exists (data t), t. auto.
    + apply IH; assumption.
Qed.

(* ---------- breadth_first_retain with a first-seen predicate is a mediation ---------- *)
Lemma first_seen_on_weaken {St A K} (P Q : A -> Prop) (cid : A -> K) (f : St -> A -> bool * St) I :
  (forall a, Q a -> P a) -> first_seen_on P cid f I -> first_seen_on Q cid f I.
Proof. intros H Hf seen s a Ha. apply Hf, H, Ha. Qed.

Theorem retain_first_seen_mediation {St A K} (cid : A -> K) (f : St -> A -> bool * St) I s0 (F : list (tree A)) :
  first_seen_on (fun a => exists p, node_of F p a) cid f I -> I [] s0 ->
  is_mediation F cid (fun p => In p (kept_paths f s0 F)).
Proof.
  intros Hf HI.
  assert (Hf' : first_seen_on (fun a => exists x, nodes F x /\ snd (data x) = a) cid f I).
  { eapply first_seen_on_weaken; [|exact Hf]. intros a (x & Hx & <-). exists (label x). apply nodes_node_of, Hx. }
  set (Kp := fun p => In p (kept_paths f s0 F)).
  assert (Hpar : forall p, Kp p -> length p = 1 \/ Kp (removelast p)).
  { intros p Hp. apply kept_paths_In in Hp. destruct Hp as (x & Hx & <-).
    apply (cand_iff f s0 F x); [apply (cand_nodes f s0 F), keptn_cand, Hx|apply keptn_cand, Hx]. }
  assert (Hclosed : forall p, Kp p -> ancestors_in Kp p) by (apply parent_closed_ancestors; exact Hpar).
  assert (Hcand : forall x, nodes F x -> (cand f s0 F x <-> ancestors_in Kp (label x))).
  { intros x Hx. rewrite (cand_iff f s0 F x Hx). symmetry. apply ancestors_iff; [exact Hclosed|].
    pose proof (nodes_label_pos F x Hx). destruct (label x); [cbn in *; lia|discriminate]. }
  split; [|split].
  - intros p Hp. apply kept_paths_In in Hp. destruct Hp as (x & Hx & <-).
    exists (snd (data x)). apply nodes_node_of, (cand_nodes f s0 F), keptn_cand, Hx.
  - exact Hclosed.
  - intros p a Hn Ha. apply node_of_nodes in Hn. destruct Hn as (x & Hx & Ex).
    assert (Elab : label x = p) by (unfold label; rewrite Ex; reflexivity).
    assert (Edat : snd (data x) = a) by (rewrite Ex; reflexivity).
    assert (Hc : cand f s0 F x) by (apply Hcand; [exact Hx|rewrite Elab; exact Ha]).
    unfold Kp at 1. rewrite <- Elab, <- (keptn_label f s0 F x Hx), (keptn_iff cid f I s0 F Hf' HI x Hc).
    split; intros Hno Hex; apply Hno.
    + destruct Hex as (q & b & Hq & Haq & Hk & Hb). apply node_of_nodes in Hq. destruct Hq as (y & Hy & Ey).
      assert (Ely : label y = q) by (unfold label; rewrite Ey; reflexivity).
      exists y. split; [apply Hcand; [exact Hy|rewrite Ely; exact Haq]|]. split; [rewrite Ey, Edat; exact Hk|].
      unfold lab_before. rewrite Ely. exact Hb.
    + destruct Hex as (y & Hy & Hk & Hb). pose proof (cand_nodes f s0 F y Hy) as Hny.
      exists (label y), (snd (data y)). split; [apply nodes_node_of, Hny|]. split; [apply Hcand; assumption|].
      split; [rewrite Hk, Edat; reflexivity|]. exact Hb.
Qed.

(* ---------- a forest has exactly one mediation ---------- *)
Lemma sorted_list_ind (l : list path) : StronglySorted before l ->
  forall P : path -> Prop,
    (forall p, In p l -> (forall q, In q l -> before q p -> P q) -> P p) -> forall p, In p l -> P p.
Proof.
  induction 1 as [|a l HS IH Hall]; intros P H p Hp; [destruct Hp|].
  rewrite Forall_forall in Hall.
  assert (Pa : P a).
  { apply H; [left; reflexivity|]. intros q [<-|Hq] Hb; [exfalso; exact (before_irrefl _ Hb)|].
    exfalso. exact (before_asym _ _ Hb (Hall q Hq)). }
  destruct Hp as [<-|Hp]; [exact Pa|].
  apply (IH P); [|exact Hp]. intros p' Hp' Hq. apply H; [right; exact Hp'|].
  intros q [<-|Hq'] Hb; [exact Pa|auto].
Qed.

Lemma node_paths_sorted {A} (F : list (tree A)) :
  exists l, StronglySorted before l /\ forall p, In p l <-> exists a, node_of F p a.
Proof.
  destruct (nodes_sorted F) as (HS & Hin & _). exists (map label (bfs_trees (fsize F) (annotate F))).
  split; [apply (SS_map before label); exact HS|]. intros p. rewrite in_map_iff. split.
  - intros (x & <- & Hx). exists (snd (data x)). apply nodes_node_of, Hin, Hx.
  - intros (a & Hn). apply node_of_nodes in Hn. destruct Hn as (x & Hx & E). exists x.
    split; [unfold label; rewrite E; reflexivity|apply Hin, Hx].
Qed.

Theorem mediation_unique {A K} (F : list (tree A)) (cid : A -> K) (R1 R2 : path -> Prop) :
  is_mediation F cid R1 -> is_mediation F cid R2 -> forall p, R1 p <-> R2 p.
Proof.
  intros (A1 & B1 & C1) (A2 & B2 & C2).
  destruct (node_paths_sorted F) as (l & HS & Hl).
  assert (Hnode : forall p, In p l -> R1 p <-> R2 p).
  { apply (sorted_list_ind l HS (fun p => R1 p <-> R2 p)). intros p Hp IH.
    apply Hl in Hp. destruct Hp as (a & Hn).
    assert (Hanc : forall q b, node_of F q b -> (q = p \/ before q p) -> (ancestors_in R1 q <-> ancestors_in R2 q)).
    { intros q b Hq Hqp. split; intros Ha q' Hq' Hpp;
        (destruct (node_prefix_closed F q b q' Hq Hq' Hpp) as (b' & Hn');
         apply IH; [apply Hl; eauto| |apply Ha; assumption];
         destruct Hqp as [->|Hqp]; [apply proper_prefix_before; exact Hpp|eapply before_trans; [apply proper_prefix_before; exact Hpp|exact Hqp]]). }
    assert (Hriv : (exists q b, node_of F q b /\ ancestors_in R1 q /\ cid b = cid a /\ before q p) <->
                   (exists q b, node_of F q b /\ ancestors_in R2 q /\ cid b = cid a /\ before q p)).
    { split; intros (q & b & Hq & Haq & Hk & Hb); exists q, b; (split; [exact Hq|split; [|auto]]);
        apply (Hanc q b Hq (or_intror Hb)); exact Haq. }
    split; intros HR.
    - pose proof (B1 p HR) as Ha1. pose proof (proj1 (Hanc p a Hn (or_introl eq_refl)) Ha1) as Ha2.
      apply (C2 p a Hn Ha2). rewrite <- Hriv. apply (C1 p a Hn Ha1). exact HR.
    - pose proof (B2 p HR) as Ha2. pose proof (proj2 (Hanc p a Hn (or_introl eq_refl)) Ha2) as Ha1.
      apply (C1 p a Hn Ha1). rewrite Hriv. apply (C2 p a Hn Ha2). exact HR. }
  intros p. split; intros HR.
  - apply Hnode; [apply Hl, A1, HR|exact HR].
  - apply Hnode; [apply Hl, A2, HR|exact HR].
Qed.
