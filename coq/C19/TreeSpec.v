(* C19 — a first-seen predicate driven through breadth_first_retain: which labelled nodes are
   offered to the predicate (candidates) and which are retained. *)
From FB Require Import C19.Tree C19.TreeBasics C19.TreeBfs C19.TreeRetain.
From Coq Require Import Sorting.Sorted Arith.PeanoNat Arith.Wf_nat Lia.
Local Open Scope nat_scope.

(* [f] answers "the key of this element was not offered before" on the elements satisfying P;
   [I seen s]: the state s has seen exactly the keys in [seen] *)
Definition first_seen_on {St A K} (P : A -> Prop) (cid : A -> K) (f : St -> A -> bool * St) (I : list K -> St -> Prop) : Prop :=
  forall seen s a, P a -> I seen s ->
    (fst (f s a) = true <-> ~ In (cid a) seen) /\ I (cid a :: seen) (snd (f s a)).

Lemma retain_vec_first_seen {St A K} (P : A -> Prop) (cid : A -> K) (f : St -> A -> bool * St) I :
  first_seen_on P cid f I ->
  forall (l1 : list (tree (path * A))) x l2 seen s,
    I seen s -> Forall (fun t => P (snd (data t))) (l1 ++ x :: l2) -> NoDup (l1 ++ x :: l2) ->
    (In x (snd (retain_vec f s (l1 ++ x :: l2))) <->
     ~ In (cid (snd (data x))) seen /\ ~ In (cid (snd (data x))) (map (fun t => cid (snd (data t))) l1)).
Proof.
  intros Hf. induction l1 as [|y l1 IH]; intros x l2 seen s HI HP Hnd.
  - cbn [app retain_vec map In]. apply Forall_cons_iff in HP. destruct HP as [Px _].
    destruct (Hf seen s _ Px HI) as [Hb _]. destruct (f s (snd (data x))) as [b s1]. cbn [fst] in Hb.
    pose proof (retain_vec_subl f s1 l2) as Hs. destruct (retain_vec f s1 l2) as [s2 r]. cbn [snd] in *.
    inversion Hnd as [|? ? Hnx _]; subst.
    assert (Hxr : ~ In x r) by (intros H; apply Hnx; eapply subl_in; eauto).
    destruct b; cbn [In]; split.
    + intros _. split; [apply Hb; reflexivity|tauto].
    + intros _. left; reflexivity.
    + intros H. contradiction.
    + intros [H _]. apply Hb in H. discriminate.
  - rewrite <- app_comm_cons in *. cbn [retain_vec map In].
    apply Forall_cons_iff in HP. destruct HP as [Py HP]. inversion Hnd as [|? ? Hny Hnd']; subst.
    destruct (Hf seen s _ Py HI) as [Hb HI']. destruct (f s (snd (data y))) as [b s1]. cbn [fst snd] in Hb, HI'.
    specialize (IH x l2 _ s1 HI' HP Hnd').
    destruct (retain_vec f s1 (l1 ++ x :: l2)) as [s2 r]. cbn [snd] in *.
    assert (Hxy : x <> y) by (intros ->; apply Hny; apply in_or_app; right; left; reflexivity).
    assert (E : In x (if b then y :: r else r) <-> In x r).
    { destruct b; cbn [In]; [|tauto]. split; [intros [H|H]; [congruence|exact H]|auto]. }
    rewrite E, IH. cbn [In]. split.
    + intros [H1 H2]. split; [tauto|]. intros [H|H]; [apply H1; left; exact H|auto].
    + intros [H1 H2]. split; [intros [H|H]; [apply H2; left; exact H|auto]|tauto].
Qed.

(* ---------- facts about the nodes of annotate F ---------- *)
Lemma Sub_wl {A} (G : list (tree (path * A))) : Forall wl G -> forall x, Sub G x -> wl x.
Proof.
  intros HG x Hx. induction Hx as [x Hin|y x _ IH Hin].
  - rewrite Forall_forall in HG. auto.
  - destruct (wl_children y IH) as [_ Hk]. rewrite Forall_forall in Hk. auto.
Qed.
Lemma nodes_wl {A} (F : list (tree A)) x : nodes F x -> wl x.
Proof. apply Sub_wl. destruct (lvl_annotate F) as (H & _). exact H. Qed.

Lemma child_label {A} (y x : tree (path * A)) : wl y -> In x (children y) -> exists i, label x = label y ++ [i].
Proof. intros Hw Hin. destruct (wl_children y Hw) as [[Hk _] _]. rewrite Forall_forall in Hk. auto. Qed.

Lemma nodes_sorted {A} (F : list (tree A)) :
  let L := bfs_trees (fsize F) (annotate F) in
  StronglySorted lab_before L /\ (forall x, In x L <-> nodes F x) /\ Forall (fun t => 1 <= length (label t)) L.
Proof.
  cbn zeta. assert (Hf : fsize (annotate F) <= fsize F) by (rewrite fsize_annotate; lia).
  destruct (bfs_trees_sorted (fsize F) (annotate F) Hf 1 (lvl_annotate F)) as [H1 H2].
  split; [exact H1|split; [|exact H2]]. intros x. apply bfs_trees_complete. exact Hf.
Qed.

Lemma lab_before_sep {A} (x y : tree (path * A)) : lab_before x y -> label x <> label y.
Proof. apply before_neq. Qed.

Lemma nodes_label_inj {A} (F : list (tree A)) x y : nodes F x -> nodes F y -> label x = label y -> x = y.
Proof.
  intros Hx Hy E. destruct (nodes_sorted F) as (HS & Hin & _).
  eapply (SS_inj lab_before label); eauto using lab_before_sep; apply Hin; assumption.
Qed.
Lemma nodes_label_pos {A} (F : list (tree A)) x : nodes F x -> 1 <= length (label x).
Proof.
  intros Hx. destruct (nodes_sorted F) as (_ & Hin & Hlen). rewrite Forall_forall in Hlen. apply Hlen, Hin, Hx.
Qed.
Lemma roots_label_length {A} (F : list (tree A)) x : In x (annotate F) -> length (label x) = 1.
Proof. destruct (lvl_annotate F) as (_ & H & _). rewrite Forall_forall in H. apply H. Qed.

(* ---------- the run of a first-seen predicate ---------- *)
Definition cand {St A} (f : St -> A -> bool * St) s (F : list (tree A)) (x : tree (path * A)) : Prop :=
  In x (calls_of (run_of f s F)).
Definition keptn {St A} (f : St -> A -> bool * St) s (F : list (tree A)) (x : tree (path * A)) : Prop :=
  In x (kept_of (run_of f s F)).

Lemma keptn_cand {St A} (f : St -> A -> bool * St) s (F : list (tree A)) x : keptn f s F x -> cand f s F x.
Proof. destruct (run_facts f s F) as (_ & _ & H & _). apply H. Qed.
Lemma cand_nodes {St A} (f : St -> A -> bool * St) s (F : list (tree A)) x : cand f s F x -> nodes F x.
Proof. destruct (run_facts f s F) as (_ & H & _). apply H. Qed.

Lemma kept_paths_In {St A} (f : St -> A -> bool * St) s (F : list (tree A)) p :
  In p (kept_paths f s F) <-> exists x, keptn f s F x /\ label x = p.
Proof.
  rewrite kept_paths_run, in_map_iff. unfold keptn. split; intros (x & H1 & H2); exists x; auto.
Qed.
Lemma keptn_label {St A} (f : St -> A -> bool * St) s (F : list (tree A)) x :
  nodes F x -> (keptn f s F x <-> In (label x) (kept_paths f s F)).
Proof.
  intros Hx. rewrite kept_paths_In. split; [intros H; exists x; auto|].
  intros (y & Hy & E). assert (y = x) as <-; [|exact Hy].
  eapply nodes_label_inj; eauto. apply (cand_nodes f s F), keptn_cand, Hy.
Qed.

(* a node is offered to the predicate iff it is a root or its parent was retained *)
Lemma cand_iff {St A} (f : St -> A -> bool * St) s (F : list (tree A)) x :
  nodes F x ->
  (cand f s F x <-> length (label x) = 1 \/ In (removelast (label x)) (kept_paths f s F)).
Proof.
  intros Hx. destruct (run_facts f s F) as (_ & F2 & F3 & F4 & F5 & F6). split.
  - intros Hc. destruct (F6 x Hc) as [Hr|(y & Hy & Hxy)]; [left; apply (roots_label_length F); exact Hr|right].
    assert (Hny : nodes F y) by (apply F2, F3, Hy).
    destruct (child_label y x (nodes_wl F y Hny) Hxy) as [i ->]. rewrite removelast_snoc.
    apply kept_paths_In. exists y. auto.
  - intros H. unfold nodes in Hx. inversion Hx as [x' Hr|y x' Hy Hxy]; subst; [apply F4; exact Hr|].
    destruct (child_label y x (nodes_wl F y Hy) Hxy) as [i Hi]. rewrite Hi in H.
    destruct H as [H|H].
    + rewrite app_length in H. pose proof (nodes_label_pos F y Hy). cbn in H. lia.
    + rewrite removelast_snoc in H. apply keptn_label in H; [|exact Hy]. eapply F5; eauto.
Qed.

(* among the offered nodes, the retained ones are those no earlier offered node has the key of *)
Lemma keptn_iff {St A K} (cid : A -> K) (f : St -> A -> bool * St) I s0 (F : list (tree A)) :
  first_seen_on (fun a => exists x, nodes F x /\ snd (data x) = a) cid f I -> I [] s0 ->
  forall x, cand f s0 F x ->
    (keptn f s0 F x <->
     ~ exists y, cand f s0 F y /\ cid (snd (data y)) = cid (snd (data x)) /\ lab_before y x).
Proof.
  intros Hf HI x Hc. unfold keptn, cand in *.
  destruct (run_facts f s0 F) as (HS & F2 & _).
  destruct (in_split _ _ Hc) as (l1 & l2 & E).
  rewrite <- (run_retain_vec f s0 F). rewrite E in *.
  assert (Hnd : NoDup (l1 ++ x :: l2)) by (eapply SS_NoDup; [exact HS|intros a; apply before_irrefl]).
  assert (HP : Forall (fun t => exists x0, nodes F x0 /\ snd (data x0) = snd (data t)) (l1 ++ x :: l2)).
  { rewrite Forall_forall. intros t Ht. exists t. split; [apply F2; exact Ht|reflexivity]. }
  rewrite (retain_vec_first_seen _ cid f I Hf l1 x l2 [] s0 HI HP Hnd).
  split.
  - intros [_ Hn] (y & Hy & Hk & Hb). apply Hn. rewrite <- Hk. apply (in_map (fun t : tree (path * A) => cid (snd (data t)))).
    eapply (SS_split_before lab_before); eauto; [intros a; apply before_irrefl|intros a b; apply before_asym].
  - intros Hn. split; [intros []|]. intros Hin. apply in_map_iff in Hin. destruct Hin as (y & Hk & Hy).
    apply Hn. exists y. split; [apply in_or_app; left; exact Hy|split; [exact Hk|]].
    apply SS_app in HS. destruct HS as (_ & _ & H). apply H; [exact Hy|left; reflexivity].
Qed.
