(* C19 — scope table, coordinates, effective POM: lemmas and proofs *)
From FB Require Import C19.Model.

(* ---------- the scope table of "Introduction to the Dependency Mechanism" ----------
   rows: the scope of a dependency (left column); columns: the scope of ITS dependency (top row);
   None is the "-" of the table: the transitive dependency is omitted.
                 compile    provided   runtime    test
      compile    compile    -          runtime    -
      provided   provided   -          provided   -
      runtime    runtime    -          runtime    -
      test       test       -          test       -
   "system: this scope is similar to provided": as a column it is never transitive, as a row it
   keeps the row's scope exactly as provided does. *)
Definition maven_scope_table (left top : scope) : option scope :=
  match left, top with
  | Compile, Compile => Some Compile   | Compile, Provided => None | Compile, Runtime => Some Runtime   | Compile, Test => None
  | Provided, Compile => Some Provided | Provided, Provided => None | Provided, Runtime => Some Provided | Provided, Test => None
  | Runtime, Compile => Some Runtime   | Runtime, Provided => None | Runtime, Runtime => Some Runtime   | Runtime, Test => None
  | Test, Compile => Some Test         | Test, Provided => None | Test, Runtime => Some Test         | Test, Test => None
  | System, Compile => Some System     | System, Provided => None | System, Runtime => Some System     | System, Test => None
  | _, System => None
  end.

Lemma scope_table_is_maven : forall left top, the_scope_table left top = maven_scope_table left top.
Proof. intros [] []; vm_compute; reflexivity. Qed.

(* the enumeration the generated file gives is complete, so the table above is the whole table *)
Lemma all_scopes_complete : forall s : scope, In s all_scopes.
Proof. intros []; vm_compute; tauto. Qed.

Lemma scope_roundtrip : forall s, parse_scope (print_scope s) = Ok s.
Proof. intros []; vm_compute; reflexivity. Qed.

Lemma scope_parse_print : forall t s, parse_scope t = Ok s -> print_scope s = t.
Proof.
  intros t s. unfold parse_scope.
  assert (H : forall l, (forall k v, In (k, v) l -> print_scope v = k) ->
                        forall v, lookup_str t l = Some v -> print_scope v = t).
  { induction l as [|[k v] l IH]; cbn [lookup_str]; intros Hl w; [discriminate|].
    destruct (str_eqb_spec t k) as [->|_].
    - intros [= <-]. apply Hl. left; reflexivity.
    - apply IH. intros; apply Hl; right; assumption. }
  destruct (lookup_str t scope_names) eqn:E; [|discriminate].
  intros [= <-]. apply (H scope_names); [|exact E].
  intros k v Hin. vm_compute in Hin.
  repeat (destruct Hin as [Hin|Hin]; [injection Hin as <- <-; reflexivity|]). contradiction.
Qed.
