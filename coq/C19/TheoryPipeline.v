(* C19 — the whole of get_maven_dependencies in one statement, without fuel:
     roots --expand the effective POMs--> the dependency forest --mediate--> --breadth first--> the list.
   [is_dep_tree E c sc t]: t is THE tree of coordinate c in scope sc over the effective-POM function E
   (every node: the first repository serving it, its coordinate, its scope; its children: the dependencies
   of its effective POM that are neither optional nor of a non-transitive scope, in declaration order, each
   with the scope the table composes).  The model's recursion on fuel computes exactly this tree; in a
   universe that passes the acyclicity check an error of the model is never "out of fuel". *)
From FB Require Import C19.Model C19.Acyclic C19.TheoryTypes C19.TheoryPom C19.TheoryCut C19.TheoryFuel
  C19.TreeBasics C19.TreeBfs C19.TreeMediation C19.TreeOrder C19.TreeTheorems.
From Coq Require Import Sorting.Sorted Arith.PeanoNat Lia.

Definition eff : Type := coord -> res (resolver * pdone).

Lemma Forall2_impl {A B} (R1 R2 : A -> B -> Prop) l1 l2 :
  (forall a b, R1 a b -> R2 a b) -> Forall2 R1 l1 l2 -> Forall2 R2 l1 l2.
Proof. intros H. induction 1; constructor; auto. Qed.

(* ---------- the dependency tree, declaratively ---------- *)
Fixpoint is_dep_tree (E : eff) (c : coord) (sc : scope) (t : tree found) {struct t} : Prop :=
  match t with
  | Node x kids =>
      exists r pd, E c = Ok (r, pd) /\ x = mkFound r c sc /\
        (fix go (ds : list ddone) (ks : list (tree found)) {struct ks} : Prop :=
           match ks, ds with
           | [], [] => True
           | k :: ks', d :: ds' =>
               (exists s', the_scope_table sc (dd_declared_scope d) = Some s' /\ is_dep_tree E (dd_coord d) s' k) /\ go ds' ks'
           | _, _ => False
           end) (filter (transitive sc) (pd_deps pd)) kids
  end.

Definition follows (E : eff) (sc : scope) (d : ddone) (k : tree found) : Prop :=
  exists s', the_scope_table sc (dd_declared_scope d) = Some s' /\ is_dep_tree E (dd_coord d) s' k.

Lemma is_dep_tree_unfold E c sc x kids :
  is_dep_tree E c sc (Node x kids) <->
  exists r pd, E c = Ok (r, pd) /\ x = mkFound r c sc /\ Forall2 (follows E sc) (filter (transitive sc) (pd_deps pd)) kids.
Proof.
  cbn [is_dep_tree].
  assert (G : forall ks ds,
    (fix go (ds : list ddone) (ks : list (tree found)) {struct ks} : Prop :=
       match ks, ds with
       | [], [] => True
       | k :: ks', d :: ds' =>
           (exists s', the_scope_table sc (dd_declared_scope d) = Some s' /\ is_dep_tree E (dd_coord d) s' k) /\ go ds' ks'
       | _, _ => False
       end) ds ks <-> Forall2 (follows E sc) ds ks).
  { induction ks as [|k ks IH]; intros [|d ds].
    - split; [constructor|trivial].
    - split; [intros []|intros H; inversion H].
    - split; [intros []|intros H; inversion H].
    - rewrite IH. split.
      + intros [Hk Hr]. constructor; assumption.
      + intros H. inversion H; subst. split; assumption. }
  split; intros (r & pd & He & Hx & Hk); exists r, pd; (split; [exact He|split; [exact Hx|apply G; exact Hk]]).
Qed.

Lemma is_dep_tree_data E c sc t : is_dep_tree E c sc t -> exists r pd, E c = Ok (r, pd) /\ data t = mkFound r c sc.
Proof. destruct t as [x kids]. rewrite is_dep_tree_unfold. intros (r & pd & He & Hx & _). exists r, pd. auto. Qed.

(* the tree is unique *)
Theorem is_dep_tree_functional E : forall t1 c sc t2, is_dep_tree E c sc t1 -> is_dep_tree E c sc t2 -> t1 = t2.
Proof.
  intros t1. induction t1 as [x1 kids1 IH] using tree_ind2. intros c sc [x2 kids2].
  rewrite !is_dep_tree_unfold. intros (r1 & pd1 & E1 & -> & K1) (r2 & pd2 & E2 & -> & K2).
  rewrite E1 in E2. injection E2 as <- <-. f_equal.
  revert kids2 K2. induction K1 as [|d k ds ks (s1 & T1 & D1) _ IHk]; intros kids2 K2; inversion K2 as [|d' k' ds' ks' (s2 & T2 & D2) K2']; subst; [reflexivity|].
  apply Forall_cons_iff in IH. destruct IH as [IH1 IHr]. rewrite T1 in T2. injection T2 as <-.
  f_equal; [exact (IH1 _ _ _ D1 D2)|exact (IHk IHr _ K2')].
Qed.

(* ---------- the model computes it ---------- *)
Lemma tree_is_dep_tree mf fs rs : forall f c sc t,
  get_dependencies_tree mf f fs rs c sc = Ok t -> is_dep_tree (get_merged_pom mf fs rs) c sc t.
Proof.
  induction f as [|f IH]; intros c sc t Ht; [discriminate|].
  destruct (tree_children_spec mf f fs rs c sc t Ht) as (r & pd & Hm & Hd & Hk).
  destruct t as [x kids]. cbn [data children] in Hd, Hk. apply is_dep_tree_unfold. exists r, pd.
  split; [exact Hm|split; [exact Hd|]].
  eapply Forall2_impl; [|exact Hk]. intros d k (s' & Et & Ek). exists s'. split; [exact Et|apply IH; exact Ek].
Qed.

Lemma tree_le_f_le fs rs mf f f' c sc : (f <= f')%nat ->
  res_le (get_dependencies_tree mf f fs rs c sc) (get_dependencies_tree mf f' fs rs c sc).
Proof.
  intros Hle. induction Hle as [|k _ IH]; [apply res_le_refl|]. intros v Hv. apply tree_le_f, IH, Hv.
Qed.
Lemma in_tsize_fsize {A} (k : tree A) l : In k l -> (tsize k <= fsize l)%nat.
Proof.
  induction l as [|t l IH]; [intros []|]. rewrite fsize_cons. intros [->|H]; [lia|]. specialize (IH H). lia.
Qed.

(* conversely every such tree is what the model computes, with the size of the tree as fuel *)
Lemma dep_tree_is_tree mf fs rs : forall t c sc,
  is_dep_tree (get_merged_pom mf fs rs) c sc t -> get_dependencies_tree mf (tsize t) fs rs c sc = Ok t.
Proof.
  intros t. induction t as [x kids IH] using tree_ind2. intros c sc. rewrite is_dep_tree_unfold.
  intros (r & pd & He & -> & Hk). rewrite tsize_node.
  apply tree_children_complete with (pd := pd); [exact He|].
  assert (Hsz : forall k, In k kids -> (tsize k <= fsize kids)%nat) by (intros k Hk'; apply in_tsize_fsize; exact Hk').
  revert Hsz. generalize (fsize kids) as n. intros n.
  induction Hk as [|d k ds ks (s' & Et & Ek) _ IHk]; intros Hsz; constructor.
  - exists s'. split; [exact Et|]. apply Forall_cons_iff in IH. destruct IH as [IH1 _].
    apply (tree_le_f_le fs rs mf (tsize k)); [apply Hsz; left; reflexivity|apply IH1, Ek].
  - apply Forall_cons_iff in IH. destruct IH as [_ IHr]. apply (IHk IHr). intros k' Hk'. apply Hsz. right. exact Hk'.
Qed.

(* ---------- paths: what sits where in the forest ---------- *)
(* [derives E roots p c sc]: following p — the number of a root, then at every node the number of a FOLLOWED
   dependency of its effective POM — leads to coordinate c, and composing the scope table along the way gives sc *)
Inductive derives (E : eff) (roots : list (coord * scope)) : path -> coord -> scope -> Prop :=
| der_root i c sc : nth_error roots i = Some (c, sc) -> derives E roots [i] c sc
| der_step p c sc r pd i d s' :
    derives E roots p c sc -> E c = Ok (r, pd) ->
    nth_error (filter (transitive sc) (pd_deps pd)) i = Some d ->
    the_scope_table sc (dd_declared_scope d) = Some s' ->
    derives E roots (p ++ [i]) (dd_coord d) s'.

Lemma Forall2_nth_error_r {A B} (R : A -> B -> Prop) l1 l2 : Forall2 R l1 l2 ->
  forall i b, nth_error l2 i = Some b -> exists a, nth_error l1 i = Some a /\ R a b.
Proof.
  induction 1 as [|a b l1 l2 Hab _ IH]; intros [|i] b'; cbn [nth_error]; try discriminate.
  - intros [= <-]. exists a. auto.
  - apply IH.
Qed.

Definition forest_of (E : eff) (roots : list (coord * scope)) (forest : list (tree found)) : Prop :=
  Forall2 (fun r t => is_dep_tree E (fst r) (snd r) t) roots forest.

Theorem forest_paths E roots forest : forest_of E roots forest ->
  forall p t, at_path forest p t -> exists c sc, derives E roots p c sc /\ is_dep_tree E c sc t.
Proof.
  intros HF p t Hp. induction Hp as [i t Hi|p t i k Hp IH Hi].
  - destruct (Forall2_nth_error_r _ _ _ HF i t Hi) as ([c sc] & Hr & Ht). exists c, sc. split; [constructor; exact Hr|exact Ht].
  - destruct IH as (c & sc & Hd & Ht). destruct t as [x kids]. cbn [children] in Hi.
    apply is_dep_tree_unfold in Ht. destruct Ht as (r & pd & He & _ & Hk).
    destruct (Forall2_nth_error_r _ _ _ Hk i k Hi) as (d & Hdn & s' & Et & Ek).
    exists (dd_coord d), s'. split; [exact (der_step E roots p c sc r pd i d s' Hd He Hdn Et)|exact Ek].
Qed.

(* the scope of a node is the scope of its root composed with the declared scopes of the edges leading to it *)
Fixpoint compose_scopes (s : scope) (declared : list scope) : option scope :=
  match declared with
  | [] => Some s
  | d :: l => match the_scope_table s d with Some s' => compose_scopes s' l | None => None end
  end.
Lemma compose_scopes_snoc s l d :
  compose_scopes s (l ++ [d]) = match compose_scopes s l with Some s' => the_scope_table s' d | None => None end.
Proof.
  revert s; induction l as [|x l IH]; intros s; cbn [app compose_scopes].
  - destruct (the_scope_table s d); reflexivity.
  - destruct (the_scope_table s x); [apply IH|reflexivity].
Qed.
Theorem derives_scope E roots p c sc : derives E roots p c sc ->
  exists i c0 sc0 (edges : list ddone),
    hd_error p = Some i /\ nth_error roots i = Some (c0, sc0)
    /\ S (length edges) = length p
    /\ Forall (fun d => dd_is_optional d = false) edges
    /\ compose_scopes sc0 (map dd_declared_scope edges) = Some sc
    /\ c = last (map dd_coord edges) c0.
Proof.
  induction 1 as [i c sc Hi|p c sc r pd i d s' _ IH He Hd Ht].
  - exists i, c, sc, []. repeat split; auto.
  - destruct IH as (i0 & c0 & sc0 & edges & Hh & Hr & Hl & Ho & Hc & Hlast).
    exists i0, c0, sc0, (edges ++ [d]). repeat split.
    + destruct p; [discriminate|exact Hh].
    + exact Hr.
    + rewrite !app_length. cbn [length]. lia.
    + apply Forall_app. split; [exact Ho|]. constructor; [|constructor].
      apply nth_error_In, filter_In in Hd. destruct Hd as [_ Hd]. unfold transitive in Hd.
      apply andb_true_iff in Hd. destruct Hd as [Hd _]. apply negb_true_iff in Hd. exact Hd.
    + rewrite map_app. cbn [map]. rewrite compose_scopes_snoc, Hc. exact Ht.
    + rewrite map_app. cbn [map]. rewrite last_last. reflexivity.
Qed.

(* ---------- everything the list promises, for any forest of the roots ---------- *)
Theorem forest_list_spec mf fs rs roots forest :
  let E := get_merged_pom mf fs rs in
  forest_of E roots forest ->
  let kept := clean_up_kept cid_eqb found_cid forest in
  let out := breadth_first (clean_up cid_eqb found_cid forest) in
  is_mediation forest found_cid (fun p => In p kept)
  /\ StronglySorted before kept
  /\ NoDup (map found_cid out)
  /\ Forall2 (fun p d => node_of forest p d /\ derives E roots p (f_coord d) (f_scope d) /\ served_first fs rs d) kept out.
Proof.
  intros E HF kept out.
  destruct (mediation_spec cid_eqb found_cid forest cid_eqb_eq) as (HR & _ & _).
  destruct (clean_up_bfs_order cid_eqb found_cid forest) as (HS & HN).
  split; [exact HR|split; [exact HS|split; [apply clean_up_bfs_nodup, cid_eqb_eq|]]].
  eapply Forall2_impl; [|exact HN]. intros p d Hn. split; [exact Hn|].
  destruct Hn as (t & Hp & <-). destruct (forest_paths E roots forest HF p t Hp) as (c & sc & Hd & Ht).
  destruct (is_dep_tree_data E c sc t Ht) as (r & pd & He & ->). cbn [f_coord f_scope f_resolver].
  split; [exact Hd|]. unfold served_first. cbn [f_coord f_resolver]. exact (merged_resolver mf fs rs c r pd He).
Qed.

(* ---------- the pipeline ---------- *)
Lemma forest_of_functional E roots : forall f1 f2, forest_of E roots f1 -> forest_of E roots f2 -> f1 = f2.
Proof.
  unfold forest_of. intros f1 f2 H1. revert f2. induction H1 as [|r t rs ts Ht _ IH]; intros f2 H2; inversion H2; subst; [reflexivity|].
  f_equal; [eapply is_dep_tree_functional; eauto|apply IH; assumption].
Qed.

Theorem resolution_pipeline : forall fs rs ranks roots,
  acyclic_check fs rs ranks = true ->
  let E := get_merged_pom (S (length fs)) fs rs in
  (* the fuel is immaterial *)
  (forall f, (length fs < f)%nat -> get_maven_dependencies_fuel f fs rs roots = get_maven_dependencies fs rs roots)
  (* the answer: expand, mediate, list breadth first — an error exactly when some root has no tree *)
  /\ (forall out, get_maven_dependencies fs rs roots = Ok out <->
        exists forest, forest_of E roots forest /\ out = breadth_first (clean_up cid_eqb found_cid forest))
  (* there is at most one forest *)
  /\ (forall f1 f2, forest_of E roots f1 -> forest_of E roots f2 -> f1 = f2)
  (* and the list is the nearest-wins selection in (depth, declaration) order, free of duplicates, every entry at the
     end of a chain of followed dependencies from a root with the composed scope, from the first repository serving it *)
  /\ (forall forest, forest_of E roots forest ->
        let kept := clean_up_kept cid_eqb found_cid forest in
        let out := breadth_first (clean_up cid_eqb found_cid forest) in
        is_mediation forest found_cid (fun p => In p kept)
        /\ StronglySorted before kept
        /\ NoDup (map found_cid out)
        /\ Forall2 (fun p d => node_of forest p d /\ derives E roots p (f_coord d) (f_scope d) /\ served_first fs rs d) kept out).
Proof.
  intros fs rs ranks roots Hc E. split; [intros f Hf; exact (fuel_suffices fs rs ranks roots f Hc Hf)|].
  split; [|split; [apply forest_of_functional|intros forest HF; exact (forest_list_spec (S (length fs)) fs rs roots forest HF)]].
  intros out. unfold get_maven_dependencies, get_maven_dependencies_fuel. split.
  - destruct (map_res _ roots) as [forest|] eqn:Ef; [|discriminate]. intros [= <-]. exists forest. split; [|reflexivity].
    apply map_res_Forall2 in Ef. eapply Forall2_impl; [|exact Ef]. intros [c sc] t Ht. cbn [fst snd] in *.
    exact (tree_is_dep_tree _ fs rs _ c sc t Ht).
  - intros (forest & HF & ->). rewrite (map_res_of_Forall2 _ roots forest); [reflexivity|].
    eapply Forall2_impl; [|exact HF]. intros [c sc] t Ht. cbn [fst snd] in *.
    pose proof (dep_tree_is_tree (S (length fs)) fs rs t c sc Ht) as H1.
    pose proof (checked_bound fs rs ranks c Hc) as Hb.
    rewrite (tree_fuel fs rs ranks Hc (S (length fs)) c sc) with (mf2 := S (length fs)) (f2 := Nat.max (tsize t) (S (length fs))); try lia.
    apply (tree_le_f_le fs rs (S (length fs)) (tsize t)); [lia|exact H1].
Qed.

(* ---------- cyclic universes: the model runs out of fuel, whatever the fuel ---------- *)
Lemma map_res_err {A B} (g : A -> res B) l a : In a l -> g a = Err -> map_res g l = Err.
Proof.
  induction l as [|x l IH]; [intros []|]. intros [->|Hin] Ha; cbn [map_res].
  - rewrite Ha. reflexivity.
  - destruct (g x); [|reflexivity]. cbn [bind]. rewrite (IH Hin Ha). reflexivity.
Qed.
(* a POM that follows a dependency on its own coordinate (in a scope the table maps to itself) has no tree *)
Theorem self_cycle_never_resolves : forall mf fs rs c sc,
  (forall r pd, get_merged_pom mf fs rs c = Ok (r, pd) ->
     exists d, In d (pd_deps pd) /\ transitive sc d = true /\ dd_coord d = c /\ the_scope_table sc (dd_declared_scope d) = Some sc) ->
  forall f, get_dependencies_tree mf f fs rs c sc = Err.
Proof.
  intros mf fs rs c sc H. induction f as [|f IH]; [reflexivity|]. rewrite tree_unfold.
  destruct (get_merged_pom mf fs rs c) as [[r pd]|] eqn:Em; [|reflexivity]. cbn [bind fst snd].
  destruct (H r pd eq_refl) as (d & Hin & Htr & Hc & Ht).
  rewrite (map_res_err _ _ d); [reflexivity|apply filter_In; split; assumption|]. rewrite Ht, Hc. exact IH.
Qed.
Corollary self_cycle_no_dep_tree : forall mf fs rs c sc,
  (forall r pd, get_merged_pom mf fs rs c = Ok (r, pd) ->
     exists d, In d (pd_deps pd) /\ transitive sc d = true /\ dd_coord d = c /\ the_scope_table sc (dd_declared_scope d) = Some sc) ->
  forall t, ~ is_dep_tree (get_merged_pom mf fs rs) c sc t.
Proof.
  intros mf fs rs c sc H t Ht. apply dep_tree_is_tree in Ht. rewrite (self_cycle_never_resolves mf fs rs c sc H) in Ht. discriminate.
Qed.

(* non-vacuity: g:gc:1 depends on itself *)
Definition ex_cyclic_files : files := [(ex_url 99 49, Ok (ex_pom 99 49 None None [] [ex_dep 99 (Some 49) None None]))].
Definition ex_cyclic_root : coord := mkCoord [103] (ex_s 99) [49] None s_jar.
Example cyclic_example : forall n,
  get_maven_dependencies_fuel n ex_cyclic_files [mkResolver [114] [114]] [(ex_cyclic_root, Compile)] = Err.
Proof.
  intros n. unfold get_maven_dependencies_fuel. cbn [map_res fst snd].
  rewrite self_cycle_never_resolves; [reflexivity|]. intros r pd.
  destruct n as [|n]; [discriminate|]. intros H.
  destruct n as [|n]; vm_compute in H; injection H as <- <-;
    (eexists; split; [left; reflexivity|]; split; [reflexivity|split; reflexivity]).
Qed.
(* and the rank check rejects it, whatever the ranks: a document that could be served for something it refers to itself *)
Lemma acyclic_check_self_ref fs rs ranks u p ga r :
  In (u, Ok p) fs -> In ga (pom_refs p) -> In r rs -> starts_with (url_prefix r (fst ga) (snd ga)) u = true ->
  acyclic_check fs rs ranks = false.
Proof.
  intros Hu Hga Hr Hs. destruct (acyclic_check fs rs ranks) eqn:E; [exfalso|reflexivity].
  unfold acyclic_check in E. apply andb_true_iff in E. destruct E as [E _].
  rewrite forallb_forall in E. specialize (E _ Hu). cbn [snd fst] in E.
  rewrite forallb_forall in E. specialize (E _ Hga).
  rewrite forallb_forall in E. specialize (E _ Hr).
  rewrite forallb_forall in E. specialize (E _ Hu). cbn [fst] in E. rewrite Hs in E.
  apply Nat.ltb_lt in E. lia.
Qed.
Example cyclic_example_rejected : forall ranks, acyclic_check ex_cyclic_files [mkResolver [114] [114]] ranks = false.
Proof.
  intros ranks.
  apply (acyclic_check_self_ref _ _ ranks (ex_url 99 49) (ex_pom 99 49 None None [] [ex_dep 99 (Some 49) None None]) ([103], ex_s 99) (mkResolver [114] [114]));
    [left; reflexivity|left; reflexivity|left; reflexivity|vm_compute; reflexivity].
Qed.
