(* C19 — breadth_first_retain: the queue loop calls the predicate level by level; the sequence
   of all calls ([calls]) and of the retained nodes ([kept]) of a run. *)
From FB Require Import C19.Tree C19.TreeBasics C19.TreeBfs.
From Coq Require Import Sorting.Sorted Arith.PeanoNat Arith.Wf_nat Lia.
Local Open Scope nat_scope.

(* ---------- Vec::retain ---------- *)
Lemma retain_vec_app {St A} (f : St -> A -> bool * St) s (l1 l2 : list (tree (path * A))) :
  retain_vec f s (l1 ++ l2) =
  let '(s1, r1) := retain_vec f s l1 in let '(s2, r2) := retain_vec f s1 l2 in (s2, r1 ++ r2).
Proof.
  revert s; induction l1 as [|t l1 IH]; intros s.
  - cbn [app retain_vec]. destruct (retain_vec f s l2); reflexivity.
  - cbn [app retain_vec]. destruct (f s (snd (data t))) as [b s1]. rewrite IH.
    destruct (retain_vec f s1 l1) as [s2 r1]. destruct (retain_vec f s2 l2) as [s3 r2]. destruct b; reflexivity.
Qed.
Lemma retain_vec_subl {St A} (f : St -> A -> bool * St) s (l : list (tree (path * A))) : subl (snd (retain_vec f s l)) l.
Proof.
  revert s; induction l as [|t l IH]; intros s; cbn [retain_vec]; [constructor|].
  destruct (f s (snd (data t))) as [b s1]. specialize (IH s1). destruct (retain_vec f s1 l) as [s2 r]. cbn [snd] in *.
  destruct b; constructor; exact IH.
Qed.

(* ---------- the queue loop, one level at a time ---------- *)
Lemma retain_q_level {St A} (f : St -> A -> bool * St) (cur nxt : list (tree (path * A))) fuel s :
  fsize (cur ++ nxt) <= fuel ->
  retain_q fuel f s (cur ++ nxt) =
  let '(s', K) := retain_vec f s (flat_map children cur) in
  map label K ++ retain_q (fuel - length cur) f s' (nxt ++ K).
Proof.
  revert nxt fuel s; induction cur as [|t cur IH]; intros nxt fuel s Hf.
  - cbn [app flat_map length retain_vec map]. rewrite Nat.sub_0_r, app_nil_r. reflexivity.
  - rewrite <- app_comm_cons in *. rewrite fsize_cons in Hf. pose proof (tsize_pos t) as Hp.
    destruct fuel as [|fu]; [lia|].
    cbn [retain_q length flat_map]. rewrite retain_vec_app.
    pose proof (retain_vec_subl f s (children t)) as Hsub.
    destruct (retain_vec f s (children t)) as [s1 k1]. cbn [snd] in Hsub.
    rewrite <- app_assoc. rewrite IH.
    + destruct (retain_vec f s1 (flat_map children cur)) as [s2 K2].
      rewrite map_app, <- !app_assoc, Nat.sub_succ. reflexivity.
    + apply subl_fsize in Hsub. rewrite !fsize_app in *. rewrite tsize_children in Hf. lia.
Qed.

Lemma retain_q_step {St A} (f : St -> A -> bool * St) (cur : list (tree (path * A))) fuel s :
  fsize cur <= fuel ->
  retain_q fuel f s cur =
  let '(s', K) := retain_vec f s (flat_map children cur) in
  map label K ++ retain_q (fuel - length cur) f s' K.
Proof. intros H. pose proof (retain_q_level f cur [] fuel s) as L. rewrite app_nil_r in L. exact (L H). Qed.

(* ---------- the run as a list of levels: (offered, retained) ---------- *)
Fixpoint lv {St A} (n : nat) (f : St -> A -> bool * St) (s : St) (cur : list (tree (path * A)))
  : list (list (tree (path * A)) * list (tree (path * A))) :=
  match n with
  | O => []
  | S n' =>
      let C := flat_map children cur in
      let '(s', K) := retain_vec f s C in
      (C, K) :: lv n' f s' K
  end.
Definition calls_of {A} (T : list (list (tree (path * A)) * list (tree (path * A)))) := flat_map fst T.
Definition kept_of {A} (T : list (list (tree (path * A)) * list (tree (path * A)))) := flat_map snd T.

Lemma retain_q_lv {St A} (f : St -> A -> bool * St) n : forall fuel s (cur : list (tree (path * A))),
  fsize cur <= fuel -> fsize cur <= n ->
  retain_q fuel f s cur = map label (kept_of (lv n f s cur)).
Proof.
  induction n as [|n IH]; intros fuel s cur Hf Hn.
  - assert (cur = []) as -> by (destruct cur as [|t cur]; [reflexivity|rewrite fsize_cons in Hn; pose proof (tsize_pos t); lia]).
    destruct fuel; reflexivity.
  - rewrite (retain_q_step f cur fuel s Hf). cbn [lv].
    pose proof (retain_vec_subl f s (flat_map children cur)) as Hsub.
    destruct (retain_vec f s (flat_map children cur)) as [s' K]. cbn [snd] in Hsub.
    unfold kept_of. cbn [flat_map snd]. rewrite map_app. f_equal.
    apply subl_fsize in Hsub. pose proof (fsize_flat_children cur) as Hc.
    destruct cur as [|t cur].
    + cbn in Hsub. destruct K as [|k K]; [|rewrite fsize_cons in Hsub; pose proof (tsize_pos k); lia].
      apply IH; cbn; lia.
    + cbn [length] in *. apply IH; lia.
Qed.

(* the whole run on a forest: level 1 is the roots *)
Definition run_of {St A} (f : St -> A -> bool * St) (s : St) (F : list (tree A)) :=
  let C := annotate F in
  let '(s1, K) := retain_vec f s C in
  (C, K) :: lv (fsize F) f s1 K.

Lemma kept_paths_run {St A} (f : St -> A -> bool * St) s (F : list (tree A)) :
  kept_paths f s F = map label (kept_of (run_of f s F)).
Proof.
  unfold kept_paths, run_of.
  pose proof (retain_vec_subl f s (annotate F)) as Hsub.
  destruct (retain_vec f s (annotate F)) as [s1 K]. cbn [snd] in Hsub.
  unfold kept_of. cbn [flat_map snd]. rewrite map_app. f_equal.
  apply subl_fsize in Hsub. rewrite fsize_annotate in Hsub.
  apply retain_q_lv; assumption.
Qed.

(* T1: the retained nodes are what one Vec::retain over the whole sequence of calls retains *)
Lemma lv_retain_vec {St A} (f : St -> A -> bool * St) n : forall s (cur : list (tree (path * A))),
  snd (retain_vec f s (calls_of (lv n f s cur))) = kept_of (lv n f s cur).
Proof.
  induction n as [|n IH]; intros s cur; [reflexivity|].
  cbn [lv]. destruct (retain_vec f s (flat_map children cur)) as [s' K] eqn:E.
  unfold calls_of, kept_of in *. cbn [flat_map fst snd]. rewrite retain_vec_app, E.
  specialize (IH s' K). destruct (retain_vec f s' (flat_map fst (lv n f s' K))) as [s2 r2]. cbn [snd] in *. rewrite IH. reflexivity.
Qed.
Lemma run_retain_vec {St A} (f : St -> A -> bool * St) s (F : list (tree A)) :
  snd (retain_vec f s (calls_of (run_of f s F))) = kept_of (run_of f s F).
Proof.
  unfold run_of. destruct (retain_vec f s (annotate F)) as [s1 K] eqn:E.
  unfold calls_of, kept_of. cbn [flat_map fst snd]. rewrite retain_vec_app, E.
  pose proof (lv_retain_vec f (fsize F) s1 K) as H. unfold calls_of, kept_of in H.
  destruct (retain_vec f s1 (flat_map fst (lv (fsize F) f s1 K))) as [s2 r2]. cbn [snd] in *. rewrite H. reflexivity.
Qed.

(* structure of the levels *)
Lemma lv_levels {St A} (f : St -> A -> bool * St) (G : list (tree (path * A))) n : forall s cur d,
  lvl d cur -> (forall x, In x cur -> Sub G x) ->
  StronglySorted lab_before (calls_of (lv n f s cur))
  /\ Forall (fun t => d < length (label t)) (calls_of (lv n f s cur))
  /\ (forall x, In x (calls_of (lv n f s cur)) -> Sub G x)
  /\ (forall x, In x (kept_of (lv n f s cur)) -> In x (calls_of (lv n f s cur))).
Proof.
  induction n as [|n IH]; intros s cur d Hl Hsub.
  - cbn. split; [constructor|split; [constructor|split; intros ? []]].
  - cbn [lv]. pose proof (retain_vec_subl f s (flat_map children cur)) as Hs.
    destruct (retain_vec f s (flat_map children cur)) as [s' K]. cbn [snd] in Hs.
    pose proof (lvl_next d cur Hl) as HlC. pose proof (lvl_subl _ _ _ Hs HlC) as HlK.
    assert (HsubC : forall x, In x (flat_map children cur) -> Sub G x).
    { intros x Hx. apply in_flat_map in Hx. destruct Hx as (y & Hy & Hx). eapply Sub_child; eauto. }
    assert (HsubK : forall x, In x K -> Sub G x) by (intros x Hx; apply HsubC; eapply subl_in; eauto).
    destruct (IH s' K (S d) HlK HsubK) as (I1 & I2 & I3 & I4).
    unfold calls_of, kept_of in *. cbn [flat_map fst snd].
    destruct HlC as (_ & HlenC & HssC). rewrite Forall_forall in HlenC, I2.
    repeat split.
    + apply SS_app. split; [|split; [exact I1|]].
      * clear - HlenC HssC. induction HssC as [|a l HS IHs Hall]; constructor.
        -- apply IHs. intros x Hx. apply HlenC. right; exact Hx.
        -- rewrite Forall_forall in *. intros y Hy. right. split; [|exact (Hall y Hy)].
           rewrite (HlenC a (or_introl eq_refl)), (HlenC y (or_intror Hy)). reflexivity.
      * intros x y Hx Hy. left. rewrite (HlenC x Hx). specialize (I2 y Hy). cbn beta in I2. lia.
    + rewrite Forall_app. split; rewrite Forall_forall; intros x Hx; [rewrite (HlenC x Hx); lia|].
      specialize (I2 x Hx). cbn beta in I2. lia.
    + intros x Hx. apply in_app_or in Hx. destruct Hx as [Hx|Hx]; auto.
    + intros x Hx. apply in_app_or in Hx. apply in_or_app. destruct Hx as [Hx|Hx]; [left; eapply subl_in; eauto|right; auto].
Qed.

(* every child of a retained node is offered one level later *)
Lemma lv_children {St A} (f : St -> A -> bool * St) n : forall s (cur : list (tree (path * A))),
  fsize cur <= n ->
  forall y, (In y cur \/ In y (kept_of (lv n f s cur))) ->
  forall x, In x (children y) -> In x (calls_of (lv n f s cur)).
Proof.
  induction n as [|n IH]; intros s cur Hn y Hy x Hx.
  - assert (cur = []) as -> by (destruct cur as [|t cur]; [reflexivity|rewrite fsize_cons in Hn; pose proof (tsize_pos t); lia]).
    destruct Hy as [[]|[]].
  - cbn [lv] in *. pose proof (retain_vec_subl f s (flat_map children cur)) as Hs.
    destruct (retain_vec f s (flat_map children cur)) as [s' K]. cbn [snd] in Hs.
    unfold calls_of, kept_of in *. cbn [flat_map fst snd] in *.
    assert (HK : fsize K <= n).
    { apply subl_fsize in Hs. pose proof (fsize_flat_children cur) as Hc.
      destruct cur as [|t cur]; [cbn in Hs; lia|cbn [length] in Hc; lia]. }
    apply in_or_app. destruct Hy as [Hy|Hy].
    + left. apply in_flat_map. exists y. split; assumption.
    + right. apply in_app_or in Hy. apply (IH s' K HK y); [|exact Hx]. destruct Hy; [left|right]; assumption.
Qed.

(* ---------- the facts about a whole run ---------- *)
Definition nodes {A} (F : list (tree A)) : tree (path * A) -> Prop := Sub (annotate F).

Lemma run_facts {St A} (f : St -> A -> bool * St) s (F : list (tree A)) :
  let T := run_of f s F in
  StronglySorted lab_before (calls_of T)
  /\ (forall x, In x (calls_of T) -> nodes F x)
  /\ (forall x, In x (kept_of T) -> In x (calls_of T))
  /\ (forall x, In x (annotate F) -> In x (calls_of T))
  /\ (forall y x, In y (kept_of T) -> In x (children y) -> In x (calls_of T))
  /\ (forall x, In x (calls_of T) -> In x (annotate F) \/ exists y, In y (kept_of T) /\ In x (children y)).
Proof.
  unfold run_of, nodes. pose proof (retain_vec_subl f s (annotate F)) as Hs.
  destruct (retain_vec f s (annotate F)) as [s1 K]. cbn [snd] in Hs. cbn zeta.
  pose proof (lvl_annotate F) as Hl. pose proof (lvl_subl _ _ _ Hs Hl) as HlK.
  assert (HsubC : forall x, In x (annotate F) -> Sub (annotate F) x) by (intros; apply Sub_root; assumption).
  assert (HsubK : forall x, In x K -> Sub (annotate F) x) by (intros x Hx; apply HsubC; eapply subl_in; eauto).
  destruct (lv_levels f (annotate F) (fsize F) s1 K 1 HlK HsubK) as (I1 & I2 & I3 & I4).
  assert (HK : fsize K <= fsize F) by (apply subl_fsize in Hs; rewrite fsize_annotate in Hs; exact Hs).
  unfold calls_of, kept_of in *. cbn [flat_map fst snd].
  destruct Hl as (_ & HlenC & HssC). rewrite Forall_forall in HlenC, I2.
  repeat split.
  - apply SS_app. split; [|split; [exact I1|]].
    + clear - HlenC HssC. induction HssC as [|a l HS IHs Hall]; constructor.
      * apply IHs. intros x Hx. apply HlenC. right; exact Hx.
      * rewrite Forall_forall in *. intros y Hy. right. split; [|exact (Hall y Hy)].
        rewrite (HlenC a (or_introl eq_refl)), (HlenC y (or_intror Hy)). reflexivity.
    + intros x y Hx Hy. left. rewrite (HlenC x Hx). specialize (I2 y Hy). cbn beta in I2. lia.
  - intros x Hx. apply in_app_or in Hx. destruct Hx as [Hx|Hx]; auto.
  - intros x Hx. apply in_app_or in Hx. apply in_or_app. destruct Hx as [Hx|Hx]; [left; eapply subl_in; eauto|right; auto].
  - intros x Hx. apply in_or_app. left; exact Hx.
  - intros y x Hy Hx. apply in_or_app. right. apply in_app_or in Hy.
    apply (lv_children f (fsize F) s1 K HK y); [|exact Hx]. destruct Hy; [left|right]; assumption.
  - intros x Hx. apply in_app_or in Hx. destruct Hx as [Hx|Hx]; [left; exact Hx|right].
    clear - Hx. revert s1 K Hx. induction (fsize F) as [|n IH]; intros s1 K Hx; [destruct Hx|].
    cbn [lv] in Hx. destruct (retain_vec f s1 (flat_map children K)) as [s' K'] eqn:E. cbn [flat_map fst] in Hx.
    apply in_app_or in Hx. destruct Hx as [Hx|Hx].
    + apply in_flat_map in Hx. destruct Hx as (y & Hy & Hx). exists y. split; [apply in_or_app; left; exact Hy|exact Hx].
    + destruct (IH s' K' Hx) as (y & Hy & Hxy). exists y. split; [|exact Hxy].
      apply in_or_app. right. cbn [lv]. rewrite E. cbn [flat_map snd]. apply in_app_or in Hy. apply in_or_app. exact Hy.
Qed.
