(* C19 — managed fill-in, field by field.  A dependency is looked up in the dependency management under its
   collision id (group, artifact, classifier, type: type defaulting to jar, classifier to the type's default).
   Independently for version, scope and optional: the declared value wins; an omitted one is taken from the FIRST
   managed entry with that id, if there is one; otherwise scope and optional stay open (compile / false when the
   tree is built) and a missing version is an error — the only error. *)
From FB Require Import C19.Model C19.TheoryTypes C19.TheoryPom C19.CoordFmtGen C19.TheorySource.

(* the managed entry for a key: the first one with that collision id *)
Theorem managed_is_first : forall dm k e,
  managed dm k = Some e <->
  exists before_e after_e, dm = before_e ++ e :: after_e
    /\ dependency_collision_id (dd_coord e) = k
    /\ Forall (fun e' => dependency_collision_id (dd_coord e') <> k) before_e.
Proof.
  intros dm k e. unfold managed. split.
  - induction dm as [|x dm IH]; cbn [find]; [discriminate|].
    destruct (cid_eqb (dependency_collision_id (dd_coord x)) k) eqn:Ex.
    + intros [= <-]. exists [], dm. split; [reflexivity|split; [apply cid_eqb_eq; exact Ex|constructor]].
    + intros H. destruct (IH H) as (b & a & -> & Hk & Hb). exists (x :: b), a. split; [reflexivity|split; [exact Hk|]].
      constructor; [|exact Hb]. intros Hx. apply cid_eqb_eq in Hx. congruence.
  - intros (b & a & -> & Hk & Hb). induction Hb as [|x b Hx _ IH]; cbn [app find].
    + apply cid_eqb_eq in Hk. rewrite Hk. reflexivity.
    + destruct (cid_eqb (dependency_collision_id (dd_coord x)) k) eqn:Ex; [apply cid_eqb_eq in Ex; contradiction|exact IH].
Qed.
Theorem managed_none : forall dm k,
  managed dm k = None <-> Forall (fun e => dependency_collision_id (dd_coord e) <> k) dm.
Proof.
  intros dm k. unfold managed. induction dm as [|x dm IH]; cbn [find]; [split; [constructor|reflexivity]|].
  destruct (cid_eqb (dependency_collision_id (dd_coord x)) k) eqn:Ex.
  - split; [discriminate|]. intros H. apply Forall_cons_iff in H. destruct H as [H _]. apply cid_eqb_eq in Ex. contradiction.
  - rewrite IH. split.
    + intros H. constructor; [intros Hx; apply cid_eqb_eq in Hx; congruence|exact H].
    + intros H. apply Forall_cons_iff in H. apply H.
Qed.

Definition m_scope (m : option ddone) : option scope := match m with Some e => dd_scope e | None => None end.
Definition m_optional (m : option ddone) : option bool := match m with Some e => dd_optional e | None => None end.
Definition m_version (m : option ddone) : option str := match m with Some e => Some (c_version (dd_coord e)) | None => None end.

(* the result, one field at a time *)
Theorem managed_fill_in_fields : forall dm x d,
  make_dependency dm x = Ok d ->
  let m := managed dm (dep_key x) in
  (* the identity of the dependency is what it declares (with the defaults), never the managed entry's *)
  dependency_collision_id (dd_coord d) = dep_key x
  (* version: declared, else managed *)
  /\ Some (c_version (dd_coord d)) = or_else (d_version x) (m_version m)
  (* scope: declared, else managed, else still open *)
  /\ dd_scope d = or_else (d_scope x) (m_scope m)
  (* optional: declared, else managed, else still open *)
  /\ dd_optional d = or_else (d_optional x) (m_optional m).
Proof.
  intros dm x d. rewrite managed_fill_in. cbv zeta.
  destruct (d_version x) as [v|]; [|destruct (managed dm (dep_key x)) as [e|]; [|discriminate]]; intros [= <-];
    unfold fill, dep_key; cbn; repeat split.
Qed.
(* each field on its own: what is declared is kept ... *)
Corollary declared_version_wins : forall dm x d v, make_dependency dm x = Ok d -> d_version x = Some v -> c_version (dd_coord d) = v.
Proof. intros dm x d v H E. destruct (managed_fill_in_fields dm x d H) as (_ & Hv & _). rewrite E in Hv. cbn in Hv. congruence. Qed.
Corollary declared_scope_wins : forall dm x d s, make_dependency dm x = Ok d -> d_scope x = Some s -> dd_scope d = Some s.
Proof. intros dm x d s H E. destruct (managed_fill_in_fields dm x d H) as (_ & _ & Hs & _). rewrite E in Hs. exact Hs. Qed.
Corollary declared_optional_wins : forall dm x d o, make_dependency dm x = Ok d -> d_optional x = Some o -> dd_optional d = Some o.
Proof. intros dm x d o H E. destruct (managed_fill_in_fields dm x d H) as (_ & _ & _ & Ho). rewrite E in Ho. exact Ho. Qed.
(* ... and what is omitted is filled in from the managed entry — whether or not the OTHER fields are declared *)
Corollary omitted_version_is_managed : forall dm x d e, make_dependency dm x = Ok d -> d_version x = None ->
  managed dm (dep_key x) = Some e -> c_version (dd_coord d) = c_version (dd_coord e).
Proof. intros dm x d e H E M. destruct (managed_fill_in_fields dm x d H) as (_ & Hv & _). rewrite E, M in Hv. cbn in Hv. congruence. Qed.
Corollary omitted_scope_is_managed : forall dm x d e, make_dependency dm x = Ok d -> d_scope x = None ->
  managed dm (dep_key x) = Some e -> dd_scope d = dd_scope e.
Proof. intros dm x d e H E M. destruct (managed_fill_in_fields dm x d H) as (_ & _ & Hs & _). rewrite E, M in Hs. exact Hs. Qed.
Corollary omitted_optional_is_managed : forall dm x d e, make_dependency dm x = Ok d -> d_optional x = None ->
  managed dm (dep_key x) = Some e -> dd_optional d = dd_optional e.
Proof. intros dm x d e H E M. destruct (managed_fill_in_fields dm x d H) as (_ & _ & _ & Ho). rewrite E, M in Ho. exact Ho. Qed.
(* the only error: no version anywhere *)
Theorem make_dependency_error : forall dm x, make_dependency dm x = Err <-> d_version x = None /\ managed dm (dep_key x) = None.
Proof.
  intros dm x. rewrite managed_fill_in. destruct (d_version x) as [v|]; [split; [discriminate|intros [H _]; discriminate]|].
  destruct (managed dm (dep_key x)) as [e|]; [split; [discriminate|intros [_ H]; discriminate]|split; auto].
Qed.

(* non-vacuity: all eight subsets of {version, scope, optional} declared, against an entry that manages all three *)
Definition ex_managed : list ddone := [mkDDone (mkCoord [103] [120] [50] None s_jar) (Some Runtime) (Some true)].
Definition ex_decl (v : bool) (s : bool) (o : bool) : dep scope :=
  mkDep [103] [120] (if v then Some [49] else None) None None (if s then Some Test else None) (if o then Some false else None).
Example fill_in_all_subsets : forall v s o,
  make_dependency ex_managed (ex_decl v s o)
  = Ok (mkDDone (mkCoord [103] [120] (if v then [49] else [50]) None s_jar)
                (Some (if s then Test else Runtime)) (Some (if o then false else true))).
Proof. intros [] [] []; vm_compute; reflexivity. Qed.
