(* C19 correspondence cases: an input together with what the implementation answered *)
From FB Require Export C19.Model Base.Run.

(* strings in the case files: one hexadecimal numeral per string, 1 followed by six hex digits per
   code point (a list of numerals is far slower to read for coqc); [ds] decodes it *)
Fixpoint ds_dec (fuel : nat) (n : N) (acc : str) : str :=
  match fuel with
  | O => acc
  | S f => if N.leb n 1 then acc else ds_dec f (N.shiftr n 24) (N.land n 0xFFFFFF :: acc)
  end.
Definition ds (n : N) : str := ds_dec (N.to_nat (N.size n)) n [].

Definition coord_eqb (a b : coord) : bool :=
  str_eqb (c_group a) (c_group b) && str_eqb (c_artifact a) (c_artifact b) && str_eqb (c_version a) (c_version b)
  && opt_eqb str_eqb (c_classifier a) (c_classifier b) && str_eqb (c_type a) (c_type b).
Definition resolver_eqb (a b : resolver) : bool := str_eqb (r_name a) (r_name b) && str_eqb (r_maven a) (r_maven b).
Definition found_eqb (a b : found) : bool :=
  resolver_eqb (f_resolver a) (f_resolver b) && coord_eqb (f_coord a) (f_coord b) && scope_eqb (f_scope a) (f_scope b).

Fixpoint tree_eqb {A} (eqb : A -> A -> bool) (a b : tree A) : bool :=
  match a, b with
  | Node x cs, Node y ds =>
      eqb x y && (fix go (l : list (tree A)) (m : list (tree A)) : bool :=
                    match l, m with
                    | [], [] => true
                    | c :: l', d :: m' => tree_eqb eqb c d && go l' m'
                    | _, _ => false
                    end) cs ds
  end.

(* the stateful predicates the harness drives Forest::breadth_first_retain with *)
(* "first seen": retain x iff (x mod k) was not offered before *)
Definition pred_seen (k : N) (s : list N) (x : N) : bool * list N :=
  let y := N.modulo x k in (negb (mem_N y s), y :: s).
(* "schedule": the n-th call answers the n-th bit (true once the bits are used up) *)
Definition pred_bits (s : list bool) (x : N) : bool * list bool :=
  match s with b :: s' => (b, s') | [] => (true, []) end.
(* stateless: retain x iff x mod 3 <> 0 (the doc test of tree.rs) *)
Definition pred_mod3 (s : unit) (x : N) : bool * unit := (negb (N.eqb (N.modulo x 3) 0), tt).

Inductive case :=
| CResolve (rs : list resolver) (fs : files) (roots : list (coord * scope)) (ans : res (list found))
    (* get_maven_dependencies *)
| CRetainSeen (k : N) (F : list (tree N)) (ans : list (tree N))     (* Forest::breadth_first_retain *)
| CRetainBits (bits : list bool) (F : list (tree N)) (ans : list (tree N))
| CRetainMod3 (F : list (tree N)) (ans : list (tree N))
| CBfs (F : list (tree N)) (ans : list N)                           (* Forest::into_breadth_first and ::breadth_first *)
| CCoordParse (s : str) (ans : res coord)                           (* MavenCoord::from_str *)
| CCoordPrint (c : coord) (ans : str)                               (* Display for MavenCoord *)
| CFoundPrint (d : found) (ans : str)                               (* Display for FoundDependency *)
| CFoundParse (s : str) (ans : res found)                           (* FoundDependency::try_from *)
| CScopeParse (s : str) (ans : res scope)                           (* DependencyScope::from_str *)
| CScopePrint (s : scope) (ans : str).

Definition check (c : case) : bool :=
  match c with
  | CResolve rs fs roots ans => res_eqb (list_eqb found_eqb) (get_maven_dependencies fs rs roots) ans
  | CRetainSeen k F ans => list_eqb (tree_eqb N.eqb) (breadth_first_retain (pred_seen k) [] F) ans
  | CRetainBits bits F ans => list_eqb (tree_eqb N.eqb) (breadth_first_retain pred_bits bits F) ans
  | CRetainMod3 F ans => list_eqb (tree_eqb N.eqb) (breadth_first_retain pred_mod3 tt F) ans
  | CBfs F ans => list_eqb N.eqb (breadth_first F) ans
  | CCoordParse s ans => res_eqb coord_eqb (parse_coord s) ans
  | CCoordPrint c ans => str_eqb (print_coord c) ans
  | CFoundPrint d ans => str_eqb (print_found d) ans
  | CFoundParse s ans => res_eqb found_eqb (parse_found s) ans
  | CScopeParse s ans => res_eqb scope_eqb (parse_scope s) ans
  | CScopePrint s ans => str_eqb (print_scope s) ans
  end.

(* sanity: the mediation examples of lib.rs's tests and the doc test of tree.rs *)
Example doc_retain :
  breadth_first_retain pred_mod3 tt
    [Node 0 []; Node 1 [Node 2 [Node 3 [Node 4 []; Node 5 []; Node 6 []]; Node 7 [Node 8 []; Node 9 []; Node 10 []]]; Node 11 [Node 12 []]]]
  = [Node 1 [Node 2 [Node 7 [Node 8 []; Node 10 []]]; Node 11 []]].
Proof. vm_compute. reflexivity. Qed.
Example doc_bfs : breadth_first [Node 0 [Node 2 [Node 5 []; Node 6 []]; Node 3 []]; Node 1 [Node 4 []]] = [0; 1; 2; 3; 4; 5; 6].
Proof. vm_compute. reflexivity. Qed.
