(* C19 correspondence cases: an input together with what the implementation answered *)
From FB Require Export C19.Model C19.Acyclic Base.Run.

(* code points of printable ASCII as constants: coqc reads an identifier about three times faster
   than a numeral, and the case files are mostly strings *)
Definition k32 : N := 32. Definition k33 : N := 33. Definition k34 : N := 34. Definition k35 : N := 35.
Definition k36 : N := 36. Definition k37 : N := 37. Definition k38 : N := 38. Definition k39 : N := 39.
Definition k40 : N := 40. Definition k41 : N := 41. Definition k42 : N := 42. Definition k43 : N := 43.
Definition k44 : N := 44. Definition k45 : N := 45. Definition k46 : N := 46. Definition k47 : N := 47.
Definition k48 : N := 48. Definition k49 : N := 49. Definition k50 : N := 50. Definition k51 : N := 51.
Definition k52 : N := 52. Definition k53 : N := 53. Definition k54 : N := 54. Definition k55 : N := 55.
Definition k56 : N := 56. Definition k57 : N := 57. Definition k58 : N := 58. Definition k59 : N := 59.
Definition k60 : N := 60. Definition k61 : N := 61. Definition k62 : N := 62. Definition k63 : N := 63.
Definition k64 : N := 64. Definition k65 : N := 65. Definition k66 : N := 66. Definition k67 : N := 67.
Definition k68 : N := 68. Definition k69 : N := 69. Definition k70 : N := 70. Definition k71 : N := 71.
Definition k72 : N := 72. Definition k73 : N := 73. Definition k74 : N := 74. Definition k75 : N := 75.
Definition k76 : N := 76. Definition k77 : N := 77. Definition k78 : N := 78. Definition k79 : N := 79.
Definition k80 : N := 80. Definition k81 : N := 81. Definition k82 : N := 82. Definition k83 : N := 83.
Definition k84 : N := 84. Definition k85 : N := 85. Definition k86 : N := 86. Definition k87 : N := 87.
Definition k88 : N := 88. Definition k89 : N := 89. Definition k90 : N := 90. Definition k91 : N := 91.
Definition k92 : N := 92. Definition k93 : N := 93. Definition k94 : N := 94. Definition k95 : N := 95.
Definition k96 : N := 96. Definition k97 : N := 97. Definition k98 : N := 98. Definition k99 : N := 99.
Definition k100 : N := 100. Definition k101 : N := 101. Definition k102 : N := 102. Definition k103 : N := 103.
Definition k104 : N := 104. Definition k105 : N := 105. Definition k106 : N := 106. Definition k107 : N := 107.
Definition k108 : N := 108. Definition k109 : N := 109. Definition k110 : N := 110. Definition k111 : N := 111.
Definition k112 : N := 112. Definition k113 : N := 113. Definition k114 : N := 114. Definition k115 : N := 115.
Definition k116 : N := 116. Definition k117 : N := 117. Definition k118 : N := 118. Definition k119 : N := 119.
Definition k120 : N := 120. Definition k121 : N := 121. Definition k122 : N := 122. Definition k123 : N := 123.
Definition k124 : N := 124. Definition k125 : N := 125. Definition k126 : N := 126.

Definition coord_eqb (a b : coord) : bool :=
  str_eqb (c_group a) (c_group b) && str_eqb (c_artifact a) (c_artifact b) && str_eqb (c_version a) (c_version b)
  && opt_eqb str_eqb (c_classifier a) (c_classifier b) && str_eqb (c_type a) (c_type b).
Definition resolver_eqb (a b : resolver) : bool := str_eqb (r_name a) (r_name b) && str_eqb (r_maven a) (r_maven b).
Definition found_eqb (a b : found) : bool :=
  resolver_eqb (f_resolver a) (f_resolver b) && coord_eqb (f_coord a) (f_coord b) && scope_eqb (f_scope a) (f_scope b).

Fixpoint tree_eqb {A} (eqb : A -> A -> bool) (a b : tree A) : bool :=
  match a, b with
  | Node x cs, Node y ds =>
      eqb x y && (fix go (l : list (tree A)) (m : list (tree A)) : bool :=
                    match l, m with
                    | [], [] => true
                    | c :: l', d :: m' => tree_eqb eqb c d && go l' m'
                    | _, _ => false
                    end) cs ds
  end.

(* the stateful predicates the harness drives Forest::breadth_first_retain with *)
(* "first seen": retain x iff (x mod k) was not offered before *)
Definition pred_seen (k : N) (s : list N) (x : N) : bool * list N :=
  let y := N.modulo x k in (negb (mem_N y s), y :: s).
(* "schedule": the n-th call answers the n-th bit (true once the bits are used up) *)
Definition pred_bits (s : list bool) (x : N) : bool * list bool :=
  match s with b :: s' => (b, s') | [] => (true, []) end.
(* stateless: retain x iff x mod 3 <> 0 (the doc test of tree.rs) *)
Definition pred_mod3 (s : unit) (x : N) : bool * unit := (negb (N.eqb (N.modulo x 3) 0), tt).

(* the harness' trees hold numbers below 100; their Display is the decimal numeral *)
Definition show_dec2 (n : N) : str := if N.ltb n 10 then [48 + n] else [48 + N.div n 10; 48 + N.modulo n 10].

Inductive case :=
| CResolve (rs : list resolver) (fs : files) (roots : list (coord * scope)) (ans : res (list found))
    (* get_maven_dependencies *)
| CRetainSeen (k : N) (F : list (tree N)) (ans : list (tree N))     (* Forest::breadth_first_retain *)
| CRetainBits (bits : list bool) (F : list (tree N)) (ans : list (tree N))
| CRetainMod3 (F : list (tree N)) (ans : list (tree N))
| CTreeShow (ascii : bool) (t : tree N) (ans : str)                 (* Display / Debug for Tree, FormattedTree with either palette *)
| CBfs (F : list (tree N)) (ans : list N)                           (* Forest::into_breadth_first and ::breadth_first *)
| CCoordParse (s : str) (ans : res coord)                           (* MavenCoord::from_str *)
| CCoordPrint (c : coord) (ans : str)                               (* Display for MavenCoord *)
| CFoundPrint (d : found) (ans : str)                               (* Display for FoundDependency *)
| CFoundParse (s : str) (ans : res found)                           (* FoundDependency::try_from *)
| CScopeParse (s : str) (ans : res scope)                           (* DependencyScope::from_str *)
| CScopePrint (s : scope) (ans : str)
| CFoundUrl (d : found) (ans : str)                                 (* FoundDependency::make_url -> MavenCoord::make_url *)
| CCoordGav (g a v : str) (ans : coord)                             (* MavenCoord::from_group_artifact_version *)
| CSnapshot (v : str) (ans : str)
    (* to_snapshot_version / MavenCoord::base_version: the version directory cut out of make_url's answer for a coordinate
       with empty group and artifact served by the repository "R" *)
| CAcyclic (rs : list resolver) (fs : files) (ranks : list (str * N)).
    (* a generated acyclic universe with the ranks of its documents: the hypothesis of fuel_suffices holds *)

Definition check (c : case) : bool :=
  match c with
  | CResolve rs fs roots ans => res_eqb (list_eqb found_eqb) (get_maven_dependencies fs rs roots) ans
  | CRetainSeen k F ans => list_eqb (tree_eqb N.eqb) (breadth_first_retain (pred_seen k) [] F) ans
  | CRetainBits bits F ans => list_eqb (tree_eqb N.eqb) (breadth_first_retain pred_bits bits F) ans
  | CRetainMod3 F ans => list_eqb (tree_eqb N.eqb) (breadth_first_retain pred_mod3 tt F) ans
  | CTreeShow ascii t ans => str_eqb (show_tree show_dec2 (if ascii then palette_ascii else palette_graph) t) ans
  | CBfs F ans => list_eqb N.eqb (breadth_first F) ans
  | CCoordParse s ans => res_eqb coord_eqb (parse_coord s) ans
  | CCoordPrint c ans => str_eqb (print_coord c) ans
  | CFoundPrint d ans => str_eqb (print_found d) ans
  | CFoundParse s ans => res_eqb found_eqb (parse_found s) ans
  | CScopeParse s ans => res_eqb scope_eqb (parse_scope s) ans
  | CScopePrint s ans => str_eqb (print_scope s) ans
  | CFoundUrl d ans => str_eqb (make_url (f_resolver d) (f_coord d)) ans
  | CCoordGav g a v ans => coord_eqb (from_group_artifact_version g a v) ans
  | CSnapshot v ans => str_eqb (to_snapshot_version v) ans
  | CAcyclic rs fs ranks => acyclic_check fs rs (map (fun kv => (fst kv, N.to_nat (snd kv))) ranks)
  end.

(* sanity: the mediation examples of lib.rs's tests and the doc test of tree.rs *)
Example doc_retain :
  breadth_first_retain pred_mod3 tt
    [Node 0 []; Node 1 [Node 2 [Node 3 [Node 4 []; Node 5 []; Node 6 []]; Node 7 [Node 8 []; Node 9 []; Node 10 []]]; Node 11 [Node 12 []]]]
  = [Node 1 [Node 2 [Node 7 [Node 8 []; Node 10 []]]; Node 11 []]].
Proof. vm_compute. reflexivity. Qed.
Example doc_bfs : breadth_first [Node 0 [Node 2 [Node 5 []; Node 6 []]; Node 3 []]; Node 1 [Node 4 []]] = [0; 1; 2; 3; 4; 5; 6].
Proof. vm_compute. reflexivity. Qed.
