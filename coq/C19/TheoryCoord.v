(* C19 — MavenCoord and FoundDependency: printing then parsing gives the value back when the
   fields are free of the separators. *)
From FB Require Import C19.Model.

Definition free_of (c : N) (s : str) : bool := negb (mem_N c s).
Definition free_opt (c : N) (s : option str) : bool := match s with Some k => free_of c k | None => true end.

Lemma free_of_cons c x s : free_of c (x :: s) = true <-> N.eqb c x = false /\ free_of c s = true.
Proof. unfold free_of, mem_N. cbn [existsb]. rewrite negb_orb, andb_true_iff, !negb_true_iff. tauto. Qed.
Lemma free_of_app c a b : free_of c (a ++ b) = true <-> free_of c a = true /\ free_of c b = true.
Proof.
  induction a as [|x a IH]; cbn [app]; [unfold free_of at 2; cbn; tauto|].
  rewrite !free_of_cons, IH. tauto.
Qed.

(* ---------- split(':') ---------- *)
Lemma split_on_nonempty c s : split_on c s <> [].
Proof. destruct s as [|x s]; cbn [split_on]; [discriminate|]. destruct (N.eqb x c); [discriminate|]. destruct (split_on c s); discriminate. Qed.
Lemma split_on_free c s : free_of c s = true -> split_on c s = [s].
Proof.
  induction s as [|x s IH]; [reflexivity|]. rewrite free_of_cons. intros [Hx Hs]. cbn [split_on].
  rewrite N.eqb_sym, Hx, (IH Hs). reflexivity.
Qed.
Lemma split_on_sep c a rest : free_of c a = true -> split_on c (a ++ c :: rest) = a :: split_on c rest.
Proof.
  induction a as [|x a IH]; intros Ha.
  - cbn [app split_on]. rewrite N.eqb_refl. reflexivity.
  - apply free_of_cons in Ha. destruct Ha as [Hx Ha]. cbn [app split_on]. rewrite N.eqb_sym, Hx, (IH Ha). reflexivity.
Qed.

Definition coord_colon_free (c : coord) : bool :=
  free_of cCOLON (c_group c) && free_of cCOLON (c_artifact c) && free_of cCOLON (c_version c)
  && free_opt cCOLON (c_classifier c) && free_of cCOLON (c_type c).

Theorem coord_roundtrip : forall c, coord_colon_free c = true -> parse_coord (print_coord c) = Ok c.
Proof.
  intros [g a v k t]. unfold coord_colon_free, print_coord, parse_coord. cbn [c_group c_artifact c_version c_classifier c_type].
  rewrite !andb_true_iff. intros [[[[Hg Ha] Hv] Hk] Ht].
  destruct k as [k|]; cbn [free_opt] in Hk; cbn [app].
  - change (g ++ cCOLON :: a ++ cCOLON :: t ++ cCOLON :: k ++ cCOLON :: v)
      with (g ++ cCOLON :: (a ++ cCOLON :: (t ++ cCOLON :: (k ++ cCOLON :: v)))).
    rewrite (split_on_sep _ g _ Hg), (split_on_sep _ a _ Ha), (split_on_sep _ t _ Ht), (split_on_sep _ k _ Hk), (split_on_free _ v Hv).
    reflexivity.
  - rewrite (split_on_sep _ g _ Hg), (split_on_sep _ a _ Ha), (split_on_sep _ t _ Ht), (split_on_free _ v Hv).
    reflexivity.
Qed.

(* printing what was parsed and parsing again is stable (the 3-part form gains the type jar) *)
Lemma split_on_pieces_free c s : Forall (fun p => free_of c p = true) (split_on c s).
Proof.
  induction s as [|x s IH]; cbn [split_on]; [repeat constructor|].
  destruct (N.eqb x c) eqn:E; [constructor; [reflexivity|exact IH]|].
  destruct (split_on c s) as [|h t]; [repeat constructor; apply free_of_cons; rewrite N.eqb_sym; auto|].
  inversion IH as [|? ? Hh Ht]; subst. constructor; [|exact Ht]. apply free_of_cons. rewrite N.eqb_sym. auto.
Qed.
Theorem coord_parse_print_parse : forall s c, parse_coord s = Ok c -> parse_coord (print_coord c) = Ok c.
Proof.
  intros s c H. apply coord_roundtrip. unfold parse_coord in H. pose proof (split_on_pieces_free cCOLON s) as Hp.
  assert (Hjar : free_of cCOLON s_jar = true) by reflexivity.
  destruct (split_on cCOLON s) as [|p1 [|p2 [|p3 [|p4 [|p5 [|p6 l]]]]]]; try discriminate; injection H as <-;
    repeat match goal with Hf : Forall _ (_ :: _) |- _ => inversion Hf; clear Hf; subst end;
    unfold coord_colon_free; cbn [c_group c_artifact c_version c_classifier c_type free_opt];
    repeat (apply andb_true_iff; split); assumption.
Qed.

(* ---------- FoundDependency ---------- *)
(* some occurrence of pat in s *)
Fixpoint has_pat (pat s : str) : bool :=
  starts_with pat s || match s with [] => false | _ :: s' => has_pat pat s' end.

Lemma starts_with_sep c pat a b : free_of c pat = true -> starts_with pat (a ++ c :: b) = starts_with pat a.
Proof.
  revert a; induction pat as [|x pat IH]; intros a Hp; [destruct a; reflexivity|].
  apply free_of_cons in Hp. destruct Hp as [Hx Hp]. destruct a as [|y a]; cbn [app starts_with].
  - rewrite N.eqb_sym, Hx. reflexivity.
  - rewrite (IH a Hp). reflexivity.
Qed.
Lemma has_pat_sep c pat a b : free_of c pat = true -> pat <> [] -> has_pat pat (a ++ c :: b) = has_pat pat a || has_pat pat b.
Proof.
  intros Hp Hne. induction a as [|y a IH].
  - cbn [app]. change (has_pat pat (c :: b)) with (starts_with pat (c :: b) || has_pat pat b).
    change (c :: b) with ([] ++ c :: b) at 1. rewrite (starts_with_sep c pat [] b Hp).
    destruct pat; [congruence|reflexivity].
  - cbn [app has_pat]. rewrite (starts_with_sep c pat (y :: a) b Hp) at 1. cbn [starts_with]. rewrite IH, orb_assoc. reflexivity.
Qed.

Lemma split_once_at l url :
  has_pat s_at l = false -> ends_with_char 64 l = false -> split_once_pat s_at (l ++ s_at ++ url) = Some (l, url).
Proof.
  induction l as [|x l IH]; intros Hno Hend.
  - reflexivity.
  - cbn [has_pat] in Hno. apply orb_false_iff in Hno. destruct Hno as [Hst Hno].
    assert (Hend' : ends_with_char 64 l = false).
    { destruct l as [|y l]; [reflexivity|]. unfold ends_with_char in *. cbn [rev] in *.
      destruct (rev l ++ [y]) eqn:E; [destruct (rev l); discriminate|]. cbn [app] in Hend. exact Hend. }
    assert (Hs : starts_with s_at ((x :: l) ++ s_at ++ url) = false).
    { unfold s_at in *. destruct l as [|y [|z l]]; cbn [app starts_with] in *.
      - destruct (N.eqb 32 x); [cbn|reflexivity]. reflexivity.
      - unfold ends_with_char in Hend. cbn in Hend.
        destruct (N.eqb 32 x); [cbn [andb]|reflexivity]. rewrite N.eqb_sym, Hend. reflexivity.
      - exact Hst. }
    change ((x :: l) ++ s_at ++ url) with (x :: (l ++ s_at ++ url)) in *.
    cbn [split_once_pat]. rewrite Hs. rewrite (IH Hno Hend'). reflexivity.
Qed.

Lemma rsplit_once_none c s : free_of c s = true -> rsplit_once c s = None.
Proof.
  induction s as [|x s IH]; [reflexivity|]. rewrite free_of_cons. intros [Hx Hs]. cbn [rsplit_once].
  rewrite (IH Hs), N.eqb_sym, Hx. reflexivity.
Qed.
Lemma rsplit_once_last c a b : free_of c b = true -> rsplit_once c (a ++ c :: b) = Some (a, b).
Proof.
  intros Hb. induction a as [|y a IH]; cbn [app rsplit_once].
  - rewrite (rsplit_once_none c b Hb), N.eqb_refl. reflexivity.
  - rewrite IH. reflexivity.
Qed.

Definition at_free (s : str) : bool := negb (has_pat s_at s).
Definition at_free_opt (s : option str) : bool := match s with Some k => at_free k | None => true end.
(* no field contains ':' or " @ " *)
Definition coord_separator_free (c : coord) : bool :=
  coord_colon_free c
  && at_free (c_group c) && at_free (c_artifact c) && at_free (c_version c) && at_free_opt (c_classifier c) && at_free (c_type c).

Lemma has_pat_at_sep a b : has_pat s_at (a ++ cCOLON :: b) = has_pat s_at a || has_pat s_at b.
Proof. apply has_pat_sep; [reflexivity|discriminate]. Qed.

Lemma print_coord_at_free c : coord_separator_free c = true -> has_pat s_at (print_coord c) = false.
Proof.
  destruct c as [g a v k t]. unfold coord_separator_free, print_coord, at_free.
  cbn [c_group c_artifact c_version c_classifier c_type]. rewrite !andb_true_iff, !negb_true_iff.
  intros [[[[[_ Hg] Ha] Hv] Hk] Ht]. cbn [app].
  destruct k as [k|]; cbn [at_free_opt app] in *.
  - unfold at_free in Hk. rewrite negb_true_iff in Hk.
    rewrite (has_pat_at_sep g), (has_pat_at_sep a), (has_pat_at_sep t), (has_pat_at_sep k), Hg, Ha, Ht, Hk, Hv. reflexivity.
  - rewrite (has_pat_at_sep g), (has_pat_at_sep a), (has_pat_at_sep t), Hg, Ha, Ht, Hv. reflexivity.
Qed.

Lemma ends_with_char_app c a b : b <> [] -> ends_with_char c (a ++ b) = ends_with_char c b.
Proof.
  intros Hb. unfold ends_with_char. rewrite rev_app_distr. destruct (exists_last Hb) as (b' & z & ->).
  rewrite rev_app_distr. reflexivity.
Qed.

(* the round trip loses only the repository's name: it becomes the url *)
Theorem found_roundtrip : forall d, coord_separator_free (f_coord d) = true ->
  parse_found (print_found d) = Ok (mkFound (mkResolver (r_maven (f_resolver d)) (r_maven (f_resolver d))) (f_coord d) (f_scope d)).
Proof.
  intros [[name url] c sc] Hc. unfold print_found, parse_found. cbn [f_coord f_scope f_resolver r_maven].
  assert (Hcolon : coord_colon_free c = true).
  { unfold coord_separator_free in Hc. rewrite !andb_true_iff in Hc. tauto. }
  set (L := print_coord c ++ [cCOLON] ++ print_scope sc).
  replace (print_coord c ++ [cCOLON] ++ print_scope sc ++ s_at ++ url) with (L ++ s_at ++ url)
    by (unfold L; rewrite <- !app_assoc; reflexivity).
  rewrite split_once_at.
  - unfold L. cbn [app]. rewrite rsplit_once_last by (destruct sc; reflexivity).
    rewrite (coord_roundtrip c Hcolon). cbn [bind]. unfold print_scope.
    assert (Hs : parse_scope (scope_to_str sc) = Ok sc) by (destruct sc; reflexivity).
    rewrite Hs. reflexivity.
  - unfold L. cbn [app]. rewrite has_pat_at_sep, (print_coord_at_free c Hc). destruct sc; reflexivity.
  - unfold L. rewrite app_assoc, ends_with_char_app by (destruct sc; discriminate). destruct sc; reflexivity.
Qed.

(* non-vacuity, and the hypotheses are needed *)
Definition ex_coord : coord := mkCoord [111;114;103;46;101;120] [102;111;111] [49;46;48] (Some [115;114;99]) s_jar.
Example coord_roundtrip_example : coord_separator_free ex_coord = true /\ parse_coord (print_coord ex_coord) = Ok ex_coord.
Proof. split; reflexivity. Qed.
Example coord_roundtrip_needs_colon_free :
  parse_coord (print_coord (mkCoord [97;58;98] [99] [49] None s_jar)) <> Ok (mkCoord [97;58;98] [99] [49] None s_jar).
Proof. vm_compute. discriminate. Qed.
Example found_roundtrip_needs_at_free :
  let d := mkFound (mkResolver [114] [117]) (mkCoord [97] [98] [49;32;64;32;50] None s_jar) Compile in
  parse_found (print_found d) <> Ok (mkFound (mkResolver [117] [117]) (f_coord d) Compile).
Proof. vm_compute. discriminate. Qed.
