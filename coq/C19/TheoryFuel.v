(* C19 — acyclic POM universes: a decidable rank check on the documents, and under it the model's
   answer (an error included) does not depend on the fuel. *)
From FB Require Import C19.Model C19.Acyclic C19.TheoryPom.
From Coq Require Import Arith.PeanoNat Lia.
Local Open Scope nat_scope.

(* ---------- lookups ---------- *)
Lemma lookup_str_In {B} k (l : list (str * B)) v : lookup_str k l = Some v -> In (k, v) l.
Proof.
  induction l as [|[k' v'] l IH]; cbn [lookup_str]; [discriminate|].
  destruct (str_eqb_spec k k') as [->|_]; [intros [= ->]; left; reflexivity|intros H; right; auto].
Qed.
Lemma lookup_found fs rs c r p : try_get_pom_for fs rs c = Ok (r, p) -> In r rs /\ In (make_pom_url r c, Ok p) fs.
Proof.
  induction rs as [|r0 rs IH]; cbn [try_get_pom_for]; [discriminate|]. unfold download.
  destruct (lookup_str (make_pom_url r0 c) fs) as [[p0|]|] eqn:E; [| |].
  - destruct (str_eqb (p_model_version p0) s_4_0_0); [|discriminate]. intros [= <- <-].
    split; [left; reflexivity|apply lookup_str_In; exact E].
  - discriminate.
  - intros H. destruct (IH H). split; [right|]; assumption.
Qed.
Lemma make_pom_url_prefix r c : starts_with (url_prefix r (c_group c) (c_artifact c)) (make_pom_url r c) = true.
Proof.
  apply starts_with_app. unfold url_prefix, make_pom_url.
  exists (to_snapshot_version (c_version c) ++ [cSLASH] ++ c_artifact c ++ [cMINUS] ++ c_version c ++ s_dot_pom).
  rewrite <- !app_assoc. reflexivity.
Qed.

(* the measure of a coordinate: one more than the rank of the document that serves it, 0 if none does *)
Definition msr (fs : files) (rs : list resolver) ranks (c : coord) : nat :=
  match try_get_pom_for fs rs c with
  | Ok (r, _) => S (rank_of ranks (make_pom_url r c))
  | Err => O
  end.

(* everything p refers to has a measure below n *)
Definition refs_below (fs : files) rs ranks (n : nat) (p : pom) : Prop :=
  forall ga, In ga (pom_refs p) -> forall c', (c_group c', c_artifact c') = ga -> msr fs rs ranks c' < n.
Lemma refs_below_mono fs rs ranks n n' p : n <= n' -> refs_below fs rs ranks n p -> refs_below fs rs ranks n' p.
Proof. intros Hle H ga Hga c' E. specialize (H ga Hga c' E). lia. Qed.

Lemma checked_refs fs rs ranks c r p :
  acyclic_check fs rs ranks = true -> try_get_pom_for fs rs c = Ok (r, p) -> refs_below fs rs ranks (msr fs rs ranks c) p.
Proof.
  intros Hc Hl ga Hga c' E. unfold msr at 2. rewrite Hl. unfold msr.
  destruct (try_get_pom_for fs rs c') as [[r' p']|] eqn:Hl'; [|lia].
  apply Nat.succ_lt_mono. apply Nat.succ_lt_mono.
  destruct (lookup_found fs rs c r p Hl) as [_ Hin]. destruct (lookup_found fs rs c' r' p' Hl') as [Hr' Hin'].
  unfold acyclic_check in Hc. apply andb_true_iff in Hc. destruct Hc as [Hc _].
  rewrite forallb_forall in Hc. specialize (Hc _ Hin). cbn [snd fst] in Hc.
  rewrite forallb_forall in Hc. specialize (Hc _ Hga).
  rewrite forallb_forall in Hc. specialize (Hc _ Hr').
  rewrite forallb_forall in Hc. specialize (Hc _ Hin'). cbn [fst] in Hc.
  rewrite <- E in Hc. cbn [fst snd] in Hc. rewrite make_pom_url_prefix in Hc. apply Nat.ltb_lt in Hc. lia.
Qed.
Lemma checked_bound fs rs ranks c : acyclic_check fs rs ranks = true -> msr fs rs ranks c <= length fs.
Proof.
  intros Hc. unfold msr. destruct (try_get_pom_for fs rs c) as [[r p]|] eqn:Hl; [|lia].
  destruct (lookup_found fs rs c r p Hl) as [_ Hin].
  unfold acyclic_check in Hc. apply andb_true_iff in Hc. destruct Hc as [_ Hc].
  rewrite forallb_forall in Hc. specialize (Hc _ Hin). cbn [fst] in Hc. apply Nat.ltb_lt in Hc. lia.
Qed.

Lemma in_refs_parent p pr : p_parent p = Some pr -> In (pr_group pr, pr_artifact pr) (pom_refs p).
Proof. intros E. unfold pom_refs. rewrite E. left; reflexivity. Qed.
Lemma in_refs_dm p x : In x (p_dm p) -> In (d_group x, d_artifact x) (pom_refs p).
Proof. intros H. unfold pom_refs. apply in_or_app. right. apply in_or_app. left. apply (in_map (fun x => (d_group x, d_artifact x))). exact H. Qed.
Lemma in_refs_dep p x : In x (p_deps p) -> In (d_group x, d_artifact x) (pom_refs p).
Proof. intros H. unfold pom_refs. apply in_or_app. right. apply in_or_app. right. apply (in_map (fun x => (d_group x, d_artifact x))). exact H. Qed.

(* ---------- the parent chain ---------- *)
Lemma parent_chain_fuel fs rs ranks : acyclic_check fs rs ranks = true ->
  forall n p, refs_below fs rs ranks n p -> forall f1 f2, n <= f1 -> n <= f2 -> parent_chain f1 fs rs p = parent_chain f2 fs rs p.
Proof.
  intros Hc. induction n as [|n IH]; intros p Hp f1 f2 H1 H2; rewrite (parent_chain_unfold f1), (parent_chain_unfold f2).
  - destruct (get_parent_coord p) as [c|] eqn:Ec; [|reflexivity]. exfalso.
    unfold get_parent_coord in Ec. destruct (p_parent p) as [pr|] eqn:Epr; [|discriminate]. injection Ec as <-.
    specialize (Hp _ (in_refs_parent p pr Epr) (mkCoord (pr_group pr) (pr_artifact pr) (pr_version pr) None s_pom) eq_refl). lia.
  - destruct (get_parent_coord p) as [c|] eqn:Ec; [|reflexivity].
    destruct f1 as [|f1]; [lia|]. destruct f2 as [|f2]; [lia|].
    destruct (try_get_pom_for fs rs c) as [[r q]|] eqn:El; [|reflexivity]. cbn [bind snd].
    unfold get_parent_coord in Ec. destruct (p_parent p) as [pr|] eqn:Epr; [|discriminate]. injection Ec as <-.
    pose proof (Hp _ (in_refs_parent p pr Epr) (mkCoord (pr_group pr) (pr_artifact pr) (pr_version pr) None s_pom) eq_refl) as Hm.
    rewrite (IH q) with (f2 := f2); [reflexivity| |lia|lia].
    eapply refs_below_mono; [|apply (checked_refs fs rs ranks _ r q Hc El)]. lia.
Qed.
Lemma parent_chain_refs fs rs ranks : acyclic_check fs rs ranks = true ->
  forall f n p stack, refs_below fs rs ranks n p -> parent_chain f fs rs p = Ok stack -> Forall (refs_below fs rs ranks n) stack.
Proof.
  intros Hc. induction f as [|f IH]; intros n p stack Hp; rewrite parent_chain_unfold.
  - destruct (get_parent_coord p); [discriminate|]. intros [= <-]. constructor.
  - destruct (get_parent_coord p) as [c|] eqn:Ec; [|intros [= <-]; constructor].
    destruct (try_get_pom_for fs rs c) as [[r q]|] eqn:El; [|discriminate]. cbn [bind snd].
    destruct (parent_chain f fs rs q) as [rest|] eqn:Er; [|discriminate]. intros [= <-].
    unfold get_parent_coord in Ec. destruct (p_parent p) as [pr|] eqn:Epr; [|discriminate]. injection Ec as <-.
    pose proof (Hp _ (in_refs_parent p pr Epr) (mkCoord (pr_group pr) (pr_artifact pr) (pr_version pr) None s_pom) eq_refl) as Hm.
    assert (Hq : refs_below fs rs ranks n q).
    { eapply refs_below_mono; [|apply (checked_refs fs rs ranks _ r q Hc El)]. lia. }
    constructor; [exact Hq|]. exact (IH n q rest Hq Er).
Qed.

(* ---------- merging ---------- *)
Definition agree_below fs rs ranks (n : nat) (r1 r2 : coord -> res pdone) : Prop :=
  forall c', msr fs rs ranks c' < n -> r1 c' = r2 c'.

Lemma make_dm_own_agree fs rs ranks n r1 r2 (l : list (dep mscope)) :
  agree_below fs rs ranks n r1 r2 ->
  (forall x, In x l -> forall c', (c_group c', c_artifact c') = (d_group x, d_artifact x) -> msr fs rs ranks c' < n) ->
  make_dm_own r1 l = make_dm_own r2 l.
Proof.
  intros Ha. induction l as [|x l IH]; intros Hl; [reflexivity|]. cbn [make_dm_own].
  assert (IH' : make_dm_own r1 l = make_dm_own r2 l) by (apply IH; intros y Hy; apply Hl; right; exact Hy).
  destruct (d_version x) as [v|]; [|reflexivity]. rewrite IH'.
  destruct (d_scope x) as [[s|]|]; try reflexivity.
  match goal with |- context [r1 ?c] => rewrite (Ha c (Hl x (or_introl eq_refl) c eq_refl)) end. reflexivity.
Qed.
Lemma merge_parent_agree fs rs ranks n r1 r2 par q :
  agree_below fs rs ranks n r1 r2 -> refs_below fs rs ranks n q -> merge_parent r1 par q = merge_parent r2 par q.
Proof.
  intros Ha Hq. unfold merge_parent, make_dependency_management.
  rewrite (make_dm_own_agree fs rs ranks n r1 r2 (p_dm q) Ha); [reflexivity|].
  intros x Hx c' E. exact (Hq _ (in_refs_dm q x Hx) c' E).
Qed.
Lemma merge_stack_agree fs rs ranks n r1 r2 l :
  agree_below fs rs ranks n r1 r2 -> Forall (refs_below fs rs ranks n) l -> forall par, merge_stack r1 par l = merge_stack r2 par l.
Proof.
  intros Ha Hl. induction Hl as [|q l Hq _ IH]; intros par; [reflexivity|]. cbn [merge_stack].
  rewrite (merge_parent_agree fs rs ranks n r1 r2 par q Ha Hq). destruct (merge_parent r2 par q); [apply IH|reflexivity].
Qed.

Lemma get_merged_pom_fuel fs rs ranks : acyclic_check fs rs ranks = true ->
  forall n c, msr fs rs ranks c < n -> forall f1 f2, n <= f1 -> n <= f2 -> get_merged_pom f1 fs rs c = get_merged_pom f2 fs rs c.
Proof.
  intros Hc. induction n as [|n IH]; intros c Hm f1 f2 H1 H2; [lia|].
  destruct f1 as [|f1]; [lia|]. destruct f2 as [|f2]; [lia|].
  rewrite !get_merged_pom_unfold.
  destruct (try_get_pom_for fs rs c) as [[r p]|] eqn:El; [|reflexivity]. cbn [bind snd fst].
  assert (Hp : refs_below fs rs ranks n p).
  { eapply refs_below_mono; [|apply (checked_refs fs rs ranks c r p Hc El)]. lia. }
  rewrite (parent_chain_fuel fs rs ranks Hc n p Hp f1 f2) by lia.
  destruct (parent_chain f2 fs rs p) as [stack|] eqn:Es; [|reflexivity]. cbn [bind].
  assert (Hs : Forall (refs_below fs rs ranks n) (rev stack)).
  { apply Forall_rev. exact (parent_chain_refs fs rs ranks Hc f2 n p stack Hp Es). }
  assert (Ha : agree_below fs rs ranks n (fun c' => do x <- get_merged_pom f1 fs rs c'; Ok (snd x))
                                         (fun c' => do x <- get_merged_pom f2 fs rs c'; Ok (snd x))).
  { intros c' Hc'. rewrite (IH c' Hc' f1 f2) by lia. reflexivity. }
  rewrite (merge_stack_agree fs rs ranks n _ _ (rev stack) Ha Hs None).
  destruct (merge_stack _ None (rev stack)) as [par|]; [|reflexivity]. cbn [bind].
  rewrite (merge_parent_agree fs rs ranks n _ _ par p Ha Hp). reflexivity.
Qed.

(* ---------- the dependencies of an effective POM lie below it ---------- *)
Definition dep_below fs rs ranks (n : nat) (x : dep scope) : Prop :=
  forall c', (c_group c', c_artifact c') = (d_group x, d_artifact x) -> msr fs rs ranks c' < n.

Lemma merge_parent_declared fs rs ranks n rec par q m :
  merge_parent rec par q = Ok m -> refs_below fs rs ranks n q ->
  (forall pp, par = Some pp -> Forall (dep_below fs rs ranks n) (pd_declared pp)) ->
  Forall (dep_below fs rs ranks n) (pd_declared m).
Proof.
  intros Hm Hq Hpar. destruct (merge_parent_spec rec par q m Hm) as (_ & _ & _ & _ & Hd & _). rewrite Hd.
  apply Forall_app. split.
  - rewrite Forall_forall. intros x Hx c' E. exact (Hq _ (in_refs_dep q x Hx) c' E).
  - destruct par as [pp|]; [apply Hpar; reflexivity|constructor].
Qed.
Lemma merge_stack_declared fs rs ranks n rec l : Forall (refs_below fs rs ranks n) l ->
  forall par res, (forall pp, par = Some pp -> Forall (dep_below fs rs ranks n) (pd_declared pp)) ->
  merge_stack rec par l = Ok res -> forall pp, res = Some pp -> Forall (dep_below fs rs ranks n) (pd_declared pp).
Proof.
  induction 1 as [|q l Hq _ IH]; intros par res Hpar; cbn [merge_stack].
  - intros [= <-]. exact Hpar.
  - destruct (merge_parent rec par q) as [m|] eqn:Em; [|discriminate]. cbn [bind]. apply IH.
    intros pp [= <-]. exact (merge_parent_declared fs rs ranks n rec par q m Em Hq Hpar).
Qed.

Lemma make_dependency_coord dm x d : make_dependency dm x = Ok d -> c_group (dd_coord d) = d_group x /\ c_artifact (dd_coord d) = d_artifact x.
Proof.
  rewrite managed_fill_in. destruct (d_version x); [intros [= <-]; split; reflexivity|].
  destruct (managed dm (dep_key x)); [intros [= <-]; split; reflexivity|discriminate].
Qed.

Lemma merged_deps_below fs rs ranks : acyclic_check fs rs ranks = true ->
  forall f c r pd, get_merged_pom f fs rs c = Ok (r, pd) -> Forall (fun d => msr fs rs ranks (dd_coord d) < msr fs rs ranks c) (pd_deps pd).
Proof.
  intros Hc [|f] c r pd; [discriminate|]. rewrite get_merged_pom_unfold.
  destruct (try_get_pom_for fs rs c) as [[r0 p]|] eqn:El; [|discriminate]. cbn [bind snd fst].
  pose proof (checked_refs fs rs ranks c r0 p Hc El) as Hp. set (n := msr fs rs ranks c) in *.
  destruct (parent_chain f fs rs p) as [stack|] eqn:Es; [|discriminate]. cbn [bind].
  assert (Hs : Forall (refs_below fs rs ranks n) (rev stack)).
  { apply Forall_rev. exact (parent_chain_refs fs rs ranks Hc f n p stack Hp Es). }
  destruct (merge_stack _ None (rev stack)) as [par|] eqn:Em; [|discriminate]. cbn [bind].
  destruct (merge_parent _ par p) as [m|] eqn:Emp; [|discriminate]. intros [= _ <-].
  assert (Hpar : forall pp, par = Some pp -> Forall (dep_below fs rs ranks n) (pd_declared pp)).
  { eapply (merge_stack_declared fs rs ranks n _ (rev stack) Hs None par); [intros pp; discriminate|exact Em]. }
  pose proof (merge_parent_declared fs rs ranks n _ par p m Emp Hp Hpar) as Hd.
  destruct (merge_parent_spec _ par p m Emp) as (_ & _ & _ & _ & _ & Hdeps).
  apply map_res_Forall2 in Hdeps. clear - Hd Hdeps.
  induction Hdeps as [|x d xs ds Hxd _ IH]; [constructor|].
  apply Forall_cons_iff in Hd. destruct Hd as [Hx Hxs]. constructor; [|apply IH; exact Hxs].
  destruct (make_dependency_coord _ x d Hxd) as [Eg Ea]. apply Hx. rewrite Eg, Ea. reflexivity.
Qed.

(* ---------- the dependency tree ---------- *)
Lemma map_res_ext_in {A B} (g g' : A -> res B) l : (forall a, In a l -> g a = g' a) -> map_res g l = map_res g' l.
Proof.
  induction l as [|a l IH]; intros H; [reflexivity|]. cbn [map_res]. rewrite (H a (or_introl eq_refl)).
  rewrite IH; [reflexivity|intros; apply H; right; assumption].
Qed.

Lemma tree_fuel fs rs ranks : acyclic_check fs rs ranks = true ->
  forall n c sc, msr fs rs ranks c < n -> forall mf1 mf2 f1 f2, n <= mf1 -> n <= mf2 -> n <= f1 -> n <= f2 ->
    get_dependencies_tree mf1 f1 fs rs c sc = get_dependencies_tree mf2 f2 fs rs c sc.
Proof.
  intros Hc. induction n as [|n IH]; intros c sc Hm mf1 mf2 f1 f2 M1 M2 H1 H2; [lia|].
  destruct f1 as [|f1]; [lia|]. destruct f2 as [|f2]; [lia|]. rewrite !tree_unfold.
  rewrite (get_merged_pom_fuel fs rs ranks Hc (S n) c Hm mf1 mf2 M1 M2).
  destruct (get_merged_pom mf2 fs rs c) as [[r pd]|] eqn:Eg; [|reflexivity]. cbn [bind snd fst].
  pose proof (merged_deps_below fs rs ranks Hc mf2 c r pd Eg) as Hd. rewrite Forall_forall in Hd.
  erewrite map_res_ext_in; [reflexivity|]. intros d Hin. apply filter_In in Hin. destruct Hin as [Hin _].
  destruct (the_scope_table sc (dd_declared_scope d)); [|reflexivity].
  apply IH; try lia. specialize (Hd d Hin). lia.
Qed.

(* in a universe that passes the check, any fuel above the number of documents gives the model's answer *)
Theorem fuel_suffices : forall fs rs ranks roots f,
  acyclic_check fs rs ranks = true -> length fs < f ->
  get_maven_dependencies_fuel f fs rs roots = get_maven_dependencies fs rs roots.
Proof.
  intros fs rs ranks roots f Hc Hf. unfold get_maven_dependencies, get_maven_dependencies_fuel.
  erewrite map_res_ext_in; [reflexivity|]. intros [c sc] _. cbn [fst snd].
  pose proof (checked_bound fs rs ranks c Hc) as Hb.
  apply (tree_fuel fs rs ranks Hc (S (length fs))); lia.
Qed.

(* non-vacuity: the example universe of TheoryPom.v passes the check *)
Definition ex_ranks : list (str * nat) :=
  [(ex_url 112 49, 2); (ex_url 98 49, 1); (ex_url 99 49, 3); (ex_url 120 49, 0); (ex_url 120 50, 1); (ex_url 121 50, 0)].
Example acyclic_example : acyclic_check ex_files [mkResolver [114%N] [114%N]] ex_ranks = true.
Proof. vm_compute. reflexivity. Qed.
