(* C19 — effective POMs: managed fill-in, dependency management order, inheritance as a
   recursion over the parent chain, repository order, the children of a node of the dependency
   tree, and stability of an Ok answer under more fuel. *)
From FB Require Import C19.Model C19.TheoryTypes C19.TreeBasics C19.TreeBfs C19.TreeMediation C19.TreeOrder C19.TreeTheorems.
From Coq Require Import Sorting.Sorted Lia.

(* ---------- collision ids ---------- *)
Lemma opt_str_eqb_eq a b : opt_eqb str_eqb a b = true <-> a = b.
Proof.
  destruct a as [a|], b as [b|]; cbn [opt_eqb]; try (split; congruence).
  rewrite str_eqb_eq. split; congruence.
Qed.
Lemma cid_eqb_eq (a b : cid) : cid_eqb a b = true <-> a = b.
Proof.
  destruct a as [[[g1 a1] k1] t1], b as [[[g2 a2] k2] t2]. unfold cid_eqb.
  rewrite !andb_true_iff, !str_eqb_eq, opt_str_eqb_eq. split; [intros [[[-> ->] ->] ->]; reflexivity|intros [= -> -> -> ->]; auto].
Qed.

(* ---------- managed fill-in ---------- *)
(* the key of a declared dependency: type defaults to jar, classifier to the type's default classifier *)
Definition dep_type {Sc} (x : dep Sc) : str := unwrap_or (d_type x) s_jar.
Definition dep_classifier {Sc} (x : dep Sc) : option str := or_else (d_classifier x) (type_to_classifier (dep_type x)).
Definition dep_key {Sc} (x : dep Sc) : cid := (d_group x, d_artifact x, dep_classifier x, dep_type x).
(* the managed entry for a key: the FIRST entry of the dependency management with that key *)
Definition managed (dm : list ddone) (k : cid) : option ddone :=
  find (fun i => cid_eqb (dependency_collision_id (dd_coord i)) k) dm.

Definition fill (x : dep scope) (version : str) (m : option ddone) : ddone :=
  mkDDone (mkCoord (d_group x) (d_artifact x) version (dep_classifier x) (dep_type x))
          (or_else (d_scope x) (match m with Some e => dd_scope e | None => None end))
          (or_else (d_optional x) (match m with Some e => dd_optional e | None => None end)).

(* an explicit version, scope, optional flag wins; an omitted one is taken from the managed entry;
   no version anywhere is an error *)
Theorem managed_fill_in : forall dm x,
  make_dependency dm x =
  match d_version x, managed dm (dep_key x) with
  | Some v, m => Ok (fill x v m)
  | None, Some e => Ok (fill x (c_version (dd_coord e)) (Some e))
  | None, None => Err
  end.
Proof.
  intros dm x. unfold make_dependency, managed, dep_key, fill, dep_classifier, dep_type.
  set (t := unwrap_or (d_type x) s_jar). set (k := or_else (d_classifier x) (type_to_classifier t)).
  change (find (fun i => matches_besides_version (dd_coord i) (d_group x) (d_artifact x) k t) dm)
    with (find (fun i => cid_eqb (dependency_collision_id (dd_coord i)) (d_group x, d_artifact x, k, t)) dm).
  destruct (find _ dm) as [e|]; destruct (d_version x) as [v|]; cbn [unwrap_or]; try reflexivity.
  destruct (d_scope x), (d_optional x); reflexivity.
Qed.

(* the child's own entries (and what its imports expand to) precede the parent's *)
Theorem managed_child_first : forall own parent k,
  managed (own ++ parent) k = match managed own k with Some e => Some e | None => managed parent k end.
Proof.
  intros own parent k. unfold managed. induction own as [|e own IH]; [reflexivity|].
  cbn [app find]. destruct (cid_eqb _ k); [reflexivity|exact IH].
Qed.

(* dependency management: own entries in order, an import replaced in place by the imported POM's management *)
Definition dm_coord (x : dep mscope) (version : str) : coord := mkCoord (d_group x) (d_artifact x) version (dep_classifier x) (dep_type x).
Inductive dm_expands (rec : coord -> res pdone) : list (dep mscope) -> list ddone -> Prop :=
| dme_nil : dm_expands rec [] []
| dme_entry x v rest out : d_version x = Some v -> d_scope x <> Some MImport -> dm_expands rec rest out ->
    dm_expands rec (x :: rest) (mkDDone (dm_coord x v) (match d_scope x with Some m => into_scope m | None => None end) (d_optional x) :: out)
| dme_import x v target rest out : d_version x = Some v -> d_scope x = Some MImport -> rec (dm_coord x v) = Ok target ->
    dm_expands rec rest out -> dm_expands rec (x :: rest) (pd_dm target ++ out).

Lemma dme_entry' rec x v rest out sc : d_version x = Some v -> d_scope x = sc -> sc <> Some MImport -> dm_expands rec rest out ->
  dm_expands rec (x :: rest) (mkDDone (dm_coord x v) (match sc with Some m => into_scope m | None => None end) (d_optional x) :: out).
Proof. intros Hv <- Hs Hr. constructor; assumption. Qed.

Theorem make_dm_own_spec : forall rec l out, make_dm_own rec l = Ok out <-> dm_expands rec l out.
Proof.
  intros rec l. induction l as [|x l IH]; intros out.
  - cbn [make_dm_own]. split; [intros [= <-]; constructor|intros H; inversion H; reflexivity].
  - cbn [make_dm_own]. fold (dep_type x). fold (dep_classifier x). split.
    + destruct (d_version x) as [v|] eqn:Ev; [|discriminate].
      destruct (d_scope x) as [[s|]|] eqn:Es.
      * destruct (make_dm_own rec l) as [rest|] eqn:Er; [|discriminate]. intros [= <-].
        apply (dme_entry' rec x v l rest (Some (MScope s)) Ev Es); [discriminate|apply IH; reflexivity].
      * destruct (rec _) as [target|] eqn:Et; [|discriminate]. cbn [bind].
        destruct (make_dm_own rec l) as [rest|] eqn:Er; [|discriminate]. intros [= <-].
        apply (dme_import rec x v target l rest Ev Es Et). apply IH; reflexivity.
      * destruct (make_dm_own rec l) as [rest|] eqn:Er; [|discriminate]. intros [= <-].
        apply (dme_entry' rec x v l rest None Ev Es); [discriminate|apply IH; reflexivity].
    + intros H. inversion H as [|x' v rest out' Ev Es Hr|x' v target rest out' Ev Es Et Hr]; subst.
      * rewrite Ev. apply IH in Hr. rewrite Hr. destruct (d_scope x) as [[s|]|]; [reflexivity|congruence|reflexivity].
      * rewrite Ev, Es. unfold dm_coord in Et. rewrite Et. cbn [bind]. apply IH in Hr. rewrite Hr. reflexivity.
Qed.

(* what merge_parent produces: inheritance of group and version, management = own ++ parent's,
   declared dependencies = own ++ inherited, every declared dependency completed from the merged management *)
Theorem merge_parent_spec : forall rec parent child m,
  merge_parent rec parent child = Ok m ->
  (match parent with
   | Some par => c_type (pd_coord par) = s_pom
                 /\ c_group (pd_coord m) = unwrap_or (p_group child) (c_group (pd_coord par))
                 /\ c_version (pd_coord m) = unwrap_or (p_version child) (c_version (pd_coord par))
   | None => p_group child = Some (c_group (pd_coord m)) /\ p_version child = Some (c_version (pd_coord m))
   end)
  /\ c_artifact (pd_coord m) = p_artifact child
  /\ c_type (pd_coord m) = unwrap_or (p_packaging child) s_jar
  /\ (exists own, dm_expands rec (p_dm child) own
        /\ pd_dm m = own ++ match parent with Some par => pd_dm par | None => [] end)
  /\ pd_declared m = p_deps child ++ match parent with Some par => pd_declared par | None => [] end
  /\ map_res (make_dependency (pd_dm m)) (pd_declared m) = Ok (pd_deps m).
Proof.
  intros rec parent child m. unfold merge_parent, make_dependency_management, declared_dependencies, make_dependencies.
  destruct parent as [par|].
  - destruct (str_eqb_spec (c_type (pd_coord par)) s_pom) as [Et|]; cbn [negb]; [|discriminate].
    destruct (make_dm_own rec (p_dm child)) as [own|] eqn:Eo; [|discriminate]. cbn [bind unwrap_or].
    destruct (map_res _ _) as [deps|] eqn:Ed; [|discriminate]. intros [= <-]. cbn. rewrite packaging_to_type_identity.
    repeat split; auto. exists own. split; [apply make_dm_own_spec; exact Eo|reflexivity].
  - destruct (p_group child) as [g|]; [|discriminate]. destruct (p_version child) as [v|]; [|discriminate].
    destruct (make_dm_own rec (p_dm child)) as [own|] eqn:Eo; [|discriminate]. cbn [bind unwrap_or].
    destruct (map_res _ _) as [deps|] eqn:Ed; [|discriminate]. intros [= <-]. cbn. rewrite packaging_to_type_identity.
    repeat split; auto. exists own. split; [apply make_dm_own_spec; exact Eo|reflexivity].
Qed.

(* ---------- the parent stack is plain recursive inheritance ---------- *)
(* chain: the POM itself, then its parent, then the parent's parent, ... *)
Fixpoint effective_chain (rec : coord -> res pdone) (chain : list pom) : res (option pdone) :=
  match chain with
  | [] => Ok None
  | p :: ancestors => do par <- effective_chain rec ancestors; do m <- merge_parent rec par p; Ok (Some m)
  end.

Lemma merge_stack_snoc rec par l p :
  merge_stack rec par (l ++ [p]) = do m0 <- merge_stack rec par l; do m <- merge_parent rec m0 p; Ok (Some m).
Proof.
  revert par; induction l as [|q l IH]; intros par; cbn [app merge_stack bind].
  - destruct (merge_parent rec par p); reflexivity.
  - destruct (merge_parent rec par q) as [m|]; cbn [bind]; [apply IH|reflexivity].
Qed.
Lemma merge_stack_effective rec stack : merge_stack rec None (rev stack) = effective_chain rec stack.
Proof.
  induction stack as [|p stack IH]; [reflexivity|]. cbn [rev effective_chain]. rewrite merge_stack_snoc, IH. reflexivity.
Qed.

Theorem merged_pom_is_inheritance : forall f fs rs c,
  get_merged_pom (S f) fs rs c =
  (do rp <- try_get_pom_for fs rs c;
   do stack <- parent_chain f fs rs (snd rp);
   do e <- effective_chain (fun c' => do x <- get_merged_pom f fs rs c'; Ok (snd x)) (snd rp :: stack);
   match e with Some m => Ok (fst rp, m) | None => Err end).
Proof.
  intros f fs rs c. cbn [get_merged_pom]. destruct (try_get_pom_for fs rs c) as [rp|]; [|reflexivity]. cbn [bind].
  destruct (parent_chain f fs rs (snd rp)) as [stack|]; [|reflexivity]. cbn [bind effective_chain].
  rewrite merge_stack_effective. destruct (effective_chain _ stack) as [par|]; [|reflexivity]. cbn [bind].
  destruct (merge_parent _ par (snd rp)); reflexivity.
Qed.

(* the parent chain follows the <parent> elements, each looked up through the repositories *)
Theorem parent_chain_spec : forall f fs rs p stack,
  parent_chain f fs rs p = Ok stack ->
  match stack with
  | [] => get_parent_coord p = None
  | q :: rest => exists c r, get_parent_coord p = Some c /\ try_get_pom_for fs rs c = Ok (r, q)
                             /\ exists f', parent_chain f' fs rs q = Ok rest
  end.
Proof.
  intros f fs rs p stack. destruct f as [|f]; cbn [parent_chain].
  - destruct (get_parent_coord p); [discriminate|]. intros [= <-]. reflexivity.
  - destruct (get_parent_coord p) as [c|]; [|intros [= <-]; reflexivity].
    destruct (try_get_pom_for fs rs c) as [[r q]|] eqn:E; [|discriminate]. cbn [bind snd].
    destruct (parent_chain f fs rs q) as [rest|] eqn:Er; [|discriminate]. intros [= <-].
    exists c, r. split; [reflexivity|split; [exact E|exists f; exact Er]].
Qed.

(* ---------- repository order ---------- *)
Theorem repo_first : forall fs rs c r p,
  try_get_pom_for fs rs c = Ok (r, p) ->
  exists before_r after_r,
    rs = before_r ++ r :: after_r
    /\ Forall (fun r' => download fs (make_pom_url r' c) = Ok None) before_r
    /\ download fs (make_pom_url r c) = Ok (Some p)
    /\ p_model_version p = s_4_0_0.
Proof.
  intros fs rs c r p. induction rs as [|r0 rs IH]; cbn [try_get_pom_for]; [discriminate|].
  destruct (download fs (make_pom_url r0 c)) as [[p0|]|] eqn:Ed; [| |discriminate].
  - destruct (str_eqb_spec (p_model_version p0) s_4_0_0) as [Ev|]; [|discriminate]. intros [= <- <-].
    exists [], rs. repeat split; auto.
  - intros H. destruct (IH H) as (b & a & -> & Hb & Hd & Hv). exists (r0 :: b), a. repeat split; auto.
Qed.

(* ---------- the dependency tree ---------- *)
Definition dd_is_optional (d : ddone) : bool := unwrap_or (dd_optional d) optional_default.
Definition dd_declared_scope (d : ddone) : scope := unwrap_or (dd_scope d) dependency_scope_default.
(* a dependency is followed when it is not optional and the scope table has an entry *)
Definition transitive (sc : scope) (d : ddone) : bool :=
  negb (dd_is_optional d) && match the_scope_table sc (dd_declared_scope d) with Some _ => true | None => false end.

Lemma tree_unfold mf f fs rs c sc :
  get_dependencies_tree mf (S f) fs rs c sc =
  (do rp <- get_merged_pom mf fs rs c;
   do kids <- map_res (fun d => match the_scope_table sc (dd_declared_scope d) with
                                | Some s' => get_dependencies_tree mf f fs rs (dd_coord d) s'
                                | None => Err end)
                      (filter (transitive sc) (pd_deps (snd rp)));
   Ok (Node (mkFound (fst rp) c sc) kids)).
Proof.
  cbn [get_dependencies_tree]. destruct (get_merged_pom mf fs rs c) as [rp|]; [|reflexivity]. cbn [bind].
  match goal with |- (do kids <- ?g (pd_deps (snd rp)); _) = _ => set (go := g) end.
  assert (E : forall ds, go ds = map_res (fun d => match the_scope_table sc (dd_declared_scope d) with
                                | Some s' => get_dependencies_tree mf f fs rs (dd_coord d) s'
                                | None => Err end) (filter (transitive sc) ds)).
  { induction ds as [|d ds IH]; [reflexivity|]. cbn [filter]. unfold transitive at 1, dd_is_optional, dd_declared_scope.
    change (go (d :: ds)) with
      (let is_optional := unwrap_or (dd_optional d) optional_default in
       let dependency_scope := unwrap_or (dd_scope d) dependency_scope_default in
       if is_optional then go ds
       else match the_scope_table sc dependency_scope with
            | None => go ds
            | Some s' => do t <- get_dependencies_tree mf f fs rs (dd_coord d) s'; do rest <- go ds; Ok (t :: rest)
            end).
    cbn zeta. destruct (unwrap_or (dd_optional d) optional_default); cbn [negb andb]; [exact IH|].
    destruct (the_scope_table sc (unwrap_or (dd_scope d) dependency_scope_default)) as [s'|] eqn:Et; [|exact IH].
    cbn [map_res]. unfold dd_declared_scope. rewrite Et, IH. reflexivity. }
  rewrite E. reflexivity.
Qed.

(* the children of a node: exactly the non-optional dependencies of its effective POM whose scope is
   transitive, in declaration order, each with the scope the table composes *)
Theorem tree_children_spec : forall mf f fs rs c sc t,
  get_dependencies_tree mf (S f) fs rs c sc = Ok t ->
  exists r pd,
    get_merged_pom mf fs rs c = Ok (r, pd)
    /\ data t = mkFound r c sc
    /\ Forall2 (fun d k => exists s', the_scope_table sc (dd_declared_scope d) = Some s'
                                      /\ get_dependencies_tree mf f fs rs (dd_coord d) s' = Ok k)
               (filter (transitive sc) (pd_deps pd)) (children t).
Proof.
  intros mf f fs rs c sc t. rewrite tree_unfold.
  destruct (get_merged_pom mf fs rs c) as [[r pd]|]; [|discriminate]. cbn [bind fst snd].
  destruct (map_res _ _) as [kids|] eqn:Ek; [|discriminate]. intros [= <-].
  exists r, pd. split; [reflexivity|split; [reflexivity|]]. cbn [children].
  revert kids Ek. induction (filter (transitive sc) (pd_deps pd)) as [|d ds IH]; intros kids Ek.
  - injection Ek as <-. constructor.
  - cbn [map_res] in Ek. destruct (the_scope_table sc (dd_declared_scope d)) as [s'|] eqn:Et; [|discriminate].
    destruct (get_dependencies_tree mf f fs rs (dd_coord d) s') as [k|] eqn:Ekk; [|discriminate]. cbn [bind] in Ek.
    destruct (map_res _ ds) as [rest|] eqn:Er; [|discriminate]. injection Ek as <-.
    constructor; [exists s'; auto|apply IH; reflexivity].
Qed.

(* every node of a dependency tree records the first repository, in the given order, serving its POM *)
Definition served_first (fs : files) (rs : list resolver) (d : found) : Prop :=
  exists p, try_get_pom_for fs rs (f_coord d) = Ok (f_resolver d, p).

Lemma merged_resolver : forall mf fs rs c r pd, get_merged_pom mf fs rs c = Ok (r, pd) -> exists p, try_get_pom_for fs rs c = Ok (r, p).
Proof.
  intros [|mf] fs rs c r pd; [discriminate|]. cbn [get_merged_pom].
  destruct (try_get_pom_for fs rs c) as [[r0 p0]|]; [|discriminate]. cbn [bind fst snd].
  destruct (parent_chain _ _ _ _); [|discriminate]. cbn [bind].
  destruct (merge_stack _ _ _); [|discriminate]. cbn [bind].
  destruct (merge_parent _ _ _); [|discriminate]. intros [= <- _]. eauto.
Qed.

Lemma tree_served_first : forall mf f fs rs c sc t,
  get_dependencies_tree mf f fs rs c sc = Ok t -> forall x, Sub [t] x -> served_first fs rs (data x).
Proof.
  intros mf f fs rs. induction f as [|f IH]; intros c sc t Ht; [discriminate|].
  destruct (tree_children_spec mf f fs rs c sc t Ht) as (r & pd & Hm & Hd & Hk).
  assert (Hroot : served_first fs rs (data t)).
  { rewrite Hd. destruct (merged_resolver mf fs rs c r pd Hm) as (p & Hp). exists p. exact Hp. }
  assert (Hsub : forall x, Sub (children t) x -> served_first fs rs (data x)).
  { clear Hroot Hd Hm Ht. induction Hk as [|d k ds ks (s' & _ & Hkk) _ IHk]; intros x Hx.
    - exfalso. induction Hx as [? []|? ? _ IHx _]; exact IHx.
    - assert (Hc : Sub [k] x \/ Sub ks x).
      { clear - Hx. induction Hx as [x [<-|Hin]|y x _ IHx Hin].
        - left. apply Sub_root. left; reflexivity.
        - right. apply Sub_root. exact Hin.
        - destruct IHx; [left|right]; eapply Sub_child; eauto. }
      destruct Hc as [Hc|Hc]; [exact (IH _ _ _ Hkk x Hc)|exact (IHk x Hc)]. }
  intros x Hx. destruct (Sub_cases [t] x Hx) as [[<-|[]]|Hc]; [exact Hroot|].
  apply Hsub. cbn [flat_map] in Hc. rewrite app_nil_r in Hc. exact Hc.
Qed.

(* ---------- the resolved list ---------- *)
Lemma map_res_Forall2 {A B} (g : A -> res B) l out : map_res g l = Ok out -> Forall2 (fun a b => g a = Ok b) l out.
Proof.
  revert out; induction l as [|a l IH]; intros out; cbn [map_res]; [intros [= <-]; constructor|].
  destruct (g a) as [b|] eqn:Ea; [|discriminate]. cbn [bind]. destruct (map_res g l) as [r|]; [|discriminate].
  intros [= <-]. constructor; [exact Ea|apply IH; reflexivity].
Qed.

Definition found_cid (d : found) : cid := dependency_collision_id (f_coord d).

(* get_maven_dependencies: the trees of the roots, mediated by collision id, listed breadth first *)
Theorem resolved_list_spec : forall n fs rs roots out,
  get_maven_dependencies_fuel n fs rs roots = Ok out ->
  exists forest,
    Forall2 (fun r t => get_dependencies_tree n n fs rs (fst r) (snd r) = Ok t) roots forest
    /\ (let R := fun p => In p (clean_up_kept cid_eqb found_cid forest) in
        is_mediation forest found_cid R
        /\ StronglySorted before (clean_up_kept cid_eqb found_cid forest)
        /\ Forall2 (fun p d => node_of forest p d) (clean_up_kept cid_eqb found_cid forest) out)
    /\ NoDup (map found_cid out)
    /\ Forall (served_first fs rs) out.
Proof.
  intros n fs rs roots out. unfold get_maven_dependencies_fuel.
  destruct (map_res _ roots) as [forest|] eqn:Ef; [|discriminate]. intros [= <-].
  apply map_res_Forall2 in Ef. exists forest. split; [exact Ef|].
  unfold clean_up_dependencies. fold found_cid.
  destruct (mediation_spec cid_eqb found_cid forest cid_eqb_eq) as (HR & _ & _).
  destruct (clean_up_bfs_order cid_eqb found_cid forest) as (HS & HF).
  split; [split; [exact HR|split; [exact HS|exact HF]]|]. split; [apply clean_up_bfs_nodup, cid_eqb_eq|].
  (* every element is the data of a node of some root's tree *)
  rewrite Forall_forall. intros d Hd.
  assert (Hn : exists p, node_of forest p d).
  { clear - HF Hd. induction HF as [|p a ps l Hpa _ IH]; [destruct Hd|]. destruct Hd as [<-|Hd]; eauto. }
  destruct Hn as (p & c & Hp & <-).
  assert (H : exists t, In t forest /\ Sub [t] c).
  { clear - Hp. induction Hp as [i t Hi|p t i c Hp IH Hi].
    - exists t. split; [eapply nth_error_In; eauto|apply Sub_root; left; reflexivity].
    - destruct IH as (t0 & Ht0 & Hs). exists t0. split; [exact Ht0|]. eapply Sub_child; [exact Hs|eapply nth_error_In; eauto]. }
  destruct H as (t & Ht & Hs).
  assert (Hr : exists r, get_dependencies_tree n n fs rs (fst r) (snd r) = Ok t).
  { clear - Ef Ht. induction Ef as [|r t0 rl tl Hrt _ IH]; [destruct Ht|]. destruct Ht as [<-|Ht]; eauto. }
  destruct Hr as (r & Hr). exact (tree_served_first _ _ _ _ _ _ _ Hr c Hs).
Qed.

(* ---------- more fuel never changes an Ok answer ---------- *)
Definition res_le {A} (a b : res A) : Prop := forall v, a = Ok v -> b = Ok v.
Lemma res_le_refl {A} (a : res A) : res_le a a.
Proof. intros v H; exact H. Qed.
Lemma bind_le {A B} (a a' : res A) (k k' : A -> res B) :
  res_le a a' -> (forall x, res_le (k x) (k' x)) -> res_le (bind a k) (bind a' k').
Proof.
  intros Ha Hk v. destruct a as [x|]; [|discriminate]. cbn [bind]. rewrite (Ha x eq_refl). cbn [bind]. apply Hk.
Qed.
Definition rec_le (r1 r2 : coord -> res pdone) : Prop := forall c, res_le (r1 c) (r2 c).

Lemma make_dm_own_le r1 r2 l : rec_le r1 r2 -> res_le (make_dm_own r1 l) (make_dm_own r2 l).
Proof.
  intros Hr. induction l as [|x l IH]; [apply res_le_refl|]. cbn [make_dm_own].
  destruct (d_version x) as [v|]; [|apply res_le_refl].
  destruct (d_scope x) as [[s|]|].
  - apply bind_le; [exact IH|intros; apply res_le_refl].
  - apply bind_le; [apply Hr|]. intros target. apply bind_le; [exact IH|intros; apply res_le_refl].
  - apply bind_le; [exact IH|intros; apply res_le_refl].
Qed.
Lemma merge_parent_le r1 r2 par p : rec_le r1 r2 -> res_le (merge_parent r1 par p) (merge_parent r2 par p).
Proof.
  intros Hr. unfold merge_parent, make_dependency_management. destruct par as [par|].
  - destruct (negb _); [apply res_le_refl|].
    apply bind_le; [apply bind_le; [apply make_dm_own_le; exact Hr|intros; apply res_le_refl]|intros; apply res_le_refl].
  - destruct (p_group p); [|apply res_le_refl]. destruct (p_version p); [|apply res_le_refl].
    apply bind_le; [apply bind_le; [apply make_dm_own_le; exact Hr|intros; apply res_le_refl]|intros; apply res_le_refl].
Qed.
Lemma merge_stack_le r1 r2 l : rec_le r1 r2 -> forall par, res_le (merge_stack r1 par l) (merge_stack r2 par l).
Proof.
  intros Hr. induction l as [|p l IH]; intros par; [apply res_le_refl|]. cbn [merge_stack].
  apply bind_le; [apply merge_parent_le; exact Hr|intros m; apply IH].
Qed.
Lemma parent_chain_unfold f fs rs p :
  parent_chain f fs rs p =
  match get_parent_coord p with
  | None => Ok []
  | Some c => match f with
              | O => Err
              | S f' => do rp <- try_get_pom_for fs rs c; do rest <- parent_chain f' fs rs (snd rp); Ok (snd rp :: rest)
              end
  end.
Proof. destruct f; reflexivity. Qed.
Lemma parent_chain_le fs rs : forall f p, res_le (parent_chain f fs rs p) (parent_chain (S f) fs rs p).
Proof.
  induction f as [|f IH]; intros p; rewrite (parent_chain_unfold (S _)), (parent_chain_unfold _ fs rs p);
    destruct (get_parent_coord p) as [c|]; try apply res_le_refl.
  - intros v; discriminate.
  - apply bind_le; [apply res_le_refl|]. intros rp. apply bind_le; [apply IH|intros; apply res_le_refl].
Qed.
Lemma get_merged_pom_unfold f fs rs c :
  get_merged_pom (S f) fs rs c =
  (do rp <- try_get_pom_for fs rs c; do stack <- parent_chain f fs rs (snd rp);
   do parent <- merge_stack (fun c' => do x <- get_merged_pom f fs rs c'; Ok (snd x)) None (rev stack);
   do merged <- merge_parent (fun c' => do x <- get_merged_pom f fs rs c'; Ok (snd x)) parent (snd rp); Ok (fst rp, merged)).
Proof. reflexivity. Qed.
Lemma get_merged_pom_le fs rs : forall f c, res_le (get_merged_pom f fs rs c) (get_merged_pom (S f) fs rs c).
Proof.
  induction f as [|f IH]; intros c; [intros v; discriminate|].
  assert (Hrec : rec_le (fun c' => do x <- get_merged_pom f fs rs c'; Ok (snd x)) (fun c' => do x <- get_merged_pom (S f) fs rs c'; Ok (snd x))).
  { intros c'. apply bind_le; [apply IH|intros; apply res_le_refl]. }
  rewrite (get_merged_pom_unfold (S f)), (get_merged_pom_unfold f).
  apply bind_le; [apply res_le_refl|]. intros rp. apply bind_le; [apply parent_chain_le|]. intros stack.
  apply bind_le; [apply merge_stack_le; exact Hrec|]. intros parent.
  apply bind_le; [apply merge_parent_le; exact Hrec|intros; apply res_le_refl].
Qed.
Lemma map_res_le {A B} (g g' : A -> res B) l : (forall a, res_le (g a) (g' a)) -> res_le (map_res g l) (map_res g' l).
Proof.
  intros H. induction l as [|a l IH]; [apply res_le_refl|]. cbn [map_res].
  apply bind_le; [apply H|]. intros y. apply bind_le; [exact IH|intros; apply res_le_refl].
Qed.
Lemma tree_le_mf fs rs mf : forall f c sc, res_le (get_dependencies_tree mf f fs rs c sc) (get_dependencies_tree (S mf) f fs rs c sc).
Proof.
  induction f as [|f IH]; intros c sc; [intros v; discriminate|]. rewrite !tree_unfold.
  intros v. destruct (get_merged_pom mf fs rs c) as [rp|] eqn:Em; [|discriminate].
  rewrite (get_merged_pom_le fs rs mf c rp Em). cbn [bind]. revert v.
  apply bind_le; [|intros; apply res_le_refl]. apply map_res_le. intros d. destruct (the_scope_table _ _); [apply IH|apply res_le_refl].
Qed.
Lemma tree_le_f fs rs mf : forall f c sc, res_le (get_dependencies_tree mf f fs rs c sc) (get_dependencies_tree mf (S f) fs rs c sc).
Proof.
  induction f as [|f IH]; intros c sc; [intros v; discriminate|]. rewrite (tree_unfold mf (S f)), (tree_unfold mf f).
  apply bind_le; [apply res_le_refl|]. intros rp. apply bind_le; [|intros; apply res_le_refl].
  apply map_res_le. intros d. destruct (the_scope_table _ _); [apply IH|apply res_le_refl].
Qed.

Theorem fuel_monotone : forall n m fs rs roots out, n <= m ->
  get_maven_dependencies_fuel (N.to_nat n) fs rs roots = Ok out -> get_maven_dependencies_fuel (N.to_nat m) fs rs roots = Ok out.
Proof.
  intros n m fs rs roots out Hle. assert (Hnat : (N.to_nat n <= N.to_nat m)%nat) by lia. clear Hle.
  revert out. induction Hnat as [|k _ IH]; [auto|]. intros out H. specialize (IH out H). clear H. revert out IH.
  change (res_le (get_maven_dependencies_fuel k fs rs roots) (get_maven_dependencies_fuel (S k) fs rs roots)).
  unfold get_maven_dependencies_fuel. apply bind_le; [|intros; apply res_le_refl].
  apply map_res_le. intros r v Hv. apply tree_le_f, tree_le_mf. exact Hv.
Qed.

(* ---------- non-vacuity: a universe with a parent, a BOM import and a managed version ---------- *)
Definition ex_s (n : N) : str := [103; n].  (* "g?" *)
Definition ex_pom (a : N) (v : N) (parent : option parent_ref) (packaging : option str) dm deps : pom :=
  mkPom s_4_0_0 parent (Some [103]) (ex_s a) (Some [v]) packaging dm deps.
Definition ex_dep {Sc} (a : N) (v : option N) (t : option str) (sc : option Sc) : dep Sc :=
  mkDep [103] (ex_s a) (match v with Some v => Some [v] | None => None end) t None sc None.
Definition ex_url (a v : N) : str := [114;47;103;47;103;a;47;v;47;103;a;45;v] ++ s_dot_pom.  (* r/g/g?/v/g?-v.pom *)
Definition ex_files : files := [
  (ex_url 112 49, Ok (ex_pom 112 49 None (Some s_pom) [ex_dep 120 (Some 49) None None] [ex_dep 120 None None None]));   (* parent: manages x 1, depends on x *)
  (ex_url 98 49, Ok (ex_pom 98 49 None (Some s_pom) [ex_dep 121 (Some 50) None (Some (MScope Runtime))] []));             (* BOM: manages y 2 runtime *)
  (ex_url 99 49, Ok (ex_pom 99 49 (Some (mkParent [103] (ex_s 112) [49])) None
                      [ex_dep 120 (Some 50) None None; ex_dep 98 (Some 49) (Some s_pom) (Some MImport)] [ex_dep 121 None None None]));  (* child *)
  (ex_url 120 49, Ok (ex_pom 120 49 None None [] []));
  (ex_url 120 50, Ok (ex_pom 120 50 None None [] [ex_dep 121 (Some 49) None (Some Test)]));
  (ex_url 121 50, Ok (ex_pom 121 50 None None [] []))
].
Example resolution_example :
  get_maven_dependencies ex_files [mkResolver [114] [114]] [(mkCoord [103] (ex_s 99) [49] None s_jar, Compile)]
  = Ok [mkFound (mkResolver [114] [114]) (mkCoord [103] (ex_s 99) [49] None s_jar) Compile;
        mkFound (mkResolver [114] [114]) (mkCoord [103] (ex_s 121) [50] None s_jar) Runtime;
        mkFound (mkResolver [114] [114]) (mkCoord [103] (ex_s 120) [50] None s_jar) Compile].
Proof. vm_compute. reflexivity. Qed.
