(* C20 — the class-file format of JVMS (SE 17) sections 4.1-4.7, transcribed by hand into the
   declaration language of Fmt.v, and the finite checks of the GENERATED table RawGen.raw_env
   against it.  The JVMS gives most of the nested tables no name; the entries below are keyed by
   the names raw_class_file uses for them, the JVMS names of the items are kept as field names.

   The table has two uses.
   (1) As a LAYOUT ([layout], [names_match]): the byte shape — for a struct the sequence of items
   (width of every number, named sub-structure, table with the width of its count, "length given
   elsewhere" or "number of indices given elsewhere"); for a union (enum) the width of the tag and,
   per alternative, the set of tag values (or the attribute name) selecting it together with its
   items and whether it takes up two indices of a slot-counted table (4.4.5).  Items that occupy no
   byte (nowrite) are erased; [layout] also erases all names, [names_match] compares them.
   (2) As a READER: [read_sty jvms_env true] — the strict reader generated from this table — is the
   definition of "well-formed class file" in JvmsRead.v (C20_reads_every_wellformed_class,
   C20_strict_accepts_iff, C20_writes_only_wellformed_classes).  For that the table also says what
   the computed items hold: attribute_length "indicates the length of the attribute, excluding the
   initial six bytes" ([computed]) or the number the JVMS prescribes ([attr_fixed]),
   constant_pool_count in indices (4.1, 4.4.5), and the quantities the JVMS derives from a frame's
   tag ([derived]: offset_delta = frame_type - 64, k = 251 - frame_type, locals[frame_type - 251]).
   Its verdict is compared with the harness' independent Rust walker on every byte-string
   correspondence case (Run.v, CBytes). *)
From FB Require Import C20.Fmt C20.FmtTheory C20.RawGen.
From Coq Require Import Ascii.
Open Scope N_scope.

(* ------------------------------------------------------------------ layouts *)
Inductive lty := LOne (s : sty) | LVecCount (s : sty) (w : width) | LVecLen (s : sty) | LVecSlots (s : sty).
Inductive lfield := LConst (w : width) | LField (t : lty).
Inductive ltag := LTagRange (lo hi : N) | LTagName (s : list N) | LTagAny | LTagOther.
(* an alternative: how it is selected, whether it takes two indices, its items *)
Definition lvariant : Type := ltag * bool * list lfield.
Inductive ldecl := LStruct (fs : list lfield) | LEnum (w : width) (vs : list lvariant).

Definition layout_ty (t : ty) : lty :=
  match t with
  | One s => LOne s
  | Vec s (VCount w) => LVecCount s w
  | Vec s (VLen _) => LVecLen s
  | Vec s (VSlots _) => LVecSlots s
  end.
Fixpoint layout_fields (fs : list field) : list lfield :=
  match fs with
  | [] => []
  | FConst _ w _ :: fs' => LConst w :: layout_fields fs'
  | FMut _ _ (Some _) _ :: fs' => layout_fields fs'
  | FMut _ t None _ :: fs' => LField (layout_ty t) :: layout_fields fs'
  end.
Definition layout_tag (p : pat) (g : guard) : ltag :=
  match p, g with
  | PLit n, GNone => LTagRange n n
  | PRange _ lo hi, GNone => LTagRange lo hi
  | PBind _, GPoolUtf8 _ s => LTagName s
  | PBind _, GNone => LTagAny
  | _, _ => LTagOther
  end.
Definition layout (d : decl) : ldecl :=
  match d with
  | DStruct fs => LStruct (layout_fields fs)
  | DEnum _ tw vars _ => LEnum tw (map (fun va => (layout_tag (v_pat va) (v_guard va), v_wide va, layout_fields (v_fields va))) vars)
  end.

Definition width_eqb (a b : width) : bool :=
  match a, b with W8, W8 | W16, W16 | W32, W32 => true | _, _ => false end.
Definition sty_eqb (a b : sty) : bool :=
  match a, b with
  | Prim x, Prim y => width_eqb x y
  | Named x, Named y => id_eqb x y
  | _, _ => false
  end.
Definition lty_eqb (a b : lty) : bool :=
  match a, b with
  | LOne x, LOne y => sty_eqb x y
  | LVecCount x v, LVecCount y w => sty_eqb x y && width_eqb v w
  | LVecLen x, LVecLen y => sty_eqb x y
  | LVecSlots x, LVecSlots y => sty_eqb x y
  | _, _ => false
  end.
Definition lfield_eqb (a b : lfield) : bool :=
  match a, b with
  | LConst x, LConst y => width_eqb x y
  | LField x, LField y => lty_eqb x y
  | _, _ => false
  end.
Fixpoint leqb {A} (eqb : A -> A -> bool) (a b : list A) : bool :=
  match a, b with
  | [], [] => true
  | x :: a', y :: b' => eqb x y && leqb eqb a' b'
  | _, _ => false
  end.
Definition ltag_eqb (a b : ltag) : bool :=
  match a, b with
  | LTagRange l h, LTagRange l' h' => N.eqb l l' && N.eqb h h'
  | LTagName s, LTagName s' => leqb N.eqb s s'
  | LTagAny, LTagAny => true
  | _, _ => false
  end.
Definition lvariant_eqb (a b : lvariant) : bool :=
  ltag_eqb (fst (fst a)) (fst (fst b)) && Bool.eqb (snd (fst a)) (snd (fst b)) && leqb lfield_eqb (snd a) (snd b).
(* [g] (generated) is laid out as [j] (JVMS): equal structs; for unions the same tag width and
   every generated alternative is an alternative of the JVMS union (the JVMS may have more) *)
Definition layout_matches (g j : ldecl) : bool :=
  match g, j with
  | LStruct a, LStruct b => leqb lfield_eqb a b
  | LEnum w a, LEnum w' b => width_eqb w w' && forallb (fun v => existsb (lvariant_eqb v) b) a
  | _, _ => false
  end.

(* dispatch of a union does not depend on the order of the alternatives: tag ranges pairwise
   disjoint, attribute names pairwise different, a catch-all only in last position *)
Definition tags_apart (a b : ltag) : bool :=
  match a, b with
  | LTagRange l h, LTagRange l' h' => (h <? l') || (h' <? l)
  | LTagName s, LTagName s' => negb (leqb N.eqb s s')
  | LTagRange _ _, LTagName _ | LTagName _, LTagRange _ _ => false
  | _, _ => false
  end.
Fixpoint dispatch_ok (ts : list ltag) : bool :=
  match ts with
  | [] => true
  | [LTagAny] => true
  | t :: ts' => forallb (tags_apart t) (filter (fun u => negb (ltag_eqb u LTagAny)) ts')
                && negb (ltag_eqb t LTagAny) && negb (ltag_eqb t LTagOther) && dispatch_ok ts'
  end.
Definition decl_dispatch_ok (d : decl) : bool :=
  match layout d with LStruct _ => true | LEnum _ vs => dispatch_ok (map (fun v => fst (fst v)) vs) end.

(* a literal tag is written as the literal it is recognised by; a named attribute writes the name
   index it was recognised by *)
Definition variant_tag_coherent (va : variant) : bool :=
  match v_pat va, ce_e (v_tagw va) with
  | PLit n, ELit m => N.eqb n m
  | PLit _, _ => false
  | PBind x, EVar y =>
      match v_fields va with
      | FMut z (One (Prim W16)) (Some (CE _ (EVar x'))) _ :: _ => id_eqb y z && id_eqb x x'
      | _ => false
      end
  | PBind _, _ => false
  | PRange _ _ _, _ => true     (* ranges: per value, part of [resolves] *)
  end.
Definition decl_tags_coherent (d : decl) : bool :=
  match d with DStruct _ => true | DEnum _ _ vars _ => forallb variant_tag_coherent vars end.

(* ------------------------------------------------------------------ the JVMS table *)
Local Open Scope string_scope.
Definition bytes_of (s : string) : list N := map N_of_ascii (list_ascii_of_string s).

Definition u1 (x : id) : field := FMut x (One (Prim W8)) None false.
Definition u2 (x : id) : field := FMut x (One (Prim W16)) None false.
Definition u4 (x : id) : field := FMut x (One (Prim W32)) None false.
Definition one (x : id) (n : id) : field := FMut x (One (Named n)) None false.
(* `u2 x_count; T x[x_count];` *)
Definition tab2 (x : id) (s : sty) : field := FMut x (Vec s (VCount W16)) None false.
Definition tab1 (x : id) (s : sty) : field := FMut x (Vec s (VCount W8)) None false.
Definition tab4 (x : id) (s : sty) : field := FMut x (Vec s (VCount W32)) None false.
Definition U1 := Prim W8.  Definition U2 := Prim W16.
Definition computed (x : id) (w : width) : field := FConst x w (CE 32 (ESub ESelfLen (ELit 6))).

(* 4.1 *)
Definition j_ClassFile : decl := DStruct [
  FConst "magic" W32 (CE 32 (ELit 3405691582));
  u2 "minor_version"; u2 "major_version";
  (* u2 constant_pool_count; cp_info constant_pool[constant_pool_count-1]: "the constant_pool table is
     indexed from 1 to constant_pool_count - 1", and (4.4.5) "all 8-byte constants take up two entries
     in the constant_pool table": the table holds constant_pool_count - 1 INDICES, a long/double
     entry taking two of them; see pool_count below *)
  FConst "constant_pool_count" W16 (CE 64 (EAdd (ESlots "constant_pool" "CpInfo") (ELit 1)));
  FMut "constant_pool" (Vec (Named "CpInfo") (VSlots (CE 16 (ESub (EVar "constant_pool_count") (ELit 1))))) None true;
  u2 "access_flags"; u2 "this_class"; u2 "super_class";
  tab2 "interfaces" U2; tab2 "fields" (Named "FieldInfo"); tab2 "methods" (Named "MethodInfo");
  tab2 "attributes" (Named "AttributeInfo") ].

(* an item that occupies no byte: a quantity the JVMS derives from the tag (computed at the item's width) *)
Definition derived (x : id) (w : width) (e : expr) : field := FMut x (One (Prim w)) (Some (CE (wbits w) e)) false.

(* 4.4 cp_info { u1 tag; u1 info[]; }: the CONSTANT_x_info structures in the order of sections 4.4.1-4.4.12,
   named x *)
Definition cp (name : id) (tag : N) (fs : list field) : variant := Variant name (CE 8 (ELit tag)) (PLit tag) GNone fs false.
(* 4.4.5: an 8-byte constant takes up two entries of the table *)
Definition cp8 (name : id) (tag : N) (fs : list field) : variant := Variant name (CE 8 (ELit tag)) (PLit tag) GNone fs true.
Definition j_CpInfo : decl := DEnum "tag" W8 [
  cp "Class" 7 [u2 "name_index"];                                                  (* 4.4.1 *)
  cp "Fieldref" 9 [u2 "class_index"; u2 "name_and_type_index"];                    (* 4.4.2 *)
  cp "Methodref" 10 [u2 "class_index"; u2 "name_and_type_index"];
  cp "InterfaceMethodref" 11 [u2 "class_index"; u2 "name_and_type_index"];
  cp "String" 8 [u2 "string_index"];                                               (* 4.4.3 *)
  cp "Integer" 3 [u4 "bytes"];                                                     (* 4.4.4 *)
  cp "Float" 4 [u4 "bytes"];
  cp8 "Long" 5 [u4 "high_bytes"; u4 "low_bytes"];                                  (* 4.4.5 *)
  cp8 "Double" 6 [u4 "high_bytes"; u4 "low_bytes"];
  cp "NameAndType" 12 [u2 "name_index"; u2 "descriptor_index"];                    (* 4.4.6 *)
  cp "Utf8" 1 [tab2 "bytes" U1];                                                   (* 4.4.7 *)
  cp "MethodHandle" 15 [u1 "reference_kind"; u2 "reference_index"];                (* 4.4.8 *)
  cp "MethodType" 16 [u2 "descriptor_index"];                                      (* 4.4.9 *)
  cp "Dynamic" 17 [u2 "bootstrap_method_attr_index"; u2 "name_and_type_index"];    (* 4.4.10 *)
  cp "InvokeDynamic" 18 [u2 "bootstrap_method_attr_index"; u2 "name_and_type_index"];
  cp "Module" 19 [u2 "name_index"];                                                (* 4.4.11 *)
  cp "Package" 20 [u2 "name_index"] ] true.                                        (* 4.4.12 *)

(* 4.5, 4.6 *)
Definition j_member : decl := DStruct [
  u2 "access_flags"; u2 "name_index"; u2 "descriptor_index"; tab2 "attributes" (Named "AttributeInfo") ].

(* 4.7 attribute_info { u2 attribute_name_index; u4 attribute_length; u1 info[attribute_length]; }
   The alternative is selected by the name the pool holds at attribute_name_index; the index itself is
   kept as an item that occupies no further byte.  attribute_length "indicates the length of the
   attribute, excluding the initial six bytes" ([computed]); where the JVMS prescribes a number ("The
   value of the attribute_length item must be two/zero/four") it is that literal ([attr_fixed]). *)
Definition attrv (name : string) (items : list field) : variant :=
  Variant name (CE 16 (EVar "attribute_name_index")) (PBind "attribute_name_index")
    (GPoolUtf8 (CE 16 (EVar "attribute_name_index")) (bytes_of name))
    (derived "attribute_name_index" W16 (EVar "attribute_name_index") :: items) false.
Definition attr (name : string) (fs : list field) : variant := attrv name (computed "attribute_length" W32 :: fs).
Definition attr_fixed (name : string) (len : N) (fs : list field) : variant :=
  attrv name (FConst "attribute_length" W32 (CE 32 (ELit len)) :: fs).
Definition j_AttributeInfo : decl := DEnum "attribute_name_index" W16 [
  attr_fixed "ConstantValue" 2 [u2 "constantvalue_index"];                                             (* 4.7.2 *)
  attr "Code" [u2 "max_stack"; u2 "max_locals"; tab4 "code" U1;                                        (* 4.7.3 *)
               tab2 "exception_table" (Named "ExceptionTableEntry"); tab2 "attributes" (Named "AttributeInfo")];
  attr "StackMapTable" [tab2 "entries" (Named "StackMapFrame")];                                       (* 4.7.4 *)
  attr "Exceptions" [tab2 "exception_index_table" U2];                                                 (* 4.7.5 *)
  attr "InnerClasses" [tab2 "classes" (Named "InnerClassesEntry")];                                    (* 4.7.6 *)
  attr_fixed "EnclosingMethod" 4 [u2 "class_index"; u2 "method_index"];                                (* 4.7.7 *)
  attr_fixed "Synthetic" 0 [];                                                                         (* 4.7.8 *)
  attr_fixed "Signature" 2 [u2 "signature_index"];                                                     (* 4.7.9 *)
  attr_fixed "SourceFile" 2 [u2 "sourcefile_index"];                                                   (* 4.7.10 *)
  (* 4.7.11: u1 debug_extension[attribute_length] — the length item is the count of the table *)
  attrv "SourceDebugExtension" [tab4 "debug_extension" U1];
  attr "LineNumberTable" [tab2 "line_number_table" (Named "LineNumberTableEntry")];                    (* 4.7.12 *)
  attr "LocalVariableTable" [tab2 "local_variable_table" (Named "LocalVariableTableEntry")];           (* 4.7.13 *)
  attr "LocalVariableTypeTable" [tab2 "local_variable_type_table" (Named "LocalVariableTypeTableEntry")]; (* 4.7.14 *)
  attr_fixed "Deprecated" 0 [];                                                                        (* 4.7.15 *)
  attr "RuntimeVisibleAnnotations" [tab2 "annotations" (Named "Annotation")];                          (* 4.7.16 *)
  attr "RuntimeInvisibleAnnotations" [tab2 "annotations" (Named "Annotation")];                        (* 4.7.17 *)
  attr "RuntimeVisibleParameterAnnotations" [tab1 "parameter_annotations" (Named "ParameterAnnotationEntry")];   (* 4.7.18: u1 num_parameters *)
  attr "RuntimeInvisibleParameterAnnotations" [tab1 "parameter_annotations" (Named "ParameterAnnotationEntry")]; (* 4.7.19 *)
  attr "AnnotationDefault" [one "default_value" "ElementValue"];                                       (* 4.7.22 *)
  attr "BootstrapMethods" [tab2 "bootstrap_methods" (Named "BootstrapMethodsEntry")];                  (* 4.7.23 *)
  attr "MethodParameters" [tab1 "parameters" (Named "MethodParametersEntry")];                         (* 4.7.24: u1 parameters_count *)
  attr "Module" [u2 "module_name_index"; u2 "module_flags"; u2 "module_version_index";                 (* 4.7.25 *)
                 tab2 "requires" (Named "ModuleRequiresEntry"); tab2 "exports" (Named "ModuleExportsEntry");
                 tab2 "opens" (Named "ModuleOpensEntry"); tab2 "uses_index" U2; tab2 "provides" (Named "ModuleProvidesEntry")];
  attr "ModulePackages" [tab2 "package_index" U2];                                                     (* 4.7.26 *)
  attr_fixed "ModuleMainClass" 2 [u2 "main_class_index"];                                              (* 4.7.27 *)
  attr_fixed "NestHost" 2 [u2 "host_class_index"];                                                     (* 4.7.28 *)
  attr "NestMembers" [tab2 "classes" U2];                                                              (* 4.7.29 *)
  attr "Record" [tab2 "components" (Named "RecordComponentInfo")];                                     (* 4.7.30 *)
  attr "PermittedSubclasses" [tab2 "classes" U2];                                                      (* 4.7.31 *)
  (* any other attribute: u1 info[attribute_length] *)
  Variant "attribute_info" (CE 16 (EVar "attribute_name_index")) (PBind "attribute_name_index") GNone
    [derived "attribute_name_index" W16 (EVar "attribute_name_index"); tab4 "info" U1] false
  ] false.

(* 4.7.3 exception_table entry *)
Definition j_ExceptionTableEntry := DStruct [u2 "start_pc"; u2 "end_pc"; u2 "handler_pc"; u2 "catch_type"].

(* 4.7.4 verification_type_info, stack_map_frame *)
Definition vt (name : id) (tag : N) (fs : list field) : variant := Variant name (CE 8 (ELit tag)) (PLit tag) GNone fs false.
Definition j_VerificationTypeInfo : decl := DEnum "tag" W8 [
  vt "Top_variable_info" 0 []; vt "Integer_variable_info" 1 []; vt "Float_variable_info" 2 [];
  vt "Double_variable_info" 3 []; vt "Long_variable_info" 4 []; vt "Null_variable_info" 5 [];
  vt "UninitializedThis_variable_info" 6 []; vt "Object_variable_info" 7 [u2 "cpool_index"];
  vt "Uninitialized_variable_info" 8 [u2 "offset"] ] true.
(* u1 frame_type is the tag; it is kept as an item that occupies no further byte, and so are the
   quantities the JVMS derives from it *)
Definition fr (name : id) (lo hi : N) (fs : list field) : variant :=
  Variant name (CE 8 (EVar "frame_type")) (PRange (Some "frame_type") lo hi) GNone
    (derived "frame_type" W8 (EVar "frame_type") :: fs) false.
Definition j_StackMapFrame : decl := DEnum "frame_type" W8 [
  (* "the offset_delta value for the frame is the value of the tag item, frame_type" *)
  fr "same_frame" 0 63 [derived "offset_delta" W8 (EVar "frame_type")];
  (* "the offset_delta value for the frame is given by the formula frame_type - 64" *)
  fr "same_locals_1_stack_item_frame" 64 127 [derived "offset_delta" W8 (ESub (EVar "frame_type") (ELit 64)); one "stack" "VerificationTypeInfo"];
  fr "same_locals_1_stack_item_frame_extended" 247 247 [u2 "offset_delta"; one "stack" "VerificationTypeInfo"];
  (* "the last k local variables are absent ... k is given by the formula 251 - frame_type" *)
  fr "chop_frame" 248 250 [derived "k" W8 (ESub (ELit 251) (EVar "frame_type")); u2 "offset_delta"];
  fr "same_frame_extended" 251 251 [u2 "offset_delta"];
  (* verification_type_info locals[frame_type - 251] *)
  fr "append_frame" 252 254 [u2 "offset_delta";
       FMut "locals" (Vec (Named "VerificationTypeInfo") (VLen (CE 8 (ESub (EVar "frame_type") (ELit 251))))) None false];
  fr "full_frame" 255 255 [u2 "offset_delta"; tab2 "locals" (Named "VerificationTypeInfo"); tab2 "stack" (Named "VerificationTypeInfo")]
  ] true.

Definition j_InnerClassesEntry := DStruct [u2 "inner_class_info_index"; u2 "outer_class_info_index"; u2 "inner_name_index"; u2 "inner_class_access_flags"]. (* 4.7.6 *)
Definition j_LineNumberTableEntry := DStruct [u2 "start_pc"; u2 "line_number"].                                           (* 4.7.12 *)
Definition j_LocalVariableTableEntry := DStruct [u2 "start_pc"; u2 "length"; u2 "name_index"; u2 "descriptor_index"; u2 "index"]. (* 4.7.13 *)
Definition j_LocalVariableTypeTableEntry := DStruct [u2 "start_pc"; u2 "length"; u2 "name_index"; u2 "signature_index"; u2 "index"]. (* 4.7.14 *)
(* 4.7.16 annotation, element_value *)
Definition j_Annotation := DStruct [u2 "type_index"; tab2 "element_value_pairs" (Named "ElementValuePairsEntry")].
Definition j_ElementValuePairsEntry := DStruct [u2 "element_name_index"; one "value" "ElementValue"].
Definition ev (c : string) (fs : list field) : variant :=
  match bytes_of c with
  | [t] => Variant c (CE 8 (ELit t)) (PLit t) GNone fs false
  | _ => Variant c (CE 8 (ELit 0)) (PLit 0) GNone fs false
  end.
Definition j_ElementValue : decl := DEnum "tag" W8 [
  ev "B" [u2 "const_value_index"]; ev "C" [u2 "const_value_index"]; ev "D" [u2 "const_value_index"];
  ev "F" [u2 "const_value_index"]; ev "I" [u2 "const_value_index"]; ev "J" [u2 "const_value_index"];
  ev "S" [u2 "const_value_index"]; ev "Z" [u2 "const_value_index"]; ev "s" [u2 "const_value_index"];
  ev "e" [u2 "type_name_index"; u2 "const_name_index"];
  ev "c" [u2 "class_info_index"];
  ev "@" [one "annotation_value" "Annotation"];
  ev "[" [tab2 "values" (Named "ElementValue")] ] true.
Definition j_ParameterAnnotationEntry := DStruct [tab2 "annotations" (Named "Annotation")].                               (* 4.7.18 *)
Definition j_BootstrapMethodsEntry := DStruct [u2 "bootstrap_method_ref"; tab2 "bootstrap_arguments" U2].                 (* 4.7.23 *)
Definition j_MethodParametersEntry := DStruct [u2 "name_index"; u2 "access_flags"].                                       (* 4.7.24 *)
Definition j_ModuleRequiresEntry := DStruct [u2 "requires_index"; u2 "requires_flags"; u2 "requires_version_index"].      (* 4.7.25 *)
Definition j_ModuleExportsEntry := DStruct [u2 "exports_index"; u2 "exports_flags"; tab2 "exports_to_index" U2].
Definition j_ModuleOpensEntry := DStruct [u2 "opens_index"; u2 "opens_flags"; tab2 "opens_to_index" U2].
Definition j_ModuleProvidesEntry := DStruct [u2 "provides_index"; tab2 "provides_with_index" U2].
Definition j_RecordComponentInfo := DStruct [u2 "name_index"; u2 "descriptor_index"; tab2 "attributes" (Named "AttributeInfo")]. (* 4.7.30 *)

Definition jvms_env : denv := [
  ("ClassFile", j_ClassFile); ("CpInfo", j_CpInfo); ("FieldInfo", j_member); ("MethodInfo", j_member);
  ("AttributeInfo", j_AttributeInfo); ("ExceptionTableEntry", j_ExceptionTableEntry);
  ("VerificationTypeInfo", j_VerificationTypeInfo); ("StackMapFrame", j_StackMapFrame);
  ("InnerClassesEntry", j_InnerClassesEntry); ("LineNumberTableEntry", j_LineNumberTableEntry);
  ("LocalVariableTableEntry", j_LocalVariableTableEntry); ("LocalVariableTypeTableEntry", j_LocalVariableTypeTableEntry);
  ("Annotation", j_Annotation); ("ElementValuePairsEntry", j_ElementValuePairsEntry); ("ElementValue", j_ElementValue);
  ("ParameterAnnotationEntry", j_ParameterAnnotationEntry); ("BootstrapMethodsEntry", j_BootstrapMethodsEntry);
  ("MethodParametersEntry", j_MethodParametersEntry); ("ModuleRequiresEntry", j_ModuleRequiresEntry);
  ("ModuleExportsEntry", j_ModuleExportsEntry); ("ModuleOpensEntry", j_ModuleOpensEntry);
  ("ModuleProvidesEntry", j_ModuleProvidesEntry); ("RecordComponentInfo", j_RecordComponentInfo) ].

Local Close Scope string_scope.

Fixpoint list_eqb_N (a b : list N) : bool :=
  match a, b with [], [] => true | x :: a', y :: b' => N.eqb x y && list_eqb_N a' b' | _, _ => false end.

(* ------------------------------------------------------------------ finite checks of the generated table *)
Definition decl_is_jvms (nd : id * decl) : bool :=
  match lookup jvms_env (fst nd) with
  | Some j => layout_matches (layout (snd nd)) (layout j)
  | None => false
  end.

Lemma layout_table : forallb decl_is_jvms raw_env = true.
Proof. vm_compute. reflexivity. Qed.

Theorem layout_is_jvms : forall n d, In (n, d) raw_env ->
  exists j, lookup jvms_env n = Some j /\ layout_matches (layout d) (layout j) = true.
Proof.
  intros n d Hin. pose proof layout_table as H. rewrite forallb_forall in H. specialize (H _ Hin).
  unfold decl_is_jvms in H. cbn [fst snd] in H. destruct (lookup jvms_env n) as [j|]; [|discriminate].
  exists j. auto.
Qed.

(* ------------------------------------------------------------------ names *)
(* The layout erases all names.  What the names of the generated table MEAN is pinned here: the items
   of every generated structure carry, in order, the JVMS item names, and every alternative of a
   generated union is the JVMS structure of that meaning (same selecting tag / attribute name, same
   items) — through the dictionary below, which lists the places where raw_class_file's spelling is
   not the one used in the table above.  (Exchanging two items of the same width, or the tags of two
   alternatives of the same shape, leaves every byte-level theorem true; it changes what a user of the
   crate's API writes.) *)
Local Open Scope string_scope.
Definition item_alias : list (id * id) := [("boostrap_arguments", "bootstrap_arguments")].
Definition variant_alias : list (id * list (id * id)) := [
  ("VerificationTypeInfo", [("Top", "Top_variable_info"); ("Integer", "Integer_variable_info"); ("Float", "Float_variable_info");
     ("Null", "Null_variable_info"); ("UnintializedThis", "UninitializedThis_variable_info"); ("Object", "Object_variable_info");
     ("Unintialized", "Uninitialized_variable_info"); ("Long", "Long_variable_info"); ("Double", "Double_variable_info")]);
  ("StackMapFrame", [("SameFrame", "same_frame"); ("SameLocals1StackItemFrame", "same_locals_1_stack_item_frame");
     ("SameLocals1StackItemFrameExtended", "same_locals_1_stack_item_frame_extended"); ("ChopFrame", "chop_frame");
     ("SameFrameExtended", "same_frame_extended"); ("AppendFrame", "append_frame"); ("FullFrame", "full_frame")]);
  ("ElementValue", [("Byte", "B"); ("Char", "C"); ("Double", "D"); ("Float", "F"); ("Integer", "I"); ("Long", "J"); ("Short", "S");
     ("Boolean", "Z"); ("String", "s"); ("Enum", "e"); ("Class", "c"); ("Annotation", "@"); ("Array", "[")]);
  ("AttributeInfo", [("Other", "attribute_info")]) ].
Local Close Scope string_scope.
Definition item_name (x : id) : id := match lookup item_alias x with Some j => j | None => x end.
Definition variant_name (tn vn : id) : id :=
  match lookup variant_alias tn with
  | Some l => match lookup l vn with Some j => j | None => vn end
  | None => vn
  end.
(* names of the items that occupy bytes, in order *)
Fixpoint item_names (al : id -> id) (fs : list field) : list id :=
  match fs with
  | [] => []
  | FConst x _ _ :: r => al x :: item_names al r
  | FMut _ _ (Some _) _ :: r => item_names al r
  | FMut x _ None _ :: r => al x :: item_names al r
  end.
Definition lvariant_of (va : variant) : lvariant := (layout_tag (v_pat va) (v_guard va), v_wide va, layout_fields (v_fields va)).
Definition names_match (tn : id) (g j : decl) : bool :=
  match g, j with
  | DStruct a, DStruct b => leqb id_eqb (item_names item_name a) (item_names (fun x => x) b)
  | DEnum _ _ va _, DEnum _ _ vb _ =>
      forallb (fun v => existsb (fun w => id_eqb (variant_name tn (v_name v)) (v_name w)
                                          && lvariant_eqb (lvariant_of v) (lvariant_of w)
                                          && leqb id_eqb (item_names item_name (v_fields v)) (item_names (fun x => x) (v_fields w))) vb) va
  | _, _ => false
  end.
Definition decl_names_jvms (nd : id * decl) : bool :=
  match lookup jvms_env (fst nd) with
  | Some j => names_match (fst nd) (snd nd) j
  | None => false
  end.
Lemma names_table : forallb decl_names_jvms raw_env = true.
Proof. vm_compute. reflexivity. Qed.

Theorem names_are_jvms : forall n d, In (n, d) raw_env ->
  exists j, lookup jvms_env n = Some j /\ names_match n d j = true.
Proof.
  intros n d Hin. pose proof names_table as H. rewrite forallb_forall in H. specialize (H _ Hin).
  unfold decl_names_jvms in H. cbn [fst snd] in H. destruct (lookup jvms_env n) as [j|]; [|discriminate].
  exists j. auto.
Qed.

Lemma dispatch_table : forallb (fun nd => decl_dispatch_ok (snd nd) && decl_tags_coherent (snd nd)) raw_env = true.
Proof. vm_compute. reflexivity. Qed.

Theorem dispatch_unambiguous : forall n d, In (n, d) raw_env ->
  decl_dispatch_ok d = true /\ decl_tags_coherent d = true.
Proof.
  intros n d Hin. pose proof dispatch_table as H. rewrite forallb_forall in H. specialize (H _ Hin).
  cbn [snd] in H. apply andb_true_iff in H. exact H.
Qed.

Theorem raw_env_wf : denv_wf raw_env = true.
Proof. vm_compute. reflexivity. Qed.

(* the magic number is checked on reading and written as the JVMS says *)
Theorem magic_is_cafebabe :
  match lookup raw_env "ClassFile"%string with
  | Some (DStruct (FConst _ W32 e :: _)) => lit_of e = Some 3405691582
  | _ => False
  end.
Proof. vm_compute. reflexivity. Qed.

(* attribute_length: for every attribute kind of the generated table *)
Definition attr_variants : list variant :=
  match lookup raw_env "AttributeInfo"%string with Some (DEnum _ _ vars _) => vars | _ => [] end.

Lemma attr_len_table : forallb (fun va => attr_len_ok W16 (v_fields va)) attr_variants = true.
Proof. vm_compute. reflexivity. Qed.

Theorem attr_len_symbolic : forall va, In va attr_variants -> attr_len_ok W16 (v_fields va) = true.
Proof. apply forallb_forall. exact attr_len_table. Qed.

Lemma attr_lookup : exists tv ft, lookup raw_env "AttributeInfo"%string = Some (DEnum tv W16 attr_variants ft).
Proof. eexists. eexists. vm_compute. reflexivity. Qed.

Theorem attr_len_exact : forall fuel k vs bs,
  write_sty raw_env fuel (Named "AttributeInfo"%string) (VV k vs) = Ok bs ->
  exists tg body, bs = enc W16 tg ++ enc W32 (N.of_nat (length body)) ++ body.
Proof.
  destruct attr_lookup as (tv & ft & Hl). intros fuel k vs bs.
  eapply attr_len_exact_gen; [exact Hl|exact attr_len_table].
Qed.

Theorem attr_variants_nonempty : (28 <= length attr_variants)%nat.
Proof. vm_compute. repeat constructor. Qed.

(* ------------------------------------------------------------------ constant_pool_count (4.1, 4.4.5) *)
Definition cp_variants : list variant :=
  match lookup raw_env "CpInfo"%string with Some (DEnum _ _ vars _) => vars | _ => [] end.
(* 4.4.5: "All 8-byte constants take up two entries in the constant_pool table": the structures
   tagged CONSTANT_Long (5) and CONSTANT_Double (6) *)
Definition jvms_wide_variant (va : variant) : bool :=
  match v_pat va with PLit n => (n =? 5) || (n =? 6) | _ => false end.
Definition jvms_is_wide (v : val) : bool :=
  match v with
  | VV k _ => match nth_error cp_variants k with Some va => jvms_wide_variant va | None => false end
  | _ => false
  end.
Definition has_wide (pool : list val) : bool := existsb jvms_is_wide pool.
(* 4.1: "The value of the constant_pool_count item is equal to the number of entries in the
   constant_pool table plus one", where (4.4.5) a long/double takes up two entries *)
Fixpoint jvms_pool_slots (pool : list val) : N :=
  match pool with [] => 0 | e :: pool' => (if jvms_is_wide e then 2 else 1) + jvms_pool_slots pool' end.
Definition jvms_pool_count (pool : list val) : N := jvms_pool_slots pool + 1.

Definition pool_count_expr : option cexpr :=
  match lookup raw_env "ClassFile"%string with
  | Some (DStruct fs) =>
      (fix find (fs : list field) : option cexpr :=
         match fs with
         | [] => None
         | FConst x _ e :: fs' => if id_eqb x "constant_pool_count"%string then Some e else find fs'
         | _ :: fs' => find fs'
         end) fs
  | _ => None
  end.
(* what _write computes for the constant_pool_count item (before the `as u16`) *)
Definition written_pool_count (pool : list val) : res N :=
  match pool_count_expr with
  | Some e => ceval raw_env [("constant_pool"%string, VL pool)] Err e
  | None => Err
  end.

Lemma pool_count_expr_is : pool_count_expr = Some (CE 64 (EAdd (ESlots "constant_pool"%string "CpInfo"%string) (ELit 1))).
Proof. vm_compute. reflexivity. Qed.

(* slots() of the generated table flags exactly the variants tagged 5 and 6 *)
Lemma wide_table : forallb (fun va => Bool.eqb (v_wide va) (jvms_wide_variant va)) cp_variants = true.
Proof. vm_compute. reflexivity. Qed.

Lemma cp_lookup : exists tv tw ft, lookup raw_env "CpInfo"%string = Some (DEnum tv tw cp_variants ft).
Proof. eexists. eexists. eexists. vm_compute. reflexivity. Qed.

Theorem slots_is_jvms : forall v, is_wide raw_env "CpInfo"%string v = jvms_is_wide v.
Proof.
  intros v. destruct cp_lookup as (tv & tw & ft & Hl). unfold is_wide, jvms_is_wide. rewrite Hl.
  destruct v as [| | |k fs]; try reflexivity.
  destruct (nth_error cp_variants k) as [va|] eqn:Ek; [|reflexivity].
  pose proof wide_table as H. rewrite forallb_forall in H.
  apply eqb_prop. apply H. eapply nth_error_In. exact Ek.
Qed.

Lemma slots_of_jvms pool : slots_of (is_wide raw_env "CpInfo"%string) pool = jvms_pool_slots pool.
Proof.
  induction pool as [|e pool IH]; [reflexivity|].
  cbn [slots_of jvms_pool_slots]. unfold slots1. rewrite slots_is_jvms, IH. reflexivity.
Qed.

(* for EVERY pool (long/double entries included) whose count fits the u2 item, the count written is
   the JVMS one *)
Theorem pool_count_is_jvms : forall pool, jvms_pool_count pool < 65536 ->
  written_pool_count pool = Ok (jvms_pool_count pool).
Proof.
  intros pool Hl. unfold written_pool_count. rewrite pool_count_expr_is.
  unfold ceval, jvms_pool_count in *. cbn [ce_aw ce_e eval lookup id_eqb String.eqb Ascii.eqb Bool.eqb bind].
  rewrite slots_of_jvms.
  replace (jvms_pool_slots pool + 1 <? 2 ^ 64) with true; [reflexivity|].
  symmetry. apply N.ltb_lt. change (2 ^ 64) with 18446744073709551616. lia.
Qed.

(* a pool with a Long, a Utf8 and a Double: five indices, count 6 *)
Definition wide_witness : list val :=
  [VV 7 [VN 0; VN 1]; VV 10 [VL [VN 65]]; VV 8 [VN 1074003968; VN 0]].

Theorem pool_count_wide_example :
  has_wide wide_witness = true /\ length wide_witness = 3%nat /\ written_pool_count wide_witness = Ok 6.
Proof. repeat split; vm_compute; reflexivity. Qed.

(* a pool that ENDS in an 8-byte constant (legal; javac just does not emit it): the entry takes up the last TWO indices,
   so the count written is two more than the count of the pool in front of it - not the index of the last entry plus one *)
Lemma jvms_pool_slots_app a b : jvms_pool_slots (a ++ b) = jvms_pool_slots a + jvms_pool_slots b.
Proof. induction a as [|e a IH]; cbn [app jvms_pool_slots]; [reflexivity|]. rewrite IH. lia. Qed.

Theorem pool_count_tail : forall pool e, jvms_is_wide e = true -> jvms_pool_count (pool ++ [e]) < 65536 ->
  written_pool_count (pool ++ [e]) = Ok (jvms_pool_count pool + 2) /\ jvms_pool_count (pool ++ [e]) = jvms_pool_slots pool + 3.
Proof.
  intros pool e He Hl. rewrite (pool_count_is_jvms _ Hl). unfold jvms_pool_count in *. rewrite jvms_pool_slots_app.
  cbn [jvms_pool_slots]. rewrite He. split; [f_equal; lia|lia].
Qed.

Theorem pool_tail_examples :
  written_pool_count [VV 7 [VN 0; VN 1]] = Ok 3 /\
  written_pool_count [VV 8 [VN 1074003968; VN 0]] = Ok 3 /\
  written_pool_count [VV 10 [VL [VN 65]]; VV 7 [VN 0; VN 1]] = Ok 4 /\
  written_pool_count [VV 10 [VL [VN 65]]; VV 8 [VN 1074003968; VN 0]] = Ok 4 /\
  written_pool_count [VV 7 [VN 0; VN 1]; VV 8 [VN 1074003968; VN 0]] = Ok 5 /\
  jvms_is_wide (VV 7 [VN 0; VN 1]) = true /\ jvms_is_wide (VV 8 [VN 1074003968; VN 0]) = true /\ jvms_is_wide (VV 10 [VL [VN 65]]) = false.
Proof. repeat split; vm_compute; reflexivity. Qed.

(* ------------------------------------------------------------------ corollaries for the public functions *)
Theorem class_length_exact D v bs : class_write D v = Ok bs -> N.of_nat (length bs) < 4294967296 ->
  class_length D v = Ok (N.of_nat (length bs)).
Proof.
  unfold class_write, class_length. intros Hw Hl. rewrite (len_write _ _ _ _ _ Hw). cbn [bind].
  apply N.ltb_lt in Hl. rewrite Hl. reflexivity.
Qed.

(* write then read, for the generated table, at the fuel class_write uses and at every larger one *)
Theorem class_read_write : forall v bs fuel strict, class_write raw_env v = Ok bs ->
  resolves raw_env (S (depth v)) None class_ty v = true -> (S (depth v) <= fuel)%nat ->
  read_sty raw_env strict fuel None class_ty bs = Ok (v, []).
Proof.
  intros v bs fuel strict Hw Hr Hf. eapply read_mono; [exact Hf|].
  rewrite <- (app_nil_r bs). apply read_write; [exact raw_env_wf|exact Hw|exact Hr].
Qed.

(* byte-exactness, for the generated table: a file on which the strict reader succeeds to the end
   is reproduced by the writer *)
Theorem class_write_read : forall fuel bs v, bytes_ok bs ->
  read_sty raw_env true fuel None class_ty bs = Ok (v, []) -> write_sty raw_env fuel class_ty v = Ok bs.
Proof.
  intros fuel bs v Hb H. destruct (write_read _ _ _ _ _ _ _ Hb H) as (pre & E & Hw).
  rewrite app_nil_r in E. subst pre. exact Hw.
Qed.

(* ------------------------------------------------------------------ reading a pool with a long: an independent walk *)
(* JVMS 4.4.5 walk of a constant pool: Some wide = well-formed, wide tells whether a long/double occurs *)
Fixpoint jvms_scan_pool (fuel : nat) (slots : N) (wide : bool) (bs : list N) : option (bool * list N) :=
  match fuel with
  | O => None
  | S f =>
      if slots =? 0 then Some (wide, bs) else
      match bs with
      | [] => None
      | tag :: r =>
          let adv (k : nat) (w : bool) (n : N) :=
            if Nat.ltb (length r) k || (slots <? n) then None else jvms_scan_pool f (slots - n) (wide || w) (skipn k r) in
          if existsb (N.eqb tag) [7; 8; 16; 19; 20] then adv 2%nat false 1
          else if existsb (N.eqb tag) [3; 4; 9; 10; 11; 12; 17; 18] then adv 4%nat false 1
          else if tag =? 15 then adv 3%nat false 1
          else if existsb (N.eqb tag) [5; 6] then adv 8%nat true 2
          else if tag =? 1 then
            match r with
            | a :: b :: r' => let n := N.to_nat (a * 256 + b) in
                              if Nat.ltb (length r') n then None else jvms_scan_pool f (slots - 1) wide (skipn n r')
            | _ => None
            end
          else None
      end
  end.
Definition jvms_pool_of_class (bs : list N) : option (bool * list N) :=
  match bs with
  | 202 :: 254 :: 186 :: 190 :: _ :: _ :: _ :: _ :: c1 :: c0 :: r =>
      let count := c1 * 256 + c0 in
      if count =? 0 then None else jvms_scan_pool (S (length r)) (count - 1) false r
  | _ => None
  end.

(* magic, version 52.0, constant_pool_count = 3, one CONSTANT_Long (slots 1 and 2), access_flags,
   this_class, super_class, and four empty tables *)
Definition wide_class_bytes : list N := [202;254;186;190;0;0;0;52;0;3;5;0;0;0;0;0;0;0;1;0;33;0;0;0;0;0;0;0;0;0;0;0;0].

(* ------------------------------------------------------------------ non-vacuity *)
(* raw_class_file/tests/simple_expected.class *)
Definition ex_simple : list N := [202;254;186;190;0;0;0;52;0;20;1;0;9;84;104;105;115;67;108;97;115;115;7;0;1;1;0;9;84;104;97;116;67;108;97;115;115;7;0;3;1;0;13;84;104;105;115;73;110;116;101;114;102;97;99;101;7;0;5;1;0;13;84;104;97;116;73;110;116;101;114;102;97;99;101;7;0;7;1;0;9;116;104;105;115;70;105;101;108;100;1;0;1;73;1;0;13;67;111;110;115;116;97;110;116;86;97;108;117;101;3;0;0;0;42;1;0;9;116;104;97;116;70;105;101;108;100;1;0;1;70;4;66;41;97;229;1;0;10;116;104;105;115;77;101;116;104;111;100;1;0;3;40;41;73;1;0;10;116;104;97;116;77;101;116;104;111;100;1;0;3;40;41;70;0;0;0;2;0;4;0;2;0;6;0;8;0;2;0;0;0;9;0;10;0;1;0;11;0;0;0;2;0;12;0;0;0;13;0;14;0;1;0;11;0;0;0;2;0;15;0;2;4;0;0;16;0;17;0;0;4;0;0;18;0;19;0;0;0;0].
(* corpus/C20/r17/Flow.class (javac 17: Code, StackMapTable with four kinds of frames, LineNumberTable, LocalVariableTable) *)
Definition ex_flow : list N := [202;254;186;190;0;0;0;61;0;33;10;0;2;0;3;7;0;4;12;0;5;0;6;1;0;16;106;97;118;97;47;108;97;110;103;47;79;98;106;101;99;116;1;0;6;60;105;110;105;116;62;1;0;3;40;41;86;7;0;8;1;0;16;106;97;118;97;47;108;97;110;103;47;83;116;114;105;110;103;7;0;10;1;0;29;106;97;118;97;47;108;97;110;103;47;65;114;105;116;104;109;101;116;105;99;69;120;99;101;112;116;105;111;110;7;0;12;1;0;4;70;108;111;119;1;0;4;67;111;100;101;1;0;15;76;105;110;101;78;117;109;98;101;114;84;97;98;108;101;1;0;18;76;111;99;97;108;86;97;114;105;97;98;108;101;84;97;98;108;101;1;0;4;116;104;105;115;1;0;6;76;70;108;111;119;59;1;0;1;102;1;0;22;40;73;76;106;97;118;97;47;108;97;110;103;47;79;98;106;101;99;116;59;41;73;1;0;1;105;1;0;1;73;1;0;1;101;1;0;31;76;106;97;118;97;47;108;97;110;103;47;65;114;105;116;104;109;101;116;105;99;69;120;99;101;112;116;105;111;110;59;1;0;1;97;1;0;1;111;1;0;18;76;106;97;118;97;47;108;97;110;103;47;79;98;106;101;99;116;59;1;0;1;115;1;0;13;83;116;97;99;107;77;97;112;84;97;98;108;101;7;0;30;1;0;19;106;97;118;97;47;108;97;110;103;47;84;104;114;111;119;97;98;108;101;1;0;10;83;111;117;114;99;101;70;105;108;101;1;0;9;70;108;111;119;46;106;97;118;97;0;33;0;11;0;2;0;0;0;0;0;2;0;1;0;5;0;6;0;1;0;13;0;0;0;47;0;1;0;1;0;0;0;5;42;183;0;1;177;0;0;0;2;0;14;0;0;0;6;0;1;0;0;0;1;0;15;0;0;0;12;0;1;0;0;0;5;0;16;0;17;0;0;0;1;0;18;0;19;0;1;0;13;0;0;1;21;0;2;0;6;0;0;0;106;3;62;3;54;4;21;4;27;162;0;29;44;193;0;7;153;0;11;29;21;4;96;62;167;0;8;29;21;4;100;62;132;4;1;167;255;227;29;27;108;62;132;3;1;167;0;21;58;4;2;62;132;3;1;167;0;11;58;5;132;3;1;25;5;191;27;171;0;0;0;0;36;0;0;0;2;0;0;0;1;0;0;0;26;0;0;0;2;0;0;0;31;6;62;167;0;10;7;62;167;0;5;8;62;29;172;0;4;0;37;0;41;0;47;0;9;0;37;0;41;0;57;0;0;0;47;0;51;0;57;0;0;0;57;0;59;0;57;0;0;0;3;0;14;0;0;0;22;0;5;0;0;0;3;0;2;0;4;0;37;0;5;0;65;0;6;0;104;0;7;0;15;0;0;0;62;0;6;0;5;0;32;0;20;0;21;0;4;0;49;0;2;0;22;0;23;0;4;0;0;0;106;0;16;0;17;0;0;0;0;0;106;0;24;0;21;0;1;0;0;0;106;0;25;0;26;0;2;0;2;0;104;0;27;0;21;0;3;0;28;0;0;0;25;0;11;253;0;5;1;1;20;4;250;0;5;73;7;0;9;73;7;0;29;7;26;4;4;1;0;1;0;31;0;0;0;2;0;32].

(* corpus/C20/r8/WideConst.class (javac 17 --release 8: `long L = 1234567890123L; double D = 2.5;` and a
   method using `2L`: a pool with two CONSTANT_Long and one CONSTANT_Double, ConstantValue attributes,
   attribute names BEHIND the wide entries) *)
Definition ex_wide : list N := [202;254;186;190;0;0;0;52;0;29;10;0;2;0;3;7;0;4;12;0;5;0;6;1;0;16;106;97;118;97;47;108;97;110;103;47;79;98;106;101;99;116;1;0;6;60;105;110;105;116;62;1;0;3;40;41;86;5;0;0;0;0;0;0;0;2;7;0;10;1;0;9;87;105;100;101;67;111;110;115;116;5;0;0;1;31;113;251;4;203;1;0;1;76;1;0;1;74;1;0;13;67;111;110;115;116;97;110;116;86;97;108;117;101;1;0;1;68;6;64;4;0;0;0;0;0;0;1;0;4;67;111;100;101;1;0;15;76;105;110;101;78;117;109;98;101;114;84;97;98;108;101;1;0;18;76;111;99;97;108;86;97;114;105;97;98;108;101;84;97;98;108;101;1;0;4;116;104;105;115;1;0;11;76;87;105;100;101;67;111;110;115;116;59;1;0;5;116;119;105;99;101;1;0;4;40;74;41;74;1;0;1;97;1;0;10;83;111;117;114;99;101;70;105;108;101;1;0;14;87;105;100;101;67;111;110;115;116;46;106;97;118;97;0;33;0;9;0;2;0;0;0;2;0;25;0;13;0;14;0;1;0;15;0;0;0;2;0;11;0;25;0;16;0;16;0;1;0;15;0;0;0;2;0;17;0;2;0;1;0;5;0;6;0;1;0;19;0;0;0;47;0;1;0;1;0;0;0;5;42;183;0;1;177;0;0;0;2;0;20;0;0;0;6;0;1;0;0;0;1;0;21;0;0;0;12;0;1;0;0;0;5;0;22;0;23;0;0;0;1;0;24;0;25;0;1;0;19;0;0;0;62;0;4;0;3;0;0;0;10;31;20;0;7;105;20;0;11;97;173;0;0;0;2;0;20;0;0;0;6;0;1;0;0;0;4;0;21;0;0;0;22;0;2;0;0;0;10;0;22;0;23;0;0;0;0;0;10;0;26;0;14;0;1;0;1;0;27;0;0;0;2;0;28].

Definition example_ok (bs : list N) : bool :=
  match class_read_strict raw_env bs with
  | Ok (v, []) =>
      resolves raw_env (S (depth v)) None class_ty v
      && match class_write raw_env v with Ok out => list_eqb_N out bs | Err => false end
      && match class_length raw_env v with Ok n => N.eqb n (N.of_nat (length bs)) | Err => false end
  | _ => false
  end.

Definition nonvacuous : Prop :=
  example_ok ex_simple = true /\ example_ok ex_flow = true /\ Forall (fun b => b < 256) ex_flow.

(* pools with long/double entries: the strict reader accepts the file to its end, the value is inside
   the hypotheses of read_write, the writer reproduces the bytes and length() is their number; the
   independent 4.4.5 walk confirms that the pool is well-formed and holds an 8-byte constant *)
Definition class_has_wide (bs : list N) : bool :=
  match class_read raw_env bs with
  | Ok (VS (_ :: _ :: VL pool :: _), _) => has_wide pool
  | _ => false
  end.
Definition wide_examples : Prop :=
  (exists rest, jvms_pool_of_class wide_class_bytes = Some (true, rest) /\ length rest = 14%nat) /\
  example_ok wide_class_bytes = true /\ class_has_wide wide_class_bytes = true /\
  (exists rest, jvms_pool_of_class ex_wide = Some (true, rest)) /\
  example_ok ex_wide = true /\ class_has_wide ex_wide = true /\ Forall (fun b => b < 256) ex_wide.

Theorem wide_examples_hold : wide_examples.
Proof.
  split; [eexists; split; vm_compute; reflexivity|].
  split; [vm_compute; reflexivity|]. split; [vm_compute; reflexivity|].
  split; [eexists; vm_compute; reflexivity|].
  split; [vm_compute; reflexivity|]. split; [vm_compute; reflexivity|].
  apply Forall_forall. intros b Hb.
  assert (H : forallb (fun b => b <? 256) ex_wide = true) by (vm_compute; reflexivity).
  rewrite forallb_forall in H. apply N.ltb_lt. apply H. exact Hb.
Qed.

(* a pool whose entries do not take up exactly constant_pool_count - 1 indices is refused: count 2
   (one index) followed by a CONSTANT_Long (two indices) *)
Definition overshoot_class_bytes : list N := [202;254;186;190;0;0;0;52;0;2;5;0;0;0;0;0;0;0;1;0;33;0;0;0;0;0;0;0;0;0;0;0;0].
Theorem pool_overshoot_refused :
  class_read raw_env overshoot_class_bytes = Err /\ jvms_pool_of_class overshoot_class_bytes = None.
Proof. split; vm_compute; reflexivity. Qed.

Theorem nonvacuous_holds : nonvacuous.
Proof.
  split; [vm_compute; reflexivity|]. split; [vm_compute; reflexivity|].
  apply Forall_forall. intros b Hb.
  assert (H : forallb (fun b => b <? 256) ex_flow = true) by (vm_compute; reflexivity).
  rewrite forallb_forall in H. apply N.ltb_lt. apply H. exact Hb.
Qed.

(* ------------------------------------------------------------------ what [resolves] means for the stack map frames *)
(* (finite sweeps over the whole u8 domain, evaluated on the generated table) *)
Definition variant_index (tn vn : id) : nat :=
  match lookup raw_env tn with
  | Some (DEnum _ _ vars _) =>
      (fix find (vs : list variant) (k : nat) : nat :=
         match vs with [] => 999%nat | va :: vs' => if id_eqb (v_name va) vn then k else find vs' (S k) end) vars O
  | _ => 999%nat
  end.
Definition frame (vn : id) (fs : list val) : val := VV (variant_index "StackMapFrame"%string vn) fs.
Definition vtop : val := VV (variant_index "VerificationTypeInfo"%string "Top"%string) [].
Definition frame_resolves (v : val) : bool := resolves raw_env 3 None (Named "StackMapFrame"%string) v.
Definition upto (n : nat) : list N := map N.of_nat (seq 0 n).

Lemma upto_In b n : n < N.of_nat b -> In n (upto b).
Proof.
  intros H. unfold upto. apply in_map_iff. exists (N.to_nat n). split; [apply N2Nat.id|].
  apply in_seq. lia.
Qed.

Definition frames_closed_form : Prop :=
  (forall n, n < 256 -> frame_resolves (frame "SameFrame"%string [VN n]) = (n <=? 63)) /\
  (forall n, n < 256 -> frame_resolves (frame "SameLocals1StackItemFrame"%string [VN n; vtop]) = (n <=? 63)) /\
  (forall k, k < 256 -> frame_resolves (frame "ChopFrame"%string [VN k; VN 0]) = ((1 <=? k) && (k <=? 3))) /\
  (forall k, k < 300 -> frame_resolves (frame "AppendFrame"%string [VN 0; VL (repeat vtop (N.to_nat k))]) = ((1 <=? k) && (k <=? 3))).

Theorem frames_closed_form_holds : frames_closed_form.
Proof.
  repeat split; intros n Hn.
  - assert (H : forallb (fun n => Bool.eqb (frame_resolves (frame "SameFrame"%string [VN n])) (n <=? 63)) (upto 256) = true) by (vm_compute; reflexivity).
    rewrite forallb_forall in H. apply eqb_prop. apply H. apply upto_In. exact Hn.
  - assert (H : forallb (fun n => Bool.eqb (frame_resolves (frame "SameLocals1StackItemFrame"%string [VN n; vtop])) (n <=? 63)) (upto 256) = true) by (vm_compute; reflexivity).
    rewrite forallb_forall in H. apply eqb_prop. apply H. apply upto_In. exact Hn.
  - assert (H : forallb (fun k => Bool.eqb (frame_resolves (frame "ChopFrame"%string [VN k; VN 0])) ((1 <=? k) && (k <=? 3))) (upto 256) = true) by (vm_compute; reflexivity).
    rewrite forallb_forall in H. apply eqb_prop. apply H. apply upto_In. exact Hn.
  - assert (H : forallb (fun k => Bool.eqb (frame_resolves (frame "AppendFrame"%string [VN 0; VL (repeat vtop (N.to_nat k))])) ((1 <=? k) && (k <=? 3))) (upto 300) = true) by (vm_compute; reflexivity).
    rewrite forallb_forall in H. apply eqb_prop. apply H. apply upto_In. exact Hn.
Qed.
