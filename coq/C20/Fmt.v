(* C20 — deep embedding of the [notation!] language of raw_class_file/src/macros.rs and its three
   interpreters (write / read / len), written once, arm by arm after the macro.

   Executable definitions only (no proofs).  The declarations themselves are NOT here: they are
   generated from raw_class_file/src/lib.rs by translate/c20_raw_notation.py into RawGen.v.

   Correspondence with macros.rs (arm -> definition):
     (write, …, u8|u16|u32)            enc
     (write, …, Vec<it> [iat])         write_ty, VCount: [len() as iat] is a silent truncation
     (write, …, Vec<it>) / {l}         write_ty, VLen: nothing is written for the length
     (write, … ;nowrite)               write_fields, FMut with Some e: nothing written
     (write, …, $t:ty)                 write_sty (Named n): v._write
     (read, … ;nowrite = e)            read_fields, FMut with Some e: value := e, nothing consumed
     (read, …, Vec<it> [iat] / {l})    read_ty
     (read, …, Vec<it> slots {l})      read_ty, VSlots / read_slots: elements are read until exactly l
                                       indices are used up, an element taking `slots()` of them
                                       (impl CpInfo::slots: 2 for the variants flagged [v_wide], else 1)
     (read, …, u8|u16|u32)             dec (read_exact: Err at end of input)
     (check, c, literal)               read_fields, FConst with a literal expression: compared
     (check, c, expr)                  read_fields, FConst otherwise: bound, not compared
     (len, …)                          len_* (never evaluates an expression)
     struct / enum definitions         write_sty / read_sty / len_sty at [Named n]
   Integer arithmetic inside [expr] is done at the Rust type of the expression ([ce_aw] bits);
   overflow and underflow are [Err] (the harness is built with overflow checks: a panic), casts
   [as u8/u16/u32] truncate silently. *)
From FB Require Export Base.Str.
From Coq Require Export String.
From Coq Require Export List.
Export ListNotations.
Open Scope N_scope.

Definition id := string.
Definition id_eqb (a b : id) : bool := String.eqb a b.

Inductive width := W8 | W16 | W32.
Definition wbits (w : width) : N := match w with W8 => 8 | W16 => 16 | W32 => 32 end.
Definition wbytes (w : width) : nat := match w with W8 => 1%nat | W16 => 2%nat | W32 => 4%nat end.
Definition wmod (w : width) : N := match w with W8 => 256 | W16 => 65536 | W32 => 4294967296 end.
Definition trunc (w : width) (n : N) : N := n mod wmod w.

(* expressions over the variables in scope *)
Inductive expr :=
| ELit (n : N)
| EVar (x : id)          (* a number held by a field / const / tag / pattern variable *)
| ELen (x : id)          (* x.len() of a vector field *)
| ESlots (x elt : id)    (* pool_slots(&this.x): sum of slots() over the vector field x of [elt]s *)
| ESelfLen               (* this._len() *)
| EAdd (a b : expr) | ESub (a b : expr) | EMul (a b : expr).
(* an expression together with the width (in bits) of the Rust integer type it is computed at:
   8/16/32 for u8/u16/u32, 64 for usize *)
Record cexpr := CE { ce_aw : N; ce_e : expr }.

(* element types (a single token in the macro) and field types *)
Inductive sty := Prim (w : width) | Named (n : id).
Inductive veck :=
| VCount (w : width)     (* Vec<it> [iat]: count of type iat in front *)
| VLen (e : cexpr)       (* Vec<it> {l}: length given by an expression, nothing written *)
| VSlots (e : cexpr).    (* Vec<it> slots {l}: number of indices taken up given by an expression *)
Inductive ty := One (t : sty) | Vec (t : sty) (k : veck).

Inductive field :=
| FConst (x : id) (w : width) (e : cexpr)
| FMut (x : id) (t : ty) (nowrite : option cexpr) (setpool : bool).

Inductive pat :=
| PLit (n : N)                          (* 7 => / b'B' => *)
| PRange (x : option id) (lo hi : N)    (* k @ lo..=hi *)
| PBind (x : id).                       (* catch-all binding *)
Inductive guard :=
| GNone
| GPoolUtf8 (idx : cexpr) (s : list N). (* if pool_has_utf8(pool, idx, b"...")? *)

(* [v_wide]: `slots()` of the variant is 2 (impl CpInfo: Long, Double), otherwise 1 *)
Record variant := Variant { v_name : id; v_tagw : cexpr; v_pat : pat; v_guard : guard; v_fields : list field;
                            v_wide : bool }.

Inductive decl :=
| DStruct (fs : list field)
| DEnum (tagvar : id) (tagty : width) (vs : list variant) (fallthrough : bool).

Definition denv := list (id * decl).

Fixpoint lookup {A} (l : list (id * A)) (x : id) : option A :=
  match l with
  | [] => None
  | (y, a) :: l' => if id_eqb x y then Some a else lookup l' x
  end.

(* generic values: only [mut] fields are stored, positionally, in declaration order *)
Inductive val :=
| VN (n : N)
| VL (l : list val)
| VS (fs : list val)                (* struct *)
| VV (k : nat) (fs : list val).     (* enum: index of the variant in the declaration *)

Definition venv := list (id * val).

(* ---------- big-endian integers ---------- *)
Fixpoint be (k : nat) (n : N) : list N :=
  match k with
  | O => []
  | S k' => be k' (n / 256) ++ [n mod 256]
  end.
Definition enc (w : width) (n : N) : list N := be (wbytes w) (trunc w n).

Fixpoint unbe (acc : N) (k : nat) (bs : list N) : res (N * list N) :=
  match k with
  | O => Ok (acc, bs)
  | S k' => match bs with
            | [] => Err
            | b :: bs' => unbe (acc * 256 + b) k' bs'
            end
  end.
Definition dec (w : width) (bs : list N) : res (N * list N) := unbe 0 (wbytes w) bs.

(* ---------- slots(): how many indices an element of a `slots` vector takes up ---------- *)
(* fn slots(&self) of an enum: 2 for the flagged variants, 1 otherwise (anything that is not a
   value of a declared enum: 1) *)
Definition is_wide (D : denv) (elt : id) (v : val) : bool :=
  match lookup D elt, v with
  | Some (DEnum _ _ vars _), VV k _ => match nth_error vars k with Some va => v_wide va | None => false end
  | _, _ => false
  end.
Definition slots1 (wide : val -> bool) (v : val) : N := if wide v then 2 else 1.
(* fn pool_slots: pool.iter().map(CpInfo::slots).sum() *)
Fixpoint slots_of (wide : val -> bool) (l : list val) : N :=
  match l with [] => 0 | v :: l' => slots1 wide v + slots_of wide l' end.

(* ---------- expressions ---------- *)
Fixpoint eval (D : denv) (aw : N) (env : venv) (sl : res N) (e : expr) : res N :=
  match e with
  | ELit n => Ok n
  | EVar x => match lookup env x with Some (VN n) => Ok n | _ => Err end
  | ELen x => match lookup env x with Some (VL l) => Ok (N.of_nat (length l)) | _ => Err end
  | ESlots x elt => match lookup env x with Some (VL l) => Ok (slots_of (is_wide D elt) l) | _ => Err end
  | ESelfLen => do n <- sl; if n <? 4294967296 then Ok n else Err   (* _len() : u32 *)
  | EAdd a b => do x <- eval D aw env sl a; do y <- eval D aw env sl b;
                if x + y <? 2 ^ aw then Ok (x + y) else Err
  | ESub a b => do x <- eval D aw env sl a; do y <- eval D aw env sl b;
                if y <=? x then Ok (x - y) else Err
  | EMul a b => do x <- eval D aw env sl a; do y <- eval D aw env sl b;
                if x * y <? 2 ^ aw then Ok (x * y) else Err
  end.
Definition ceval (D : denv) (env : venv) (sl : res N) (e : cexpr) : res N := eval D (ce_aw e) env sl (ce_e e).

(* names of the mut fields zipped with the stored values: what `self.f` / the match bindings see *)
Fixpoint bind_fields (fs : list field) (vs : list val) : venv :=
  match fs with
  | [] => []
  | FConst _ _ _ :: fs' => bind_fields fs' vs
  | FMut x _ _ _ :: fs' => match vs with
                           | [] => []
                           | v :: vs' => (x, v) :: bind_fields fs' vs'
                           end
  end.

(* ---------- len ---------- *)
Fixpoint sum_map (f : val -> res N) (l : list val) : res N :=
  match l with
  | [] => Ok 0
  | v :: l' => do a <- f v; do b <- sum_map f l'; Ok (a + b)
  end.

Definition len_ty (rec : sty -> val -> res N) (t : ty) (v : val) : res N :=
  match t with
  | One s => rec s v
  | Vec s k =>
      match v with
      | VL l => do n <- sum_map (rec s) l;
                Ok (match k with VCount w => N.of_nat (wbytes w) | VLen _ | VSlots _ => 0 end + n)
      | _ => Err
      end
  end.

Fixpoint len_fields (rec : sty -> val -> res N) (fs : list field) (vs : list val) : res N :=
  match fs with
  | [] => match vs with [] => Ok 0 | _ => Err end
  | FConst _ w _ :: fs' => do n <- len_fields rec fs' vs; Ok (N.of_nat (wbytes w) + n)
  | FMut _ t nw _ :: fs' =>
      match vs with
      | [] => Err
      | v :: vs' =>
          do a <- match nw with Some _ => Ok 0 | None => len_ty rec t v end;
          do n <- len_fields rec fs' vs'; Ok (a + n)
      end
  end.

Fixpoint len_sty (D : denv) (fuel : nat) (t : sty) (v : val) {struct fuel} : res N :=
  match t with
  | Prim w => match v with VN _ => Ok (N.of_nat (wbytes w)) | _ => Err end
  | Named n =>
      match fuel with
      | O => Err
      | S f =>
          match lookup D n, v with
          | Some (DStruct fs), VS vs => len_fields (len_sty D f) fs vs
          | Some (DEnum _ tw vars _), VV k vs =>
              match nth_error vars k with
              | None => Err
              | Some va => do n <- len_fields (len_sty D f) (v_fields va) vs; Ok (N.of_nat (wbytes tw) + n)
              end
          | _, _ => Err
          end
      end
  end.

(* ---------- write ---------- *)
Fixpoint concat_map (f : val -> res (list N)) (l : list val) : res (list N) :=
  match l with
  | [] => Ok []
  | v :: l' => do a <- f v; do b <- concat_map f l'; Ok (a ++ b)
  end.

Definition write_ty (rec : sty -> val -> res (list N)) (t : ty) (v : val) : res (list N) :=
  match t with
  | One s => rec s v
  | Vec s k =>
      match v with
      | VL l => do body <- concat_map (rec s) l;
                Ok (match k with VCount w => enc w (N.of_nat (length l)) | VLen _ | VSlots _ => [] end ++ body)
      | _ => Err
      end
  end.

(* [ev]: evaluation of a const/tag expression in the scope of the record being written *)
Fixpoint write_fields (rec : sty -> val -> res (list N)) (ev : cexpr -> res N)
         (fs : list field) (vs : list val) : res (list N) :=
  match fs with
  | [] => match vs with [] => Ok [] | _ => Err end
  | FConst _ w e :: fs' => do n <- ev e; do r <- write_fields rec ev fs' vs; Ok (enc w n ++ r)
  | FMut _ t nw _ :: fs' =>
      match vs with
      | [] => Err
      | v :: vs' =>
          do a <- match nw with Some _ => Ok [] | None => write_ty rec t v end;
          do r <- write_fields rec ev fs' vs'; Ok (a ++ r)
      end
  end.

Fixpoint write_sty (D : denv) (fuel : nat) (t : sty) (v : val) {struct fuel} : res (list N) :=
  match t with
  | Prim w => match v with VN n => Ok (enc w n) | _ => Err end
  | Named n =>
      match fuel with
      | O => Err
      | S f =>
          match lookup D n, v with
          | Some (DStruct fs), VS vs =>
              write_fields (write_sty D f) (ceval D (bind_fields fs vs) (len_sty D fuel t v)) fs vs
          | Some (DEnum _ tw vars _), VV k vs =>
              match nth_error vars k with
              | None => Err
              | Some va =>
                  let ev := ceval D (bind_fields (v_fields va) vs) (len_sty D fuel t v) in
                  do tg <- ev (v_tagw va);
                  do body <- write_fields (write_sty D f) ev (v_fields va) vs;
                  Ok (enc tw tg ++ body)
              end
          | _, _ => Err
          end
      end
  end.

(* ---------- read ---------- *)
Definition pool := option (list val).

(* fn pool_has_utf8(pool, index, value) of lib.rs: Err without pool, for an index no entry starts at
   (0, the second index of a Long/Double, past the end), and for an entry that is not CpInfo::Utf8 *)
Definition utf8_variant (D : denv) : option nat :=
  match lookup D "CpInfo"%string with
  | Some (DEnum _ _ vars _) =>
      (fix find (vs : list variant) (k : nat) : option nat :=
         match vs with
         | [] => None
         | va :: vs' => if id_eqb (v_name va) "Utf8"%string then Some k else find vs' (S k)
         end) vars O
  | _ => None
  end.
Fixpoint bytes_eqb (l : list val) (s : list N) : bool :=
  match l, s with
  | [], [] => true
  | VN a :: l', b :: s' => N.eqb a b && bytes_eqb l' s'
  | _, _ => false
  end.
(* fn pool_get(pool, index): the entry that starts at [index], the first entry starting at 1 and an
   entry taking up slots() indices *)
Fixpoint pool_get (wide : val -> bool) (entries : list val) (slot index : N) : option val :=
  match entries with
  | [] => None
  | e :: r => if index <=? slot then (if slot =? index then Some e else None)
              else pool_get wide r (slot + slots1 wide e) index
  end.
Definition pool_has_utf8 (D : denv) (p : pool) (index : N) (s : list N) : res bool :=
  match p with
  | None => Err
  | Some entries =>
      match pool_get (is_wide D "CpInfo"%string) entries 1 index, utf8_variant D with
      | Some (VV k [VL bytes]), Some ku => if Nat.eqb k ku then Ok (bytes_eqb bytes s) else Err
      | _, _ => Err
      end
  end.

Definition guard_eval (D : denv) (p : pool) (env : venv) (g : guard) : res bool :=
  match g with
  | GNone => Ok true
  | GPoolUtf8 idx s => do i <- ceval D env Err idx; pool_has_utf8 D p i s
  end.

Definition pat_match (p : pat) (tg : N) : option venv :=
  match p with
  | PLit n => if tg =? n then Some [] else None
  | PRange x lo hi =>
      if (lo <=? tg) && (tg <=? hi)
      then Some (match x with Some x => [(x, VN tg)] | None => [] end) else None
  | PBind x => Some [(x, VN tg)]
  end.

(* the `match tag { pat if guard => …, …, _ => Err }` of an enum's _read: first arm whose pattern
   matches and whose guard is true; a guard that fails with `?` makes the whole read fail *)
Fixpoint select (D : denv) (p : pool) (env0 : venv) (tg : N) (vars : list variant) (k : nat)
  : res (nat * variant * venv) :=
  match vars with
  | [] => Err
  | va :: vars' =>
      match pat_match (v_pat va) tg with
      | None => select D p env0 tg vars' (S k)
      | Some b =>
          do g <- guard_eval D p (b ++ env0) (v_guard va);
          if g then Ok (k, va, b ++ env0) else select D p env0 tg vars' (S k)
      end
  end.

Fixpoint read_n (rd : list N -> res (val * list N)) (k : nat) (bs : list N) : res (list val * list N) :=
  match k with
  | O => Ok ([], bs)
  | S k' => do (v, bs1) <- rd bs; do (vs, bs2) <- read_n rd k' bs1; Ok (v :: vs, bs2)
  end.
(* `for _ in 0..len`: more elements announced than bytes left can only end in end-of-input,
   because every element of a declared type occupies at least one byte ([denv_wf]) *)
Definition read_vec (rd : list N -> res (val * list N)) (n : N) (bs : list N) : res (val * list N) :=
  if n <=? N.of_nat (length bs)
  then do (vs, bs') <- read_n rd (N.to_nat n) bs; Ok (VL vs, bs')
  else Err.

(* `while used < slots { read; used += i.slots() }  if used != slots { Err }`: [k] = slots - used.
   An element takes one or two indices, so the loop runs at most [k] times; a two-index element
   with one index left overshoots (Err). *)
Fixpoint read_slots (rd : list N -> res (val * list N)) (wide : val -> bool) (k : nat) (bs : list N)
  : res (list val * list N) :=
  match k with
  | O => Ok ([], bs)
  | S k' =>
      do (v, bs1) <- rd bs;
      if wide v
      then match k' with
           | O => Err
           | S k'' => do (vs, bs2) <- read_slots rd wide k'' bs1; Ok (v :: vs, bs2)
           end
      else do (vs, bs2) <- read_slots rd wide k' bs1; Ok (v :: vs, bs2)
  end.

Definition wide_sty (D : denv) (s : sty) : val -> bool :=
  match s with Named n => is_wide D n | Prim _ => fun _ => false end.

Definition read_ty (D : denv) (rec : pool -> sty -> list N -> res (val * list N)) (p : pool) (env : venv)
           (t : ty) (bs : list N) : res (val * list N) :=
  match t with
  | One s => rec p s bs
  | Vec s (VCount w) => do (n, bs1) <- dec w bs; read_vec (rec p s) n bs1
  | Vec s (VLen e) => do n <- ceval D env Err e; read_vec (rec p s) n bs
  | Vec s (VSlots e) => do n <- ceval D env Err e;
                        do (vs, bs') <- read_slots (rec p s) (wide_sty D s) (N.to_nat n) bs; Ok (VL vs, bs')
  end.

Definition lit_of (e : cexpr) : option N := match ce_e e with ELit m => Some m | _ => None end.

(* what a record's _read returns, plus the computed (non-literal) consts it met — the macro binds
   them and never looks at them again; the strict reader compares them afterwards *)
Definition cobs := list (width * cexpr * N).

Fixpoint read_fields (D : denv) (rec : pool -> sty -> list N -> res (val * list N)) (p : pool) (env : venv)
         (fs : list field) (bs : list N) : res (list val * cobs * list N) :=
  match fs with
  | [] => Ok ([], [], bs)
  | FConst x w e :: fs' =>
      do (n, bs1) <- dec w bs;
      match lit_of e with
      | Some m => if n =? m
                  then read_fields D rec p ((x, VN n) :: env) fs' bs1
                  else Err
      | None => do (vs, cs, bs2) <- read_fields D rec p ((x, VN n) :: env) fs' bs1;
                Ok (vs, (w, e, n) :: cs, bs2)
      end
  | FMut x t (Some e) sp :: fs' =>
      do n <- ceval D env Err e;
      do (vs, cs, bs2) <- read_fields D rec p ((x, VN n) :: env) fs' bs;
      Ok (VN n :: vs, cs, bs2)
  | FMut x t None sp :: fs' =>
      do (v, bs1) <- read_ty D rec p env t bs;
      let p' := if sp then match v with VL l => Some l | _ => None end else p in
      do (vs, cs, bs2) <- read_fields D rec p' ((x, v) :: env) fs' bs1;
      Ok (v :: vs, cs, bs2)
  end.

(* strict mode: the computed consts and the tag found in the input are the ones _write would emit *)
Fixpoint consts_agree (ev : cexpr -> res N) (cs : cobs) : bool :=
  match cs with
  | [] => true
  | (w, e, n) :: cs' =>
      match ev e with Ok m => N.eqb (trunc w m) n | Err => false end && consts_agree ev cs'
  end.

Fixpoint read_sty (D : denv) (strict : bool) (fuel : nat) (p : pool) (t : sty) (bs : list N)
         {struct fuel} : res (val * list N) :=
  match t with
  | Prim w => do (n, bs') <- dec w bs; Ok (VN n, bs')
  | Named n =>
      match fuel with
      | O => Err
      | S f =>
          match lookup D n with
          | Some (DStruct fs) =>
              do (vs, cs, bs') <- read_fields D (read_sty D strict f) p [] fs bs;
              let v := VS vs in
              if negb strict || consts_agree (ceval D (bind_fields fs vs) (len_sty D fuel t v)) cs
              then Ok (v, bs') else Err
          | Some (DEnum tv tw vars _) =>
              do (tg, bs1) <- dec tw bs;
              do (k, va, env) <- select D p [(tv, VN tg)] tg vars O;
              do (vs, cs, bs') <- read_fields D (read_sty D strict f) p env (v_fields va) bs1;
              let v := VV k vs in
              let ev := ceval D (bind_fields (v_fields va) vs) (len_sty D fuel t v) in
              if negb strict ||
                 (match ev (v_tagw va) with Ok m => N.eqb (trunc tw m) tg | Err => false end
                  && consts_agree ev cs)
              then Ok (v, bs') else Err
          | None => Err
          end
      end
  end.

(* ---------- conditions under which the reader retraces the writer ---------- *)
(* [fits]: every number is below 2^width of its type and every counted vector is shorter than
   2^width of its count (otherwise `as u16`/`as u32` truncates the count silently) *)
Fixpoint all_map (f : val -> bool) (l : list val) : bool :=
  match l with [] => true | v :: l' => f v && all_map f l' end.

(* [resolves]: walking the value as _write does and keeping the environment _read will have at
   that point ([renv]: consts as truncated by their width, fields as stored), check locally that
   - numbers and counts fit (above),
   - a literal const fits its width (so the reader's comparison succeeds),
   - a {len} expression evaluates, in the reader's scope, to the number of elements present,
   - a slots {len} expression evaluates, in the reader's scope, to the number of indices the
     elements present take up,
   - a nowrite expression evaluates, in the reader's scope, to the stored number,
   - the first arm of the enum that accepts the written tag is the value's own variant. *)
Definition res_ty (D : denv) (rec : pool -> sty -> val -> bool) (p : pool) (renv : venv) (t : ty) (v : val) : bool :=
  match t with
  | One s => rec p s v
  | Vec s k =>
      match v with
      | VL l =>
          match k with
          | VCount w => N.of_nat (length l) <? wmod w
          | VLen e => match ceval D renv Err e with Ok n => N.eqb n (N.of_nat (length l)) | Err => false end
          | VSlots e => match ceval D renv Err e with Ok n => N.eqb n (slots_of (wide_sty D s) l) | Err => false end
          end && all_map (rec p s) l
      | _ => false
      end
  end.

Fixpoint res_fields (D : denv) (rec : pool -> sty -> val -> bool) (ev : cexpr -> res N) (p : pool) (renv : venv)
         (fs : list field) (vs : list val) : bool :=
  match fs with
  | [] => match vs with [] => true | _ => false end
  | FConst x w e :: fs' =>
      match ev e with
      | Ok n => match lit_of e with Some m => m <? wmod w | None => true end
                && res_fields D rec ev p ((x, VN (trunc w n)) :: renv) fs' vs
      | Err => false
      end
  | FMut x t (Some e) sp :: fs' =>
      match vs with
      | VN n :: vs' =>
          match ceval D renv Err e with Ok m => N.eqb m n | Err => false end
          && res_fields D rec ev p ((x, VN n) :: renv) fs' vs'
      | _ => false
      end
  | FMut x t None sp :: fs' =>
      match vs with
      | v :: vs' =>
          res_ty D rec p renv t v
          && res_fields D rec ev (if sp then match v with VL l => Some l | _ => None end else p)
                        ((x, v) :: renv) fs' vs'
      | [] => false
      end
  end.

Fixpoint resolves (D : denv) (fuel : nat) (p : pool) (t : sty) (v : val) {struct fuel} : bool :=
  match t with
  | Prim w => match v with VN n => n <? wmod w | _ => false end
  | Named n =>
      match fuel with
      | O => false
      | S f =>
          match lookup D n, v with
          | Some (DStruct fs), VS vs =>
              res_fields D (resolves D f) (ceval D (bind_fields fs vs) (len_sty D fuel t v)) p [] fs vs
          | Some (DEnum tv tw vars _), VV k vs =>
              match nth_error vars k with
              | None => false
              | Some va =>
                  let ev := ceval D (bind_fields (v_fields va) vs) (len_sty D fuel t v) in
                  match ev (v_tagw va) with
                  | Err => false
                  | Ok m =>
                      let tg := trunc tw m in
                      match select D p [(tv, VN tg)] tg vars O with
                      | Ok (k', _, env) => Nat.eqb k' k && res_fields D (resolves D f) ev p env (v_fields va) vs
                      | Err => false
                      end
                  end
              end
          | _, _ => false
          end
      end
  end.

(* ---------- well-formedness of an environment: every element type of a vector occupies at
   least one byte (an enum always does: its tag) ---------- *)
Definition field_nonempty (f : field) : bool :=
  match f with
  | FConst _ _ _ => true
  | FMut _ (One (Prim _)) None _ => true
  | FMut _ (Vec _ (VCount _)) None _ => true
  | _ => false
  end.
Definition named_nonempty (D : denv) (n : id) : bool :=
  match lookup D n with
  | Some (DStruct fs) => existsb field_nonempty fs
  | Some (DEnum _ _ _ _) => true
  | None => true   (* unknown type: nothing can be written at all *)
  end.
Definition sty_nonempty (D : denv) (s : sty) : bool :=
  match s with Prim _ => true | Named n => named_nonempty D n end.
Definition field_wf (D : denv) (f : field) : bool :=
  match f with
  | FMut _ (Vec s _) _ _ => sty_nonempty D s
  | _ => true
  end.
Definition decl_wf (D : denv) (d : decl) : bool :=
  match d with
  | DStruct fs => forallb (field_wf D) fs
  | DEnum _ _ vars _ => forallb (fun va => forallb (field_wf D) (v_fields va)) vars
  end.
Definition denv_wf (D : denv) : bool := forallb (fun nd => decl_wf D (snd nd)) D.

(* ---------- symbolic check of a length const against the fields that follow it ----------
   [attr_len_ok tw fs]: in a variant whose tag is [tw] wide and whose fields are [fs], the first
   thing written after the tag is a u32 that holds the number of bytes written after it:
     - `this._len() - 6` with a two-byte tag (2 + 4 = 6), or
     - a literal m and only fixed-size fields summing to m, or
     - `c + k * x.len()` followed by exactly the vector x of k-byte numbers behind a c-byte count, or
     - no const at all: the u32 count of a vector of bytes that is the whole rest. *)
Fixpoint skip_nowrite (fs : list field) : list id * list field :=
  match fs with
  | FMut x _ (Some _) _ :: fs' => let (ns, r) := skip_nowrite fs' in (x :: ns, r)
  | _ => ([], fs)
  end.
Fixpoint fixed_size (fs : list field) : option N :=
  match fs with
  | [] => Some 0
  | FConst _ w _ :: fs' => option_map (N.add (N.of_nat (wbytes w))) (fixed_size fs')
  | FMut _ (One (Prim w)) None _ :: fs' => option_map (N.add (N.of_nat (wbytes w))) (fixed_size fs')
  | FMut _ _ (Some _) _ :: fs' => fixed_size fs'
  | _ => None
  end.
Definition attr_len_ok (tw : width) (fs : list field) : bool :=
  let (names, rest) := skip_nowrite fs in
  match rest with
  | FConst _ W32 (CE _ (ESub ESelfLen (ELit six))) :: _ => N.eqb six 6 && match tw with W16 => true | _ => false end
  | FConst _ W32 (CE _ (ELit m)) :: rest' =>
      match fixed_size rest' with Some n => N.eqb n m | None => false end
  | FConst _ W32 (CE _ (EAdd (ELit c) (EMul (ELit k) (ELen x)))) :: [FMut y (Vec (Prim w) (VCount cw)) None _] =>
      id_eqb x y && N.eqb c (N.of_nat (wbytes cw)) && N.eqb k (N.of_nat (wbytes w))
      && negb (existsb (id_eqb x) names)
  | [FMut _ (Vec (Prim W8) (VCount W32)) None _] => true
  | _ => false
  end.

(* ---------- nesting depth of a value: fuel that suffices to write it ---------- *)
Fixpoint depth (v : val) : nat :=
  match v with
  | VN _ => O
  | VL l => (fix go (l : list val) : nat := match l with [] => O | x :: l' => Nat.max (depth x) (go l') end) l
  | VS fs => S ((fix go (l : list val) : nat := match l with [] => O | x :: l' => Nat.max (depth x) (go l') end) fs)
  | VV _ fs => S ((fix go (l : list val) : nat := match l with [] => O | x :: l' => Nat.max (depth x) (go l') end) fs)
  end.

(* ---------- the public functions of lib.rs ---------- *)
Definition class_ty : sty := Named "ClassFile"%string.
(* ClassFile::to_bytes / write *)
Definition class_write (D : denv) (v : val) : res (list N) := write_sty D (S (depth v)) class_ty v.
(* ClassFile::length: u32 arithmetic, overflow checks on *)
Definition class_length (D : denv) (v : val) : res N :=
  do n <- len_sty D (S (depth v)) class_ty v; if n <? 4294967296 then Ok n else Err.
(* ClassFile::read (no pool yet, trailing bytes are not looked at) *)
Definition class_read (D : denv) (bs : list N) : res (val * list N) :=
  read_sty D false (S (S (length bs))) None class_ty bs.
(* a file is canonical for D when, in addition, every computed count/length/tag in it is the one
   the declarations compute *)
Definition class_read_strict (D : denv) (bs : list N) : res (val * list N) :=
  read_sty D true (S (S (length bs))) None class_ty bs.
