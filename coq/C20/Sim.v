(* C20 — when does a reader generated from one table of declarations (the specification side, S)
   accept only inputs that the reader generated from another table (the implementation side, D)
   accepts as well, consuming the same bytes?  A decidable comparison [env_compat S D] of the two
   tables; its soundness is proved once, for all tables, in SimTheory.v.  Executable definitions
   only.

   The comparison walks the two declarations in step:
   - items that occupy bytes must agree in width / element type / kind of count; length and index
     expressions evaluated while reading must be the same expression up to the names of the
     variables, which are tracked as a set of linked pairs [vlink] (both hold the same number);
   - items that occupy no byte (nowrite) may occur on the S side alone; on the D side either paired
     with an S item computing the same number, or of the form `y := x` with x a variable that surely
     holds a number (the tag, a pattern variable, an earlier number) — such an item cannot fail;
   - a literal item must be the same literal on both sides; a computed item (only compared by the
     strict reader) must be justified by one of the [ckind] rules;
   - alternatives of a union are compared in order: same pattern, same guard, same two-index flag;
     or, for a union with a one-byte tag and no guards, tag by tag (the order is then immaterial);
   - on the D side the tag written must be the tag read ([tag_ok]): a static rule for `x => *x`
     alternatives, a sweep over the (at most 1024) tag values of a literal / range pattern otherwise. *)
From FB Require Export C20.Fmt.
Open Scope N_scope.

Definition cpn : id := "CpInfo"%string.

Definition wd_eqb (a b : width) : bool :=
  match a, b with W8, W8 | W16, W16 | W32, W32 => true | _, _ => false end.
Definition st_eqb (a b : sty) : bool :=
  match a, b with
  | Prim x, Prim y => wd_eqb x y
  | Named x, Named y => id_eqb x y
  | _, _ => false
  end.
Fixpoint leqbN (a b : list N) : bool :=
  match a, b with [], [] => true | x :: a', y :: b' => N.eqb x y && leqbN a' b' | _, _ => false end.

(* ------------------------------------------------------------------ linked variables *)
Definition vlink := list (id * id).
Definition in_link (r : vlink) (x y : id) : bool := existsb (fun ab => id_eqb (fst ab) x && id_eqb (snd ab) y) r.

Fixpoint expr_compat (r : vlink) (a b : expr) : bool :=
  match a, b with
  | ELit n, ELit m => N.eqb n m
  | EVar x, EVar y => in_link r x y
  | EAdd a1 a2, EAdd b1 b2 => expr_compat r a1 b1 && expr_compat r a2 b2
  | ESub a1 a2, ESub b1 b2 => expr_compat r a1 b1 && expr_compat r a2 b2
  | EMul a1 a2, EMul b1 b2 => expr_compat r a1 b1 && expr_compat r a2 b2
  | _, _ => false
  end.
Definition cexpr_compat (r : vlink) (a b : cexpr) : bool :=
  N.eqb (ce_aw a) (ce_aw b) && expr_compat r (ce_e a) (ce_e b).

Definition drop_l (x : id) (r : vlink) : vlink := filter (fun ab => negb (id_eqb (fst ab) x)) r.
Definition drop_r (y : id) (r : vlink) : vlink := filter (fun ab => negb (id_eqb (snd ab) y)) r.
(* both sides bind a new variable: to unrelated values / to the same number *)
Definition link_unrel (x y : id) (r : vlink) : vlink := drop_l x (drop_r y r).
Definition link_both (x y : id) (r : vlink) : vlink := (x, y) :: link_unrel x y r.
(* the S side alone binds [x := e]; if e is a variable, x inherits its links *)
Definition evar_of (e : cexpr) : option id := match ce_e e with EVar y => Some y | _ => None end.
Definition link_l (x : id) (e : cexpr) (r : vlink) : vlink :=
  match evar_of e with
  | Some y => map (fun ab => (x, snd ab)) (filter (fun ab => id_eqb (fst ab) y) r)
  | None => []
  end ++ drop_l x r.

(* the D side alone binds [y := e] *)
Definition link_r (y : id) (e : cexpr) (r : vlink) : vlink :=
  match evar_of e with
  | Some z => map (fun ab => (fst ab, y)) (filter (fun ab => id_eqb (snd ab) z) r)
  | None => []
  end ++ drop_r y r.

(* ------------------------------------------------------------------ items *)
Definition plain_ty (t : ty) : bool := match t with One (Prim _) | Vec (Prim _) _ => true | _ => false end.
Definition is_cp_vec (t : ty) : bool := match t with Vec (Named n) _ => id_eqb n cpn | _ => false end.
Definition slots_sty_ok (s : sty) : bool := match s with Prim _ => true | Named n => id_eqb n cpn end.
Definition ty_compat (r : vlink) (a b : ty) : bool :=
  match a, b with
  | One s, One s' => st_eqb s s'
  | Vec s (VCount w), Vec s' (VCount w') => st_eqb s s' && wd_eqb w w'
  | Vec s (VLen e), Vec s' (VLen e') => st_eqb s s' && cexpr_compat r e e'
  | Vec s (VSlots e), Vec s' (VSlots e') => st_eqb s s' && cexpr_compat r e e' && slots_sty_ok s
  | _, _ => false
  end.

(* how a pair of computed items is justified:
   CAttr     the only computed item of an alternative with a u2 tag, on both sides the first item
             behind the tag, and both alternatives pass [attr_len_ok]: either expression is the
             number of bytes that follow (`this._len() - 6`, `2 + 2 * n` in front of n u2 items, …)
   CSlots x  both: `pool_slots(x) + c` over the slot-counted table x of CpInfo, x being an item of
             both records at the same place *)
Inductive ckind := CAttr | CSlots (x : id).
Definition const_kind (eS eD : cexpr) : ckind :=
  match ce_e eS, ce_e eD with
  | EAdd (ESlots x n) (ELit c), EAdd (ESlots x' n') (ELit c') =>
      if N.eqb (ce_aw eS) (ce_aw eD) && id_eqb x x' && id_eqb n cpn && id_eqb n' cpn && N.eqb c c'
      then CSlots x else CAttr
  | _, _ => CAttr
  end.

Record fcert := FC { fc_plain : bool; fc_wl : list id; fc_kinds : list ckind }.
Definition rm (x : id) (l : list id) : list id := filter (fun y => negb (id_eqb y x)) l.

(* the D item that an S nowrite item is paired with: a nowrite item computing the same number *)
Definition nw_pair (r : vlink) (eS : cexpr) (fsD : list field) : option (id * list field) :=
  match fsD with
  | FMut xD _ (Some eD) _ :: rD => if cexpr_compat r eS eD then Some (xD, rD) else None
  | _ => None
  end.

(* D items that occupy no byte and have no S counterpart, in front of the next common item:
   [hS] is the expression of the S item at hand when that occupies no byte either (a D item it pairs
   with is left for it); [bd]: D variables that surely hold a number.
   Returns the links, the bound variables, the names skipped and the remaining D items. *)
Fixpoint dskip (hS : option cexpr) (r : vlink) (bd : list id) (fsD : list field) : vlink * list id * list id * list field :=
  match fsD with
  | FMut xD _ (Some eD) _ :: rD =>
      if match hS with Some eS => cexpr_compat r eS eD | None => false end then (r, bd, [], fsD)
      else match evar_of eD with
           | Some z => if existsb (id_eqb z) bd
                       then match dskip hS (link_r xD eD r) (xD :: bd) rD with
                            | (r', bd', sk, f') => (r', bd', xD :: sk, f')
                            end
                       else (r, bd, [], fsD)
           | None => (r, bd, [], fsD)
           end
  | _ => (r, bd, [], fsD)
  end.
Definition is_nil {A} (l : list A) : bool := match l with [] => true | _ => false end.
Definition adjust (sk : list id) (c : fcert) : fcert :=
  FC (fc_plain c && is_nil sk) (fold_right rm (fc_wl c) sk) (fc_kinds c).
Definition nw_head (f : field) : option cexpr := match f with FMut _ _ (Some e) _ => Some e | _ => None end.

Fixpoint fields_compat (r : vlink) (bd : list id) (fsS fsD : list field) {struct fsS} : option fcert :=
  match fsS with
  | [] => match dskip None r bd fsD with
          | (_, _, sk, []) => Some (adjust sk (FC true [] []))
          | _ => None
          end
  | fS :: rS =>
      match dskip (nw_head fS) r bd fsD with
      | (r, bd, sk, fsD) =>
        option_map (adjust sk)
        match fS with
        | FConst xS wS eS =>
            match fsD with
            | FConst xD wD eD :: rD =>
                if wd_eqb wS wD then
                  match lit_of eS, lit_of eD with
                  | Some m, Some m' => if N.eqb m m' then fields_compat (link_both xS xD r) (xD :: bd) rS rD else None
                  | None, None =>
                      option_map (fun c => FC (fc_plain c) (fc_wl c) (const_kind eS eD :: fc_kinds c))
                                 (fields_compat (link_both xS xD r) (xD :: bd) rS rD)
                  | _, _ => None
                  end
                else None
            | _ => None
            end
        | FMut xS tS (Some eS) _ =>
            match nw_pair r eS fsD with
            | Some (xD, rD) => option_map (fun c => FC false (rm xS (rm xD (fc_wl c))) (fc_kinds c)) (fields_compat (link_both xS xD r) (xD :: bd) rS rD)
            | None => option_map (fun c => FC false (rm xS (fc_wl c)) (fc_kinds c)) (fields_compat (link_l xS eS r) bd rS fsD)
            end
        | FMut xS tS None spS =>
            match fsD with
            | FMut xD tD None spD :: rD =>
                if ty_compat r tS tD && Bool.eqb spS spD && (negb spS || is_cp_vec tS)
                then let r' := match tS with One (Prim _) => link_both xS xD r | _ => link_unrel xS xD r end in
                     option_map (fun c => FC (fc_plain c && plain_ty tS)
                                             ((if id_eqb xS xD && is_cp_vec tS then [xS] else []) ++ rm xS (rm xD (fc_wl c)))
                                             (fc_kinds c))
                                (fields_compat r' (rm xD bd) rS rD)
                else None
            | _ => None
            end
        end
      end
  end.

(* ------------------------------------------------------------------ alternatives *)
Definition pat_names (p : pat) : list id :=
  match p with PLit _ => [] | PRange (Some x) _ _ => [x] | PRange None _ _ => [] | PBind x => [x] end.
(* the two patterns accept the same tags (a literal n is the range n..=n) *)
Definition pat_bounds (p : pat) : option (N * N) :=
  match p with PLit n => Some (n, n) | PRange _ l h => Some (l, h) | PBind _ => None end.
Definition pat_compat (a b : pat) : bool :=
  match pat_bounds a, pat_bounds b with
  | Some (l, h), Some (l', h') => N.eqb l l' && N.eqb h h'
  | None, None => true
  | _, _ => false
  end.
Definition rho0 (tvS tvD : id) (pS pD : pat) : vlink := list_prod (pat_names pS ++ [tvS]) (pat_names pD ++ [tvD]).
Definition guard_compat (r : vlink) (a b : guard) : bool :=
  match a, b with
  | GNone, GNone => true
  | GPoolUtf8 i s, GPoolUtf8 i' s' => cexpr_compat r i i' && leqbN s s'
  | _, _ => false
  end.

(* --- the tag the D side writes is the tag it read --- *)
(* `x => …` with `= *y` written and `mut y: uN nowrite = x` as the first item *)
Definition tag_static (va : variant) : bool :=
  match v_pat va, ce_e (v_tagw va), v_fields va with
  | PBind x, EVar y, FMut z (One (Prim _)) (Some e) _ :: _ =>
      id_eqb y z && match ce_e e with EVar x' => id_eqb x x' | _ => false end
  | _, _, _ => false
  end.

(* literal / range patterns: evaluate, for every tag value of the pattern, the nowrite items and the
   lengths of the length-given tables as the reader computes them from the tag alone, everything
   else unknown ([VS []]: an expression that touches it fails), then the tag expression *)
Definition unknown : val := VS [].
Fixpoint no_slots (e : expr) : bool :=
  match e with
  | ESlots _ _ => false
  | EAdd a b | ESub a b | EMul a b => no_slots a && no_slots b
  | _ => true
  end.
(* (an expression over the number of indices of a table depends on the elements: not evaluated here) *)
Definition ceval_ns (D : denv) (env : venv) (e : cexpr) : res N :=
  if no_slots (ce_e e) then ceval D env Err e else Err.
Fixpoint abs_fields (D : denv) (renv : venv) (fs : list field) : option (list val) :=
  match fs with
  | [] => Some []
  | FConst x _ _ :: r => abs_fields D ((x, unknown) :: renv) r
  | FMut x _ (Some e) _ :: r =>
      match ceval_ns D renv e with
      | Ok n => option_map (cons (VN n)) (abs_fields D ((x, VN n) :: renv) r)
      | Err => None
      end
  | FMut x (Vec _ (VLen e)) None _ :: r =>
      match ceval_ns D renv e with
      | Ok n => option_map (cons (VL (repeat unknown (N.to_nat n)))) (abs_fields D ((x, unknown) :: renv) r)
      | Err => None
      end
  | FMut x _ None _ :: r => option_map (cons unknown) (abs_fields D ((x, unknown) :: renv) r)
  end.
Definition tag_values (p : pat) : option (list N) :=
  match p with
  | PLit n => Some [n]
  | PRange _ lo hi => if (lo <=? hi) && (hi - lo <? 1024)
                      then Some (map (fun i => lo + N.of_nat i) (seq 0 (N.to_nat (hi + 1 - lo)))) else None
  | PBind _ => None
  end.
Definition tag_back (D : denv) (tv : id) (tw : width) (va : variant) (tg : N) : bool :=
  match pat_match (v_pat va) tg with
  | None => true
  | Some b =>
      match abs_fields D (b ++ [(tv, VN tg)]) (v_fields va) with
      | Some avs =>
          match ceval_ns D (bind_fields (v_fields va) avs) (v_tagw va) with
          | Ok m => N.eqb (trunc tw m) tg
          | Err => false
          end
      | None => false
      end
  end.
Definition tag_sweep (D : denv) (tv : id) (tw : width) (va : variant) : bool :=
  match tag_values (v_pat va) with
  | Some tgs => forallb (tag_back D tv tw va) tgs
  | None => false
  end.
Definition tag_ok (D : denv) (tv : id) (tw : width) (va : variant) : bool := tag_static va || tag_sweep D tv tw va.

(* --- computed items --- *)
Definition head_const_computed (fs : list field) : bool :=
  match snd (skip_nowrite fs) with
  | FConst _ W32 e :: _ => match lit_of e with None => 32 <=? ce_aw e | Some _ => false end
  | _ => false
  end.
Definition slots_kind_ok (c : fcert) (k : ckind) : bool :=
  match k with CSlots x => existsb (id_eqb x) (fc_wl c) | CAttr => false end.
Definition kinds_ok_variant (tw : width) (fsS fsD : list field) (c : fcert) : bool :=
  match fc_kinds c with
  | [CAttr] => wd_eqb tw W16 && attr_len_ok W16 fsS && head_const_computed fsS && attr_len_ok W16 fsD && head_const_computed fsD
  | ks => forallb (slots_kind_ok c) ks
  end.
Definition kinds_ok_struct (c : fcert) : bool := forallb (slots_kind_ok c) (fc_kinds c).

Definition variant_compat (D : denv) (n : id) (tvS tvD : id) (tw : width) (vaS vaD : variant) : bool :=
  let r := rho0 tvS tvD (v_pat vaS) (v_pat vaD) in
  pat_compat (v_pat vaS) (v_pat vaD)
  && guard_compat r (v_guard vaS) (v_guard vaD)
  && Bool.eqb (v_wide vaS) (v_wide vaD)
  && match fields_compat r (pat_names (v_pat vaD) ++ [tvD]) (v_fields vaS) (v_fields vaD) with
     | Some c => kinds_ok_variant tw (v_fields vaS) (v_fields vaD) c && (negb (id_eqb n cpn) || fc_plain c)
     | None => false
     end
  && tag_ok D tvD tw vaD.

Fixpoint all2 {A B} (f : A -> B -> bool) (l : list A) (m : list B) : bool :=
  match l, m with
  | [], [] => true
  | a :: l', b :: m' => f a b && all2 f l' m'
  | _, _ => false
  end.
Definition onat_eqb (a b : option nat) : bool :=
  match a, b with None, None => true | Some x, Some y => Nat.eqb x y | _, _ => false end.

(* alternatives in another order: for a union with a one-byte tag and no guards the alternative taken
   is a function of the tag alone — compare, for each of the 256 tags, the alternatives the two
   sides take *)
Fixpoint sel_pure (vars : list variant) (tg : N) (k : nat) : option (nat * variant * venv) :=
  match vars with
  | [] => None
  | va :: r => match pat_match (v_pat va) tg with
               | Some b => Some (k, va, b)
               | None => sel_pure r tg (S k)
               end
  end.
Definition unguarded (vars : list variant) : bool :=
  forallb (fun va => match v_guard va with GNone => true | _ => false end) vars.
Definition all_tags8 : list N := map N.of_nat (seq 0 256).
Definition enum_sweep (D : denv) (n : id) (tvS tvD : id) (tw : width) (varsS varsD : list variant) : bool :=
  wd_eqb tw W8 && unguarded varsS && unguarded varsD && negb (id_eqb n cpn) &&
  forallb (fun tg => match sel_pure varsS tg O with
                     | None => true
                     | Some (_, vaS, _) =>
                         match sel_pure varsD tg O with
                         | Some (_, vaD, _) => variant_compat D n tvS tvD tw vaS vaD
                         | None => false
                         end
                     end) all_tags8.

Definition decl_compat (S D : denv) (n : id) (dS dD : decl) : bool :=
  match dS, dD with
  | DStruct fsS, DStruct fsD =>
      negb (id_eqb n cpn) &&
      match fields_compat [] [] fsS fsD with Some c => kinds_ok_struct c | None => false end
  | DEnum tvS twS varsS _, DEnum tvD twD varsD _ =>
      wd_eqb twS twD
      && (all2 (variant_compat D n tvS tvD twD) varsS varsD || enum_sweep D n tvS tvD twD varsS varsD)
      && (negb (id_eqb n cpn) || onat_eqb (utf8_variant S) (utf8_variant D))
  | _, _ => false
  end.

Definition env_compat (S D : denv) : bool :=
  forallb (fun nd => match lookup D (fst nd) with
                     | Some dD => decl_compat S D (fst nd) (snd nd) dD
                     | None => false
                     end) S.
