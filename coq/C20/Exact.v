(* C20 — for ALL tables D: among the inputs the lax reader (the crate's own reader: computed items
   are bound and never looked at) accepts, the ones that `read` then `write` reproduces byte for byte
   are exactly the ones the strict reader accepts.
     lax_exact_is_strict : lax read = Ok (v, rest), bs = pre ++ rest, write v = Ok pre  ->  strict read = Ok (v, rest)
   (the converse is write_read + strict_implies_lax).  Nothing here mentions a particular declaration. *)
From FB Require Import C20.Fmt C20.FmtTheory C20.Sim C20.SimTheory.
From Coq Require Import Lia PeanoNat Wf_nat.
Open Scope N_scope.

Arguments N.add : simpl never.
Arguments N.mul : simpl never.

Lemma app_inv_length {A} (a a' b b' : list A) : length a = length a' -> a ++ b = a' ++ b' -> a = a' /\ b = b'.
Proof.
  revert a'. induction a as [|x a IH]; intros [|y a'] Hl H; try discriminate.
  - auto.
  - cbn [app] in H. injection H as -> H. cbn [length] in Hl. destruct (IH a' ltac:(lia) H) as [-> ->]. auto.
Qed.

Lemma N_of_nat_inj_len {A B} (a : list A) (b : list B) : N.of_nat (length a) = N.of_nat (length b) -> length a = length b.
Proof. lia. Qed.

(* same-length encodings of two numbers at the same place: the truncations agree *)
Lemma enc_eq_trunc w n m : n < wmod w -> enc w n = enc w m -> trunc w m = n.
Proof.
  intros Hn H. pose proof (dec_enc w n []) as H1. pose proof (dec_enc w m []) as H2.
  rewrite H in H1. rewrite H1 in H2. injection H2 as H2. rewrite trunc_small in H2 by exact Hn. congruence.
Qed.

(* what the induction on the nesting depth provides for the element readers / writer *)
Definition ls_spec (rdL rdS : pool -> sty -> list N -> res (val * list N)) (wr : sty -> val -> res (list N)) : Prop :=
  forall p s bs v rest pre, bytes_ok bs -> rdL p s bs = Ok (v, rest) -> bs = pre ++ rest -> wr s v = Ok pre ->
    rdS p s bs = Ok (v, rest).

Lemma ls_split rdL ln wr p s bs v bs1 a r rest : rl_spec rdL ln -> lw_spec wr ln -> bytes_ok bs ->
  rdL p s bs = Ok (v, bs1) -> wr s v = Ok a -> bs = (a ++ r) ++ rest -> bs = a ++ bs1 /\ bs1 = r ++ rest.
Proof.
  intros Hrl Hlw Hb Hr Hw E. destruct (Hrl _ _ _ _ _ Hb Hr) as (pre1 & E1 & Hl1).
  pose proof (Hlw _ _ _ Hw) as Hl2. rewrite Hl1 in Hl2. injection Hl2 as Hl2. apply N_of_nat_inj_len in Hl2.
  rewrite E1, <- app_assoc in E. destruct (app_inv_length _ _ _ _ Hl2 E) as [-> ->]. auto.
Qed.

Lemma ls_read_n rdL rdS ln wr p s : ls_spec rdL rdS wr -> rl_spec rdL ln -> lw_spec wr ln ->
  forall k bs vs rest pre, bytes_ok bs -> read_n (rdL p s) k bs = Ok (vs, rest) -> bs = pre ++ rest ->
  concat_map (wr s) vs = Ok pre -> read_n (rdS p s) k bs = Ok (vs, rest).
Proof.
  intros Hs Hrl Hlw k; induction k as [|k IH]; intros bs vs rest pre Hb H E Hw; cbn [read_n] in *; [exact H|].
  bind_inv H. destruct a as [v bs1]. bind_inv H. destruct a as [vs' bs2]. injection H as <- <-.
  cbn [concat_map] in Hw. apply bind_ok in Hw as (a & Hwa & Hw). apply bind_ok in Hw as (r & Hwr & Hw). injection Hw as <-.
  destruct (ls_split _ _ _ _ _ _ _ _ _ _ _ Hrl Hlw Hb Ha Hwa E) as [E1 E2].
  rewrite (Hs _ _ _ _ _ _ Hb Ha E1 Hwa). cbn [bind].
  assert (Hb1 : bytes_ok bs1) by (rewrite E1 in Hb; eapply bytes_ok_app_r; eauto).
  rewrite (IH _ _ _ _ Hb1 Ha0 E2 Hwr). reflexivity.
Qed.

Lemma ls_read_vec rdL rdS ln wr p s n bs l rest pre : ls_spec rdL rdS wr -> rl_spec rdL ln -> lw_spec wr ln ->
  bytes_ok bs -> read_vec (rdL p s) n bs = Ok (VL l, rest) -> bs = pre ++ rest -> concat_map (wr s) l = Ok pre ->
  read_vec (rdS p s) n bs = Ok (VL l, rest).
Proof.
  intros Hs Hrl Hlw Hb H E Hw. unfold read_vec in *. destruct (n <=? N.of_nat (length bs)); [|discriminate].
  bind_inv H. destruct a as [vs bs']. injection H as <- <-.
  rewrite (ls_read_n _ _ _ _ _ _ Hs Hrl Hlw _ _ _ _ _ Hb Ha E Hw). reflexivity.
Qed.

Lemma ls_read_slots rdL rdS ln wr p s wide : ls_spec rdL rdS wr -> rl_spec rdL ln -> lw_spec wr ln ->
  forall k bs vs rest pre, bytes_ok bs -> read_slots (rdL p s) wide k bs = Ok (vs, rest) -> bs = pre ++ rest ->
  concat_map (wr s) vs = Ok pre -> read_slots (rdS p s) wide k bs = Ok (vs, rest).
Proof.
  intros Hs Hrl Hlw k; induction k as [k IH] using (well_founded_induction lt_wf); intros bs vs rest pre Hb H E Hw.
  destruct k as [|k']; cbn [read_slots] in *; [exact H|].
  bind_inv H. destruct a as [v bs1].
  assert (Hcons : forall vs', vs = v :: vs' -> exists a r, wr s v = Ok a /\ concat_map (wr s) vs' = Ok r /\ pre = a ++ r).
  { intros vs' ->. cbn [concat_map] in Hw. apply bind_ok in Hw as (a & Hwa & Hw). apply bind_ok in Hw as (r & Hwr & Hw).
    injection Hw as <-. eauto. }
  destruct (wide v) eqn:Ew.
  - destruct k' as [|k'']; [discriminate|].
    bind_inv H. destruct a as [vs' bs2]. injection H as <- <-.
    destruct (Hcons _ eq_refl) as (a & r & Hwa & Hwr & ->).
    destruct (ls_split _ _ _ _ _ _ _ _ _ _ _ Hrl Hlw Hb Ha Hwa E) as [E1 E2].
    rewrite (Hs _ _ _ _ _ _ Hb Ha E1 Hwa). cbn [bind]. rewrite Ew.
    assert (Hb1 : bytes_ok bs1) by (rewrite E1 in Hb; eapply bytes_ok_app_r; eauto).
    rewrite (IH k'' ltac:(lia) _ _ _ _ Hb1 Ha0 E2 Hwr). reflexivity.
  - bind_inv H. destruct a as [vs' bs2]. injection H as <- <-.
    destruct (Hcons _ eq_refl) as (a & r & Hwa & Hwr & ->).
    destruct (ls_split _ _ _ _ _ _ _ _ _ _ _ Hrl Hlw Hb Ha Hwa E) as [E1 E2].
    rewrite (Hs _ _ _ _ _ _ Hb Ha E1 Hwa). cbn [bind]. rewrite Ew.
    assert (Hb1 : bytes_ok bs1) by (rewrite E1 in Hb; eapply bytes_ok_app_r; eauto).
    rewrite (IH k' ltac:(lia) _ _ _ _ Hb1 Ha0 E2 Hwr). reflexivity.
Qed.

Lemma ls_ty D rdL rdS ln wr p env t bs v rest pre : ls_spec rdL rdS wr -> rl_spec rdL ln -> lw_spec wr ln ->
  bytes_ok bs -> read_ty D rdL p env t bs = Ok (v, rest) -> bs = pre ++ rest -> write_ty wr t v = Ok pre ->
  read_ty D rdS p env t bs = Ok (v, rest).
Proof.
  intros Hs Hrl Hlw Hb H E Hw. destruct t as [s|s [w|e|e]]; cbn [read_ty write_ty] in *.
  - eapply Hs; eauto.
  - bind_inv H. destruct a as [n bs1]. rewrite Ha. cbn [bind].
    destruct (enc_dec _ _ _ _ Hb Ha) as (E1 & Hn & Hb1).
    destruct (rl_read_vec _ _ _ _ _ _ _ _ Hrl Hb1 H) as (l & pre1 & -> & E2 & Hc & Hl).
    apply bind_ok in Hw as (body & Hbody & Hw). injection Hw as <-.
    rewrite E1, <- app_assoc in E.
    destruct (app_inv_length _ _ _ _ ltac:(rewrite !length_enc; reflexivity) E) as [_ E3].
    exact (ls_read_vec _ _ _ _ _ _ _ _ _ _ _ Hs Hrl Hlw Hb1 H E3 Hbody).
  - bind_inv H. rewrite Ha. cbn [bind].
    destruct (rl_read_vec _ _ _ _ _ _ _ _ Hrl Hb H) as (l & pre1 & -> & E2 & Hc & Hl).
    apply bind_ok in Hw as (body & Hbody & Hw). injection Hw as <-. cbn [app] in E.
    exact (ls_read_vec _ _ _ _ _ _ _ _ _ _ _ Hs Hrl Hlw Hb H E Hbody).
  - bind_inv H. rewrite Ha. cbn [bind]. bind_inv H. destruct a0 as [vs bs']. injection H as <- <-.
    apply bind_ok in Hw as (body & Hbody & Hw). injection Hw as <-. cbn [app] in E.
    rewrite (ls_read_slots _ _ _ _ _ _ _ Hs Hrl Hlw _ _ _ _ _ Hb Ha0 E Hbody). reflexivity.
Qed.

Lemma ls_fields D rdL rdS ln wr ev : ls_spec rdL rdS wr -> rl_spec rdL ln -> lw_spec wr ln ->
  forall fs p env bs vs cs rest pre, bytes_ok bs ->
  read_fields D rdL p env fs bs = Ok (vs, cs, rest) -> bs = pre ++ rest -> write_fields wr ev fs vs = Ok pre ->
  read_fields D rdS p env fs bs = Ok (vs, cs, rest) /\ consts_agree ev cs = true.
Proof.
  intros Hs Hrl Hlw fs; induction fs as [|f fs IH]; intros p env bs vs cs rest pre Hb H E Hw; cbn [read_fields write_fields] in *.
  - injection H as <- <- <-. auto.
  - destruct f as [x w e|x t [e|] sp].
    + bind_inv H. destruct a as [n bs1]. rewrite Ha. cbn [bind].
      destruct (enc_dec _ _ _ _ Hb Ha) as (E1 & Hn & Hb1).
      apply bind_ok in Hw as (m & Hm & Hw). apply bind_ok in Hw as (r & Hr & Hw). injection Hw as <-.
      rewrite E1, <- app_assoc in E.
      destruct (app_inv_length _ _ _ _ ltac:(rewrite !length_enc; reflexivity) E) as [Eenc E2].
      pose proof (enc_eq_trunc _ _ _ Hn Eenc) as Htr.
      destruct (lit_of e) as [m'|] eqn:El.
      * destruct (n =? m'); [|discriminate]. eapply IH; eauto.
      * bind_inv H. destruct a as [[vs' cs'] bs2]. injection H as <- <- <-.
        destruct (IH _ _ _ _ _ _ _ Hb1 Ha0 E2 Hr) as (HS & Hc). rewrite HS. cbn [bind]. split; [reflexivity|].
        cbn [consts_agree]. rewrite Hm, Htr, N.eqb_refl, Hc. reflexivity.
    + bind_inv H. rewrite Ha. cbn [bind]. bind_inv H. destruct a0 as [[vs' cs'] bs2]. injection H as <- <- <-.
      apply bind_ok in Hw as (a1 & Ha1 & Hw). injection Ha1 as <-. apply bind_ok in Hw as (r & Hr & Hw). injection Hw as <-.
      cbn [app] in E. destruct (IH _ _ _ _ _ _ _ Hb Ha0 E Hr) as (HS & Hc). rewrite HS. auto.
    + bind_inv H. destruct a as [v bs1]. bind_inv H. destruct a as [[vs' cs'] bs2]. injection H as <- <- <-.
      apply bind_ok in Hw as (a1 & Ha1 & Hw). apply bind_ok in Hw as (r & Hr & Hw). injection Hw as <-.
      destruct (rl_ty _ _ _ _ _ _ _ _ _ Hrl Hb Ha) as (pre1 & E1 & Hl1).
      pose proof (lw_ty _ _ _ _ _ Hlw Ha1) as Hl2. rewrite Hl1 in Hl2. injection Hl2 as Hl2. apply N_of_nat_inj_len in Hl2.
      rewrite E1, <- app_assoc in E. destruct (app_inv_length _ _ _ _ Hl2 E) as [-> E2].
      rewrite (ls_ty _ _ _ _ _ _ _ _ _ _ _ _ Hs Hrl Hlw Hb Ha E1 Ha1). cbn [bind]. cbv zeta.
      assert (Hb1 : bytes_ok bs1) by (rewrite E1 in Hb; eapply bytes_ok_app_r; eauto).
      destruct (IH _ _ _ _ _ _ _ Hb1 Ha0 E2 Hr) as (HS & Hc). split; [|exact Hc].
      eapply bind_intro; [exact HS|reflexivity].
Qed.

Lemma ls_prim D f p w bs v rest : read_sty D false f p (Prim w) bs = Ok (v, rest) -> read_sty D true f p (Prim w) bs = Ok (v, rest).
Proof. destruct f; cbn [read_sty]; auto. Qed.

(* reproduced byte for byte => accepted by the strict reader *)
Theorem lax_exact_is_strict D : forall fuel p t bs v rest pre, bytes_ok bs ->
  read_sty D false fuel p t bs = Ok (v, rest) -> bs = pre ++ rest -> write_sty D fuel t v = Ok pre ->
  read_sty D true fuel p t bs = Ok (v, rest).
Proof.
  induction fuel as [|f IH]; intros p t bs v rest pre Hb H E Hw.
  - destruct t as [w|n]; [apply ls_prim; exact H|discriminate].
  - destruct t as [w|n]; [apply ls_prim; exact H|].
    assert (Hs : ls_spec (read_sty D false f) (read_sty D true f) (write_sty D f)).
    { intros p' s bs' v' rest' pre' Hb' H' E' Hw'. eapply IH; eauto. }
    assert (Hrl : rl_spec (read_sty D false f) (len_sty D f)).
    { intros p' s bs' v' rest' Hb' H'. eapply read_len; eauto. }
    assert (Hlw : lw_spec (write_sty D f) (len_sty D f)).
    { intros s v' b' H'. eapply len_write; eauto. }
    cbn [read_sty] in *. destruct (lookup D n) as [[fs|tv tw vars ft]|] eqn:El; [| |discriminate].
    + apply bind_ok in H as ([[vs cs] bs'] & Hr & H). cbn [negb orb] in H. injection H as <- <-.
      cbn [write_sty] in Hw. rewrite El in Hw.
      destruct (ls_fields _ _ _ _ _ _ Hs Hrl Hlw _ _ _ _ _ _ _ _ Hb Hr E Hw) as (HS & Hc).
      rewrite HS. cbn [bind negb orb]. rewrite Hc. reflexivity.
    + apply bind_ok in H as ([tg bs1] & Hdec & H). rewrite Hdec. cbn [bind].
      destruct (enc_dec _ _ _ _ Hb Hdec) as (E1 & Htg & Hb1).
      apply bind_ok in H as ([[k va] env] & Hsel & H). rewrite Hsel. cbn [bind].
      apply bind_ok in H as ([[vs cs] bs'] & Hr & H). cbn [negb orb] in H. injection H as <- <-.
      cbn [write_sty] in Hw. rewrite El, (select_nth0 _ _ _ _ _ _ _ _ Hsel) in Hw. cbv zeta in Hw.
      apply bind_ok in Hw as (m & Hm & Hw). apply bind_ok in Hw as (body & Hbody & Hw). injection Hw as <-.
      rewrite E1, <- app_assoc in E.
      destruct (app_inv_length _ _ _ _ ltac:(rewrite !length_enc; reflexivity) E) as [Eenc E2].
      pose proof (enc_eq_trunc _ _ _ Htg Eenc) as Htr.
      destruct (ls_fields _ _ _ _ _ _ Hs Hrl Hlw _ _ _ _ _ _ _ _ Hb1 Hr E2 Hbody) as (HS & Hc).
      rewrite HS. cbn [bind negb orb]. rewrite Hm, Htr, N.eqb_refl, Hc. reflexivity.
Qed.

(* among the inputs the lax reader accepts: reproduced byte for byte <-> accepted by the strict reader *)
Theorem exact_iff_strict D fuel p t bs v rest : bytes_ok bs -> read_sty D false fuel p t bs = Ok (v, rest) ->
  (exists pre, bs = pre ++ rest /\ write_sty D fuel t v = Ok pre) <-> read_sty D true fuel p t bs = Ok (v, rest).
Proof.
  intros Hb H. split.
  - intros (pre & E & Hw). eapply lax_exact_is_strict; eauto.
  - intros Hs. eapply write_read; eauto.
Qed.
