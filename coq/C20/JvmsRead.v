(* C20 — the class files the JVMS table accepts are exactly the ones raw_class_file's table accepts.

   [jvms_env] (Jvms.v) is the hand-written transcription of JVMS 4.1-4.7; the reader generated from
   it in STRICT mode (every computed item — attribute_length, constant_pool_count — holds the value
   the JVMS prescribes) is the definition of "well-formed class file" used here.  [raw_env] is the
   table GENERATED from raw_class_file/src/lib.rs.  The tables are compared, in both directions, by
   the decidable [env_compat] (Sim.v) whose soundness is proved for all tables in SimTheory.v; the
   comparison is re-evaluated on every regenerated table. *)
From FB Require Import C20.Fmt C20.FmtTheory C20.Sim C20.SimTheory C20.Exact C20.RawGen C20.Jvms.
From Coq Require Import Lia.
Open Scope N_scope.

Lemma tables_compat : env_compat jvms_env raw_env = true.
Proof. vm_compute. reflexivity. Qed.
Lemma tables_compat_rev : env_compat raw_env jvms_env = true.
Proof. vm_compute. reflexivity. Qed.

(* ------------------------------------------------------------------ what a writer emits are bytes *)
Definition wb_spec (wr : sty -> val -> res (list N)) : Prop := forall s v b, wr s v = Ok b -> bytes_ok b.

Lemma bytes_ok_enc w n : bytes_ok (enc w n).
Proof. unfold enc. apply bytes_ok_be. Qed.
Lemma bytes_ok_app a b : bytes_ok a -> bytes_ok b -> bytes_ok (a ++ b).
Proof. intros. apply Forall_app. auto. Qed.

Lemma wb_concat wr s : wb_spec wr -> forall l b, concat_map (wr s) l = Ok b -> bytes_ok b.
Proof.
  intros Hs. induction l as [|v l IH]; intros b H; cbn [concat_map] in H.
  - injection H as <-. constructor.
  - bind_inv H. bind_inv H. injection H as <-. apply bytes_ok_app; [eapply Hs; eauto|eapply IH; eauto].
Qed.

Lemma wb_ty wr t v b : wb_spec wr -> write_ty wr t v = Ok b -> bytes_ok b.
Proof.
  intros Hs H. destruct t as [s|s k]; cbn [write_ty] in H; [eapply Hs; eauto|].
  destruct v as [|l| |]; try discriminate. bind_inv H. injection H as <-.
  apply bytes_ok_app; [|eapply wb_concat; eauto]. destruct k; [apply bytes_ok_enc|constructor|constructor].
Qed.

Lemma wb_fields wr ev : wb_spec wr -> forall fs vs b, write_fields wr ev fs vs = Ok b -> bytes_ok b.
Proof.
  intros Hs. induction fs as [|f fs IH]; intros vs b H; cbn [write_fields] in H.
  - destruct vs; [|discriminate]. injection H as <-. constructor.
  - destruct f as [x w e|x t nw sp].
    + bind_inv H. bind_inv H. injection H as <-. apply bytes_ok_app; [apply bytes_ok_enc|eapply IH; eauto].
    + destruct vs as [|v vs]; [discriminate|]. bind_inv H. bind_inv H. injection H as <-.
      apply bytes_ok_app; [|eapply IH; eauto]. destruct nw; [injection Ha as <-; constructor|eapply wb_ty; eauto].
Qed.

Theorem write_bytes_ok D : forall fuel t v b, write_sty D fuel t v = Ok b -> bytes_ok b.
Proof.
  induction fuel as [|f IH]; intros t v b H.
  - destruct t; cbn [write_sty] in H; [|discriminate]. destruct v; try discriminate. injection H as <-. apply bytes_ok_enc.
  - destruct t as [w|n]; cbn [write_sty] in H.
    + destruct v; try discriminate. injection H as <-. apply bytes_ok_enc.
    + assert (Hs : wb_spec (write_sty D f)) by (intros s v' b' H'; eapply IH; eauto).
      destruct (lookup D n) as [[fs|tv tw vars ft]|]; [| |discriminate]; destruct v as [| |vs|k vs]; try discriminate.
      * eapply wb_fields; eauto.
      * destruct (nth_error vars k); [|discriminate]. cbv zeta in H. bind_inv H. bind_inv H. injection H as <-.
        apply bytes_ok_app; [apply bytes_ok_enc|eapply wb_fields; eauto].
Qed.

(* ------------------------------------------------------------------ reading *)
(* a class file: accepted by the JVMS reader => accepted by the strict reader of the generated table
   (hence by the crate's own, lax, reader) with the same bytes left over, and the value read is
   written back as exactly the bytes consumed — the same bytes the JVMS value denotes *)
Theorem reads_every_wellformed_class : forall fuel bs v rest, okb bs ->
  read_sty jvms_env true fuel None class_ty bs = Ok (v, rest) ->
  exists v' pre, read_sty raw_env true fuel None class_ty bs = Ok (v', rest) /\
    read_sty raw_env false fuel None class_ty bs = Ok (v', rest) /\
    bs = pre ++ rest /\ write_sty raw_env fuel class_ty v' = Ok pre /\ write_sty jvms_env fuel class_ty v = Ok pre.
Proof.
  intros fuel bs v rest Hb H.
  destruct (sim_read _ _ tables_compat fuel None None class_ty bs v rest Hb I H) as (v' & H' & _).
  destruct (write_read _ _ _ _ _ _ _ (proj1 Hb) H') as (pre & E & Hw).
  destruct (write_read _ _ _ _ _ _ _ (proj1 Hb) H) as (pre2 & E2 & Hw2).
  assert (pre2 = pre) by (rewrite E in E2; apply app_inv_tail in E2; congruence). subst pre2.
  exists v', pre. repeat split; auto. apply strict_implies_lax. exact H'.
Qed.

(* the strict reader of the generated table accepts exactly the well-formed class files *)
Theorem strict_accepts_iff : forall fuel bs rest, okb bs ->
  (exists v, read_sty jvms_env true fuel None class_ty bs = Ok (v, rest)) <->
  (exists v', read_sty raw_env true fuel None class_ty bs = Ok (v', rest)).
Proof.
  intros fuel bs rest Hb. split; intros (v & H).
  - destruct (sim_read _ _ tables_compat fuel None None class_ty bs v rest Hb I H) as (v' & H' & _). eauto.
  - destruct (sim_read _ _ tables_compat_rev fuel None None class_ty bs v rest Hb I H) as (v' & H' & _). eauto.
Qed.

(* the public functions: ClassFile::read succeeds on every well-formed class file, consumes it to the
   last byte, and to_bytes() of the result is the file *)
Theorem class_read_wellformed : forall bs v, okb bs ->
  class_read_strict jvms_env bs = Ok (v, []) ->
  exists v', class_read raw_env bs = Ok (v', []) /\ class_read_strict raw_env bs = Ok (v', []) /\
    write_sty raw_env (S (S (length bs))) class_ty v' = Ok bs.
Proof.
  unfold class_read_strict, class_read. intros bs v Hb H.
  destruct (reads_every_wellformed_class _ _ _ _ Hb H) as (v' & pre & Hs & Hl & E & Hw & _).
  rewrite app_nil_r in E. subst pre. eauto.
Qed.

(* among the class files ClassFile::read accepts to their last byte, to_bytes reproduces exactly the
   well-formed ones (the reader binds a computed attribute_length and never looks at it: a file whose
   attribute_length is off is read, and written back with the right one) *)
Theorem rewrite_exact_iff_wellformed : forall fuel bs v, okb bs ->
  read_sty raw_env false fuel None class_ty bs = Ok (v, []) ->
  (write_sty raw_env fuel class_ty v = Ok bs <-> exists j, read_sty jvms_env true fuel None class_ty bs = Ok (j, [])).
Proof.
  intros fuel bs v Hb H. split.
  - intros Hw.
    assert (Hs : read_sty raw_env true fuel None class_ty bs = Ok (v, [])).
    { eapply lax_exact_is_strict; [exact (proj1 Hb)|exact H|rewrite app_nil_r; reflexivity|exact Hw]. }
    apply (strict_accepts_iff fuel bs [] Hb). eauto.
  - intros Hj. apply (strict_accepts_iff fuel bs [] Hb) in Hj as (v' & Hs).
    pose proof (strict_implies_lax _ _ _ _ _ _ Hs) as Hl. rewrite H in Hl. injection Hl as <-.
    destruct (write_read _ _ _ _ _ _ _ (proj1 Hb) Hs) as (pre & E & Hw). rewrite app_nil_r in E. subst pre. exact Hw.
Qed.

(* ------------------------------------------------------------------ writing *)
(* whatever ClassFile::to_bytes writes for a value inside the hypotheses of read_write is a well-formed
   class file: the JVMS reader accepts it to the last byte (and the JVMS value it reads denotes the
   same bytes) — "other readers see the same structure" *)
Theorem writes_only_wellformed_classes : forall v bs fuel, class_write raw_env v = Ok bs ->
  resolves raw_env (S (depth v)) None class_ty v = true -> N.of_nat (length bs) < 4294967296 ->
  (S (depth v) <= fuel)%nat ->
  exists j, read_sty jvms_env true fuel None class_ty bs = Ok (j, []) /\ write_sty jvms_env fuel class_ty j = Ok bs.
Proof.
  intros v bs fuel Hw Hr Hsm Hf.
  pose proof (class_read_write v bs fuel true Hw Hr Hf) as Hrd.
  assert (Hb : okb bs) by (split; [eapply write_bytes_ok; exact Hw|exact Hsm]).
  destruct (sim_read _ _ tables_compat_rev fuel None None class_ty bs v [] Hb I Hrd) as (j & Hj & _).
  exists j. split; [exact Hj|].
  destruct (write_read _ _ _ _ _ _ _ (proj1 Hb) Hj) as (pre & E & Hwj). rewrite app_nil_r in E. subst pre. exact Hwj.
Qed.

(* non-vacuity: the crate's fixture, a javac 17 class with a stack map table and javac's WideConst
   (two longs and a double in the pool) are well-formed for the JVMS reader, to the last byte; a pool
   overshooting its count is not *)
Definition jvms_accepts (bs : list N) : bool :=
  match class_read_strict jvms_env bs with Ok (_, []) => true | _ => false end.
Theorem jvms_examples : jvms_accepts ex_simple = true /\ jvms_accepts ex_flow = true /\ jvms_accepts ex_wide = true /\
  jvms_accepts wide_class_bytes = true /\ jvms_accepts overshoot_class_bytes = false.
Proof. repeat split; vm_compute; reflexivity. Qed.
