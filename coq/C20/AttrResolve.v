(* C20 — what the hypothesis [resolves] of read_write amounts to for attributes: the closed form of
   the dispatch `match attribute_name_index { x if pool_has_utf8(pool, x, b"Name")? => …, x => Other }`
   over the GENERATED table.

   Generic part (any list of alternatives of the shape `x if pool_has_utf8(pool, x, b"…")?` / `x`):
   [select] returns the first alternative that claims the Utf8 entry designated by the tag.
   Instance (raw_env): the names of the generated AttributeInfo table are pairwise different, so
   "the first alternative that claims the entry" is "the alternative with that name", and the
   catch-all is taken exactly for the names no alternative has. *)
From FB Require Import C20.Fmt C20.FmtTheory C20.RawGen C20.Jvms.
From Coq Require Import Lia PeanoNat.
Open Scope N_scope.

(* ------------------------------------------------------------------ the entry a pool index designates *)
(* bytes of the CpInfo::Utf8 entry that STARTS at index [i] (None: no pool, index 0, second index of a
   Long/Double, past the end, or an entry of another kind) *)
Definition pool_utf8 (D : denv) (p : pool) (i : N) : option (list val) :=
  match p with
  | None => None
  | Some entries =>
      match pool_get (is_wide D "CpInfo"%string) entries 1 i, utf8_variant D with
      | Some (VV k [VL bytes]), Some ku => if Nat.eqb k ku then Some bytes else None
      | _, _ => None
      end
  end.

Lemma pool_has_utf8_closed D p i s :
  pool_has_utf8 D p i s = match pool_utf8 D p i with Some b => Ok (bytes_eqb b s) | None => Err end.
Proof.
  unfold pool_has_utf8, pool_utf8. destruct p as [entries|]; [|reflexivity].
  destruct (pool_get (is_wide D "CpInfo"%string) entries 1 i) as [e|]; [|reflexivity].
  destruct e as [n|l|fs|k fs]; try reflexivity.
  destruct fs as [|f fs]; [reflexivity|].
  destruct f as [n|l|gs|j gs]; try reflexivity.
  destruct fs as [|f' fs]; [|reflexivity].
  destruct (utf8_variant D) as [ku|]; [|reflexivity].
  destruct (Nat.eqb k ku); reflexivity.
Qed.

Lemma bytes_eqb_eq l s : bytes_eqb l s = true <-> l = map VN s.
Proof.
  revert s. induction l as [|v l IH]; intros [|b s]; cbn [bytes_eqb map]; try (split; [discriminate|discriminate]).
  - split; reflexivity.
  - destruct v; split; discriminate.
  - destruct v as [a| | |]; try (split; [discriminate|intros [= ]]).
    rewrite andb_true_iff, N.eqb_eq, IH. split.
    + intros [-> ->]. reflexivity.
    + intros [= -> ->]. split; reflexivity.
Qed.

(* ------------------------------------------------------------------ generic: alternatives selected by name *)
(* `x if pool_has_utf8(pool, x, b"…")?` or the catch-all `x` *)
Definition named_shape (x : id) (va : variant) : bool :=
  match v_pat va, v_guard va with
  | PBind y, GPoolUtf8 (CE _ (EVar z)) _ => id_eqb y x && id_eqb z x
  | PBind y, GNone => id_eqb y x
  | _, _ => false
  end.

Definition attr_name (va : variant) : option (list N) :=
  match v_guard va with GPoolUtf8 _ s => Some s | GNone => None end.

(* the alternative taken, given the designated Utf8 entry (None: the index designates none) *)
Fixpoint select_spec (ob : option (list val)) (vars : list variant) (k : nat) : option nat :=
  match vars with
  | [] => None
  | va :: r =>
      match attr_name va with
      | None => Some k
      | Some s => match ob with
                  | None => None
                  | Some b => if bytes_eqb b s then Some k else select_spec ob r (S k)
                  end
      end
  end.

Lemma id_eqb_refl x : id_eqb x x = true.
Proof. apply String.eqb_refl. Qed.
Lemma id_eqb_true x y : id_eqb x y = true -> x = y.
Proof. apply String.eqb_eq. Qed.

Lemma select_named D p x env0 tg : forall vars k0, forallb (named_shape x) vars = true ->
  select D p env0 tg vars k0 =
    match select_spec (pool_utf8 D p tg) vars k0 with
    | Some k => match nth_error vars (k - k0) with
                | Some va => Ok (k, va, (x, VN tg) :: env0)
                | None => Err
                end
    | None => Err
    end.
Proof.
  induction vars as [|va vars IH]; intros k0 Hs; [reflexivity|].
  cbn [forallb] in Hs. apply andb_true_iff in Hs as [Hva Hs].
  cbn [select select_spec]. unfold named_shape, attr_name in *.
  destruct (v_pat va) as [n|y lo hi|y]; try discriminate.
  cbn [pat_match].
  destruct (v_guard va) as [|[aw ie] s].
  - apply id_eqb_true in Hva. subst y. cbn [guard_eval bind app].
    rewrite Nat.sub_diag. reflexivity.
  - destruct ie as [n|z|z|z e|  |a b|a b|a b]; try discriminate.
    apply andb_true_iff in Hva as [Hy Hz]. apply id_eqb_true in Hy, Hz. subst y z.
    cbn [guard_eval app]. unfold ceval. cbn [ce_aw ce_e eval lookup]. rewrite id_eqb_refl. cbn [bind].
    rewrite pool_has_utf8_closed.
    destruct (pool_utf8 D p tg) as [b|]; [|reflexivity]. cbn [bind].
    destruct (bytes_eqb b s).
    + rewrite Nat.sub_diag. reflexivity.
    + rewrite IH by exact Hs.
      destruct (select_spec (Some b) vars (S k0)) as [k|] eqn:Ek; [|reflexivity].
      assert (Hk : (S k0 <= k)%nat).
      { clear - Ek. revert k0 Ek. induction vars as [|v vs IHv]; intros k0 Ek; [discriminate|].
        cbn [select_spec] in Ek. destruct (attr_name v).
        - destruct (bytes_eqb b l); [injection Ek as <-; lia|]. apply IHv in Ek. lia.
        - injection Ek as <-. lia. }
      replace (k - k0)%nat with (S (k - S k0)) by lia. reflexivity.
Qed.

(* "the first alternative that claims the entry" *)
Definition claims (b : list val) (va : variant) : Prop :=
  match attr_name va with Some s => b = map VN s | None => True end.

Lemma select_spec_first b : forall vars k0 k,
  select_spec (Some b) vars k0 = Some k <->
  exists j va, k = (k0 + j)%nat /\ nth_error vars j = Some va /\ claims b va /\
    forall j' va', (j' < j)%nat -> nth_error vars j' = Some va' -> ~ claims b va'.
Proof.
  induction vars as [|v vars IH]; intros k0 k; cbn [select_spec].
  - split; [discriminate|]. intros (j & va & _ & Hn & _). destruct j; discriminate.
  - destruct (attr_name v) as [s|] eqn:En.
    + destruct (bytes_eqb b s) eqn:Eb.
      * apply bytes_eqb_eq in Eb. split.
        -- intros [= <-]. exists O, v. repeat split; [lia| |intros j' va' Hlt; lia].
           unfold claims. rewrite En. exact Eb.
        -- intros (j & va & -> & Hn & Hc & Hfirst). destruct j as [|j]; [f_equal; lia|].
           exfalso. apply (Hfirst O v); [lia|reflexivity|]. unfold claims. rewrite En. exact Eb.
      * assert (Hnc : ~ claims b v).
        { unfold claims. rewrite En. intros Hc. apply bytes_eqb_eq in Hc. congruence. }
        rewrite IH. split.
        -- intros (j & va & -> & Hn & Hc & Hfirst). exists (S j), va. repeat split; [lia|exact Hn|exact Hc|].
           intros [|j'] va' Hlt Hn'; [injection Hn' as <-; exact Hnc|]. apply (Hfirst j'); [lia|exact Hn'].
        -- intros (j & va & -> & Hn & Hc & Hfirst). destruct j as [|j]; [injection Hn as <-; contradiction|].
           exists j, va. repeat split; [lia|exact Hn|exact Hc|].
           intros j' va' Hlt Hn'. apply (Hfirst (S j')); [lia|exact Hn'].
    + split.
      * intros [= <-]. exists O, v. repeat split; [lia| |intros j' va' Hlt; lia].
        unfold claims. rewrite En. exact I.
      * intros (j & va & -> & Hn & Hc & Hfirst). destruct j as [|j]; [f_equal; lia|].
        exfalso. apply (Hfirst O v); [lia|reflexivity|]. unfold claims. rewrite En. exact I.
Qed.

(* ------------------------------------------------------------------ the generated AttributeInfo table *)
Definition ani : id := "attribute_name_index"%string.
Definition attr_ty : sty := Named "AttributeInfo"%string.

Lemma attr_lookup_exact : exists ft, lookup raw_env "AttributeInfo"%string = Some (DEnum ani W16 attr_variants ft).
Proof. eexists. vm_compute. reflexivity. Qed.

Lemma attr_table_named : forallb (named_shape ani) attr_variants = true.
Proof. vm_compute. reflexivity. Qed.

(* every alternative: tag written = the stored name index, which is the first (nowrite) field and
   holds the name index the alternative was recognised by *)
Definition attr_head_shape (va : variant) : bool :=
  match v_tagw va, v_fields va with
  | CE _ (EVar y), FMut z (One (Prim W16)) (Some (CE _ (EVar x))) _ :: _ => id_eqb y ani && id_eqb z ani && id_eqb x ani
  | _, _ => false
  end.
Lemma attr_table_heads : forallb attr_head_shape attr_variants = true.
Proof. vm_compute. reflexivity. Qed.

(* the names are pairwise different and the catch-all comes last: an alternative with a name is the
   first (hence the only) one claiming that name; the nameless one is the last *)
Fixpoint index_table (vars : list variant) (k : nat) : list (nat * variant) :=
  match vars with [] => [] | va :: r => (k, va) :: index_table r (S k) end.
Definition names_select_themselves : bool :=
  forallb (fun kv => match attr_name (snd kv) with
                     | Some s => match select_spec (Some (map VN s)) attr_variants O with
                                 | Some k => Nat.eqb k (fst kv)
                                 | None => false
                                 end
                     | None => Nat.eqb (S (fst kv)) (length attr_variants)
                     end) (index_table attr_variants O).
Lemma attr_names_distinct : names_select_themselves = true.
Proof. vm_compute. reflexivity. Qed.

Lemma index_table_In : forall vars k0 j va, nth_error vars j = Some va -> In ((k0 + j)%nat, va) (index_table vars k0).
Proof.
  induction vars as [|v vars IH]; intros k0 j va Hn; [destruct j; discriminate|].
  destruct j as [|j]; cbn [nth_error index_table] in *.
  - injection Hn as <-. left. f_equal. lia.
  - right. replace (k0 + S j)%nat with (S k0 + j)%nat by lia. apply IH. exact Hn.
Qed.

Lemma attr_variant_facts k va : nth_error attr_variants k = Some va ->
  match attr_name va with
  | Some s => select_spec (Some (map VN s)) attr_variants O = Some k
  | None => S k = length attr_variants
  end.
Proof.
  intros Hn. pose proof attr_names_distinct as H. unfold names_select_themselves in H.
  rewrite forallb_forall in H. specialize (H (k, va) (index_table_In _ O _ _ Hn)). cbn [fst snd] in H.
  destruct (attr_name va) as [s|].
  - destruct (select_spec (Some (map VN s)) attr_variants 0) as [k'|]; [|discriminate].
    apply Nat.eqb_eq in H. subst k'. reflexivity.
  - apply Nat.eqb_eq in H. exact H.
Qed.

(* dispatch, closed form: the alternative [k] of the generated table is selected for the name index
   [i] iff [i] designates a Utf8 entry and
     - [k] has a name: the entry holds exactly that name,
     - [k] is the catch-all: the entry holds a name no alternative has. *)
Theorem attr_dispatch_closed_form : forall p i k,
  (exists va env, select raw_env p [(ani, VN i)] i attr_variants O = Ok (k, va, env)) <->
  (exists bytes va, pool_utf8 raw_env p i = Some bytes /\ nth_error attr_variants k = Some va /\
     match attr_name va with
     | Some s => bytes = map VN s
     | None => forall va' s, In va' attr_variants -> attr_name va' = Some s -> bytes <> map VN s
     end).
Proof.
  intros p i k. rewrite (select_named raw_env p ani _ i attr_variants O attr_table_named).
  split.
  - intros (va & env & H).
    destruct (select_spec (pool_utf8 raw_env p i) attr_variants O) as [k'|] eqn:Es; [|discriminate].
    rewrite Nat.sub_0_r in H. destruct (nth_error attr_variants k') as [va'|] eqn:En; [|discriminate].
    injection H as -> -> _.
    destruct (pool_utf8 raw_env p i) as [b|] eqn:Eu.
    + exists b, va. split; [reflexivity|]. split; [exact En|].
      apply select_spec_first in Es as (j & va2 & Hj & Hn & Hc & Hfirst). cbn in Hj. subst j.
      rewrite En in Hn. injection Hn as <-.
      unfold claims in Hc. destruct (attr_name va) as [s|] eqn:Ea; [exact Hc|].
      intros va' s Hin Ha Hb. apply In_nth_error in Hin as (j' & Hj').
      pose proof (attr_variant_facts _ _ En) as Hlast. rewrite Ea in Hlast.
      pose proof (attr_variant_facts _ _ Hj') as Hsel. rewrite Ha in Hsel.
      assert (Hlt : (j' < k)%nat).
      { assert (j' < length attr_variants)%nat by (apply nth_error_Some; congruence).
        assert (j' <> k) by (intros ->; congruence). lia. }
      apply (Hfirst j' va' Hlt Hj'). unfold claims. rewrite Ha. exact Hb.
    + (* no Utf8 entry designated: only a table starting with the catch-all could answer *)
      exfalso. destruct attr_variants as [|v0 vs] eqn:Ev; [discriminate|].
      cbn [select_spec] in Es. destruct (attr_name v0) eqn:E0; [discriminate|].
      injection Es as <-. cbn [nth_error] in En. injection En as <-.
      assert (Hf : nth_error attr_variants O = Some v0) by (rewrite Ev; reflexivity).
      apply attr_variant_facts in Hf. rewrite E0 in Hf.
      pose proof attr_variants_nonempty. lia.
  - intros (b & va & Hu & Hn & Hm). exists va, [(ani, VN i); (ani, VN i)].
    rewrite Hu.
    assert (Hs : select_spec (Some b) attr_variants O = Some k).
    { destruct (attr_name va) as [s|] eqn:Ea.
      - subst b. pose proof (attr_variant_facts _ _ Hn) as H. rewrite Ea in H. exact H.
      - apply select_spec_first. exists k, va. repeat split; [exact Hn|unfold claims; rewrite Ea; exact I|].
        intros j' va' Hlt Hj' Hc. unfold claims in Hc.
        destruct (attr_name va') as [s|] eqn:Ea'.
        + apply (Hm va' s); [eapply nth_error_In; exact Hj'|exact Ea'|exact Hc].
        + pose proof (attr_variant_facts _ _ Hj') as H1. rewrite Ea' in H1.
          pose proof (attr_variant_facts _ _ Hn) as H2. rewrite Ea in H2. lia. }
    rewrite Hs, Nat.sub_0_r, Hn. reflexivity.
Qed.

(* as a decidable test: the alternative the name index [i] dispatches to *)
Definition attr_dispatch (p : pool) (i : N) : option nat :=
  match pool_utf8 raw_env p i with
  | Some b => select_spec (Some b) attr_variants O
  | None => None
  end.

Lemma attr_dispatch_select p i k :
  attr_dispatch p i = Some k <->
  exists va, select raw_env p [(ani, VN i)] i attr_variants O = Ok (k, va, [(ani, VN i); (ani, VN i)]).
Proof.
  rewrite (select_named raw_env p ani _ i attr_variants O attr_table_named). unfold attr_dispatch.
  destruct (pool_utf8 raw_env p i) as [b|] eqn:Eu.
  - destruct (select_spec (Some b) attr_variants O) as [k'|] eqn:Es.
    + rewrite Nat.sub_0_r.
      destruct (nth_error attr_variants k') as [va|] eqn:En.
      * split; [intros [= ->]; exists va; reflexivity|intros (va' & [= -> _]); reflexivity].
      * exfalso. apply select_spec_first in Es as (j & va & Hj & Hn & _). cbn in Hj. subst j. congruence.
    + split; [discriminate|intros (va & H); discriminate].
  - destruct attr_variants as [|v0 vs] eqn:Ev; [split; [discriminate|intros (va & H); discriminate]|].
    cbn [select_spec]. destruct (attr_name v0) eqn:E0; [split; [discriminate|intros (va & H); discriminate]|].
    exfalso. assert (Hf : nth_error attr_variants O = Some v0) by (rewrite Ev; reflexivity).
    apply attr_variant_facts in Hf. rewrite E0 in Hf. pose proof attr_variants_nonempty. lia.
Qed.

(* [resolves] for an attribute, closed form: the value is VV k (VN i :: …) with a name index that
   fits u2 and dispatches to the value's own alternative [k], and the items resolve *)
Theorem attr_resolves_closed_form : forall f p k vs,
  resolves raw_env (S f) p attr_ty (VV k vs) = true <->
  exists va i rest, nth_error attr_variants k = Some va /\ vs = VN i :: rest /\ i < 65536 /\
    attr_dispatch p i = Some k /\
    res_fields raw_env (resolves raw_env f)
      (ceval raw_env (bind_fields (v_fields va) vs) (len_sty raw_env (S f) attr_ty (VV k vs)))
      p [(ani, VN i); (ani, VN i)] (v_fields va) vs = true.
Proof.
  intros f p k vs. destruct attr_lookup_exact as (ft & Hl).
  unfold attr_ty. cbn [resolves]. rewrite Hl.
  destruct (nth_error attr_variants k) as [va|] eqn:En.
  2:{ split; [discriminate|]. intros (va & i & rest & Hn & _). discriminate. }
  pose proof attr_table_heads as Hh. rewrite forallb_forall in Hh.
  specialize (Hh va (nth_error_In _ _ En)). unfold attr_head_shape in Hh.
  destruct (v_tagw va) as [aw te] eqn:Et. destruct te as [n|y|y|y e|  |a b|a b|a b]; try discriminate.
  destruct (v_fields va) as [|fd fs] eqn:Ef; [discriminate|].
  destruct fd as [|z t nw sp]; [discriminate|].
  destruct t as [[w|]|]; try discriminate. destruct w; try discriminate.
  destruct nw as [[aw' ne]|]; [|discriminate].
  destruct ne as [n|x|x|x e|  |a b|a b|a b]; try discriminate.
  apply andb_true_iff in Hh as [Hh Hx]. apply andb_true_iff in Hh as [Hy Hz].
  apply id_eqb_true in Hx, Hy, Hz. subst x y z.
  destruct vs as [|v0 rest].
  { cbn [bind_fields]. unfold ceval at 1. cbn [ce_aw ce_e eval lookup].
    split; [discriminate|]. intros (va' & i & rest & _ & Hvs & _). discriminate. }
  cbn [bind_fields]. unfold ceval at 1. cbn [ce_aw ce_e eval lookup]. rewrite id_eqb_refl.
  destruct v0 as [i|l|gs|j gs];
    try (split; [discriminate|intros (va' & i' & rest' & _ & Hvs & _); discriminate]).
  set (ev := ceval raw_env ((ani, VN i) :: bind_fields fs rest) (len_sty raw_env (S f) (Named "AttributeInfo"%string) (VV k (VN i :: rest)))).
  destruct (i <? 65536) eqn:Ei.
  - apply N.ltb_lt in Ei. rewrite (trunc_small W16 i) by exact Ei.
    split.
    + intros H.
      destruct (select raw_env p [(ani, VN i)] i attr_variants 0) as [[[k' va'] env]|] eqn:Es; [|discriminate].
      apply andb_true_iff in H as [Hk Hr]. apply Nat.eqb_eq in Hk. subst k'.
      assert (Henv : env = [(ani, VN i); (ani, VN i)] /\ attr_dispatch p i = Some k).
      { rewrite (select_named raw_env p ani _ i attr_variants O attr_table_named) in Es.
        unfold attr_dispatch.
        destruct (pool_utf8 raw_env p i) as [b|] eqn:Eu.
        - destruct (select_spec (Some b) attr_variants 0) as [k2|]; [|discriminate].
          rewrite Nat.sub_0_r in Es. destruct (nth_error attr_variants k2); [|discriminate].
          injection Es as -> _ <-. split; reflexivity.
        - exfalso. destruct attr_variants as [|v0 vs'] eqn:Ev; [discriminate|].
          cbn [select_spec] in Es. destruct (attr_name v0) eqn:E0; [discriminate|].
          assert (Hf : nth_error attr_variants O = Some v0) by (rewrite Ev; reflexivity).
          apply attr_variant_facts in Hf. rewrite E0 in Hf. pose proof attr_variants_nonempty. lia. }
      destruct Henv as [-> Hd].
      exists va, i, rest. repeat split; [exact Ei|exact Hd|]. rewrite Ef. exact Hr.
    + intros (va' & i' & rest' & [= <-] & [= <- <-] & _ & Hd & Hr).
      apply attr_dispatch_select in Hd as (va2 & Hs). rewrite Hs. rewrite Nat.eqb_refl. cbn [andb].
      rewrite Ef in Hr. exact Hr.
  - (* a name index that does not fit u2 is written truncated: the nowrite item reads back another number *)
    apply N.ltb_ge in Ei. split.
    + intros H. exfalso.
      destruct (select raw_env p [(ani, VN (trunc W16 i))] (trunc W16 i) attr_variants 0) as [[[k' va'] env]|] eqn:Es; [|discriminate].
      apply andb_true_iff in H as [_ Hr].
      rewrite (select_named raw_env p ani _ _ attr_variants O attr_table_named) in Es.
      destruct (select_spec _ attr_variants 0) as [k2|]; [|discriminate].
      destruct (nth_error attr_variants (k2 - 0)); [|discriminate]. injection Es as _ _ <-.
      cbn [res_fields] in Hr. unfold ceval in Hr at 1. cbn [ce_aw ce_e eval lookup] in Hr.
      rewrite id_eqb_refl in Hr. apply andb_true_iff in Hr as [Hr _]. apply N.eqb_eq in Hr.
      pose proof (trunc_lt W16 i) as Hlt. cbn [wmod] in Hlt. lia.
    + intros (va' & i' & rest' & _ & [= <- <-] & Hlt & _). lia.
Qed.
